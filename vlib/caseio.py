"""caseio.py — the line-oriented case format (DESIGN.md B.1), Python side."""
import math
import numpy as np


def fmt(x):
    x = float(x)
    if math.isnan(x):
        return "nan"
    if math.isinf(x):
        return "inf" if x > 0 else "-inf"
    return "%.17g" % x


def parse_float(s):
    if s in ("inf", "+inf"):
        return math.inf
    if s == "-inf":
        return -math.inf
    if s in ("nan", "-nan"):
        return math.nan
    return float(s)


class Case:
    """One generated case: id, kind, meta (dict of str), ops: ordered list of (tag, name, value)."""

    def __init__(self, cid, kind, meta=None):
        self.id, self.kind, self.meta, self.ops = str(cid), kind, dict(meta or {}), []

    def mat(self, name, a):
        a = np.atleast_2d(np.array(a, dtype=float))
        self.ops.append(("mat", name, a)); return self

    def mat_shape(self, name, r, c, a=None):
        a = np.zeros((r, c)) if a is None else np.array(a, dtype=float).reshape(r, c)
        self.ops.append(("mat", name, a)); return self

    def int(self, name, k):
        self.ops.append(("int", name, int(k))); return self

    def word(self, name, toks):
        self.ops.append(("word", name, [str(t) for t in toks])); return self

    def get(self, name):
        for _, n, v in self.ops:
            if n == name:
                return v
        raise KeyError(name)

    def has(self, name):
        return any(n == name for _, n, _ in self.ops)

    def dump(self):
        head = "case %s %s" % (self.id, self.kind)
        for k, v in self.meta.items():
            head += " %s=%s" % (k, v)
        lines = [head]
        for tag, name, v in self.ops:
            if tag == "mat":
                lines.append("mat %s %d %d %s" % (name, v.shape[0], v.shape[1], " ".join(fmt(x) for x in v.reshape(-1))))
            elif tag == "int":
                lines.append("int %s %d" % (name, v))
            else:
                lines.append("word %s %s" % (name, " ".join(v)))
        lines.append("end")
        return "\n".join(lines) + "\n"

    def summary(self):
        d = {"id": self.id, "kind": self.kind}
        d.update(self.meta)
        return d


def write_cases(path, cases):
    with open(path, "w") as f:
        for c in cases:
            f.write(c.dump())


def parse_records(text, header):
    """Parses 'case'/'out' records. Returns ordered dict id -> Record."""
    recs, cur = {}, None
    for line in text.splitlines():
        t = line.split()
        if not t:
            continue
        if t[0] == header:
            cur = Record(t[1], t[2] if len(t) > 2 else "")
            for kv in t[3:]:
                if "=" in kv:
                    k, v = kv.split("=", 1); cur.meta[k] = v
        elif cur is None:
            continue
        elif t[0] == "end":
            recs[cur.id] = cur; cur = None
        elif len(t) == 2 and t[0] in ("str", "word", "bits"):
            cur.vals[t[1]] = ("word", [])
        elif len(t) < 3:
            continue
        elif t[0] == "mat":
            try:
                r, c = int(t[2]), int(t[3])
            except (ValueError, IndexError):
                cur.vals[t[1]] = ("bad", line); continue
            try:
                vals = [parse_float(x) for x in t[4:4 + r * c]]
            except ValueError:
                vals = []
            if len(vals) != r * c:
                cur.vals[t[1]] = ("bad", line)
            else:
                cur.vals[t[1]] = ("mat", np.array(vals, dtype=float).reshape(r, c))
        elif t[0] == "int":
            try:
                cur.vals[t[1]] = ("int", int(t[2]))
            except ValueError:
                cur.vals[t[1]] = ("bad", line)
        elif t[0] == "num":
            try:
                cur.vals[t[1]] = ("num", parse_float(t[2]))
            except ValueError:
                cur.vals[t[1]] = ("bad", line)
        elif t[0] in ("str", "word", "bits"):
            cur.vals[t[1]] = ("word", t[2:])
    return recs


def read_cases(path):
    """Reads a case file back into Case objects (for --replay)."""
    out = []
    for rid, rec in parse_records(open(path).read(), "case").items():
        c = Case(rid, rec.kind, rec.meta)
        for name, (tag, v) in rec.vals.items():
            if tag == "mat":
                c.ops.append(("mat", name, v))
            elif tag == "int":
                c.ops.append(("int", name, v))
            else:
                c.ops.append(("word", name, v))
        out.append(c)
    return out


class Record:
    def __init__(self, rid, kind):
        self.id, self.kind, self.meta, self.vals = rid, kind, {}, {}

    def has(self, name):
        return name in self.vals

    def get(self, name, default=None):
        if name not in self.vals:
            return default
        return self.vals[name][1]

    def tag(self, name):
        return self.vals[name][0] if name in self.vals else None

    def names(self):
        return list(self.vals.keys())


def close(a, b, atol, rtol):
    """Tolerance comparison of two numbers/arrays; NaN equals NaN, inf equals same-signed inf."""
    a, b = np.asarray(a, dtype=float), np.asarray(b, dtype=float)
    if a.shape != b.shape:
        return False
    with np.errstate(invalid="ignore"):
        same = (a == b) | (np.isnan(a) & np.isnan(b))
        fin = np.isfinite(a) & np.isfinite(b)
        ok = same | (fin & (np.abs(a - b) <= atol + rtol * np.maximum(np.abs(a), np.abs(b))))
    return bool(np.all(ok))


def maxdiff(a, b):
    a, b = np.asarray(a, dtype=float), np.asarray(b, dtype=float)
    if a.shape != b.shape:
        return math.inf
    with np.errstate(invalid="ignore"):
        d = np.abs(a - b)
        d = np.where((a == b) | (np.isnan(a) & np.isnan(b)), 0.0, d)
    return float(np.nanmax(d)) if d.size else 0.0


def compare_fields(impl, model, fields, atol, rtol, scale=1.0):
    """Generic field-by-field comparison: ints/words exactly, mats/nums with |a-b| <= atol + rtol*scale*max(|a|,|b|,1)."""
    diffs = []
    for f in fields:
        if not impl.has(f) or not model.has(f):
            diffs.append("%s: missing (impl %s, model %s)" % (f, impl.has(f), model.has(f)))
            continue
        ti, tm = impl.tag(f), model.tag(f)
        a, b = impl.get(f), model.get(f)
        if ti in ("int", "word") or tm in ("int", "word"):
            if ti != tm or a != b:
                diffs.append("%s: impl=%s model=%s" % (f, a, b))
        else:
            a, b = np.asarray(a, dtype=float), np.asarray(b, dtype=float)
            if a.shape != b.shape:
                diffs.append("%s: shape impl=%s model=%s" % (f, a.shape, b.shape)); continue
            mag = max(1.0, float(np.max(np.abs(a[np.isfinite(a)]))) if np.any(np.isfinite(a)) else 1.0)
            if not close(a, b, atol + rtol * scale * mag, 0.0):
                diffs.append("%s: max|impl-model|=%.3g (tol %.3g)" % (f, maxdiff(a, b), atol + rtol * scale * mag))
    return diffs
