"""setup.py — MANIFEST.setup_cmd: builds the whole Coq development (full .vo build), the
library object cache from /repo's working tree, every harness and every extracted driver."""
import importlib, os, sys, time
from . import build

def main():
    t0 = time.time()
    sys.path.insert(0, build.VERIF)
    import json
    claimed = json.load(open(os.path.join(build.VERIF, "vlib", "claimed.json")))
    prefixes = set(claimed)
    for pid in claimed:
        try:
            prefixes.update(getattr(importlib.import_module("props." + pid), "COQ_PREFIXES", [pid]))
        except Exception:
            pass
    for pid in claimed:
        try:
            m = importlib.import_module("props." + pid)
            if hasattr(m, "pre_setup"):
                m.pre_setup()
        except Exception as e:
            print("pre_setup of %s failed: %r" % (pid, e))
    bad = build.hygiene(sorted(prefixes))
    if bad:
        print("hygiene: forbidden constructs:", bad); return 1
    vs = []
    for f in sorted(os.listdir(build.COQ)):
        if not f.endswith(".v"):
            continue
        import re
        m = re.match(r"^(?:Properties_)?(C\d\d)[_.]", f)
        if m and m.group(1) not in prefixes:
            continue
        vs.append(f[:-2] + ".vo")
    ok, log = build.coq_make(vs, timeout=3400)
    print("coq: %s (%.0fs)" % ("ok" if ok else "FAILED", time.time() - t0))
    if not ok:
        print(log[-4000:])
    rc = 0 if ok else 1
    plugins = sorted(claimed)
    variants = set()
    mods = []
    for name in plugins:
        try:
            m = importlib.import_module("props." + name); mods.append(m)
            for v in (m.VARIANTS.get("quick", ["O1"]) if hasattr(m, "VARIANTS") else [getattr(m, "VARIANT", "O1")]):
                variants.add(v)
        except Exception as e:
            print("plugin %s does not load: %r" % (name, e)); rc = 1
    for v in sorted(variants):
        try:
            build.build_lib(v); print("lib %s ok (%.0fs)" % (v, time.time() - t0))
        except build.BuildError as e:
            print("lib %s FAILED: %s\n%s" % (v, e.what, e.log[-2000:])); rc = 1
    for m in mods:
        try:
            if hasattr(m, "setup"):
                m.setup()
                continue
            for v in (m.VARIANTS.get("quick", ["O1"]) if hasattr(m, "VARIANTS") else [getattr(m, "VARIANT", "O1")]):
                for h in ([m.HARNESS] if getattr(m, "HARNESS", None) else []):
                    build.build_harness(h, v, getattr(m, "HARNESS_FLAGS", ()))
            if getattr(m, "DRIVER", None):
                build.build_driver(m.ID, m.EXTRACTED, m.DRIVER)
            print("%s harness/driver ok (%.0fs)" % (m.ID, time.time() - t0))
        except build.BuildError as e:
            print("%s FAILED: %s\n%s" % (m.ID, e.what, e.log[-2000:])); rc = 1
    return rc

if __name__ == "__main__":
    sys.exit(main())
