"""runner.py — the generic check pipeline: prove (Coq), build (library from /repo's
working tree, harness, extracted driver), generate, run both sides, compare
(correspondence), evaluate the property on the implementation (violation search),
classify against known_findings.json, write evidence, print VIOLATION / KNOWN-FINDING."""
import argparse, importlib, json, os, random, subprocess, sys, time, traceback
from . import build, caseio, pins

VERIF = build.VERIF
REAL_AXIOMS = ["ClassicalDedekindReals.sig_forall_dec", "ClassicalDedekindReals.sig_not_dec",
               "FunctionalExtensionality.functional_extensionality_dep", "Classical_Prop.classic"]


def load_known():
    p = os.path.join(VERIF, "known_findings.json")
    if not os.path.exists(p):
        return {"findings": [], "fixed": []}
    return json.load(open(p))


class Ctx:
    """State of one check run."""

    def __init__(self, plugin, tier, seed):
        self.p, self.tier, self.seed = plugin, tier, seed
        self.pid = plugin.ID
        self.t0 = time.time()
        self.rng = random.Random(seed * 1000003 + sum(ord(c) for c in self.pid))
        self.violations = []      # (signature, detail, case or None)
        self.known_hits = {}      # signature -> count
        self.corr_diffs = []      # (case, [diffs])
        self.proof_problems = []  # strings
        self.obligations = 0
        self.discharged = 0
        self.theorems = []
        self.assumptions = {}
        self.evaluations = 0
        self.nontrivial = set()
        self.samples = []
        self.extra = {}
        self.checker_cmd = ""
        self.replay_dir = os.path.join(VERIF, "build", "replays")
        os.makedirs(self.replay_dir, exist_ok=True)
        self.work = os.path.join(VERIF, "build", "work", "%s-%d-%d" % (self.pid, seed, os.getpid()))
        os.makedirs(self.work, exist_ok=True)

    def log(self, *a):
        print("[%s %6.1fs]" % (self.pid, time.time() - self.t0), *a, file=sys.stderr, flush=True)


# ------------------------------------------------------------------ proofs

def prove(ctx):
    """Re-checks the Coq development for this property. Fills obligations/discharged."""
    p = ctx.p
    bad = build.hygiene(list(getattr(p, "COQ_PREFIXES", [ctx.pid])))
    if bad:
        ctx.proof_problems.append("forbidden construct in the development: " + "; ".join(bad[:10]))
    targets = list(getattr(p, "COQ_TARGETS", []))
    ctx.checker_cmd = "cd coq && coq_makefile -f _CoqProject -o Makefile.coq && make -f Makefile.coq -k -j16 %s && coqc -q -w -all -Q . BFL Properties_%s.v" % (" ".join(targets), ctx.pid)
    ok, log = build.coq_make(targets)
    with open(os.path.join(ctx.work, "coq_make.log"), "w") as f:
        f.write(log)
    if not ok:
        ctx.proof_problems.append("make of %s failed: %s" % (targets, tail_error(log)))
    thms, examples, pas = build.parse_properties(ctx.pid)
    ctx.theorems = thms
    ctx.obligations = len(thms)
    ok2, log2 = build.coq_compile_properties(ctx.pid)
    with open(os.path.join(ctx.work, "properties.log"), "w") as f:
        f.write(log2)
    if not ok2:
        ctx.proof_problems.append("Properties_%s.v does not check: %s" % (ctx.pid, tail_error(log2)))
        ctx.discharged = 0
        return
    missing_pa = [t for t in thms if t not in pas]
    if missing_pa:
        ctx.proof_problems.append("no Print Assumptions for: " + ", ".join(missing_pa))
    ctx.assumptions = build.parse_assumptions(log2, pas)
    # further statement-only files that belong to this check (e.g. Properties_Gauss.v: the executed list instance
    # computes the objects the theorems are about); same rules: re-checked on every run, Print Assumptions parsed
    for extra in getattr(p, "EXTRA_PROPERTIES", []):
        thms_x, _, pas_x = build.parse_properties(extra)
        ctx.theorems = thms = thms + thms_x
        ctx.obligations = len(thms)
        okx, logx = build.coq_compile_properties(extra)
        with open(os.path.join(ctx.work, "properties_%s.log" % extra), "w") as f:
            f.write(logx)
        if not okx:
            ctx.proof_problems.append("Properties_%s.v does not check: %s" % (extra, tail_error(logx)))
            continue
        missing_pa = [t for t in thms_x if t not in pas_x]
        if missing_pa:
            ctx.proof_problems.append("no Print Assumptions for: " + ", ".join(missing_pa))
        ctx.assumptions.update(build.parse_assumptions(logx, pas_x))
    allowed = set(getattr(p, "AXIOMS_ALLOWED", []))
    n = 0
    for t in thms:
        ax = ctx.assumptions.get(t)
        if ax is None:
            continue
        extra = [a for a in ax if a not in allowed]
        if extra:
            ctx.proof_problems.append("theorem %s depends on axioms outside the stated trusted base: %s" % (t, extra))
        else:
            n += 1
    ctx.discharged = n if not bad else 0
    if ctx.tier == "thorough" and not ctx.proof_problems:
        for name in [ctx.pid] + list(getattr(p, "EXTRA_PROPERTIES", [])):
            ok3, log3 = build.coqchk(name)
            ctx.extra["coqchk" if name == ctx.pid else "coqchk_" + name] = {"ok": ok3, "tail": log3[-1500:]}
            if not ok3:
                ctx.proof_problems.append("coqchk rejects Properties_%s: %s" % (name, log3[-400:]))
    # theorems the plugin requires to be present (so that deleting one is noticed)
    for t in getattr(p, "REQUIRED_THEOREMS", []):
        if t not in thms:
            ctx.proof_problems.append("required theorem %s is missing from Properties_%s.v" % (t, ctx.pid))


def tail_error(log, n=12):
    lines = [l for l in log.strip().splitlines() if l.strip()]
    # keep the first Error block if there is one
    for i, l in enumerate(lines):
        if l.startswith("Error") or "Error:" in l:
            return " | ".join(lines[max(0, i - 2):i + 6])
    return " | ".join(lines[-n:])


# ------------------------------------------------------------------ running both sides

def run_side(ctx, exe, cases, tag, extra_args=(), timeout=1200, env=None):
    """Runs exe over the cases; on a crash isolates the offending case and continues with the rest.
    Returns ({id: Record}, {id: crash-info})."""
    outs, crashes = {}, {}
    pending = list(cases)
    rounds = 0
    timeouts = 0
    if ctx.tier == "quick":
        # the quick tier normally needs well under a minute per side; a changed tree that hangs must not stall the check
        timeout = min(timeout, int(getattr(ctx.p, "QUICK_TIMEOUT", 420)))
    while pending:
        rounds += 1
        path = os.path.join(ctx.work, "%s_in_%d.txt" % (tag, rounds))
        caseio.write_cases(path, pending)
        try:
            with open(path) as fin:
                pr = subprocess.run([exe] + list(extra_args), stdin=fin, capture_output=True, text=True, timeout=timeout, env=env)
            rc, so, se = pr.returncode, pr.stdout, pr.stderr
        except subprocess.TimeoutExpired as e:
            rc, so, se = -999, (e.stdout or b"").decode(errors="replace") if isinstance(e.stdout, bytes) else (e.stdout or ""), "TIMEOUT after %ds" % timeout
        recs = caseio.parse_records(so, "out")
        outs.update(recs)
        if rc == 0:
            missing = [c for c in pending if c.id not in recs]
            for c in missing:
                crashes[c.id] = {"rc": 0, "stderr": "no output record", "kind": "no-output"}
            break
        done = [c for c in pending if c.id in recs]
        rest = [c for c in pending if c.id not in recs]
        if not rest:
            # every record is present but the process ended abnormally (e.g. a LeakSanitizer report at exit)
            kind = "asan" if ("AddressSanitizer" in se or "LeakSanitizer" in se) else ("ubsan" if "runtime error" in se else ("tsan" if "ThreadSanitizer" in se else "exit-nonzero"))
            if pending:
                crashes[pending[-1].id] = {"rc": rc, "stderr": se[-3000:], "kind": kind + "-at-exit"}
            break
        culprit = rest[0]
        kind = "crash"
        if rc == 42 or "BFL_VERIF_EIGEN_ASSERT" in se:
            kind = "eigen-assert"
        elif "AddressSanitizer" in se or "LeakSanitizer" in se:
            kind = "asan"
        elif "runtime error" in se:
            kind = "ubsan"
        elif "ThreadSanitizer" in se:
            kind = "tsan"
        elif rc == -999:
            kind = "timeout"
        elif "terminate called" in se or "BFL_VERIF_UNCAUGHT" in se:
            kind = "uncaught-exception"
        if kind == "timeout":
            # A stall that cannot be reproduced is not a finding: the culprit is re-run ALONE, up to three times, under a
            # short limit. A change that makes the code hang (lost wake-up, dead loop) hangs again on its own case and is
            # reported; a one-off stall of the machine (observed once in ~60 runs of C09 while another job saturated the
            # cores) is counted in the evidence and the run continues with the culprit's record from the re-run.
            redo = None
            for _attempt in range(3 if ctx.extra.get("stalls_not_reproduced", 0) < 2 else 0):   # at most two such stalls per run
                p1 = os.path.join(ctx.work, "%s_retry_%d.txt" % (tag, rounds))
                caseio.write_cases(p1, [culprit])
                try:
                    with open(p1) as fin:
                        pr1 = subprocess.run([exe] + list(extra_args), stdin=fin, capture_output=True, text=True, timeout=45, env=env)
                    r1 = caseio.parse_records(pr1.stdout, "out")
                    if pr1.returncode == 0 and culprit.id in r1:
                        redo = r1
                        continue          # must come through every time
                    redo = None
                    break
                except subprocess.TimeoutExpired:
                    redo = None
                    break
            if redo is not None:
                outs.update(redo)
                ctx.extra["stalls_not_reproduced"] = ctx.extra.get("stalls_not_reproduced", 0) + 1
                ctx.log("a stall at case %s (%s, limit %ds) did not reproduce in three isolated re-runs; counted, not reported" % (culprit.id, tag, timeout))
                pending = rest[1:]
                continue
        crashes[culprit.id] = {"rc": rc, "stderr": se[-3000:], "kind": kind}
        pending = rest[1:]
        if kind == "timeout":
            timeouts += 1
            timeout = max(60, timeout // 2)
            if timeouts >= 3:
                for c in pending:
                    crashes[c.id] = {"rc": rc, "stderr": "not run: three cases before it did not terminate", "kind": "skipped"}
                break
        if rounds > 200:
            for c in pending:
                crashes[c.id] = {"rc": rc, "stderr": "too many crashes", "kind": "skipped"}
            break
    return outs, crashes


def write_replay(ctx, case, header_lines, name):
    path = os.path.join(ctx.replay_dir, "%s-%s-%s.case" % (ctx.pid, ctx.seed, name))
    with open(path, "w") as f:
        for h in header_lines:
            f.write("# " + h.replace("\n", " ") + "\n")
        if case is not None:
            f.write(case.dump())
    return path


def classify(ctx, known):
    """Splits ctx.violations into known findings and new violations."""
    ksig = {k["signature"]: k for k in known.get("findings", []) if k.get("property") == ctx.pid}
    new = []
    for sig, detail, case in ctx.violations:
        if sig in ksig:
            ctx.known_hits[sig] = ctx.known_hits.get(sig, 0) + 1
        else:
            new.append((sig, detail, case))
    return ksig, new


def standard_cases(ctx, cases):
    """Build, run implementation and model on the cases, compare, evaluate the property on the implementation."""
    p = ctx.p
    variants = p.VARIANTS.get(ctx.tier, ["O1"]) if hasattr(p, "VARIANTS") else [getattr(p, "VARIANT", "O1")]
    if os.environ.get("VERIF_VARIANT_OVERRIDE"):          # development only (tools/coverage.sh)
        variants = [os.environ["VERIF_VARIANT_OVERRIDE"]]
    drv = None
    if getattr(p, "DRIVER", None):
        try:
            drv = build.build_driver(ctx.pid, p.EXTRACTED, p.DRIVER)
        except (build.BuildError, OSError) as e:
            ctx.proof_problems.append("extracted model does not build: %s" % (getattr(e, "log", str(e))[-600:]))
    for vi, variant in enumerate(variants):
        exe = build.build_harness(p.HARNESS, variant, getattr(p, "HARNESS_FLAGS", ()))
        env = dict(os.environ)
        env.setdefault("ASAN_OPTIONS", "detect_leaks=1:abort_on_error=0:exitcode=43")
        env.setdefault("UBSAN_OPTIONS", "print_stacktrace=1:halt_on_error=1")
        ctx.log("running %d cases on the implementation (%s)" % (len(cases), variant))
        impl, icrash = run_side(ctx, exe, cases, "impl_" + variant, timeout=getattr(p, "TIMEOUT", 1500), env=env)
        model, mcrash = {}, {}
        if drv and vi == 0:
            args = []
            if getattr(p, "MODEL_NEEDS_IMPL", False):
                ip = os.path.join(ctx.work, "impl_out.txt")
                with open(ip, "w") as f:
                    for c in cases:
                        if c.id in impl:
                            f.write(dump_record(impl[c.id]))
                args = [ip]
            ctx.log("running %d cases on the extracted model" % len(cases))
            model, mcrash = run_side(ctx, drv, cases, "model", extra_args=args, timeout=getattr(p, "TIMEOUT", 1500))
            ctx.model_out = model
        elif vi > 0:
            model = getattr(ctx, "model_out", {})
        for c in cases:
            ctx.evaluations += 1 if vi == 0 else 0
            key = p.nontrivial(c) if hasattr(p, "nontrivial") else None
            if key is not None:
                ctx.nontrivial.add(key)
            io, mo = impl.get(c.id), model.get(c.id)
            if c.id in icrash:
                handled = p.on_crash(c, icrash[c.id], mo) if hasattr(p, "on_crash") else None
                if handled is None:
                    info = icrash[c.id]
                    handled = [("%s:%s:%s" % (ctx.pid, info["kind"], first_entry(info["stderr"])), "implementation ended abnormally (%s, rc=%s): %s" % (info["kind"], info["rc"], info["stderr"][-400:]))]
                for sig, detail in handled:
                    ctx.violations.append((sig, detail + " [variant %s]" % variant, c))
                continue
            if io is None:
                continue
            if drv and (mo is None or c.id in mcrash):
                ctx.corr_diffs.append((c, ["model produced no output: %s" % (mcrash.get(c.id, {}).get("stderr", "")[-300:])]))
            elif mo is not None and vi == 0:
                try:
                    d = p.compare(c, io, mo)
                except Exception as e:
                    d = ["compare raised %r" % (e,)]
                if d:
                    ctx.corr_diffs.append((c, d))
            try:
                vs = p.oracle(c, io, mo)
            except Exception as e:
                vs = [("%s:oracle-exception" % ctx.pid, "oracle raised %r %s" % (e, traceback.format_exc()[-300:]))]
            for sig, detail in vs:
                ctx.violations.append((sig, detail + ("" if variant == "O1" else " [variant %s]" % variant), c))
            if len(ctx.samples) < 3 and vi == 0:
                s = c.summary()
                if io is not None:
                    s["impl_fields"] = io.names()[:8]
                ctx.samples.append(s)


def first_entry(se):
    import re
    m = re.search(r"entry=(\S+)", se)
    return m.group(1) if m else "unknown"


def dump_record(rec):
    lines = ["out %s" % rec.id]
    for name, (tag, v) in rec.vals.items():
        if tag == "mat":
            lines.append("mat %s %d %d %s" % (name, v.shape[0], v.shape[1], " ".join(caseio.fmt(x) for x in v.reshape(-1))))
        elif tag == "int":
            lines.append("int %s %d" % (name, v))
        elif tag == "num":
            lines.append("num %s %s" % (name, caseio.fmt(v)))
        elif tag == "word":
            lines.append("word %s %s" % (name, " ".join(v)))
    lines.append("end")
    return "\n".join(lines) + "\n"



def widen_if_needed(ctx, plugin, a):
    """Quick tier only. When a proof or the correspondence no longer checks, or when a source file the property is
    anchored in differs from the pinned text the check was validated against (vlib/pins.py), and the quick sample
    found no input violating a property clause, the search for a concrete failing input is widened: the thorough
    generator with another seed, capped at SEARCH_CASES.  An edited source alone is never reported."""
    if a.replay or a.tier != "quick":
        return
    try:
        changed = pins.changed(ctx.pid, plugin)
    except Exception as e:
        changed = ["<pins unreadable: %r>" % (e,)]
    ctx.extra["anchored_sources_changed_since_validation"] = changed
    forced = os.environ.get("VERIF_FORCE_WIDEN") == "1"     # validation of the widened generators on the unchanged tree
    # hits of registered known findings do not count as "a failing input was found": they must not switch the search off
    ksigs = {k["signature"] for k in load_known().get("findings", []) if k.get("property") == ctx.pid}
    unknown = [v for v in ctx.violations if v[0] not in ksigs]
    if unknown or not (ctx.proof_problems or ctx.corr_diffs or changed or forced):
        return
    try:
        import random as _r
        rng2 = _r.Random(ctx.seed * 7919 + 17)
        if hasattr(plugin, "search_cases"):
            more = plugin.search_cases(rng2)
        elif hasattr(plugin, "generate") and (not hasattr(plugin, "main") or getattr(plugin, "WIDEN_DEFAULT", False)):
            more = plugin.generate(rng2, "thorough")[:int(getattr(plugin, "SEARCH_CASES", 3000))]
        else:
            return
        for c in more:
            c.id = "s%s" % c.id
        why = "proof/correspondence broken" if (ctx.proof_problems or ctx.corr_diffs) else "anchored sources edited (%s)" % ", ".join(os.path.basename(x) for x in changed[:4])
        ctx.log("%s: widening the search to %d more cases" % (why, len(more)))
        ctx.extra["widened_search_cases"] = len(more)
        standard_cases(ctx, more)
    except build.BuildError:
        raise
    except Exception as e:
        ctx.log("widened search failed: %r" % (e,))


# ------------------------------------------------------------------ reporting

def finish(ctx):
    """Classifies, prints KNOWN-FINDING / VIOLATION lines, writes evidence, returns the exit code."""
    p = ctx.p
    known = load_known()
    ksig, new = classify(ctx, known)
    lines, exit_code = [], 0
    for sig, n in sorted(ctx.known_hits.items()):
        lines.append("KNOWN-FINDING: property=%s %s (%s; %d case(s) this run)" % (ctx.pid, ksig[sig].get("what", sig), sig, n))
    reported = set()
    for sig, detail, case in new:
        if sig in reported:
            continue
        reported.add(sig)
        path = write_replay(ctx, case, ["property=%s" % ctx.pid, "signature=%s" % sig, "detail=%s" % detail], "viol%d" % len(reported))
        lines.append("VIOLATION property=%s replay=%s" % (ctx.pid, path))
        ctx.log("violation %s: %s" % (sig, detail))
        exit_code = 1
        if len(reported) >= 12:
            break
    broken = []
    if ctx.proof_problems:
        broken += ["proof: " + s for s in ctx.proof_problems]
    if ctx.corr_diffs:
        c0, d0 = ctx.corr_diffs[0]
        broken.append("correspondence: model and implementation differ on %d case(s); first: case %s: %s" % (len(ctx.corr_diffs), c0.id, "; ".join(d0[:4])))
    if broken:
        for b in broken:
            ctx.log("BROKEN " + b)
        if exit_code == 0:
            # proof or correspondence no longer checks and the search found no input violating a property clause
            case = ctx.corr_diffs[0][0] if ctx.corr_diffs else None
            path = write_replay(ctx, case, ["property=%s" % ctx.pid, "no failing input found by the search over %d cases" % ctx.evaluations] + ["no longer checks: " + b for b in broken], "broken")
            lines.append("VIOLATION property=%s replay=%s no-failing-input-found" % (ctx.pid, path))
            exit_code = 1
    wall = time.time() - ctx.t0
    cov = {
        "obligations": ctx.obligations,
        "discharged": ctx.discharged if not ctx.proof_problems else min(ctx.discharged, max(0, ctx.obligations - 1)),
        "checker_cmd": ctx.checker_cmd,
        "trusted_base": list(getattr(p, "TRUSTED_BASE", [])),
        "theorems": ctx.theorems,
        "axioms_per_theorem": {k: v for k, v in ctx.assumptions.items()},
        "evaluations": ctx.evaluations,
        "distinct_nontrivial": len(ctx.nontrivial),
        "rule": getattr(p, "RULE", ""),
        "samples": ctx.samples or [{"note": "no executable cases in this run"}],
        "correspondence_differences": len(ctx.corr_diffs),
        "known_finding_hits": ctx.known_hits,
        "proof_problems": ctx.proof_problems,
    }
    cov.update(ctx.extra)
    ev = {
        "property_id": ctx.pid, "tier": ctx.tier, "seed": ctx.seed, "level": getattr(p, "LEVEL", "proof"),
        "coverage": cov, "assumptions": list(getattr(p, "ASSUMPTIONS", [])), "wall_s": round(wall, 2),
        "violations": len(reported),
    }
    # evidence is about /repo itself; a development run against a scratch tree (BFL_REPO) writes elsewhere
    evdir = os.path.join(VERIF, "evidence") if os.path.realpath(build.REPO) == "/repo" else os.path.join(VERIF, "build", "evidence-scratch")
    os.makedirs(evdir, exist_ok=True)
    tmp = os.path.join(evdir, ".%s.json.tmp%d" % (ctx.pid, os.getpid()))
    with open(tmp, "w") as f:
        json.dump(ev, f, indent=1, default=str)
    os.replace(tmp, os.path.join(evdir, "%s.json" % ctx.pid))
    for l in lines:
        print(l, flush=True)
    print("%s %s: obligations %d/%d, %d cases, %d distinct non-trivial, %d correspondence differences, %d new violation(s), %d known finding(s), %.1fs"
          % (ctx.pid, ctx.tier, cov["discharged"], ctx.obligations, ctx.evaluations, len(ctx.nontrivial), len(ctx.corr_diffs), len(reported), len(ctx.known_hits), wall), flush=True)
    import shutil
    shutil.rmtree(ctx.work, ignore_errors=True)
    return exit_code


def main(argv):
    ap = argparse.ArgumentParser()
    ap.add_argument("pid")
    ap.add_argument("--tier", default=os.environ.get("VERIF_TIER", "quick"), choices=["quick", "thorough"])
    ap.add_argument("--replay", default=None)
    ap.add_argument("--seed", type=int, default=int(os.environ.get("VERIF_SEED", "1")))
    ap.add_argument("--skip-proofs", action="store_true", help="development only: skip the Coq step")
    a = ap.parse_args(argv)
    sys.path.insert(0, VERIF)
    plugin = importlib.import_module("props." + a.pid)
    ctx = Ctx(plugin, a.tier, a.seed)
    try:
        if hasattr(plugin, "main"):
            return plugin.main(ctx, a)
        if not a.skip_proofs:
            prove(ctx)
        if a.replay:
            cases = caseio.read_cases(a.replay)
            ctx.log("replaying %d case(s) from %s" % (len(cases), a.replay))
        else:
            cases = plugin.generate(ctx.rng, a.tier)
        if cases:
            standard_cases(ctx, cases)
        widen_if_needed(ctx, plugin, a)
        if hasattr(plugin, "histogram"):
            ctx.extra["histogram"] = plugin.histogram(cases)
        return finish(ctx)
    except build.BuildError as e:
        print("BUILD-ERROR %s: %s\n%s" % (a.pid, e.what, e.log[-3000:]), file=sys.stderr)
        if e.what.startswith("library does not compile"):
            return 2      # the tree does not build: there is nothing to check
        # the library builds but the harness / driver that ties the model to it does not (an interface the tie
        # relies on changed): the property is no longer shown to hold on this tree
        ctx.proof_problems.append("tie to the code: %s: %s" % (e.what, tail_error(e.log)))
        try:
            return finish(ctx)
        except Exception:
            path = write_replay(ctx, None, ["property=%s" % ctx.pid, "no longer checks: %s" % e.what], "broken")
            print("VIOLATION property=%s replay=%s no-failing-input-found" % (ctx.pid, path), flush=True)
            return 1
