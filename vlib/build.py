"""build.py — rebuilds the library objects from /repo's current working tree
(content-hash keyed object cache under /verif/build), the C++ harnesses, the
Coq development and the extracted OCaml drivers."""
import hashlib, os, re, subprocess, sys, tempfile, time, fcntl, shutil
from concurrent.futures import ThreadPoolExecutor

VERIF = os.path.dirname(os.path.dirname(os.path.abspath(__file__)))
REPO = os.environ.get("BFL_REPO", "/repo")
SRC = os.path.join(REPO, "src", "BayesFilters")
BUILD = os.path.join(VERIF, "build")
COQ = os.path.join(VERIF, "coq")
JOBS = int(os.environ.get("VERIF_JOBS", "16"))
CXX = "g++"
GUARD = "BFL_VERIF"

BASE_FLAGS = ["-std=c++11", "-DEIGEN_INITIALIZE_MATRICES_BY_ZERO", "-D" + GUARD, "-fPIC",
              "-I" + os.path.join(SRC, "include"), "-I/usr/include/eigen3", "-I" + os.path.join(VERIF, "cpp"), "-w"]
VARIANTS = {
    # as the pinned test build, Eigen assertions compiled out
    "O1": ["-O1", "-DNDEBUG"],
    # Eigen's size/bounds assertions on, redirected (exit code 42)
    "assert": ["-O1", "-UNDEBUG", "-include", os.path.join(VERIF, "cpp", "verif_eigen_assert.h")],
    "asan": ["-O1", "-g", "-UNDEBUG", "-include", os.path.join(VERIF, "cpp", "verif_eigen_assert.h"),
             "-fsanitize=address,undefined", "-fno-sanitize-recover=all", "-fno-omit-frame-pointer"],
    "tsan": ["-O1", "-g", "-DNDEBUG", "-fsanitize=thread", "-fno-omit-frame-pointer"],
    # development only (tools/coverage.sh): line coverage of the library under the checks' harnesses
    "cov": ["-O0", "-g", "-DNDEBUG", "--coverage"],
}
LINK_FLAGS = {"O1": [], "assert": [], "asan": ["-fsanitize=address,undefined"], "tsan": ["-fsanitize=thread"], "cov": ["--coverage"]}


class BuildError(Exception):
    def __init__(self, what, log):
        super().__init__(what)
        self.what, self.log = what, log


def sha(*parts):
    h = hashlib.sha256()
    for p in parts:
        if isinstance(p, str):
            p = p.encode()
        h.update(p)
        h.update(b"\0")
    return h.hexdigest()[:24]


def read(path):
    with open(path, "rb") as f:
        return f.read()


def lib_sources():
    """The sources the repository's own CMake list builds (uncommented src/*.cpp)."""
    txt = read(os.path.join(SRC, "CMakeLists.txt")).decode()
    out = []
    for line in txt.splitlines():
        line = line.split("#")[0].strip()
        m = re.fullmatch(r"(src/\w+\.cpp)", line)
        if m:
            out.append(os.path.join(SRC, m.group(1)))
    return sorted(set(out))


def headers_hash():
    inc = os.path.join(SRC, "include", "BayesFilters")
    parts = []
    for fn in sorted(os.listdir(inc)):
        parts.append(fn)
        parts.append(read(os.path.join(inc, fn)))
    for fn in ("verif_eigen_assert.h",):
        parts.append(read(os.path.join(VERIF, "cpp", fn)))
    return sha(*parts)


_cxx_version = None
def cxx_version():
    global _cxx_version
    if _cxx_version is None:
        _cxx_version = subprocess.run([CXX, "--version"], capture_output=True, text=True).stdout.splitlines()[0]
    return _cxx_version


def run(cmd, cwd=None, timeout=1800, env=None):
    p = subprocess.run(cmd, cwd=cwd, capture_output=True, text=True, timeout=timeout, env=env)
    return p.returncode, p.stdout + p.stderr


def atomic_install(tmp, dst):
    os.makedirs(os.path.dirname(dst), exist_ok=True)
    os.replace(tmp, dst)


def compile_obj(src, variant, hh):
    flags = BASE_FLAGS + VARIANTS[variant]
    key = sha(cxx_version(), " ".join(flags), hh, read(src))
    obj = os.path.join(BUILD, "obj", variant, os.path.basename(src)[:-4] + "-" + key + ".o")
    if os.path.exists(obj):
        return obj, None
    os.makedirs(os.path.dirname(obj), exist_ok=True)
    tmp = obj + ".tmp%d" % os.getpid()
    rc, log = run([CXX] + flags + ["-c", src, "-o", tmp])
    if rc != 0:
        return None, "compiling %s (%s):\n%s" % (src, variant, log)
    atomic_install(tmp, obj)
    return obj, None


def build_lib(variant="O1"):
    """Returns the path of a static archive of the library built from /repo's working tree."""
    hh = headers_hash()
    srcs = lib_sources()
    with ThreadPoolExecutor(JOBS) as ex:
        res = list(ex.map(lambda s: compile_obj(s, variant, hh), srcs))
    errs = [e for _, e in res if e]
    if errs:
        raise BuildError("library does not compile from /repo's working tree", "\n".join(errs))
    objs = [o for o, _ in res]
    key = sha(*[os.path.basename(o) for o in objs])
    lib = os.path.join(BUILD, "lib", "libbfl-%s-%s.a" % (variant, key))
    if not os.path.exists(lib):
        os.makedirs(os.path.dirname(lib), exist_ok=True)
        tmp = lib + ".tmp%d" % os.getpid()
        rc, log = run(["ar", "rcs", tmp] + objs)
        if rc != 0:
            raise BuildError("ar failed", log)
        atomic_install(tmp, lib)
    prune(os.path.join(BUILD, "lib"), keep=24)
    return lib


def build_harness(name, variant="O1", extra_flags=()):
    """Compiles cpp/<name> against the library variant; returns the binary path."""
    lib = build_lib(variant)
    src = os.path.join(VERIF, "cpp", name)
    flags = BASE_FLAGS + VARIANTS[variant] + list(extra_flags)
    dep = [read(src), read(os.path.join(VERIF, "cpp", "common.hpp"))]
    for fn in sorted(os.listdir(os.path.join(VERIF, "cpp"))):
        if fn.endswith(".hpp") or fn.endswith(".h"):
            dep.append(read(os.path.join(VERIF, "cpp", fn)))
    key = sha(cxx_version(), " ".join(flags), os.path.basename(lib), headers_hash(), *dep)
    exe = os.path.join(BUILD, "bin", "%s-%s-%s" % (name.replace(".cpp", ""), variant, key))
    if os.path.exists(exe):
        return exe
    os.makedirs(os.path.dirname(exe), exist_ok=True)
    tmp = exe + ".tmp%d" % os.getpid()
    rc, log = run([CXX] + flags + [src, lib, "-lpthread"] + LINK_FLAGS[variant] + ["-o", tmp])
    if rc != 0:
        raise BuildError("harness %s does not compile against /repo's working tree (%s)" % (name, variant), log)
    atomic_install(tmp, exe)
    prune(os.path.join(BUILD, "bin"), keep=60)
    return exe


def prune(d, keep):
    try:
        fs = sorted((os.path.join(d, f) for f in os.listdir(d)), key=os.path.getmtime)
        for f in fs[:-keep]:
            if os.path.isdir(f):
                shutil.rmtree(f, ignore_errors=True)
            else:
                os.remove(f)
    except OSError:
        pass


# ---------------------------------------------------------------- Coq

FORBIDDEN = re.compile(r"\b(Admitted|admit|Axiom|Axioms|Parameter|Parameters|Conjecture|Conjectures|Hypothesis|Hypotheses|Variable|Variables)\b"
                       r"|Unset\s+Guard|bypass_check|type-in-type|impredicative-set|Admit\s+Obligations|Unset\s+Universe\s+Checking|Unset\s+Positivity")


def strip_comments(txt):
    out, depth, i = [], 0, 0
    while i < len(txt):
        if txt.startswith("(*", i):
            depth += 1; i += 2
        elif txt.startswith("*)", i) and depth > 0:
            depth -= 1; i += 2
        else:
            if depth == 0:
                out.append(txt[i])
            elif txt[i] == "\n":
                out.append("\n")
            i += 1
    return "".join(out)


def hygiene(prefixes=None):
    """Admitted/admit/Axiom/Parameter/... anywhere fails; Variable/Hypothesis only outside a Section fails.
    prefixes=None scans every file; otherwise the shared files plus the files of the given properties
    (C07_*.v, Properties_C07.v, ...)."""
    bad = []
    for fn in sorted(os.listdir(COQ)):
        if not fn.endswith(".v"):
            continue
        m = re.match(r"^(?:Properties_)?(C\d\d)[_.]", fn)
        if prefixes is not None and m and m.group(1) not in prefixes:
            continue
        txt = strip_comments(read(os.path.join(COQ, fn)).decode())
        depth = 0
        for ln, line in enumerate(txt.splitlines(), 1):
            if re.match(r"\s*Section\b", line):
                depth += 1
            for m in FORBIDDEN.finditer(line):
                w = m.group(0)
                if w in ("Variable", "Variables", "Hypothesis", "Hypotheses"):
                    if depth > 0:
                        continue
                bad.append("%s:%d: %s" % (fn, ln, w))
            if re.match(r"\s*End\b", line) and depth > 0:
                depth -= 1
    return bad


class CoqLock:
    def __enter__(self):
        os.makedirs(BUILD, exist_ok=True)
        self.f = open(os.path.join(BUILD, "coq.lock"), "w")
        fcntl.flock(self.f, fcntl.LOCK_EX)
        return self
    def __exit__(self, *a):
        fcntl.flock(self.f, fcntl.LOCK_UN)
        self.f.close()


def coq_makefile():
    vs = sorted(f for f in os.listdir(COQ) if f.endswith(".v"))
    proj = "-Q . BFL\n-arg -w -arg -all\n" + "\n".join(vs) + "\n"
    pp = os.path.join(COQ, "_CoqProject")
    if not os.path.exists(pp) or read(pp).decode() != proj or not os.path.exists(os.path.join(COQ, "Makefile.coq")):
        with open(pp, "w") as f:
            f.write(proj)
        rc, log = run(["coq_makefile", "-f", "_CoqProject", "-o", "Makefile.coq"], cwd=COQ)
        if rc != 0:
            raise BuildError("coq_makefile failed", log)


def coq_make(targets, timeout=3000):
    """Full .vo build of the given targets (and what they depend on). Returns (ok, log)."""
    with CoqLock():
        coq_makefile()
        rc, log = run(["timeout", str(timeout), "make", "-f", "Makefile.coq", "-k", "-j%d" % JOBS] + list(targets), cwd=COQ, timeout=timeout + 60)
    return rc == 0, log


def coq_compile_properties(pid, timeout=900):
    """Always re-runs coqc on Properties_<pid>.v so that its theorems are re-checked and the
    Print Assumptions output of this very run is captured. Returns (ok, log)."""
    with CoqLock():
        rc, log = run(["timeout", str(timeout), "coqc", "-q", "-w", "-all", "-Q", ".", "BFL", "Properties_%s.v" % pid], cwd=COQ, timeout=timeout + 60)
    return rc == 0, log


def coqchk(pid, timeout=1500):
    """Independent re-check of the compiled property file and everything it depends on."""
    rc, log = run(["timeout", str(timeout), "coqchk", "-o", "-silent", "-Q", ".", "BFL", "BFL.Properties_%s" % pid], cwd=COQ, timeout=timeout + 60)
    return rc == 0, log


def parse_properties(pid):
    """Theorem names and Print Assumptions targets of Properties_<pid>.v, in file order."""
    txt = strip_comments(read(os.path.join(COQ, "Properties_%s.v" % pid)).decode())
    thms = re.findall(r"^\s*(?:Theorem|Corollary)\s+(\w+)", txt, re.M)
    examples = re.findall(r"^\s*Example\s+(\w+)", txt, re.M)
    pas = re.findall(r"^\s*Print\s+Assumptions\s+(\w+)\s*\.", txt, re.M)
    return thms, examples, pas


def parse_assumptions(log, pas):
    """Splits coqc output into one block per Print Assumptions; returns {name: [axiom names]}."""
    blocks, cur = [], None
    for line in log.splitlines():
        if line.startswith("Closed under the global context"):
            blocks.append([]); cur = None
        elif line.startswith("Axioms:"):
            cur = []; blocks.append(cur)
        elif cur is not None:
            m = re.match(r"^(\S+)\s*:", line)
            if m:
                cur.append(m.group(1))
            elif re.match(r"^\S", line) and not line.startswith(" "):
                # a wrapped axiom name line such as "ClassicalDedekindReals.sig_forall_dec"
                m2 = re.match(r"^([\w.']+)\s*$", line)
                if m2:
                    cur.append(m2.group(1))
    res = {}
    for i, name in enumerate(pas):
        res[name] = blocks[i] if i < len(blocks) else None
    return res


# ---------------------------------------------------------------- OCaml

def build_driver(pid, extracted, driver):
    """extracted: basename of the .ml/.mli produced by <pid>_Extract.v in coq/; driver: file in ocaml/."""
    ml, mli = os.path.join(COQ, extracted + ".ml"), os.path.join(COQ, extracted + ".mli")
    parts = [read(ml), read(mli), read(os.path.join(VERIF, "ocaml", "caseio.ml")),
             read(os.path.join(VERIF, "ocaml", "float_ops.ml")), read(os.path.join(VERIF, "ocaml", driver))]
    key = sha(*parts)
    d = os.path.join(BUILD, "ocaml", "%s-%s" % (pid, key))
    exe = os.path.join(d, "drv")
    if os.path.exists(exe):
        return exe
    tmpd = d + ".tmp%d" % os.getpid()
    shutil.rmtree(tmpd, ignore_errors=True)
    os.makedirs(tmpd)
    mod = extracted[0].upper() + extracted[1:]
    shutil.copy(ml, tmpd); shutil.copy(mli, tmpd)
    shutil.copy(os.path.join(VERIF, "ocaml", "caseio.ml"), tmpd)
    with open(os.path.join(tmpd, "main.ml"), "wb") as f:
        f.write(("open %s\n" % mod).encode())
        f.write(parts[3]); f.write(b"\n"); f.write(parts[4])
    rc, log = run(["ocamlfind", "ocamlopt", "-O3" if False else "-inline", "100", "-w", "-a", "-o", "drv",
                   "caseio.ml", extracted + ".mli", extracted + ".ml", "main.ml"], cwd=tmpd)
    if rc != 0:
        shutil.rmtree(tmpd, ignore_errors=True)
        raise BuildError("OCaml driver for %s does not build" % pid, log)
    shutil.rmtree(d, ignore_errors=True)
    os.replace(tmpd, d)
    prune(os.path.join(BUILD, "ocaml"), keep=60)
    return exe
