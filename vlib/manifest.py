"""manifest.py — regenerates MANIFEST.json from the plug-ins' metadata (run by hand after adding a property)."""
import importlib, json, os, sys
from . import build

ALL = ["C%02d" % i for i in range(1, 21)]

def main():
    sys.path.insert(0, build.VERIF)
    checks, claimed = [], set()
    claimed_list = json.load(open(os.path.join(build.VERIF, "vlib", "claimed.json")))
    for pid in ALL:
        if pid not in claimed_list:
            continue
        m = importlib.import_module("props." + pid)
        if getattr(m, "NOT_CLAIMED", None):
            continue
        claimed.add(pid)
        checks.append({
            "property_id": pid,
            "quick_cmd": "./check %s --tier quick" % pid,
            "thorough_cmd": "./check %s --tier thorough" % pid,
            "evidence_file": "/verif/evidence/%s.json" % pid,
            "replay_cmd_template": "./check %s --replay {path}" % pid,
            "engine": "coq-proof+correspondence",
            "level_claimed": {"category": getattr(m, "LEVEL", "proof"), "text": m.LEVEL_TEXT, "design_ref": "DESIGN.md §5 " + pid},
            "level_note": m.LEVEL_NOTE,
            "technique": getattr(m, "TECHNIQUE", "machine-checked proof in Coq 8.16 about a Gallina model + differential correspondence check of the extracted model against the C++ implementation"),
        })
    pending = json.load(open(os.path.join(build.VERIF, "vlib", "not_applicable.json")))
    na = [{"property_id": p, "reason": pending.get(p, "check not built yet in this development; no claim is made")} for p in ALL if p not in claimed]
    man = {
        "version": 1,
        "setup_cmd": "./setup.sh",
        "hooks": {"guard": "BFL_VERIF", "enable": "every library object and harness is compiled with -DBFL_VERIF by vlib/build.py (BASE_FLAGS)",
                  "baseline_off_cmd": "./baseline_off.sh", "source_commits": json.load(open(os.path.join(build.VERIF, "vlib", "hook_commits.json"))), "add_only": True},
        "engines": [{"name": "coq-proof+correspondence", "path": "/verif/check", "serves_properties": sorted(claimed),
                     "kind_free_text": "Coq 8.16 theorems about a Gallina model polymorphic in its arithmetic (coq/), the same model extracted to OCaml and run on IEEE doubles (ocaml/), C++ harnesses over the library rebuilt from /repo's working tree (cpp/), Python orchestration (vlib/, props/)"}],
        "checks": checks,
        "not_applicable": na,
        "notes": "See DESIGN.md. known_findings.json lists genuine defects of the unchanged tree (KNOWN-FINDING lines) and fixed ones.",
    }
    with open(os.path.join(build.VERIF, "MANIFEST.json"), "w") as f:
        json.dump(man, f, indent=1)
    print("MANIFEST.json: %d checks, %d not claimed" % (len(checks), len(na)))

if __name__ == "__main__":
    main()
