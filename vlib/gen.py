"""gen.py — generators shared by the property plug-ins. All randomness comes from the
random.Random instance handed in by the runner (seeded from VERIF_SEED)."""
import math
import numpy as np


def nprng(rng):
    return np.random.default_rng(rng.getrandbits(63))


def orthogonal(rng, n):
    g = nprng(rng).standard_normal((n, n))
    q, r = np.linalg.qr(g)
    return q * np.sign(np.diag(r))


def spectrum(rng, n, cond, lo=None):
    """n eigenvalues spread log-uniformly over [lo, lo*cond]; extremes attained when n >= 2."""
    lo = lo if lo is not None else 10 ** rng.uniform(-2, 1)
    if n == 1:
        return np.array([lo * 10 ** rng.uniform(0, math.log10(cond))])
    ev = [lo, lo * cond] + [lo * 10 ** rng.uniform(0, math.log10(cond)) for _ in range(n - 2)]
    rng.shuffle(ev)
    return np.array(ev)


def spd(rng, n, cond=None, lo=None):
    cond = cond if cond is not None else 10 ** rng.uniform(0, 6)
    q = orthogonal(rng, n)
    a = (q * spectrum(rng, n, cond, lo)) @ q.T
    return (a + a.T) / 2, cond


def psd(rng, n, rank=None, cond=None):
    """Symmetric PSD of the given rank (rank < n: exactly singular up to rounding)."""
    rank = n if rank is None else rank
    if rank == 0:
        return np.zeros((n, n))
    cond = cond if cond is not None else 10 ** rng.uniform(0, 4)
    q = orthogonal(rng, n)
    ev = np.concatenate([spectrum(rng, rank, cond), np.zeros(n - rank)])
    a = (q * ev) @ q.T
    return (a + a.T) / 2


def matrix(rng, m, n, scale=1.0):
    return nprng(rng).standard_normal((m, n)) * scale


def small_int_matrix(rng, m, n, lo=-4, hi=4):
    return np.array([[rng.randint(lo, hi) for _ in range(n)] for _ in range(m)], dtype=float).reshape(m, n)


def measurement_matrix(rng, m, n):
    """Random / rank-deficient / with zero rows / selector; returns (H, kind)."""
    kind = rng.choice(["random", "random", "rankdef", "zerorow", "selector", "zero"])
    if kind == "random":
        H = matrix(rng, m, n)
    elif kind == "rankdef":
        r = max(1, min(m, n) - 1) if min(m, n) > 1 else 1
        H = matrix(rng, m, r) @ matrix(rng, r, n)
        if min(m, n) == 1:
            kind = "random"
    elif kind == "zerorow":
        H = matrix(rng, m, n); H[rng.randrange(m), :] = 0.0
    elif kind == "selector":
        H = np.zeros((m, n))
        for i in range(m):
            H[i, rng.randrange(n)] = 1.0
    else:
        H = np.zeros((m, n))
    return H, kind


def decade(x):
    return int(math.floor(math.log10(max(x, 1e-300))))
