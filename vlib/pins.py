"""pins.py — fingerprints of the library sources each property is anchored in.

`source_pins.json` (committed, written only by `python3-vt -m vlib.pins --write` after the
checks were validated on that tree) records, per source file of src/BayesFilters, a hash
of its text with comments and white space removed.  A check compares the files its
property is anchored in (properties.jsonl `anchors.files`, plus what the plug-in adds in
`EXTRA_ANCHORS`) with the pins.  A difference is *not* a violation: it only tells the
check that the code it was validated against has been edited, and the check then spends
a larger budget (the thorough generator, capped) on the search for a failing input even
if the quick sample found no difference.  Nothing is ever suppressed by a pin."""
import hashlib, json, os, re, sys
from . import build

PINS = os.path.join(build.VERIF, "vlib", "source_pins.json")


def normalise(txt):
    txt = re.sub(r"/\*.*?\*/", " ", txt, flags=re.S)
    txt = re.sub(r"//[^\n]*", " ", txt)
    return re.sub(r"\s+", "", txt)


def fingerprint(path):
    try:
        with open(path, "r", errors="replace") as f:
            return hashlib.sha256(normalise(f.read()).encode()).hexdigest()[:20]
    except OSError:
        return "missing"


def all_sources(repo):
    out = []
    for sub in ("src/BayesFilters/src", "src/BayesFilters/include/BayesFilters"):
        d = os.path.join(repo, sub)
        if os.path.isdir(d):
            for fn in sorted(os.listdir(d)):
                if fn.endswith((".cpp", ".h", ".hpp")):
                    out.append(sub + "/" + fn)
    return out


def current(repo=None):
    repo = repo or build.REPO
    return {rel: fingerprint(os.path.join(repo, rel)) for rel in all_sources(repo)}


def anchors(pid, plugin=None):
    files = []
    with open(os.path.join(build.VERIF, "properties.jsonl")) as f:
        for line in f:
            line = line.strip()
            if not line:
                continue
            p = json.loads(line)
            if p.get("id") == pid:
                files = list(p.get("anchors", {}).get("files", []))
    for x in getattr(plugin, "EXTRA_ANCHORS", []) if plugin else []:
        if x not in files:
            files.append(x)
    # a .cpp anchor implies its header and vice versa when they exist
    more = []
    for rel in files:
        base = os.path.basename(rel)
        stem, ext = os.path.splitext(base)
        alt = ("src/BayesFilters/include/BayesFilters/%s.h" % stem) if ext == ".cpp" else ("src/BayesFilters/src/%s.cpp" % stem)
        if alt not in files and alt not in more and os.path.exists(os.path.join(build.REPO, alt)):
            more.append(alt)
    return files + more


def changed(pid, plugin=None):
    """Anchored files whose normalised text differs from the pinned one (or that appeared / disappeared)."""
    try:
        pins = json.load(open(PINS))["files"]
    except (OSError, ValueError, KeyError):
        return ["<no pins>"]
    out = []
    for rel in anchors(pid, plugin):
        if fingerprint(os.path.join(build.REPO, rel)) != pins.get(rel, "missing"):
            out.append(rel)
    return out


def main(argv):
    cur = current("/repo")
    if "--write" in argv:
        import subprocess
        head = subprocess.run(["git", "-C", "/repo", "rev-parse", "HEAD"], capture_output=True, text=True).stdout.strip()
        with open(PINS, "w") as f:
            json.dump({"repo_head": head, "files": cur}, f, indent=1, sort_keys=True)
        print("pinned %d files at %s" % (len(cur), head))
        return 0
    pins = json.load(open(PINS))["files"]
    diff = sorted(k for k in set(cur) | set(pins) if cur.get(k) != pins.get(k))
    print("differs from pins:", diff)
    return 1 if diff else 0


if __name__ == "__main__":
    sys.exit(main(sys.argv[1:]))
