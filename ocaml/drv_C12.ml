(* drv_C12.ml — driver: runs the extracted C12 model on the case file given on
   stdin.  Every class is run at the symbolic instance (terms over the inputs of
   the run; "the output is the predicted belief of step k" is the term predG<k>);
   kind kf is additionally run in numbers (KF skeleton at the list instance,
   step 0).  Per step k: g<k> s<k> (output object: mixture part, state part),
   log<k>, lik_valid<k>, lik<k>, liklog<k>. *)
let con_name (c : con) : string =
  let i k = string_of_int (int_of_nat k) in
  match c with
  | IPredG k -> "predG" ^ i k | IPredS k -> "predS" ^ i k | IY k -> "y" ^ i k
  | IR -> "R" | IGarbageR -> "garbageR" | IOutG -> "outG" | IOutS -> "outS" | IRng -> "rng" | IPy0 -> "py0" | IPm0 -> "pm0" | IEmpty -> "empty"
  | FH -> "h" | FInn -> "inn" | FCustomLik -> "customLik"
  | FKfPx -> "kfPx" | FKfUpdG -> "kfUpdG" | FKfUpdPy -> "kfUpdPy" | FKfLik -> "kfLik"
  | FSigma -> "sigma" | FUtPm -> "utPm" | FUtPxy -> "utPxy" | FPmDefault -> "pmDefault" | FPxyEmpty -> "pxyEmpty"
  | FPmAddNoise -> "pmAddNoise" | FAugment -> "augment" | FPmMean -> "pmMean" | FUkfUpd -> "ukfUpd" | FUkfLik -> "ukfLik"
  | FSukfMean -> "sukfMean" | FSukfUpdG -> "sukfUpdG" | FSukfUpdYp -> "sukfUpdYp" | FSukfLik -> "sukfLik"
  | FStPx -> "stPx" | FGlDens -> "glDens" | FZero1 -> "zero1" | FBootW -> "bootW" | FSampleS -> "sampleS"
  | FSampleRng -> "sampleRng" | FGpfW -> "gpfW"
  | FSisPredG -> "sisPredG" | FSisPredS -> "sisPredS" | FSisCorG -> "sisCorG" | FSisCorS -> "sisCorS"
  | FSisNormG -> "sisNormG" | FSisNormS -> "sisNormS" | FSisResG -> "sisResG" | FSisResS -> "sisResS"

let rec show (t : tm) : string =
  match t with
  | Node (c, []) -> con_name c
  | Node (c, args) -> con_name c ^ "(" ^ String.concat "," (List.map show args) ^ ")"

let site_tok (s : site) : string =
  match s with Measure -> "M" | Predicted -> "P" | Innovation -> "I" | NoiseCov -> "N" | Freeze -> "F" | Likelihood -> "L"
let ev_tok (e : sis_event) : string =
  match e with EvPredict -> "predict" | EvFreeze -> "F" | EvCorrect -> "C" | EvNormalise -> "normalise" | EvResample -> "resample"
let log_words f l = match l with [] -> [ "-" ] | _ -> List.map f l
let bits_of (s : string) : bool list = List.init (String.length s) (fun i -> s.[i] = '1')

let print_obs (k : int) (o : obs) =
  let ks = string_of_int k in
  Caseio.out_word ("g" ^ ks) [ show o.o_g ];
  Caseio.out_word ("s" ^ ks) [ show o.o_s ];
  Caseio.out_word ("log" ^ ks) (log_words site_tok o.o_log);
  Caseio.out_int ("lik_valid" ^ ks) (if fst o.o_lik then 1 else 0);
  Caseio.out_word ("lik" ^ ks) [ show (snd o.o_lik) ];
  Caseio.out_word ("liklog" ^ ks) (log_words site_tok o.o_liklog)

let hcat_cols (cols : float array array list) (rows : int) : float array array =
  let cs = Array.of_list cols in
  Array.init rows (fun i -> Array.concat (Array.to_list (Array.map (fun (m : float array array) -> m.(i)) cs)))

let kf_numeric (c : Caseio.case) (bits : bool list) =
  let h = Caseio.get_mat c "H" and r = Caseio.get_mat c "R" and y = Caseio.get_mat c "y0" in
  let comps_of means covs n =
    List.init (mat_cols means) (fun i -> (lmx_of_mat (mat_col means i), lmx_of_mat (mat_block_cols covs (i * n) n))) in
  let means = Caseio.get_mat c "means0" and covs = Caseio.get_mat c "covs0" and w = Caseio.get_mat c "weights0" in
  let om = Caseio.get_mat c "omeans" and oc = Caseio.get_mat c "ocovs" and ow = Caseio.get_mat c "oweights" in
  let n = Array.length means and m = Array.length h in
  let (((comps, ws), lik), _log) =
    c12_kf_num fops (nat_of_int n) (nat_of_int m) (lmx_of_mat h) (lmx_of_mat r) (lmx_of_mat y) bits
      (comps_of means covs n) (comps_of om oc n) (lvec_of_col w) (lvec_of_col ow) in
  Caseio.out_mat "num_mean" (hcat_cols (List.map (fun (mu, _) -> mat_of_lmx mu) comps) n);
  Caseio.out_mat "num_cov" (hcat_cols (List.map (fun (_, p) -> mat_of_lmx p) comps) n);
  Caseio.out_mat "num_w" (col_of_lvec ws);
  (match lik with
   | None -> Caseio.out_int "num_lik_valid" 0
   | Some l -> Caseio.out_int "num_lik_valid" 1; Caseio.out_mat "num_lik" (col_of_lvec l))

let ev_or_site (e : (sis_event, site) sum) : string = match e with Inl e -> ev_tok e | Inr s -> site_tok s

let () =
  let cases = Caseio.read_records "case" stdin in
  (* the implementation's output: only the SIS cases read it (whether the resampling test fired, per step) *)
  let impl =
    if Array.length Sys.argv > 1 then (let ic = open_in Sys.argv.(1) in let r = Caseio.read_records "out" ic in close_in ic; r) else [] in
  let impl_int id name =
    match List.find_opt (fun (r : Caseio.case) -> r.id = id) impl with
    | Some r when Caseio.has r name -> Caseio.get_int r name
    | _ -> 0 in
  List.iter
    (fun (c : Caseio.case) ->
      let pats = List.map bits_of (Caseio.get_word c "pat") in
      let mi k = Caseio.meta_int c k in
      let mb k = (try Caseio.meta_int c k = 1 with _ -> false) in
      let cfg = { c_skip = mb "skip"; c_iskip = mb "iskip"; c_emptyR = mb "emptyR"; c_alias = mb "alias" } in
      Caseio.out_begin c.id;
      (match c.kind with
       | "sis" ->
           let steps = List.mapi (fun k b -> (b, impl_int c.id (Printf.sprintf "resampled%d" k) > 0)) pats in
           List.iteri
             (fun k (o : sis_obs) ->
               let ks = string_of_int k in
               Caseio.out_word ("events" ^ ks) (log_words ev_or_site o.so_events);
               Caseio.out_word ("pred_g" ^ ks) [ show (fst o.so_pred) ];
               Caseio.out_word ("pred_s" ^ ks) [ show (snd o.so_pred) ];
               Caseio.out_word ("atlog_g" ^ ks) [ show (fst o.so_cor_at_log) ];
               Caseio.out_word ("atlog_s" ^ ks) [ show (snd o.so_cor_at_log) ];
               Caseio.out_word ("cor_g" ^ ks) [ show (fst o.so_cor) ];
               Caseio.out_word ("cor_s" ^ ks) [ show (snd o.so_cor) ])
             (run_sis_seq steps)
       | kind ->
           let m = mi "m" and sub = mi "sub" and comps = mi "comps" in
           let sub_ok = sub > 0 && m mod sub = 0 in
           let ncalls = if sub > 0 then nat_of_int (comps * (m / sub)) else nat_of_int 0 in
           let lcalls = if sub > 0 then nat_of_int (m / sub) else nat_of_int 0 in
           let gpf inner custom = run_gpf_cfg cfg (nat_of_int inner) sub_ok ncalls custom pats in
           let obs =
             match kind with
             | "kf" -> run_kf_cfg cfg pats
             | "ukf_gen" -> run_ukf_cfg cfg false pats
             | "ukf_add" -> run_ukf_cfg cfg true pats
             | "sukf" -> run_sukf_cfg cfg sub_ok ncalls lcalls pats
             | "gl" -> run_gl_cfg cfg pats
             | "boot_gl" -> run_boot_cfg cfg false pats
             | "boot_custom" -> run_boot_cfg cfg true pats
             | "gpf_kf_gl" -> gpf 0 false
             | "gpf_kf_custom" -> gpf 0 true
             | "gpf_ukfgen_gl" -> gpf 1 false
             | "gpf_ukfgen_custom" -> gpf 1 true
             | "gpf_ukfadd_gl" -> gpf 2 false
             | "gpf_ukfadd_custom" -> gpf 2 true
             | "gpf_sukf_gl" -> gpf 3 false
             | "gpf_sukf_custom" -> gpf 3 true
             | k -> failwith ("drv_C12: unknown kind " ^ k)
           in
           List.iteri print_obs obs;
           if kind = "kf" && not cfg.c_skip && not cfg.c_alias && not cfg.c_emptyR then kf_numeric c (List.hd pats));
      Caseio.out_end ())
    cases
