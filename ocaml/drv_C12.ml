(* drv_C12.ml — driver: runs the extracted C12 model on the case file given on
   stdin.  Every class is run at the symbolic instance (terms over the inputs of
   the run; "the output is the predicted belief of step k" is the term predG<k>);
   kind kf is additionally run in numbers (KF skeleton at the list instance,
   step 0).  Per step k: g<k> s<k> (output object: mixture part, state part),
   log<k>, lik_valid<k>, lik<k>, liklog<k>. *)
let con_name (c : con) : string =
  let i k = string_of_int (int_of_nat k) in
  match c with
  | IPredG k -> "predG" ^ i k | IPredS k -> "predS" ^ i k | IY k -> "y" ^ i k
  | IR -> "R" | IGarbageR -> "garbageR" | IOutG -> "outG" | IOutS -> "outS" | IRng -> "rng" | IPy0 -> "py0" | IPm0 -> "pm0" | IEmpty -> "empty"
  | IOutGk k -> "outG" ^ i k | IOutSk k -> "outS" ^ i k | ILikJunk -> "likJunk"
  | FH -> "h" | FInn -> "inn" | FCustomLik -> "customLik"
  | FKfPx -> "kfPx" | FKfUpdG -> "kfUpdG" | FKfUpdPy -> "kfUpdPy" | FKfLik -> "kfLik"
  | FSigma -> "sigma" | FUtPm -> "utPm" | FUtPxy -> "utPxy" | FPmDefault -> "pmDefault" | FPxyEmpty -> "pxyEmpty"
  | FPmAddNoise -> "pmAddNoise" | FAugment -> "augment" | FPmMean -> "pmMean" | FUkfUpd -> "ukfUpd" | FUkfLik -> "ukfLik"
  | FSukfMean -> "sukfMean" | FSukfUpdG -> "sukfUpdG" | FSukfUpdYp -> "sukfUpdYp" | FSukfLik -> "sukfLik"
  | FStPx -> "stPx" | FGlDens -> "glDens" | FZero1 -> "zero1" | FBootW -> "bootW" | FSampleS -> "sampleS"
  | FSampleRng -> "sampleRng" | FGpfW -> "gpfW"
  | FSisPredG -> "sisPredG" | FSisPredS -> "sisPredS" | FSisCorG -> "sisCorG" | FSisCorS -> "sisCorS"
  | FSisNormG -> "sisNormG" | FSisNormS -> "sisNormS" | FSisResG -> "sisResG" | FSisResS -> "sisResS"

let rec show (t : tm) : string =
  match t with
  | Node (c, []) -> con_name c
  | Node (c, args) -> con_name c ^ "(" ^ String.concat "," (List.map show args) ^ ")"

let site_tok (s : site) : string =
  match s with Measure -> "M" | Predicted -> "P" | Innovation -> "I" | NoiseCov -> "N" | Freeze -> "F" | Likelihood -> "L"
let ev_tok (e : sis_event) : string =
  match e with EvPredict -> "predict" | EvFreeze -> "F" | EvCorrect -> "C" | EvNormalise -> "normalise" | EvResample -> "resample"
let log_words f l = match l with [] -> [ "-" ] | _ -> List.map f l
let bits_of (s : string) : bool list = List.init (String.length s) (fun i -> s.[i] = '1')

let print_obs (k : int) (o : obs) =
  let ks = string_of_int k in
  Caseio.out_word ("g" ^ ks) [ show o.o_g ];
  Caseio.out_word ("s" ^ ks) [ show o.o_s ];
  Caseio.out_word ("log" ^ ks) (log_words site_tok o.o_log);
  Caseio.out_int ("lik_valid" ^ ks) (if fst o.o_lik then 1 else 0);
  Caseio.out_word ("lik" ^ ks) [ show (snd o.o_lik) ];
  Caseio.out_word ("liklog" ^ ks) (log_words site_tok o.o_liklog)

let hcat_cols (cols : float array array list) (rows : int) : float array array =
  let cs = Array.of_list cols in
  Array.init rows (fun i -> Array.concat (Array.to_list (Array.map (fun (m : float array array) -> m.(i)) cs)))

let kf_numeric (c : Caseio.case) (bits : bool list) =
  let pick a b = if Caseio.has c a then Caseio.get_mat c a else Caseio.get_mat c b in
  let h = pick "H0" "H" and r = pick "R0" "R" and y = Caseio.get_mat c "y0" in
  let comps_of means covs n =
    List.init (mat_cols means) (fun i -> (lmx_of_mat (mat_col means i), lmx_of_mat (mat_block_cols covs (i * n) n))) in
  let means = Caseio.get_mat c "means0" and covs = Caseio.get_mat c "covs0" and w = Caseio.get_mat c "weights0" in
  let om = Caseio.get_mat c "omeans" and oc = Caseio.get_mat c "ocovs" and ow = Caseio.get_mat c "oweights" in
  let n = Array.length means and m = Array.length h in
  let (((comps, ws), lik), _log) =
    c12_kf_num fops (nat_of_int n) (nat_of_int m) (lmx_of_mat h) (lmx_of_mat r) (lmx_of_mat y) bits
      (comps_of means covs n) (comps_of om oc n) (lvec_of_col w) (lvec_of_col ow) in
  Caseio.out_mat "num_mean" (hcat_cols (List.map (fun (mu, _) -> mat_of_lmx mu) comps) n);
  Caseio.out_mat "num_cov" (hcat_cols (List.map (fun (_, p) -> mat_of_lmx p) comps) n);
  Caseio.out_mat "num_w" (col_of_lvec ws);
  (match lik with
   | None -> Caseio.out_int "num_lik_valid" 0
   | Some l -> Caseio.out_int "num_lik_valid" 1; Caseio.out_mat "num_lik" (col_of_lvec l))

let ev_or_site (e : (sis_event, site) sum) : string = match e with Inl e -> ev_tok e | Inr s -> site_tok s

let () =
  let cases = Caseio.read_records "case" stdin in
  (* the implementation's output: only the SIS cases read it (whether the resampling test fired, per step) *)
  let impl =
    if Array.length Sys.argv > 1 then (let ic = open_in Sys.argv.(1) in let r = Caseio.read_records "out" ic in close_in ic; r) else [] in
  let impl_int id name =
    match List.find_opt (fun (r : Caseio.case) -> r.id = id) impl with
    | Some r when Caseio.has r name -> Caseio.get_int r name
    | _ -> 0 in
  List.iter
    (fun (c : Caseio.case) ->
      let pats = List.map bits_of (Caseio.get_word c "pat") in
      let nsteps = List.length pats in
      let mi k = Caseio.meta_int c k in
      let mb k = (try Caseio.meta_int c k = 1 with _ -> false) in
      (* per-step words (one token per step); absent: the case-level value *)
      let wordk name k dflt =
        if Caseio.has c name then (let w = Caseio.get_word c name in if List.length w > k then List.nth w k else dflt) else dflt in
      let flagk name k dflt = wordk name k (if dflt then "1" else "0") = "1" in
      let intk name k dflt = int_of_string (wordk name k (string_of_int dflt)) in
      let alias = mb "alias" in
      Caseio.out_begin c.id;
      (match c.kind with
       | "sis" ->
           let steps =
             List.mapi
               (fun k b ->
                 { si_bits = b; si_deg = impl_int c.id (Printf.sprintf "resampled%d" k) > 0;
                   si_skip = flagk "ske" k false; si_reset = flagk "rst" k false })
               pats in
           List.iteri
             (fun k (o : sis_obs) ->
               let ks = string_of_int k in
               Caseio.out_word ("events" ^ ks) (log_words ev_or_site o.so_events);
               Caseio.out_word ("pred_g" ^ ks) [ show (fst o.so_pred) ];
               Caseio.out_word ("pred_s" ^ ks) [ show (snd o.so_pred) ];
               Caseio.out_word ("atlog_g" ^ ks) [ show (fst o.so_cor_at_log) ];
               Caseio.out_word ("atlog_s" ^ ks) [ show (snd o.so_cor_at_log) ];
               Caseio.out_word ("cor_g" ^ ks) [ show (fst o.so_cor) ];
               Caseio.out_word ("cor_s" ^ ks) [ show (snd o.so_cor) ])
             (run_sis_steps steps)
       | kind ->
           let sub = mi "sub" in
           (* SUKFCorrection::getLikelihood makes innovations_.rows() / sub_size calls: the measurement size of the last
              step that was not skipped (a skipped correct() leaves the members as they were) *)
           let m_members = ref (mi "m") in
           let scfg_of_step k =
             let m = intk "msz" k (mi "m") and comps = intk "cmp" k (mi "comps") in
             if not (flagk "ske" k (mb "skip")) then m_members := m;
             { sc_skip = flagk "ske" k (mb "skip"); sc_iskip = flagk "iske" k (mb "iskip");
               sc_garbR = flagk "garb" k (mb "emptyR"); sc_fresh = flagk "fro" k false;
               sc_sub_ok = (sub > 0 && m mod sub = 0);
               sc_ncalls = (if sub > 0 then nat_of_int (comps * (m / sub)) else nat_of_int 0);
               sc_lcalls = (if sub > 0 then nat_of_int (!m_members / sub) else nat_of_int 0);
               sc_lpay = nat_of_int (intk "lpay" k 0) } in
           let steps = List.mapi (fun k b -> (scfg_of_step k, b)) pats in
           ignore nsteps;
           let obs =
             match kind with
             | "kf" -> run_kf_steps alias steps
             | "ukf_gen" -> run_ukf_steps false alias steps
             | "ukf_add" -> run_ukf_steps true alias steps
             | "sukf" -> run_sukf_steps alias steps
             | "gl" -> run_gl_steps steps
             | "boot_gl" -> run_boot_steps false alias steps
             | "boot_custom" -> run_boot_steps true alias steps
             | "gpf_kf_gl" -> run_gpf_steps (nat_of_int 0) false alias steps
             | "gpf_kf_custom" -> run_gpf_steps (nat_of_int 0) true alias steps
             | "gpf_ukfgen_gl" -> run_gpf_steps (nat_of_int 1) false alias steps
             | "gpf_ukfgen_custom" -> run_gpf_steps (nat_of_int 1) true alias steps
             | "gpf_ukfadd_gl" -> run_gpf_steps (nat_of_int 2) false alias steps
             | "gpf_ukfadd_custom" -> run_gpf_steps (nat_of_int 2) true alias steps
             | "gpf_sukf_gl" -> run_gpf_steps (nat_of_int 3) false alias steps
             | "gpf_sukf_custom" -> run_gpf_steps (nat_of_int 3) true alias steps
             | k -> failwith ("drv_C12: unknown kind " ^ k)
           in
           List.iteri print_obs obs;
           (* numbers: the KF skeleton at the list instance, step 0, on plain linear layouts *)
           if kind = "kf" && mb "numeric" then kf_numeric c (List.hd pats));
      Caseio.out_end ())
    cases
