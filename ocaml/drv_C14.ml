(* drv_C14.ml — driver for the C14 shape calculus: for every case it builds the
   shape program of the case kind (coq/C14_Model.v, case_<kind>) from the
   configuration in the case header, runs it (first failing site), and prints
   the verdict, the failing entry/site and the predicted observable shapes. *)
let rec str_of_coq (s : C14_model.string) : String.t =
  match s with
  | EmptyString -> ""
  | String (Ascii (b0, b1, b2, b3, b4, b5, b6, b7), r) ->
      let bit b k = if b then 1 lsl k else 0 in
      let code = bit b0 0 + bit b1 1 + bit b2 2 + bit b3 3 + bit b4 4 + bit b5 5 + bit b6 6 + bit b7 7 in
      String.make 1 (Char.chr code) ^ str_of_coq r

let mi (c : Caseio.case) k = try int_of_string (List.assoc k c.meta) with Not_found -> 0
let mn c k = nat_of_int (mi c k)
let mb c k = mi c k <> 0
let lay c pfx noise = { lin = mn c (pfx ^ "L"); circ = mn c (pfx ^ "C"); quat = mb c (pfx ^ "q"); noise = nat_of_int noise }
let words c name = try Caseio.get_word c name with _ -> []

let hop_of_token t =
  let n () = nat_of_int (int_of_string (String.sub t 1 (String.length t - 1))) in
  if t = "dec" then HDec else if t = "inc" then HInc else if t = "clr" then HClear else if t = "get" then HGet
  else if t.[0] = 'a' then HAdd (n ()) else if t.[0] = 's' then HSet (n ()) else failwith ("drv_C14: op " ^ t)

(* operation tokens of an EstimatesExtraction sequence: m<k> setMethod(k-th ExtractionMethod), w<k> setMobileAverageWindowSize(k)
   (any k <= 0 is the refused call), clr, x:pr:n:wn (two-argument extract), X:pr:n:wn:pw:ln:tr:tc (five-argument extract) *)
let xop_of_token t =
  let ints s = List.map int_of_string (List.tl (String.split_on_char ':' s)) in
  let num () = int_of_string (String.sub t 1 (String.length t - 1)) in
  if t = "clr" then XClear
  else if t.[0] = 'm' then (let k = num () in XMethod (nat_of_int (k / 4), nat_of_int (k mod 4)))
  else if t.[0] = 'w' then XWindow (nat_of_int (max 0 (num ())))
  else if t.[0] = 'x' then (match List.map nat_of_int (ints t) with
                            | [ pr; n; wn ] -> XExtract (false, pr, n, wn, nat_of_int 0, nat_of_int 0, nat_of_int 0, nat_of_int 0)
                            | _ -> failwith ("drv_C14: op " ^ t))
  else if t.[0] = 'X' then (match List.map nat_of_int (ints t) with
                            | [ pr; n; wn; pw; ln; tr; tc ] -> XExtract (true, pr, n, wn, pw, ln, tr, tc)
                            | _ -> failwith ("drv_C14: op " ^ t))
  else failwith ("drv_C14: op " ^ t)

let program_and_obs (c : Caseio.case) : prog * nat list =
  let n = mn c in
  match c.kind with
  | "wna" ->
      (case_wna (n "D") (n "num") (n "sr") (n "sc") (n "mr") (n "mc") (n "pr") (n "pc") (n "cr") (n "cc"),
       obs_wna (n "D") (n "num") (n "cc"))
  | "simstate" ->
      let ops = List.map (fun t -> if t = "r" then SReset else SBuf) (words c "ops") in
      (case_simstate (n "D") (n "T") (n "ir") ops, obs_simstate (n "T") (n "ir") ops)
  | "linsensor" ->
      let ms = List.map (fun t -> nat_of_int (int_of_string t)) (words c "ms") in
      (case_linsensor (n "D") (n "T") (n "ir") (n "sn") ms (n "rr") (n "rc") (n "calls") (n "num") (n "sr") (n "sc"),
       obs_linsensor (n "T") (nat_of_int (List.length ms)) (n "calls") (n "num") (n "sc"))
  | "history" ->
      let ops = List.map hop_of_token (words c "ops") in
      (case_history (n "ssz") ops, obs_history (n "ssz") h_init ops)
  | "grid" -> (case_grid (n "nx") (n "ny") (n "n") (lay c "" 0), obs_grid (n "nx") (n "ny") (n "n") (lay c "" 0))
  | "psaug" ->
      let l = lay c "" 0 in
      (case_psaug l (n "comps") (n "qr") (n "qc") (n "qr2") (n "qc2"), obs_psaug l (n "comps") (n "qr") (n "qc") (n "qr2") (n "qc2"))
  | "sigma" -> let l = lay c "" (mi c "noise") in (case_sigma l (n "comps"), sigma_out l (n "comps"))
  | "ut" ->
      let li = lay c "i" (mi c "inoise") and lo = lay c "o" 0 in
      (case_ut (n "variant") li (n "comps") (n "w") (mb c "valid") (n "pr") (n "pc") lo (n "qr") (n "qc"),
       obs_ut (n "variant") li (n "comps") (mb c "valid") lo)
  | "kfp" ->
      let lp = lay c "p" 0 and lq = lay c "q" 0 in
      (case_kfp (n "d") lp (n "comps") lq (n "compsq"), obs_kfp lq (n "compsq"))
  | "kfc" ->
      let lp = lay c "p" 0 and lq = lay c "q" 0 in
      (case_kfc (n "m") (n "n") lp (n "comps") lq (n "compsq") (n "yr") (n "yc") (mb c "again"),
       obs_kfc lp (n "comps") lq (n "compsq") (mb c "again"))
  | "ukfp" ->
      let lp = lay c "p" 0 and ls = lay c "s" 0 in
      (case_ukfp (mb c "additive") lp (n "comps") (n "q") ls, ukfp_out (n "comps") ls)
  | "ukfc" ->
      let lp = lay c "p" 0 and lm = lay c "m" 0 and lq = lay c "q" 0 in
      (case_ukfc (mb c "additive") lp (n "comps") (n "r") (mb c "valid") lm (n "ir") lq (n "compsq") (mb c "again") (mb c "online"),
       obs_ukfc lp (n "comps") (mb c "valid") lq (n "compsq") (mb c "again"))
  | "sukf" ->
      let lp = lay c "p" 0 and lq = lay c "q" 0 in
      (case_sukf (mb c "reduced") lp (n "comps") (n "msz") (n "sub") (n "r") (n "ir") lq (n "compsq") (mb c "again"),
       obs_sukf lp (n "comps") (n "msz") (n "sub") lq (n "compsq") (mb c "again"))
  | "resample" ->
      let lc = lay c "c" 0 and lr = lay c "r" 0 in
      (case_resample lc (n "n") lr (n "nr") (n "np"), obs_resample lr (n "nr"))
  | "resprior" ->
      let lc = lay c "c" 0 in
      (* with a prior that can fail the harness also reports the number of parents that are neither -1 nor an input index: none *)
      let failing_prior = (try List.assoc "prior" c.meta <> "zero" with Not_found -> false) in
      (case_resprior lc (n "n") (n "k") (n "np"), resample_prior_out lc (n "n") (n "k") @ (if failing_prior then [ nat_of_int 0 ] else []))
  | "density" -> (case_density (n "r") (n "c") (n "k") (n "a") (n "b"), [ n "c" ])
  | "uvr" ->
      (case_uvr (n "r") (n "c") (n "k") (n "ur") (n "uc") (n "vr") (n "vc") (n "bs") (n "rc"), [ n "c" ])
  | "extract" ->
      (case_extract (n "w") (n "calls") (n "stat") (n "avg") (n "el") (n "ec") (n "pr") (n "n") (n "wn") (n "pw") (n "ln")
         (n "tr") (n "tc"),
       obs_extract (n "calls") (n "stat") (n "avg") (n "el") (n "ec") (n "pr"))
  | "extseq" ->
      let ops = List.map xop_of_token (words c "ops") in
      (case_extseq (n "el") (n "ec") ops, obs_extseq (n "el") (n "ec") ops)
  | "objseq" -> ([], [])       (* call sequences on one object of the steps: observed under the assertion / sanitizer builds only *)
  | "lifetime" -> ([], [])     (* lifetime errors are outside the shape calculus: the model has no program *)
  | k -> failwith ("drv_C14: unknown kind " ^ k)

let () =
  let cases = Caseio.read_records "case" stdin in
  List.iter
    (fun (c : Caseio.case) ->
      let p, o = program_and_obs c in
      Caseio.out_begin c.id;
      let opclass (s : C14_model.string) =
        (* the kind of precondition of the first failing item *)
        let rec find = function
          | [] -> "none"
          | x :: r -> if x.site = s && not (ok x.what) then
                        (match x.what with Mul _ -> "mul" | Same _ -> "same" | Blk _ -> "blk" | Idx _ -> "idx" | Pop _ -> "pop"
                                         | Div _ -> "div" | Comma _ -> "comma" | Guard _ -> "guard" | Free -> "free")
                      else find r in
        find p in
      (match run p with Fails (_, s) -> Caseio.out_str "opclass" (opclass s) | _ -> Caseio.out_str "opclass" "none");
      let distinct = List.sort_uniq compare (List.map (fun x -> str_of_coq x.entry ^ "|" ^ String.concat "_" (String.split_on_char ' ' (str_of_coq x.site))) p) in
      Caseio.out_word "sites" distinct;
      (match run p with
       | Safe -> Caseio.out_str "verdict" "safe"; Caseio.out_str "entry" "-"; Caseio.out_str "site" "-"
       | Threw (e, s) ->
           Caseio.out_str "verdict" "threw"; Caseio.out_str "entry" (str_of_coq e);
           Caseio.out_word "site" [ String.concat "_" (String.split_on_char ' ' (str_of_coq s)) ]
       | Fails (e, s) ->
           Caseio.out_str "verdict" "fails"; Caseio.out_str "entry" (str_of_coq e);
           Caseio.out_word "site" [ String.concat "_" (String.split_on_char ' ' (str_of_coq s)) ]);
      (match check_shapes p, run p with
       | None, Fails _ | Some _, Safe | Some _, Threw _ -> failwith "drv_C14: check_shapes disagrees with run"
       | _ -> ());
      Caseio.out_int "items" (List.length p);
      Caseio.out_word "obs" (match run p with Safe -> List.map (fun k -> string_of_int (int_of_nat k)) o | _ -> []);
      if c.kind = "extseq" then
        Caseio.out_word "win" (List.map (fun k -> string_of_int (int_of_nat k))
                                 (win_extseq (mn c "el") (mn c "ec") (List.map xop_of_token (words c "ops"))));
      Caseio.out_end ())
    cases
