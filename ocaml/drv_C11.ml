(* drv_C11.ml — driver: runs the extracted C11 container model on operation
   sequences over a pool of objects.  Case: kind gm | gauss | pset, meta c l ci q
   (constructor arguments of slot 0; the constructor overload used by the harness
   does not matter to the model), word pool (layouts c,l,ci,q of the further slots),
   word ops (tokens, see props/C11.py), mat <name> for every noise covariance.
   Every token becomes one pool operation (KOn / KLook / KCopy / KMove / KTemp) and
   is executed by the extracted gm_kstep / gauss_kstep / ps_kstep.  After the
   constructor (step 0) and after every operation it prints the slot the operation
   wrote ("<k>.slot"), every descriptor of that object, every storage matrix with
   its shape and the per-component accessor views.  Uninitialised cells (junk) are
   NaN.  When kstep answers None (an operation outside the premises) it prints
   "<k>.defined 0", "undefined_at <k>" and stops. *)
let junk = ob nan
let n2i = int_of_nat
let i2n = nat_of_int

(* model matrix (list of columns) -> rows x cols array *)
let arr_of_mx (m : mx) : int * int * float array array =
  let r = n2i m.mrows and c = n2i m.mcols in
  let cols = Array.of_list (List.map (fun col -> Array.of_list (List.map fl col)) m.mdata) in
  let a =
    Array.init r (fun i ->
        Array.init c (fun j -> if j < Array.length cols && i < Array.length cols.(j) then cols.(j).(i) else nan))
  in
  (r, c, a)

let out_mx name (m : mx) =
  let r, c, a = arr_of_mx m in
  Caseio.out_mat_shape name r c a

let mx_of_mat (a : float array array) : mx =
  let r = Array.length a in
  let c = if r = 0 then 0 else Array.length a.(0) in
  mk fops (i2n r) (i2n c) (fun i j -> ob a.(n2i i).(n2i j))

(* hcat of per-component accessor views *)
let hcat (ms : mx list) (rows : nat) : mx =
  { mrows = rows; mcols = i2n (List.fold_left (fun s m -> s + n2i m.mcols) 0 ms);
    mdata = List.concat (List.map (fun m -> m.mdata) ms) }

let ints s = List.map int_of_string (String.split_on_char ',' s)
let ints_opt s = try Some (ints s) with _ -> None
let rest t = String.sub t 1 (String.length t - 1)
let range n = List.init n (fun i -> i)
let nmin a b = if n2i a <= n2i b then a else b

let dump_gm (k : int) (g : gm) (ret : int) =
  let p s = Printf.sprintf "%d.%s" k s in
  Caseio.out_int (p "components") (n2i g.components);
  Caseio.out_int (p "quat") (if g.use_quat then 1 else 0);
  Caseio.out_int (p "dcc") (n2i g.dcc);
  Caseio.out_int (p "dim") (n2i g.dim);
  Caseio.out_int (p "dl") (n2i g.dl);
  Caseio.out_int (p "dc") (n2i g.dc);
  Caseio.out_int (p "dn") (n2i g.dn);
  Caseio.out_int (p "dcov") (n2i g.dcov);
  Caseio.out_int (p "ret") ret;
  out_mx (p "mean") g.mean_;
  out_mx (p "cov") g.cov_;
  out_mx (p "w") g.weight_;
  Caseio.out_int (p "model_consistent") (if gm_consistentb fops g then 1 else 0)

let dump_acc (k : int) (g : gm) =
  let p s = Printf.sprintf "%d.%s" k s in
  let comps = range (n2i g.components) in
  out_mx (p "amean") (hcat (List.map (fun i -> gm_mean fops g (i2n i)) comps) g.mean_.mrows);
  out_mx (p "acov") (hcat (List.map (fun i -> gm_cov fops g (i2n i)) comps) g.cov_.mrows);
  out_mx (p "aw") (mk fops g.components (i2n 1) (fun i _ -> gm_weight fops g i));
  (* element accessors mean(i, j), covariance(i, j, k) *)
  out_mx (p "emean") (mk fops g.dim g.components (fun j i -> gm_mean_el fops g i j));
  out_mx (p "ecov")
    (hcat (List.map (fun i -> mk fops g.dcov g.dcov (fun j kk -> gm_cov_el fops g (i2n i) j kk)) comps) g.dcov);
  (* the state part and the noise part of every component (head / tail, topLeftCorner / bottomRightCorner) *)
  let nsub a b = i2n (max 0 (n2i a - n2i b)) in
  out_mx (p "smean") (hcat (List.map (fun i -> gm_state_mean fops g (i2n i)) comps) (nsub g.dim g.dn));
  out_mx (p "nmean") (hcat (List.map (fun i -> gm_noise_mean fops g (i2n i)) comps) (nsub g.mean_.mrows (nsub g.dim g.dn)));
  out_mx (p "scov") (hcat (List.map (fun i -> gm_state_cov fops g (i2n i)) comps) (nsub g.dcov g.dn));
  out_mx (p "ncov") (hcat (List.map (fun i -> gm_noise_cov fops g (i2n i)) comps) g.dn)

let dump_gauss_acc (k : int) (g : gm) =
  let p s = Printf.sprintf "%d.%s" k s in
  out_mx (p "gmean") (gauss_mean fops g);
  out_mx (p "gcov") (gauss_cov fops g);
  Caseio.out_num (p "gweight") (fl (gauss_weight fops g));
  out_mx (p "gemean") (mk fops g.dim (i2n 1) (fun i _ -> gauss_mean_el fops g i));
  out_mx (p "gecov") (mk fops g.dcov (nmin g.dcov g.cov_.mcols) (fun i j -> gauss_cov_el fops g i j))

let dump_ps (k : int) (ps : pset) (ret : int) =
  let p s = Printf.sprintf "%d.%s" k s in
  dump_gm k ps.base ret;
  out_mx (p "state") ps.state_;
  Caseio.out_int (p "model_ps_consistent") (if ps_consistentb fops ps then 1 else 0);
  dump_acc k ps.base;
  let comps = range (n2i ps.base.components) in
  out_mx (p "astate") (hcat (List.map (fun i -> ps_state fops ps (i2n i)) comps) ps.state_.mrows);
  out_mx (p "estate") (mk fops ps.base.dim ps.base.components (fun j i -> ps_state_el fops ps i j));
  let nsub a b = i2n (max 0 (n2i a - n2i b)) in
  out_mx (p "sstate") (hcat (List.map (fun i -> ps_state_part fops ps (i2n i)) comps) (nsub ps.base.dim ps.base.dn));
  out_mx (p "nstate")
    (hcat (List.map (fun i -> ps_noise_part fops ps (i2n i)) comps) (nsub ps.state_.mrows (nsub ps.base.dim ps.base.dn)))

let z_of_string s = z_of_int (int_of_string s)
exception Stop
exception Dead

let lay a b d q : layout = (((i2n a, i2n b), i2n d), q)
let fields s = String.split_on_char ',' s

(* One case.  [single tok x]: the single-object operation of an upper-case token applied to the object x in
   focus, with the noise covariance whose acceptance is printed as "ret"; [special tok pool focus]: the
   kind-specific tokens that are pool operations. *)
let run_pool ~kstep ~pool0 ~single ~special ~op_fill ~op_aug ~op_resize ~aug_ret ~dump (c : Caseio.case) layouts ops getq =
  let pool = ref (pool0 layouts) in
  let focus = ref 0 in
  let obj p i = match slot_get p (i2n i) with Some x -> x | None -> raise Dead in
  let undefined k =
    Caseio.out_int (Printf.sprintf "%d.defined" k) 0;
    Caseio.out_int "undefined_at" k;
    raise Stop
  in
  ignore c;
  dump 0 (obj !pool 0) 1 0;
  List.iteri
    (fun k0 tok ->
      let k = k0 + 1 in
      let fld = fields (rest tok) in
      let at i = int_of_string (List.nth fld i) in
      let f = !focus in
      let kop, nf, ret =
        try
          match tok.[0] with
          | '@' -> (KLook (i2n (at 0)), at 0, 1)
          | 'c' | 's' -> (KCopy (i2n (at 0), i2n (at 1)), at 0, 1)
          | 'm' | 'v' -> (KMove (i2n (at 0), i2n (at 1)), at 0, 1)
          | 'C' | 'S' -> (KCopy (i2n f, i2n f), f, 1)
          | 'M' -> (KMove (i2n f, i2n f), f, 1)
          | 't' | 'n' ->
              let e = EFresh (lay (at 1) (at 2) (at 3) (at 4 <> 0)) in
              let e = if at 5 >= 0 then EOp (op_fill (at 5), e) else e in
              (KTemp (i2n (at 0), e), at 0, 1)
          | 'f' | 'a' -> (KTemp (i2n (at 0), EOp (op_aug (getq (List.nth fld 2)), ESlot (i2n (at 1)))), at 0, 1)
          | 'g' | 'b' -> (KTemp (i2n (at 0), EOp (op_resize (at 2) (at 3) (at 4), ESlot (i2n (at 1)))), at 0, 1)
          | _ -> (
              match special tok !pool f with
              | Some (kop, nf) -> (kop, nf, 1)
              | None ->
                  let x = obj !pool f in
                  let o, qm = single tok x in
                  let ret = match qm with Some m -> if aug_ret m x then 1 else 0 | None -> 1 in
                  (KOn (i2n f, o), f, ret))
        with Dead -> undefined k
      in
      match kstep kop !pool with
      | None -> undefined k
      | Some p' ->
          pool := p';
          focus := nf;
          (match slot_get p' (i2n nf) with
           | Some x -> dump k x ret nf
           | None -> undefined k);
          Caseio.out_int (Printf.sprintf "%d.defined" k) 1)
    ops

let () =
  let cases = Caseio.read_records "case" stdin in
  List.iter
    (fun (c : Caseio.case) ->
      let cc = Caseio.meta_int c "c" and l = Caseio.meta_int c "l" and ci = Caseio.meta_int c "ci" in
      let q = Caseio.meta_int c "q" <> 0 in
      let ops = if Caseio.has c "ops" then Caseio.get_word c "ops" else [] in
      let extra = if Caseio.has c "pool" then Caseio.get_word c "pool" else [] in
      let layouts =
        lay cc l ci q
        :: List.map (fun s -> match ints s with [ a; b; d; qq ] -> lay a b d (qq <> 0) | _ -> failwith "drv_C11: bad pool") extra
      in
      Caseio.out_begin c.id;
      let getq name =
        (* noise covariance given with explicit shape (may be 0 x 0 or non-square) *)
        let r = Caseio.get_int c (name ^ ".r") and cl = Caseio.get_int c (name ^ ".c") in
        if r = 0 || cl = 0 then mk fops (i2n r) (i2n cl) (fun _ _ -> ob 0.0)
        else mx_of_mat (Caseio.get_mat c name)
      in
      let slot k i = Caseio.out_int (Printf.sprintf "%d.slot" k) i in
      let no_special _ _ _ = None in
      (try
         match c.kind with
         | "gm" ->
             let single tok (g : gm) =
               match tok.[0] with
               | 'F' -> (GFill (z_of_string (rest tok)), None)
               | 'G' -> (GFillEl (z_of_string (rest tok)), None)
               | 'H' -> (GFillBlk (z_of_string (rest tok)), None)
               | 'R' -> (match ints (rest tok) with [ a; b; d ] -> (GResize (i2n a, i2n b, i2n d), None) | _ -> failwith "bad R")
               | 'r' -> (match ints (rest tok) with [ a; b ] -> (GResize (i2n a, i2n b, i2n 0), None) | _ -> failwith "bad r")
               | 'A' -> let m = getq (rest tok) in (GAugment m, Some m)
               | 'W' -> (GAugmentSelf, Some g.cov_)
               | _ -> failwith ("drv_C11: bad op " ^ tok)
             in
             (* a mixture assigned from a Gaussian (x) / from a filled ParticleSet returned by value (y): the
                GaussianMixture part of those objects is the mixture the same constructor arguments give *)
             let special tok _ _ =
               match tok.[0], ints_opt (rest tok) with
               | 'x', Some [ t; b; d; qq; _ ] -> Some (KTemp (i2n t, EFresh (lay 1 b d (qq <> 0))), t)
               | 'y', Some [ t; a; b; d; qq; base ] ->
                   Some (KTemp (i2n t, EOp (GFill (z_of_int base), EFresh (lay a b d (qq <> 0)))), t)
               | _ -> None
             in
             run_pool ~kstep:(gm_kstep fops junk) ~pool0:(gm_pool0 fops) ~single ~special
               ~op_fill:(fun b -> GFill (z_of_int b)) ~op_aug:(fun m -> GAugment m)
               ~op_resize:(fun a b d -> GResize (i2n a, i2n b, i2n d))
               ~aug_ret:(fun m g -> fst (gm_augment fops m g))
               ~dump:(fun k g ret s -> dump_gm k g ret; slot k s; dump_acc k g)
               c layouts ops getq
         | "gauss" ->
             let single tok (g : gm) =
               match tok.[0] with
               | 'F' -> (NFill (z_of_string (rest tok)), None)
               | 'G' -> (NFillEl (z_of_string (rest tok)), None)
               | 'H' -> (NFillBlk (z_of_string (rest tok)), None)
               | 'R' -> (match ints (rest tok) with [ b; d ] -> (NResize (i2n b, i2n d), None) | _ -> failwith "bad R")
               | 'r' -> (match ints (rest tok) with [ b ] -> (NResize (i2n b, i2n 0), None) | _ -> failwith "bad r")
               | 'B' -> (match ints (rest tok) with [ a; b; d ] -> (NResizeBase (i2n a, i2n b, i2n d), None) | _ -> failwith "bad B")
               | 'A' -> let m = getq (rest tok) in (NAugment m, Some m)
               | 'W' -> (NAugmentSelf, Some g.cov_)
               | _ -> failwith ("drv_C11: bad op " ^ tok)
             in
             run_pool ~kstep:(gauss_kstep fops junk) ~pool0:(gauss_pool0 fops) ~single ~special:no_special
               ~op_fill:(fun b -> NFill (z_of_int b)) ~op_aug:(fun m -> NAugment m)
               ~op_resize:(fun _ b d -> NResize (i2n b, i2n d))
               ~aug_ret:(fun m g -> fst (gm_augment fops m g))
               ~dump:(fun k g ret s -> dump_gm k g ret; slot k s; dump_acc k g; dump_gauss_acc k g)
               c layouts ops getq
         | "pset" ->
             let fresh s =
               match ints s with
               | [ a; b; d; qq; base ] -> ps_apply fops junk (PFill (z_of_int base)) (ps_ctor fops (i2n a) (i2n b) (i2n d) (qq <> 0))
               | _ -> failwith "drv_C11: bad rhs"
             in
             let single tok (p : pset) =
               match tok.[0] with
               | 'F' -> (PFill (z_of_string (rest tok)), None)
               | 'G' -> (PFillEl (z_of_string (rest tok)), None)
               | 'H' -> (PFillBlk (z_of_string (rest tok)), None)
               | 'R' -> (match ints (rest tok) with [ a; b; d ] -> (PResize (i2n a, i2n b, i2n d), None) | _ -> failwith "bad R")
               | 'r' -> (match ints (rest tok) with [ a; b ] -> (PResize (i2n a, i2n b, i2n 0), None) | _ -> failwith "bad r")
               | 'A' -> let m = getq (rest tok) in (PAugment m, Some m)
               | 'W' -> (PAugmentSelf, Some p.base.cov_)
               | 'P' -> (PConcat (fresh (rest tok)), None)
               | 'Q' -> (PPlus (fresh (rest tok)), None)
               | 'D' -> (PConcat (ps_apply fops junk PCopy p), None)   (* += a copy of itself *)
               | 'Z' -> (PConcatSelf, None)                            (* x += x *)
               | _ -> failwith ("drv_C11: bad op " ^ tok)
             in
             let special tok pool f =
               match tok.[0], ints_opt (rest tok) with
               | 'E', _ -> Some (KTemp (i2n f, EBin (ESlot (i2n f), ESlot (i2n f))), f)   (* X n(x + x) replaces x *)
               | ('p' | 'w'), Some [ t; a; b ] -> Some (KTemp (i2n t, EBin (ESlot (i2n a), ESlot (i2n b))), t)
               | 'u', Some [ t; s ] -> (
                   (* t += s for another named object s *)
                   match slot_get pool (i2n s) with
                   | Some x -> Some (KOn (i2n t, PConcat x), t)
                   | None -> raise Dead)
               | _ -> None
             in
             run_pool ~kstep:(ps_kstep fops junk) ~pool0:(ps_pool0 fops) ~single ~special
               ~op_fill:(fun b -> PFill (z_of_int b)) ~op_aug:(fun m -> PAugment m)
               ~op_resize:(fun a b d -> PResize (i2n a, i2n b, i2n d))
               ~aug_ret:(fun m p -> fst (ps_augment fops m p))
               ~dump:(fun k p ret s -> dump_ps k p ret; slot k s)
               c layouts ops getq
         | k -> failwith ("drv_C11: unknown kind " ^ k)
       with Stop -> ());
      Caseio.out_end ())
    cases
