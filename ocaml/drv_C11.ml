(* drv_C11.ml — driver: runs the extracted C11 container model on operation
   sequences.  Case: kind gm | gauss | pset, meta c l ci q (constructor
   arguments; the constructor overload used by the harness does not matter to
   the model), word ops (tokens, see props/C11.py), mat <name> for every noise
   covariance.  After the constructor (step 0) and after every operation it
   prints every descriptor, every storage matrix with its shape and the
   per-component accessor views.  Uninitialised cells (junk) are NaN.  Before
   each operation it evaluates the model's definedness predicate; at the first
   undefined operation it prints "<k>.defined 0", "undefined_at <k>" and stops. *)
let junk = ob nan
let n2i = int_of_nat
let i2n = nat_of_int

(* model matrix (list of columns) -> rows x cols array *)
let arr_of_mx (m : mx) : int * int * float array array =
  let r = n2i m.mrows and c = n2i m.mcols in
  let cols = Array.of_list (List.map (fun col -> Array.of_list (List.map fl col)) m.mdata) in
  let a =
    Array.init r (fun i ->
        Array.init c (fun j -> if j < Array.length cols && i < Array.length cols.(j) then cols.(j).(i) else nan))
  in
  (r, c, a)

let out_mx name (m : mx) =
  let r, c, a = arr_of_mx m in
  Caseio.out_mat_shape name r c a

let mx_of_mat (a : float array array) : mx =
  let r = Array.length a in
  let c = if r = 0 then 0 else Array.length a.(0) in
  mk fops (i2n r) (i2n c) (fun i j -> ob a.(n2i i).(n2i j))

(* hcat of per-component accessor views *)
let hcat (ms : mx list) (rows : nat) : mx =
  { mrows = rows; mcols = i2n (List.fold_left (fun s m -> s + n2i m.mcols) 0 ms);
    mdata = List.concat (List.map (fun m -> m.mdata) ms) }

let ints s = List.map int_of_string (String.split_on_char ',' s)
let rest t = String.sub t 1 (String.length t - 1)
let range n = List.init n (fun i -> i)
let nmin a b = if n2i a <= n2i b then a else b

let dump_gm (k : int) (g : gm) (ret : int) =
  let p s = Printf.sprintf "%d.%s" k s in
  Caseio.out_int (p "components") (n2i g.components);
  Caseio.out_int (p "quat") (if g.use_quat then 1 else 0);
  Caseio.out_int (p "dcc") (n2i g.dcc);
  Caseio.out_int (p "dim") (n2i g.dim);
  Caseio.out_int (p "dl") (n2i g.dl);
  Caseio.out_int (p "dc") (n2i g.dc);
  Caseio.out_int (p "dn") (n2i g.dn);
  Caseio.out_int (p "dcov") (n2i g.dcov);
  Caseio.out_int (p "ret") ret;
  out_mx (p "mean") g.mean_;
  out_mx (p "cov") g.cov_;
  out_mx (p "w") g.weight_;
  Caseio.out_int (p "model_consistent") (if gm_consistentb fops g then 1 else 0)

let dump_acc (k : int) (g : gm) =
  let p s = Printf.sprintf "%d.%s" k s in
  let comps = range (n2i g.components) in
  out_mx (p "amean") (hcat (List.map (fun i -> gm_mean fops g (i2n i)) comps) g.mean_.mrows);
  out_mx (p "acov") (hcat (List.map (fun i -> gm_cov fops g (i2n i)) comps) g.cov_.mrows);
  out_mx (p "aw") (mk fops g.components (i2n 1) (fun i _ -> gm_weight fops g i));
  (* element accessors mean(i, j), covariance(i, j, k) *)
  out_mx (p "emean") (mk fops g.dim g.components (fun j i -> gm_mean_el fops g i j));
  out_mx (p "ecov")
    (hcat (List.map (fun i -> mk fops g.dcov g.dcov (fun j kk -> gm_cov_el fops g (i2n i) j kk)) comps) g.dcov)

let dump_gauss_acc (k : int) (g : gm) =
  let p s = Printf.sprintf "%d.%s" k s in
  out_mx (p "gmean") (gauss_mean fops g);
  out_mx (p "gcov") (gauss_cov fops g);
  Caseio.out_num (p "gweight") (fl (gauss_weight fops g));
  out_mx (p "gemean") (mk fops g.dim (i2n 1) (fun i _ -> gauss_mean_el fops g i));
  out_mx (p "gecov") (mk fops g.dcov (nmin g.dcov g.cov_.mcols) (fun i j -> gauss_cov_el fops g i j))

let dump_ps (k : int) (ps : pset) (ret : int) =
  let p s = Printf.sprintf "%d.%s" k s in
  dump_gm k ps.base ret;
  out_mx (p "state") ps.state_;
  Caseio.out_int (p "model_ps_consistent") (if ps_consistentb fops ps then 1 else 0);
  dump_acc k ps.base;
  let comps = range (n2i ps.base.components) in
  out_mx (p "astate") (hcat (List.map (fun i -> ps_state fops ps (i2n i)) comps) ps.state_.mrows);
  out_mx (p "estate") (mk fops ps.base.dim ps.base.components (fun j i -> ps_state_el fops ps i j))

let z_of_string s = z_of_int (int_of_string s)
exception Stop

let () =
  let cases = Caseio.read_records "case" stdin in
  List.iter
    (fun (c : Caseio.case) ->
      let cc = Caseio.meta_int c "c" and l = Caseio.meta_int c "l" and ci = Caseio.meta_int c "ci" in
      let q = Caseio.meta_int c "q" <> 0 in
      let ops = if Caseio.has c "ops" then Caseio.get_word c "ops" else [] in
      Caseio.out_begin c.id;
      let getq name =
        (* noise covariance given with explicit shape (may be 0 x 0 or non-square) *)
        let r = Caseio.get_int c (name ^ ".r") and cl = Caseio.get_int c (name ^ ".c") in
        if r = 0 || cl = 0 then mk fops (i2n r) (i2n cl) (fun _ _ -> ob 0.0)
        else mx_of_mat (Caseio.get_mat c name)
      in
      let undefined k =
        Caseio.out_int (Printf.sprintf "%d.defined" k) 0;
        Caseio.out_int "undefined_at" k;
        raise Stop
      in
      (try
         match c.kind with
         | "gm" ->
             let g = ref (gm_ctor fops (i2n cc) (i2n l) (i2n ci) q) in
             dump_gm 0 !g 1;
             dump_acc 0 !g;
             List.iteri
               (fun k0 tok ->
                 let k = k0 + 1 in
                 let op, qm =
                   match tok.[0] with
                   | 'F' -> (GFill (z_of_string (rest tok)), None)
                   | 'C' | 'S' | 'M' -> (GCopy, None)
                   | 'R' -> (match ints (rest tok) with [ a; b; d ] -> (GResize (i2n a, i2n b, i2n d), None) | _ -> failwith "bad R")
                   | 'r' -> (match ints (rest tok) with [ a; b ] -> (GResize (i2n a, i2n b, i2n 0), None) | _ -> failwith "bad r")
                   | 'A' -> let m = getq (rest tok) in (GAugment m, Some m)
                   | 'W' -> (GAugmentSelf, Some !g.cov_)
                   | _ -> failwith ("drv_C11: bad op " ^ tok)
                 in
                 if not (gop_defined fops op !g) then undefined k;
                 let ret = match qm with Some m -> if fst (gm_augment fops m !g) then 1 else 0 | None -> 1 in
                 g := gm_apply fops junk op !g;
                 dump_gm k !g ret;
                 Caseio.out_int (Printf.sprintf "%d.defined" k) 1;
                 dump_acc k !g)
               ops
         | "gauss" ->
             let g = ref (gauss_ctor fops (i2n l) (i2n ci) q) in
             dump_gm 0 !g 1;
             dump_acc 0 !g;
             dump_gauss_acc 0 !g;
             List.iteri
               (fun k0 tok ->
                 let k = k0 + 1 in
                 let op, qm =
                   match tok.[0] with
                   | 'F' -> (NFill (z_of_string (rest tok)), None)
                   | 'C' | 'S' | 'M' -> (NCopy, None)
                   | 'R' -> (match ints (rest tok) with [ b; d ] -> (NResize (i2n b, i2n d), None) | _ -> failwith "bad R")
                   | 'r' -> (match ints (rest tok) with [ b ] -> (NResize (i2n b, i2n 0), None) | _ -> failwith "bad r")
                   | 'B' -> (match ints (rest tok) with [ a; b; d ] -> (NResizeBase (i2n a, i2n b, i2n d), None) | _ -> failwith "bad B")
                   | 'A' -> let m = getq (rest tok) in (NAugment m, Some m)
                   | 'W' -> (NAugmentSelf, Some !g.cov_)
                   | _ -> failwith ("drv_C11: bad op " ^ tok)
                 in
                 if not (gaussop_defined fops op !g) then undefined k;
                 let ret = match qm with Some m -> if fst (gm_augment fops m !g) then 1 else 0 | None -> 1 in
                 g := gauss_apply fops junk op !g;
                 dump_gm k !g ret;
                 Caseio.out_int (Printf.sprintf "%d.defined" k) 1;
                 dump_acc k !g;
                 dump_gauss_acc k !g)
               ops
         | "pset" ->
             let p = ref (ps_ctor fops (i2n cc) (i2n l) (i2n ci) q) in
             dump_ps 0 !p 1;
             let fresh s =
               match ints s with
               | [ a; b; d; qq; base ] -> ps_apply fops junk (PFill (z_of_int base)) (ps_ctor fops (i2n a) (i2n b) (i2n d) (qq <> 0))
               | _ -> failwith "drv_C11: bad rhs"
             in
             List.iteri
               (fun k0 tok ->
                 let k = k0 + 1 in
                 let op, qm =
                   match tok.[0] with
                   | 'F' -> (PFill (z_of_string (rest tok)), None)
                   | 'C' | 'S' | 'M' -> (PCopy, None)
                   | 'R' -> (match ints (rest tok) with [ a; b; d ] -> (PResize (i2n a, i2n b, i2n d), None) | _ -> failwith "bad R")
                   | 'r' -> (match ints (rest tok) with [ a; b ] -> (PResize (i2n a, i2n b, i2n 0), None) | _ -> failwith "bad r")
                   | 'A' -> let m = getq (rest tok) in (PAugment m, Some m)
                   | 'W' -> (PAugmentSelf, Some !p.base.cov_)
                   | 'P' -> (PConcat (fresh (rest tok)), None)
                   | 'Q' -> (PPlus (fresh (rest tok)), None)
                   | 'D' -> (PConcat (ps_apply fops junk PCopy !p), None)   (* += a copy of itself *)
                   | 'E' -> (PPlus !p, None)                                (* x + x: the left operand is copied *)
                   | 'Z' -> (PConcatSelf, None)                             (* x += x *)
                   | _ -> failwith ("drv_C11: bad op " ^ tok)
                 in
                 if not (pop_defined fops junk op !p) then undefined k;
                 let ret = match qm with Some m -> if fst (ps_augment fops m !p) then 1 else 0 | None -> 1 in
                 p := ps_apply fops junk op !p;
                 dump_ps k !p ret;
                 Caseio.out_int (Printf.sprintf "%d.defined" k) 1)
               ops
         | k -> failwith ("drv_C11: unknown kind " ^ k)
       with Stop -> ());
      Caseio.out_end ())
    cases
