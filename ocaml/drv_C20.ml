(* drv_C20.ml — driver: runs the extracted C20 model (ownership machine of
   bfl::any::any) and its value-level specification on operation words.
   Case: int pool N; word ops tok ...   (token syntax: see props/C20.py)
   Output per step k: word r<k> (heap machine) and word s<k> (value-level spec):
     <result> <slot 0> ... <slot N-1> L<live probe>,<live mprobe>
   and at the end, after destroying every container: word rfin / sfin. *)
let ntypes = 7

let parse_op (tok : string) : op =
  let p = String.split_on_char ':' tok in
  let n s = nat_of_int (int_of_string s) and zv s = z_of_int (int_of_string s) in
  match p with
  | [ "def"; d ] -> ODefault (n d)
  | [ "val"; d; t; v ] -> OValue (false, n d, n t, zv v)
  | [ "valmv"; d; t; v ] -> OValue (true, n d, n t, zv v)
  | [ ("cpy" | "cpyn"); d; s ] -> OCopyCtor (n d, n s)
  | [ "mov"; d; s ] -> OMoveCtor (n d, n s)
  | [ ("cas" | "casn"); d; s ] -> OCopyAssign (n d, n s)
  | [ "mas"; d; s ] -> OMoveAssign (n d, n s)
  | [ "vas"; d; t; v ] -> OValueAssign (false, n d, n t, zv v)
  | [ "vasmv"; d; t; v ] -> OValueAssign (true, n d, n t, zv v)
  | [ "rst"; d ] -> OReset (n d)
  | [ "swp"; d; s ] -> OSwap (false, n d, n s)
  | [ "swpf"; d; s ] -> OSwap (true, n d, n s)
  | [ "del"; d ] -> ODestroy (n d)
  | [ "has"; d ] -> OHasValue (n d)
  | [ "typ"; d ] -> OType (n d)
  | [ "cp"; d; t ] -> OCastPtr (n d, n t)
  | [ "ccp"; d; t ] -> OCastCPtr (n d, n t)
  | [ "cv"; d; t ] -> OCastVal (n d, n t)
  | [ "cr"; d; t ] -> OCastRef (n d, n t)
  | [ "ccv"; d; t ] -> OCastCVal (n d, n t)
  | [ "crv"; d; t ] -> OCastRVal (n d, n t)
  | [ "setp"; d; t; v ] -> OSetPtr (n d, n t, zv v)
  | [ "setr"; d; t; v ] -> OSetRef (n d, n t, zv v)
  | [ "cpq"; d; t ] -> OCastPtrCq (n d, n t)
  | [ "crq"; d; t ] -> OCastRefCq (n d, n t)
  | [ "xv"; d; t; m ] -> OCastXVal (false, n d, n t, m <> "0")
  | [ "xa"; d; t; m ] -> OCastXVal (true, n d, n t, m <> "0")
  | [ "valx"; d; t; v ] -> OValueThrow (n d, n t, zv v)
  | [ "vasx"; d; t; v ] -> OValueAssignThrow (n d, n t, zv v)
  | [ "cpyx"; d; s; tx ] -> OCopyCtorArmed (n d, n s, n tx)
  | [ "casx"; d; s; tx ] -> OCopyAssignArmed (n d, n s, n tx)
  | _ -> failwith ("drv_C20: bad op token " ^ tok)

let res_tok (r : result) : string =
  match r with
  | RUnit -> "unit"
  | RSkip -> "skip"
  | RBool b -> if b then "b1" else "b0"
  | RType None -> "tvoid"
  | RType (Some t) -> Printf.sprintf "t%d" (int_of_nat t)
  | RPtr None -> "pnull"
  | RPtr (Some (Some v)) -> Printf.sprintf "p%d" (int_of_z v)
  | RPtr (Some None) -> "pm"
  | RVal (Some v) -> Printf.sprintf "v%d" (int_of_z v)
  | RVal None -> "vm"
  | RThrow -> "throw"
  | RExn -> "exn"
  | RFault (DoubleFree _) -> "fault-double-free"
  | RFault (UseAfterFree _) -> "fault-use-after-free"

(* short outcome letters used inside a slot token *)
let short (r : result) : string =
  match r with
  | RPtr None -> "n"
  | RPtr (Some (Some v)) | RVal (Some v) -> string_of_int (int_of_z v)
  | RPtr (Some None) | RVal None -> "m"
  | RThrow -> "x"
  | RExn -> "exn"
  | RBool b -> if b then "1" else "0"
  | RType None -> "void"
  | RType (Some t) -> string_of_int (int_of_nat t)
  | RFault _ -> "F"
  | RSkip -> "skip"
  | RUnit -> "unit"

(* a slot as the harness observes it: only through the public queries, each
   answered by `ask` (the model's own step on the heap machine, or spec_step
   on the list of values) *)
let slot_tok (ask : op -> result) (i : int) : string =
  let d = nat_of_int i in
  match ask (OHasValue d) with
  | RSkip -> "D"
  | hv ->
      let b = Buffer.create 64 in
      Buffer.add_string b ("h" ^ short hv ^ ".t" ^ short (ask (OType d)) ^ ".");
      for t = 0 to ntypes - 1 do
        let t' = nat_of_int t in
        if t > 0 then Buffer.add_char b '/';
        Buffer.add_string b
          (String.concat ","
             [ short (ask (OCastPtr (d, t'))); short (ask (OCastCPtr (d, t'))); short (ask (OCastPtrCq (d, t')));
               short (ask (OCastVal (d, t'))); short (ask (OCastCVal (d, t'))); short (ask (OCastRefCq (d, t'))) ])
      done;
      Buffer.contents b

let count_holds (vs : view list) (t : int) : int =
  List.length (List.filter (fun x -> match x with VHolds (t', _) -> int_of_nat t' = t | _ -> false) vs)

(* constructions of probe-type objects among the newest k events of the log:
   all of type 4 (Probe has no move constructor), copies and moves of type 5 (MProbe), all of type 6 *)
let rec take k l = if k <= 0 then [] else match l with [] -> [] | x :: r -> x :: take (k - 1) r
let k_tok (evs : (nat * bool) list) : string =
  let c p = List.length (List.filter p evs) in
  Printf.sprintf "K%d,%d,%d,%d"
    (c (fun (t, _) -> int_of_nat t = 4))
    (c (fun (t, m) -> int_of_nat t = 5 && not m))
    (c (fun (t, m) -> int_of_nat t = 5 && m))
    (c (fun (t, _) -> int_of_nat t = 6))

let () =
  let cases = Caseio.read_records "case" stdin in
  List.iter
    (fun (c : Caseio.case) ->
      let n = Caseio.get_int c "pool" in
      let ops = List.map parse_op (Caseio.get_word c "ops") in
      Caseio.out_begin c.id;
      let st = ref (init (nat_of_int n)) in
      let vs = ref (views !st) in
      List.iteri
        (fun k o ->
          let before = List.length (st_ctors !st) in
          let st', r = step o !st in
          st := st';
          let evs = take (List.length (st_ctors !st) - before) (st_ctors !st) in
          let line ask res l4 l5 l6 =
            (res_tok res :: List.init n (slot_tok ask)) @ [ Printf.sprintf "L%d,%d,%d" l4 l5 l6 ]
          in
          let lc t = int_of_nat (live_count (nat_of_int t) !st) in
          Caseio.out_word (Printf.sprintf "r%d" k) (line (fun q -> snd (step q !st)) r (lc 4) (lc 5) (lc 6) @ [ k_tok evs ]);
          let vs', sr = spec_step o !vs in
          vs := vs';
          Caseio.out_word (Printf.sprintf "s%d" k)
            (line (fun q -> snd (spec_step q !vs)) sr (count_holds !vs 4) (count_holds !vs 5) (count_holds !vs 6)))
        ops;
      let fin = destroy_all !st in
      let sorted l = List.sort compare (List.map int_of_nat l) in
      Caseio.out_int "heap_after_destroy_all" (List.length (st_heap fin));
      Caseio.out_int "destroyed_eq_allocated" (if sorted (st_alog fin) = sorted (st_dlog fin) then 1 else 0);
      Caseio.out_int "allocations" (List.length (st_alog fin));
      Caseio.out_int "faults" (List.length (st_faults fin));
      Caseio.out_int "views_agree" (if views !st = !vs then 1 else 0);
      Caseio.out_end ())
    cases
