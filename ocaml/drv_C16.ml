(* drv_C16.ml — driver: runs the extracted C16 model (shipped models and
   initialisers) on the case file given on stdin.  Operands as documented in
   cpp/h_C16.cpp.  Sys.argv.(1) is the implementation's output: the model takes
   from it (a) the standard-normal draws mirrored by the harness (`draws`,
   `draws2`) and (b) the LDLT-type factors, which are oracles of the model:
   sqrt_R_ directly (`sqrtR`), sqrt_Q_ observed as probeS * probeZ^-1. *)
let impl : (string, Caseio.case) Hashtbl.t = Hashtbl.create 1024
let () =
  if Array.length Sys.argv > 1 then begin
    let ic = open_in Sys.argv.(1) in
    List.iter (fun (r : Caseio.case) -> Hashtbl.replace impl r.id r) (Caseio.read_records "out" ic);
    close_in ic
  end

let n_ = nat_of_int
let dim_of k = if k = 1 then OneD else if k = 2 then TwoD else ThreeD
let shape (m : float array array) = (Array.length m, mat_cols m)
let objs_of_row (m : float array array) : Obj.t list =
  if Array.length m = 0 then [] else Array.to_list (Array.map ob m.(0))
let out_lmx name r c (l : Obj.t list list) = Caseio.out_mat_shape name r c (mat_of_lmx l)
let no_sq : nat -> lmx -> lmx = fun _ a -> a
let const_sq (l : lmx) : nat -> lmx -> lmx = fun _ _ -> l
let ints_of_words ws = List.map int_of_string ws

let lti_err_name = function
  | ErrFEmpty -> "FEmpty" | ErrQEmpty -> "QEmpty" | ErrFNotSquare -> "FNotSquare"
  | ErrQNotSquare -> "QNotSquare" | ErrFQMismatch -> "FQMismatch"
let meas_err_name = function
  | ErrHEmpty -> "HEmpty" | ErrREmpty -> "REmpty" | ErrRNotSquare -> "RNotSquare"
  | ErrHRMismatch -> "HRMismatch" | ErrIndex (_, _) -> "Index"

(* the factor the implementation samples with, observed on a twin instance:
   probeS = L * probeZ  (probeZ square, standard-normal, invertible a.s.) *)
let observed_L (r : Caseio.case) d : lmx option =
  if Caseio.has r "probeS" && Caseio.has r "probeZ" then begin
    let s = Caseio.get_mat r "probeS" and z = Caseio.get_mat r "probeZ" in
    if shape s = (d, d) && shape z = (d, d) then
      Some (lmul fops (n_ d) (n_ d) (n_ d) (lmx_of_mat s) (linv fops (n_ d) (lmx_of_mat z)))
    else None
  end else None

let run_wna (c : Caseio.case) (r : Caseio.case option) =
  let dim = Caseio.get_int c "dim" in
  let tq = Caseio.get_mat c "Tq" in
  let ts = ob tq.(0).(0) and q = ob tq.(0).(1) in
  let d = 2 * dim and dm = dim_of dim in
  out_lmx "F" d d (c16_wna_F fops no_sq dm ts);
  out_lmx "Q" d d (c16_wna_Q fops no_sq dm ts q);
  Caseio.out_int "state_size" (int_of_nat (dim_n dm));
  match r with
  | None -> ()
  | Some r ->
    (match observed_L r d with
     | None -> Caseio.out_int "no_factor" 1
     | Some l ->
       let sq = const_sq l in
       out_lmx "L" d d (c16_wna_sqrtQ fops sq dm ts q);
       out_lmx "LLt" d d (c16_LLt fops sq (n_ d) l);
       let zs = ref (if Caseio.has r "draws" then objs_of_row (Caseio.get_mat r "draws") else []) in
       List.iteri
         (fun k op ->
           let name = Printf.sprintf "r%d" k in
           let arg = int_of_string (String.sub op 1 (String.length op - 1)) in
           let getters () =
             out_lmx (name ^ "_F") d d (c16_wna_F fops no_sq dm ts);
             out_lmx (name ^ "_Q") d d (c16_wna_Q fops no_sq dm ts q);
             Caseio.out_int (name ^ "_ss") (int_of_nat (dim_n dm)) in
           match op.[0] with
           (* setSamplingTime is the base-class no-op; a moved model is the model it was moved from *)
           | 's' -> Caseio.out_int (name ^ "_ret") 1; getters ()
           | 'c' | 'a' | 'v' -> getters ()
           | 'n' ->
             let (s, rest) = c16_wna_noise fops sq dm ts q (n_ arg) !zs in
             zs := rest; out_lmx name d arg s
           | 'm' | 'b' ->
             let x = Caseio.get_mat c (Printf.sprintf "X%d" arg) in
             let cols = mat_cols x in
             let (y, rest) = c16_wna_motion fops sq dm ts q (n_ cols) (lmx_of_mat x) !zs in
             zs := rest; out_lmx name d cols y
           | 't' | 'u' ->
             let p = Caseio.get_mat c (Printf.sprintf "P%d" arg) and cu = Caseio.get_mat c (Printf.sprintf "C%d" arg) in
             let cols = mat_cols p in
             let v = c16_wna_tp fops sq dm ts q (n_ cols) (lmx_of_mat p) (lmx_of_mat cu) in
             Caseio.out_mat_shape name cols 1 (col_of_lvec v);
             let sv = c16_spec_tp fops sq dm ts q (n_ cols) (lmx_of_mat p) (lmx_of_mat cu) in
             Caseio.out_mat_shape ("spec_" ^ name) cols 1 (col_of_lvec sv)
           | _ -> ())
         (Caseio.get_word c "script");
       Caseio.out_int "draws_left" (List.length !zs))

let run_lti_state (c : Caseio.case) =
  let f = Caseio.get_mat c "F" and q = Caseio.get_mat c "Q" in
  let (fr, fc) = (Caseio.meta_int c "fr", Caseio.meta_int c "fc") and (qr, qc) = (Caseio.meta_int c "qr", Caseio.meta_int c "qc") in
  match c16_lti_state fops no_sq (n_ fr) (n_ fc) (n_ qr) (n_ qc) (lmx_of_mat f) (lmx_of_mat q) with
  | Inl e -> Caseio.out_str "result" (lti_err_name e)
  | Inr (f', q') ->
    Caseio.out_str "result" "ok";
    out_lmx "F" fr fc f'; out_lmx "Q" qr qc q'; out_lmx "J" fr fc f';
    out_lmx "F_after" fr fc f'; out_lmx "Q_after" qr qc q'

let run_lti_meas (c : Caseio.case) =
  let h = Caseio.get_mat c "H" and r = Caseio.get_mat c "R" in
  let (hr, hc) = (Caseio.meta_int c "hr", Caseio.meta_int c "hc") and (rr, rc) = (Caseio.meta_int c "rr", Caseio.meta_int c "rc") in
  match c16_lti_meas fops no_sq (n_ hr) (n_ hc) (n_ rr) (n_ rc) (lmx_of_mat h) (lmx_of_mat r) with
  | Inl e -> Caseio.out_str "result" (meas_err_name e)
  | Inr (h', r') ->
    Caseio.out_str "result" "ok";
    out_lmx "H" hr hc h'; out_lmx "R" rr rc r'

let impl_mat (r : Caseio.case option) name : lmx option =
  match r with
  | Some r when Caseio.has r name -> Some (lmx_of_mat (Caseio.get_mat r name))
  | _ -> None

(* LinearModel constructor at the model level; returns (H, sqrtR, m) on success *)
let linear_model (c : Caseio.case) (r : Caseio.case option) n : (lmx * lmx * int) option =
  let rm = Caseio.get_mat c "R" in
  let (rr, rc) = (Caseio.meta_int c "rr", Caseio.meta_int c "rc") in
  let idxs = ints_of_words (Caseio.get_word c "idxs") in
  let m = List.length idxs in
  let sq = match impl_mat r "sqrtR" with Some l -> const_sq l | None -> no_sq in
  match c16_linear_model fops sq (n_ n) (List.map n_ idxs) (n_ rr) (n_ rc) (lmx_of_mat rm) with
  | Inl e ->
    Caseio.out_str "result" (meas_err_name e);
    (match e with
     | ErrIndex (pos, v) -> Caseio.out_int "err_pos" (int_of_nat pos); Caseio.out_int "err_value" (int_of_nat v); Caseio.out_int "err_bound" n
     | _ -> ());
    None
  | Inr ((h, r'), l) ->
    Caseio.out_str "result" "ok";
    out_lmx "H" m n h; out_lmx "R" rr rc r'; out_lmx "sqrtR" rr rr l;
    out_lmx "LLt" rr rr (c16_LLt fops no_sq (n_ rr) l);
    Some (h, l, m)

let run_linmodel (c : Caseio.case) (r : Caseio.case option) =
  let n = Caseio.get_int c "n" in
  match linear_model c r n with
  | None -> ()
  | Some (_, l, m) ->
    (match r with
     | Some r when Caseio.has r "draws" ->
       let zs = ref (objs_of_row (Caseio.get_mat r "draws")) in
       List.iteri
         (fun k s ->
           let num = int_of_string s in
           let (w, rest) = c16_noise fops no_sq (n_ m) l (n_ num) !zs in
           zs := rest; out_lmx (Printf.sprintf "r%d" k) m num w)
         (Caseio.get_word c "nums");
       Caseio.out_int "draws_left" (List.length !zs)
     | _ -> ())

let out_data name d (x : lmx option) =
  match x with
  | None -> Caseio.out_int (name ^ "_empty") 1
  | Some v -> Caseio.out_int (name ^ "_empty") 0; out_lmx name d 1 v

let run_sim (c : Caseio.case) (r : Caseio.case option) with_sensor =
  let dim = Caseio.get_int c "dim" in
  let tq = Caseio.get_mat c "Tq" in
  let ts = ob tq.(0).(0) and q = ob tq.(0).(1) in
  let d = 2 * dim and dm = dim_of dim in
  let len = Caseio.get_int c "len" in
  let x0 = lmx_of_mat (Caseio.get_mat c "x0") in
  match r with
  | None -> ()
  | Some r ->
    (match (if len = 0 then Some [] else observed_L r d) with
     | None -> Caseio.out_int "no_factor" 1
     | Some l ->
       let zs = if Caseio.has r "draws" then objs_of_row (Caseio.get_mat r "draws") else [] in
       (match c16_sim_ctor fops (const_sq l) dm ts q x0 (n_ len) zs with
        | Inl _ -> Caseio.out_str "ctor" "throws_empty"   (* the one-constructor type sim_err is erased by extraction *)
        | Inr st ->
          Caseio.out_str "ctor" "ok";
          let tr = c16_sim_target fops no_sq (n_ d) st in
          List.iteri (fun k x -> out_lmx (Printf.sprintf "x%d" k) d 1 x) tr;
          Caseio.out_int "traj_len" (List.length tr);
          if not with_sensor then begin
            out_data "data_init" d None;
            let ops = List.map (fun s -> if s = "b" then SimBuffer else if s = "r" then SimReset else SimOther) (Caseio.get_word c "ops") in
            List.iteri
              (fun k (b, dt) ->
                Caseio.out_int (Printf.sprintf "ret%d" k) (if b then 1 else 0);
                out_data (Printf.sprintf "data%d" k) d dt)
              (c16_sim_run fops no_sq (n_ d) st ops)
          end else begin
            match linear_model c (Some r) d with
            | None -> ()
            | Some (h, lr, m) ->
              let (inp, meas) = c16_sensor_descs fops no_sq (n_ m) (n_ d) h (n_ d) (n_ 0) (n_ (Caseio.meta_int c "rr")) in
              Caseio.out_int "input_size" (int_of_nat (desc_total inp));
              Caseio.out_int "input_noise" (int_of_nat inp.d_noise);
              Caseio.out_int "meas_size" (int_of_nat (desc_total meas));
              Caseio.out_int "meas_lin" (int_of_nat meas.d_lin);
              Caseio.out_int "meas_circ" (int_of_nat meas.d_circ);
              let zs2 = if Caseio.has r "draws2" then objs_of_row (Caseio.get_mat r "draws2") else [] in
              let ops = List.map (fun s -> if s = "f" then SensFreeze else if s = "r" then SensReset else SensOther) (Caseio.get_word c "ops") in
              List.iteri
                (fun k (b, ms) ->
                  Caseio.out_int (Printf.sprintf "ret%d" k) (if b then 1 else 0);
                  match ms with
                  | None -> Caseio.out_mat_shape (Printf.sprintf "meas%d" k) 0 0 [||]
                  | Some v -> out_lmx (Printf.sprintf "meas%d" k) m 1 v)
                (c16_sensor_run fops no_sq (n_ d) (n_ m) h lr st zs2 ops)
          end))

let run_grid (c : Caseio.case) =
  let a = Caseio.get_mat c "area" in
  let nx = Caseio.get_int c "nx" and ny = Caseio.get_int c "ny" and np = Caseio.get_int c "np" in
  let st0 = Caseio.get_mat c "st0" and w0 = Caseio.get_mat c "w0" in
  let (xi, xs, yi, ys) =
    if Caseio.get_int c "ctor4" <> 0 then (0.0, a.(0).(1), 0.0, a.(0).(3)) else (a.(0).(0), a.(0).(1), a.(0).(2), a.(0).(3)) in
  match c16_grid fops no_sq (ob xi) (ob xs) (ob yi) (ob ys) (n_ nx) (n_ ny) (n_ 4) (n_ np) (lmx_of_mat st0) (lmx_of_mat w0) with
  | None ->
    Caseio.out_int "ret" 0;
    Caseio.out_mat_shape "state" 4 np st0; Caseio.out_mat_shape "weight" np 1 w0
  | Some (s, w) ->
    Caseio.out_int "ret" 1;
    out_lmx "state" 4 np s; out_lmx "weight" np 1 w

(* SimulatedStateModel (and a sensor) over a user-defined additive linear model x -> F x + w_k *)
let run_ltisim (c : Caseio.case) (r : Caseio.case option) =
  let lin = Caseio.get_int c "lin" and circ = Caseio.get_int c "circ" and len = Caseio.get_int c "len" in
  let n = lin + circ in
  let f = lmx_of_mat (Caseio.get_mat c "F") and x0 = lmx_of_mat (Caseio.get_mat c "x0") in
  let w = Caseio.get_mat c "W" in
  (* column-major: the k-th group of n draws is column k of W *)
  let zs = List.concat (List.init (mat_cols w) (fun j -> List.init n (fun i -> ob w.(i).(j)))) in
  match c16_lti_sim_ctor fops no_sq (n_ n) f x0 (n_ len) zs with
  | Inl _ -> Caseio.out_str "ctor" "throws_empty"
  | Inr st ->
    let tr = c16_sim_target fops no_sq (n_ n) st in
    List.iteri (fun k x -> out_lmx (Printf.sprintf "x%d" k) n 1 x) tr;
    let words = Caseio.get_word c "ops" in
    let sim_ops = List.map (fun s -> if s = "b" || s = "f" then SimBuffer else if s = "r" then SimReset else SimOther) words in
    List.iteri
      (fun k (b, dt) ->
        Caseio.out_int (Printf.sprintf "ret%d" k) (if b then 1 else 0);
        out_data (Printf.sprintf "data%d" k) n dt)
      (c16_sim_run fops no_sq (n_ n) st sim_ops);
    if Caseio.get_int c "sensor" <> 0 then begin
      match r with
      | None -> ()
      | Some r ->
        (match linear_model c (Some r) n with
         | None -> ()
         | Some (h, lr, m) ->
           let (inp, meas) = c16_sensor_descs fops no_sq (n_ m) (n_ n) h (n_ lin) (n_ circ) (n_ (Caseio.meta_int c "rr")) in
           Caseio.out_int "input_size" (int_of_nat (desc_total inp));
           Caseio.out_int "input_lin" (int_of_nat inp.d_lin);
           Caseio.out_int "input_circ" (int_of_nat inp.d_circ);
           Caseio.out_int "input_noise" (int_of_nat inp.d_noise);
           Caseio.out_int "meas_size" (int_of_nat (desc_total meas));
           Caseio.out_int "meas_lin" (int_of_nat meas.d_lin);
           Caseio.out_int "meas_circ" (int_of_nat meas.d_circ);
           let zs2 = if Caseio.has r "draws2" then objs_of_row (Caseio.get_mat r "draws2") else [] in
           let ops = List.map (fun s -> if s = "f" then SensFreeze else if s = "r" then SensReset else SensOther) words in
           List.iteri
             (fun k (_, ms) ->
               match ms with
               | None -> Caseio.out_mat_shape (Printf.sprintf "meas%d" k) 0 0 [||]
               | Some v -> out_lmx (Printf.sprintf "meas%d" k) m 1 v)
             (c16_sensor_run fops no_sq (n_ n) (n_ m) h lr st zs2 ops))
    end

(* one pair of initialisers over a pool of particle sets: the content of a set before each call is
   read from the implementation's record (pre_state<k>, pre_weight<k>) *)
let run_gridseq (c : Caseio.case) (r : Caseio.case option) =
  match r with
  | None -> ()
  | Some r ->
    let init i =
      let t = string_of_int i in
      let a = Caseio.get_mat c ("area" ^ t) in
      let nx = Caseio.get_int c ("nx" ^ t) and ny = Caseio.get_int c ("ny" ^ t) in
      if Caseio.get_int c ("ctor4_" ^ t) <> 0 then (0.0, a.(0).(1), 0.0, a.(0).(3), nx, ny) else (a.(0).(0), a.(0).(1), a.(0).(2), a.(0).(3), nx, ny) in
    for k = 0 to Caseio.get_int c "steps" - 1 do
      let t = string_of_int k in
      if Caseio.has r ("pre_state" ^ t) && Caseio.has r ("pre_weight" ^ t) then begin
        let st0 = Caseio.get_mat r ("pre_state" ^ t) and w0 = Caseio.get_mat r ("pre_weight" ^ t) in
        let s_ = string_of_int (Caseio.get_int c ("set" ^ t)) in
        let rows = Caseio.get_int c ("rows" ^ s_) and np = Caseio.get_int c ("np" ^ s_) in
        let (xi, xs, yi, ys, nx, ny) = init (Caseio.get_int c ("init" ^ t)) in
        match c16_grid fops no_sq (ob xi) (ob xs) (ob yi) (ob ys) (n_ nx) (n_ ny) (n_ rows) (n_ np) (lmx_of_mat st0) (lmx_of_mat w0) with
        | None ->
          Caseio.out_int ("ret" ^ t) 0;
          Caseio.out_mat_shape ("state" ^ t) rows np st0; Caseio.out_mat_shape ("weight" ^ t) np 1 w0
        | Some (s, w) ->
          Caseio.out_int ("ret" ^ t) 1;
          out_lmx ("state" ^ t) rows np s; out_lmx ("weight" ^ t) np 1 w
      end
    done

let () =
  let cases = Caseio.read_records "case" stdin in
  List.iter
    (fun (c : Caseio.case) ->
      let r = Hashtbl.find_opt impl c.id in
      Caseio.out_begin c.id;
      (match c.kind with
       | "wna" -> run_wna c r
       | "lti_state" -> run_lti_state c
       | "lti_meas" -> run_lti_meas c
       | "linmodel" -> run_linmodel c r
       | "sim" -> run_sim c r false
       | "sensor" -> run_sim c r true
       | "grid" -> run_grid c
       | "gridseq" -> run_gridseq c r
       | "ltisim" -> run_ltisim c r
       | _ -> ());
      Caseio.out_end ())
    cases
