(* drv_C19.ml — driver: runs the extracted C19 model (directional statistics)
   on the case file given on stdin.  Same operands as cpp/h_C19.cpp. *)
let mean_of (a : float array array) (w : float array array) =
  col_of_lvec (c19_mean fops (nat_of_int (mat_cols a)) (lmx_of_mat a) (lvec_of_col w))

let () =
  let cases = Caseio.read_records "case" stdin in
  List.iter
    (fun (c : Caseio.case) ->
      Caseio.out_begin c.id;
      (match c.kind with
       | "add" | "sub" ->
           let f = if c.kind = "add" then c19_add fops else c19_sub fops in
           let a = Caseio.get_mat c "a" and b = Caseio.get_mat c "b" in
           let rows = Array.length a and cols = mat_cols a in
           Caseio.out_mat_shape "res" rows cols (mat_of_lmx (f (lmx_of_mat a) (lvec_of_col b)));
           if Caseio.has c "a2" then begin
             let a2 = Caseio.get_mat c "a2" and b2 = Caseio.get_mat c "b2" in
             Caseio.out_mat_shape "res2" rows cols (mat_of_lmx (f (lmx_of_mat a2) (lvec_of_col b2)))
           end
       | "mean" ->
           let a = Caseio.get_mat c "a" and w = Caseio.get_mat c "w" in
           Caseio.out_mat_shape "res" (Array.length a) 1 (mean_of a w);
           List.iter
             (fun (nm, out) -> if Caseio.has c nm then Caseio.out_mat_shape out (Array.length a) 1 (mean_of (Caseio.get_mat c nm) w))
             [ ("a2", "res2"); ("a3", "res3") ];
           (* spec-level value: weighted resultant of each row (real, imaginary) *)
           let rs = Array.map (fun row ->
                        let (re, im) = c19_resultant fops (Array.to_list (Array.map ob row)) (lvec_of_col w) in
                        [| fl re; fl im |]) a in
           Caseio.out_mat_shape "resultant" (Array.length a) 2 rs
       | _ -> ());
      Caseio.out_end ())
    cases
