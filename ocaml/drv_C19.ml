(* drv_C19.ml — driver: runs the extracted C19 model (directional statistics)
   on the case file given on stdin.  Same operands as cpp/h_C19.cpp.
   Result matrices are printed with the model's OWN shape (rows = number of
   result rows, columns = width of the first row; a matrix without rows has no
   width in the list-of-rows representation and is printed as 0 x 0). *)
let out_model_mat name (l : Obj.t list list) =
  let rows = List.length l in
  let cols = match l with [] -> 0 | r :: _ -> List.length r in
  Caseio.out_mat_shape name rows cols (mat_of_lmx l)
let out_model_col name (l : Obj.t list) =
  Caseio.out_mat_shape name (List.length l) (if l = [] then 0 else 1) (col_of_lvec l)

let mean_of (a : float array array) (w : float array array) =
  c19_mean fops (nat_of_int (mat_cols a)) (lmx_of_mat a) (lvec_of_col w)

let () =
  let cases = Caseio.read_records "case" stdin in
  List.iter
    (fun (c : Caseio.case) ->
      Caseio.out_begin c.id;
      (match c.kind with
       | "add" | "sub" ->
           let f = if c.kind = "add" then c19_add fops else c19_sub fops in
           let a = Caseio.get_mat c "a" and b = Caseio.get_mat c "b" in
           out_model_mat "res" (f (lmx_of_mat a) (lvec_of_col b));
           if Caseio.has c "a2" then begin
             let a2 = Caseio.get_mat c "a2" and b2 = Caseio.get_mat c "b2" in
             out_model_mat "res2" (f (lmx_of_mat a2) (lvec_of_col b2))
           end
       | "mean" ->
           let a = Caseio.get_mat c "a" and w = Caseio.get_mat c "w" in
           out_model_col "res" (mean_of a w);
           List.iter
             (fun (nm, out) -> if Caseio.has c nm then out_model_col out (mean_of (Caseio.get_mat c nm) w))
             [ ("a2", "res2"); ("a3", "res3") ];
           (* spec-level value: weighted resultant of each row (real, imaginary) *)
           let rs = Array.map (fun row ->
                        let (re, im) = c19_resultant fops (Array.to_list (Array.map ob row)) (lvec_of_col w) in
                        [| fl re; fl im |]) a in
           Caseio.out_mat_shape "resultant" (Array.length a) 2 rs
       | _ -> ());
      Caseio.out_end ())
    cases
