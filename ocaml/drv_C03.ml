(* drv_C03.ml — driver: runs the extracted C03 model (unscented transform) on the
   case file given on stdin.  The two matrix oracles of the model (square-root
   factor A with A A^T = P, dominant eigenvector of a symmetric matrix) are a
   cyclic Jacobi eigen-iteration written here; their contracts are checked on
   every call and the worst residual is printed with the case. *)

(* ---- symmetric Jacobi: returns (eigenvalues, eigenvectors as columns) ---- *)
let jacobi (a0 : float array array) : float array * float array array =
  let n = Array.length a0 in
  let a = Array.map Array.copy a0 in
  let v = Array.init n (fun i -> Array.init n (fun j -> if i = j then 1.0 else 0.0)) in
  let off () =
    let s = ref 0.0 in
    for i = 0 to n - 1 do for j = 0 to n - 1 do if i <> j then s := !s +. a.(i).(j) *. a.(i).(j) done done; !s in
  let scale = ref 0.0 in
  for i = 0 to n - 1 do for j = 0 to n - 1 do scale := !scale +. a.(i).(j) *. a.(i).(j) done done;
  let sweeps = ref 0 in
  while !sweeps < 60 && off () > 1e-32 *. !scale do
    incr sweeps;
    for p = 0 to n - 2 do
      for q = p + 1 to n - 1 do
        if a.(p).(q) <> 0.0 then begin
          let theta = (a.(q).(q) -. a.(p).(p)) /. (2.0 *. a.(p).(q)) in
          let t = (if theta >= 0.0 then 1.0 else -1.0) /. (abs_float theta +. sqrt (theta *. theta +. 1.0)) in
          let c = 1.0 /. sqrt (t *. t +. 1.0) in
          let s = t *. c in
          for k = 0 to n - 1 do
            let akp = a.(k).(p) and akq = a.(k).(q) in
            a.(k).(p) <- c *. akp -. s *. akq;
            a.(k).(q) <- s *. akp +. c *. akq
          done;
          for k = 0 to n - 1 do
            let apk = a.(p).(k) and aqk = a.(q).(k) in
            a.(p).(k) <- c *. apk -. s *. aqk;
            a.(q).(k) <- s *. apk +. c *. aqk
          done;
          for k = 0 to n - 1 do
            let vkp = v.(k).(p) and vkq = v.(k).(q) in
            v.(k).(p) <- c *. vkp -. s *. vkq;
            v.(k).(q) <- s *. vkp +. c *. vkq
          done
        end
      done
    done
  done;
  (Array.init n (fun i -> a.(i).(i)), v)

let sqrt_residual = ref 0.0
let eig_residual = ref 0.0
let oracle_calls = ref 0

let maxabs (m : float array array) = Array.fold_left (fun acc r -> Array.fold_left (fun a x -> max a (abs_float x)) acc r) 0.0 m

(* A = V sqrt(max(lambda, 0)) *)
let sq_oracle (_ : nat) (p : Obj.t list list) : Obj.t list list =
  let pm = mat_of_lmx p in
  let n = Array.length pm in
  if n = 0 then p else begin
    let sym = Array.init n (fun i -> Array.init n (fun j -> 0.5 *. (pm.(i).(j) +. pm.(j).(i)))) in
    let (ev, v) = jacobi sym in
    let a = Array.init n (fun i -> Array.init n (fun j -> v.(i).(j) *. sqrt (max ev.(j) 0.0))) in
    (* contract: A A^T = P *)
    let r = ref 0.0 in
    for i = 0 to n - 1 do for j = 0 to n - 1 do
      let s = ref 0.0 in
      for k = 0 to n - 1 do s := !s +. a.(i).(k) *. a.(j).(k) done;
      r := max !r (abs_float (!s -. pm.(i).(j)))
    done done;
    sqrt_residual := max !sqrt_residual (!r /. max 1e-300 (maxabs pm));
    incr oracle_calls;
    lmx_of_mat a
  end

(* unit eigenvector of the largest eigenvalue (symmetric argument) *)
let eg_oracle (_ : nat) (p : Obj.t list list) : Obj.t list list =
  let pm = mat_of_lmx p in
  let n = Array.length pm in
  let sym = Array.init n (fun i -> Array.init n (fun j -> 0.5 *. (pm.(i).(j) +. pm.(j).(i)))) in
  let (ev, v) = jacobi sym in
  let best = ref 0 in
  for i = 1 to n - 1 do if ev.(i) > ev.(!best) then best := i done;
  let x = Array.init n (fun i -> v.(i).(!best)) in
  let r = ref 0.0 in
  for i = 0 to n - 1 do
    let s = ref 0.0 in
    for k = 0 to n - 1 do s := !s +. pm.(i).(k) *. x.(k) done;
    r := max !r (abs_float (!s -. ev.(!best) *. x.(i)))
  done;
  eig_residual := max !eig_residual !r;
  incr oracle_calls;
  lmx_of_mat (Array.map (fun xi -> [| xi |]) x)

let layout_of (c : Caseio.case) (pre : string) : layout =
  { l_lin = nat_of_int (Caseio.get_int c (pre ^ "lin"));
    l_circ = nat_of_int (Caseio.get_int c (pre ^ "circ"));
    l_quat = (Caseio.get_int c (pre ^ "quat") <> 0);
    l_noise = nat_of_int 0 }

(* columns of a list of column matrices as one matrix *)
let hcat_cols (rows : int) (cols : Obj.t list list list) : float array array =
  let cs = Array.of_list (List.map mat_of_lmx cols) in
  Array.init rows (fun i -> Array.init (Array.length cs) (fun j -> cs.(j).(i).(0)))

let out_flist name (l : Obj.t list) = Caseio.out_mat_shape name 1 (List.length l) [| Array.of_list (List.map fl l) |]

let () =
  let cases = Caseio.read_records "case" stdin in
  List.iter
    (fun (c : Caseio.case) ->
      sqrt_residual := 0.0; eig_residual := 0.0; oracle_calls := 0;
      let params = Caseio.get_mat c "params" in
      let alpha = ob params.(0).(0) and beta = ob params.(0).(1) and kappa = ob params.(0).(2) in
      Caseio.out_begin c.id;
      (match c.kind with
       | "weights" ->
           let n = Caseio.get_int c "n" in
           let ((wm, wc), cc) = c03_weights fops (nat_of_int n) alpha beta kappa in
           out_flist "wm" wm; out_flist "wc" wc; Caseio.out_num "c" (fl cc)
       | _ ->
           let l = layout_of c "" and lout = layout_of c "out_" in
           let means = Caseio.get_mat c "means" and covs = Caseio.get_mat c "covs" in
           let comps = mat_cols means in
           let ((_, dc0), _) = c03_dims l in
           let dc0 = int_of_nat dc0 in
           let cs = List.init comps (fun i -> (lmx_of_mat (mat_col means i), lmx_of_mat (mat_block_cols covs (i * dc0) dc0))) in
           let q = Caseio.get_int c "aug" in
           let q2 = if Caseio.has c "aug2" then Caseio.get_int c "aug2" else 0 in
           let aug = (if q > 0 then [ (nat_of_int q, lmx_of_mat (Caseio.get_mat c "Qaug")) ] else [])
                     @ (if q2 > 0 then [ (nat_of_int q2, lmx_of_mat (Caseio.get_mat c "Qaug2")) ] else []) in
           let l' = { l with l_noise = nat_of_int (q + q2) } in
           let ((d, dc), dx) = c03_dims l' in
           let d = int_of_nat d and dc = int_of_nat dc and dx = int_of_nat dx in
           let ((p, pc), _) = c03_dims lout in
           let p = int_of_nat p and pc = int_of_nat pc in
           let ((wm, wc), cc) = c03_weights fops (nat_of_int dc) alpha beta kappa in
           out_flist "wm" wm; out_flist "wc" wc; Caseio.out_num "c" (fl cc);
           Caseio.out_int "dof" dc;
           let nms = if Caseio.has c "noise_means" then
                       (let nm = Caseio.get_mat c "noise_means" in
                        List.init (mat_cols nm) (fun i -> lmx_of_mat (mat_col nm i)))
                     else [] in
           let sp = c03_sigma fops sq_oracle eg_oracle l aug nms cc cs in
           Caseio.out_mat_shape "sp" d (List.length sp) (hcat_cols d sp);
           let fail = Caseio.get_int c "fail" <> 0 in
           let f = if fail then None else Some (lmx_of_mat (Caseio.get_mat c "A"), lmx_of_mat (Caseio.get_mat c "b")) in
           let overload = Caseio.get_int c "overload" in
           let nmat = lmx_of_mat (Caseio.get_mat c "N") in
           let quad = if Caseio.has c "G" then Some (lmx_of_mat (Caseio.get_mat c "G"), lmx_of_mat (Caseio.get_mat c "g")) else None in
           (match c03_ut fops sq_oracle eg_oracle l lout aug nms (nat_of_int dc) alpha beta kappa cs f quad (nat_of_int overload) nmat with
            | None -> Caseio.out_int "valid" 0
            | Some (res, ws) ->
                Caseio.out_int "valid" 1;
                Caseio.out_int "components" (List.length res);
                List.iteri
                  (fun i ((mean, cov), cross) ->
                    Caseio.out_mat_shape (Printf.sprintf "mean%d" i) p 1 (mat_of_lmx mean);
                    Caseio.out_mat_shape (Printf.sprintf "cov%d" i) pc pc (mat_of_lmx cov);
                    Caseio.out_mat_shape (Printf.sprintf "cross%d" i) dx pc (mat_of_lmx cross))
                  res;
                out_flist "weights" ws));
      Caseio.out_num "sqrt_residual" !sqrt_residual;
      Caseio.out_num "eig_residual" !eig_residual;
      Caseio.out_int "oracle_calls" !oracle_calls;
      Caseio.out_end ())
    cases
