(* drv_C05.ml — driver: runs the extracted C05 model (SUKFCorrection, reduced and
   full noise covariance; additive UKF as spec) on the case file given on stdin.
   Sys.argv.(1) = the implementation's output file: the SVD factors A<i> of the
   component covariances (the model's square-root oracle; the plug-in checks
   A A^T = P).  Operands: see cpp/h_C05.cpp.
   kind "sukf_seq": the model is STATELESS — every call of the sequence is the same
   pure function applied to that call's inputs (operands with suffix _<t>, outputs
   with prefix t<t>_); that the implementation's t-th call agrees with it is the
   no-stale-state property. *)
let () =
  let cases = Caseio.read_records "case" stdin in
  let impl =
    if Array.length Sys.argv > 1 then begin
      let ic = open_in Sys.argv.(1) in
      let r = Caseio.read_records "out" ic in
      close_in ic; r
    end else [] in
  let impl_tbl = Hashtbl.create 1024 in
  List.iter (fun (r : Caseio.case) -> Hashtbl.replace impl_tbl r.id r) impl;
  (* one call: operands carry the suffix suf, outputs the prefix tp *)
  let one_call (c : Caseio.case) (suf : string) (tp : string) (second : bool) alpha beta kappa s =
    let gm name = Caseio.get_mat c (name ^ suf) in
    let h = gm "H" and g1 = gm "G" and g2 = gm "G2" in
    let b = gm "b" and g = gm "g" and y = gm "y" in
    let rfull = gm "Rfull" in
    let means = gm "means" and covs = gm "covs" and weights = gm "weights" in
    let n = Array.length means and m = Array.length h in
    let kind = Caseio.get_int c ("hkind" ^ suf) in
    let comps = mat_cols means in
    (* optional: nc / mc = number of trailing circular (Euler) rows of the state / of the measurement description; outcomps = number of
       components of the output object handed to correct() (>= comps) *)
    let nc = if Caseio.has c "nc" then Caseio.get_int c "nc" else 0 in
    let mc = if Caseio.has c "mc" then Caseio.get_int c "mc" else 0 in
    let outcomps = if Caseio.has c "outcomps" then max comps (Caseio.get_int c "outcomps") else comps in
    let pcomps =
      List.init comps (fun i -> (lmx_of_mat (mat_col means i), lmx_of_mat (mat_block_cols covs (i * n) n))) in
    let pred = (pcomps, List.init comps (fun i -> ob weights.(i).(0))) in
    (* previous content of the output object, as the harness fills it *)
    let filler v r cc = lmx_of_mat (Array.make_matrix r cc v) in
    let corr_prev = (List.init outcomps (fun _ -> (filler 7.25 n 1, filler (-3.5) n n)), List.init outcomps (fun _ -> ob 0.125)) in
    (* square-root oracle: the factor the implementation computed for this covariance *)
    let table =
      match Hashtbl.find_opt impl_tbl c.id with
      | None -> []
      | Some r ->
          List.init comps (fun i ->
              (List.map (List.map fl) (snd (List.nth pcomps i)),
               lmx_of_mat (Caseio.get_mat r (Printf.sprintf "%sA%d" tp i)))) in
    let sq _ (p : Obj.t list list) : Obj.t list list =
      let key = List.map (List.map fl) p in
      match List.assoc_opt key table with
      | Some a -> a
      | None -> failwith "drv_C05: no square-root factor for this covariance" in
    let nnl = nat_of_int (n - nc) in
    let nn = nat_of_int n and nm = nat_of_int m and ns = nat_of_int s and nk = nat_of_int kind in
    let lh = lmx_of_mat h and lg1 = lmx_of_mat g1 and lg2 = lmx_of_mat g2 in
    let lb = lmx_of_mat b and lg = lmx_of_mat g and ly = lmx_of_mat y in
    let run pre0 reduced r =
      let pre = tp ^ pre0 in
      let ((ocomps, ow), mem) =
        c05_sukf fops sq nn nnl nm (nat_of_int (m - mc)) ns nk lh lg1 lg2 lb lg ly reduced (lmx_of_mat r) alpha beta kappa pred corr_prev in
      Caseio.out_int (pre ^ "components") (List.length ocomps);
      List.iteri
        (fun i (mean, cov) ->
          Caseio.out_mat (Printf.sprintf "%smean%d" pre i) (mat_of_lmx mean);
          Caseio.out_mat (Printf.sprintf "%scov%d" pre i) (mat_of_lmx cov))
        ocomps;
      Caseio.out_mat (pre ^ "weights") (Array.of_list (List.map (fun x -> [| fl x |]) ow));
      (match mem with
       | None -> Caseio.out_int (pre ^ "lik_valid") 0
       | Some outs ->
           Caseio.out_int (pre ^ "lik_valid") 1;
           List.iteri
             (fun i ((innov, ymat), lik) ->
               Caseio.out_mat (Printf.sprintf "%sinnov%d" pre i) (mat_of_lmx innov);
               Caseio.out_mat (Printf.sprintf "%sY%d" pre i) (mat_of_lmx ymat);
               Caseio.out_num (Printf.sprintf "%slik%d" pre i) (fl lik))
             outs);
      (* single cases, the harness' second call: the model then reports a measurement of size m + 1 *)
      if second && s >= 2 && m mod s = 0 then begin
        let ((ocomps2, ow2), mem2) =
          c05_sukf fops sq nn nnl (nat_of_int (m + 1)) (nat_of_int (m + 1 - mc)) ns nk lh lg1 lg2 lb lg ly reduced (lmx_of_mat r) alpha beta kappa pred corr_prev in
        Caseio.out_int (pre ^ "2_lik_valid") (match mem2 with None -> 0 | Some _ -> 1);
        let same = List.map (fun (a, b) -> (List.map (List.map fl) a, List.map (List.map fl) b)) in
        Caseio.out_int (pre ^ "2_out_equals_pred")
          (if same ocomps2 = same (fst pred) && List.map fl ow2 = List.map fl (snd pred) then 1 else 0)
      end
    in
    if Caseio.has c ("Rblock" ^ suf) then run "r_" true (gm "Rblock");
    run "f_" false rfull;
    let spec = c05_ukf fops sq nn nnl nm (nat_of_int (m - mc)) nk lh lg1 lg2 lb lg ly (lmx_of_mat rfull) alpha beta kappa pcomps in
    List.iteri
      (fun i ((((mean, cov), innov), pyy), lik) ->
        Caseio.out_mat (Printf.sprintf "%su_mean%d" tp i) (mat_of_lmx mean);
        Caseio.out_mat (Printf.sprintf "%su_cov%d" tp i) (mat_of_lmx cov);
        Caseio.out_mat (Printf.sprintf "%su_Pyy%d" tp i) (mat_of_lmx pyy);
        Caseio.out_num (Printf.sprintf "%su_lik%d" tp i) (fl lik))
      spec
  in
  List.iter
    (fun (c : Caseio.case) ->
      let params = Caseio.get_mat c "params" in
      let alpha = ob params.(0).(0) and beta = ob params.(0).(1) and kappa = ob params.(0).(2) in
      let s = Caseio.get_int c "s" in
      let seq = c.kind = "sukf_seq" in
      let n = Array.length (Caseio.get_mat c (if seq then "means_1" else "means")) in
      Caseio.out_begin c.id;
      let skipped = match Hashtbl.find_opt impl_tbl c.id with Some r -> Caseio.has r "skipped" | None -> false in
      if skipped then begin Caseio.out_int "skipped" 1; Caseio.out_end () end else begin
      let ((((wm0, wmi), wc0), wci), cc) = c05_weights fops (nat_of_int n) alpha beta kappa in
      let l = 2 * n + 1 in
      Caseio.out_mat "wm" (Array.init l (fun j -> [| if j = 0 then fl wm0 else fl wmi |]));
      Caseio.out_mat "wc" (Array.init l (fun j -> [| if j = 0 then fl wc0 else fl wci |]));
      Caseio.out_num "c" (fl cc);
      if seq then
        for t = 1 to Caseio.get_int c "steps" do
          one_call c (Printf.sprintf "_%d" t) (Printf.sprintf "t%d_" t) false alpha beta kappa s
        done
      else one_call c "" "" true alpha beta kappa s;
      Caseio.out_end () end)
    cases
