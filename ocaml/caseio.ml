(* caseio.ml — parser / printer of the line-oriented case format shared by the
   C++ harnesses and the OCaml drivers (DESIGN.md Appendix B.1).

   case <id> <kind> key=val ...
   mat <name> <rows> <cols> v11 v12 ... (row-major)
   int <name> k
   word <name> tok tok ...
   end
   Outputs: "out <id>" ... "end" with the same operand lines plus
   "num <name> v" and "str <name> token". *)

type value =
  | Mat of float array array   (* rows *)
  | Int of int
  | Num of float
  | Word of string list

type case = {
  id : string;
  kind : string;
  meta : (string * string) list;
  ops : (string * value) list;       (* in file order *)
}

let split_ws s =
  List.filter (fun x -> x <> "") (String.split_on_char ' ' (String.trim s))

let float_of_token s =
  match s with
  | "inf" | "+inf" -> infinity
  | "-inf" -> neg_infinity
  | "nan" | "-nan" -> nan
  | _ -> float_of_string s

let parse_mat toks =
  match toks with
  | r :: c :: vs ->
      let r = int_of_string r and c = int_of_string c in
      let vs = Array.of_list (List.map float_of_token vs) in
      if Array.length vs <> r * c then failwith "caseio: mat size";
      Array.init r (fun i -> Array.init c (fun j -> vs.(i * c + j)))
  | _ -> failwith "caseio: mat"

(* reads all records with the given header word ("case" or "out") *)
let read_records (header : string) (ic : in_channel) : case list =
  let res = ref [] in
  let cur = ref None in
  (try
     while true do
       let line = input_line ic in
       match split_ws line with
       | [] -> ()
       | h :: rest when h = header ->
           let id, kind, kv =
             match rest with
             | [] -> failwith "caseio: header"
             | [ id ] -> (id, "", [])
             | id :: kind :: kv -> (id, kind, kv)
           in
           let meta =
             List.filter_map
               (fun s ->
                 match String.index_opt s '=' with
                 | Some k -> Some (String.sub s 0 k, String.sub s (k + 1) (String.length s - k - 1))
                 | None -> None)
               kv
           in
           cur := Some { id; kind; meta; ops = [] }
       | "end" :: _ -> (
           match !cur with
           | Some c ->
               res := { c with ops = List.rev c.ops } :: !res;
               cur := None
           | None -> ())
       | tag :: name :: rest -> (
           match !cur with
           | None -> ()
           | Some c ->
               let v =
                 match tag with
                 | "mat" -> Mat (parse_mat rest)
                 | "int" -> Int (int_of_string (List.hd rest))
                 | "num" -> Num (float_of_token (List.hd rest))
                 | "word" | "str" | "bits" -> Word rest
                 | _ -> Word (tag :: rest)
               in
               cur := Some { c with ops = (name, v) :: c.ops })
       | _ -> ()
     done
   with End_of_file -> ());
  List.rev !res

let get c name =
  try List.assoc name c.ops with Not_found -> failwith ("caseio: missing operand " ^ name ^ " in case " ^ c.id)
let get_mat c name = match get c name with Mat m -> m | _ -> failwith ("caseio: not a mat: " ^ name)
let get_int c name = match get c name with Int k -> k | _ -> failwith ("caseio: not an int: " ^ name)
let get_num c name = match get c name with Num k -> k | _ -> failwith ("caseio: not a num: " ^ name)
let get_word c name = match get c name with Word w -> w | _ -> failwith ("caseio: not a word: " ^ name)
let has c name = List.mem_assoc name c.ops
let meta c k = try List.assoc k c.meta with Not_found -> ""
let meta_int c k = int_of_string (meta c k)

let fmt_float x =
  if x <> x then "nan"
  else if x = infinity then "inf"
  else if x = neg_infinity then "-inf"
  else Printf.sprintf "%.17g" x

let out_begin id = Printf.printf "out %s\n" id
let out_end () = print_string "end\n"
let out_mat name (m : float array array) =
  let r = Array.length m in
  let c = if r = 0 then 0 else Array.length m.(0) in
  let b = Buffer.create 256 in
  Buffer.add_string b (Printf.sprintf "mat %s %d %d" name r c);
  Array.iter (fun row -> Array.iter (fun x -> Buffer.add_char b ' '; Buffer.add_string b (fmt_float x)) row) m;
  print_string (Buffer.contents b);
  print_char '\n'
(* a matrix with explicit shape (needed when rows = 0 or cols = 0) *)
let out_mat_shape name r c (m : float array array) =
  let b = Buffer.create 256 in
  Buffer.add_string b (Printf.sprintf "mat %s %d %d" name r c);
  Array.iter (fun row -> Array.iter (fun x -> Buffer.add_char b ' '; Buffer.add_string b (fmt_float x)) row) m;
  print_string (Buffer.contents b);
  print_char '\n'
let out_int name k = Printf.printf "int %s %d\n" name k
let out_num name x = Printf.printf "num %s %s\n" name (fmt_float x)
let out_str name s = Printf.printf "str %s %s\n" name s
let out_word name ws = Printf.printf "word %s %s\n" name (String.concat " " ws)
