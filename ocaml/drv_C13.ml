(* drv_C13.ml — driver: runs the extracted skip state machine on the operation
   words of the case file.  Tokens as documented in cpp/h_C13.cpp. *)
let name_of = function
  | "prediction" -> NPrediction | "state" -> NState | "exogenous" -> NExogenous
  | "correction" -> NCorrection | "all" -> NAll | _ -> NOther
let kind_of = function "kf" -> KF | "ukf" | "ukfg" -> UKF | "boot" | "boot2" -> Boot | "gpf" -> GPF | s -> failwith ("kind " ^ s)
let op_of (tok : string) : op =
  match tok with
  | "freeze" -> OpFreeze
  | "predict" -> OpPredict false
  | "correct" -> OpCorrect false
  | "predict!" -> OpPredict true      (* output object of another shape *)
  | "correct!" -> OpCorrect true
  | _ -> (
      match String.rindex_opt tok ':' with
      | Some i -> OpSkip (name_of (String.sub tok 0 i), String.sub tok (i + 1) (String.length tok - i - 1) = "on")
      | None -> failwith ("op " ^ tok))
(* "move" (move construction), "move=" (move assignment onto freshly built steps where the class has one), "move=!" (onto
   steps that were told to skip everything): the step objects are replaced by the objects moved from them; the model
   has one move operation (C13_Life.LMove), the target's previous content plays no role *)
let lop_of (tok : string) : lop = match tok with "move" | "move=" | "move=!" -> LMove | _ -> LOp (op_of tok)
let b01 b = if b then "1" else "0"
let flags_str (f : flags) =
  Printf.sprintf "P=%s,S=%s,E=%s" (b01 f.f_pred) (b01 f.f_state) (match f.f_exo with Some e -> b01 e | None -> "-")
let mode_str = function MCopy -> "copy" | MFull -> "full" | MStateOnly -> "stateonly" | MExoOnly -> "exoonly" | MNothing -> "nothing"
let step_str = function
  | OInput -> "identity" | OOld | OOldOther -> "untouched" | OSliced -> "sliced" | ORan (_, m) -> mode_str m | OCorrected (_, _) -> "run"
let obs_str stream = function
  | ObsFreeze n ->
      (* freeze_measurements is forwarded whatever the skip flags are: the source is where the never-skipped twin's is;
         the harness' stream sensor also reports how many freeze calls it received *)
      Printf.sprintf "freeze=true,meas=same,n=%s" (if stream then string_of_int (int_of_nat n) else "-")
  | ObsSkip (r, f) -> Printf.sprintf "r=%s,%s" (match r with Ok true -> "true" | Ok false -> "false" | Throws -> "throw") (flags_str f)
  | ObsStep o -> step_str o
(* compact form of the observations of "<commands> predict correct" *)
let compress have (obs : obs list) : string =
  let rs = Buffer.create 8 and fl = ref (flags_str (init have)) and steps = ref [] in
  List.iter
    (function
      | ObsSkip (r, f) ->
          Buffer.add_char rs (match r with Ok true -> 't' | Ok false -> 'f' | Throws -> 'x');
          fl := flags_str f
      | ObsFreeze _ -> Buffer.add_char rs 'z'
      | ObsStep o -> steps := step_str o :: !steps)
    obs;
  String.concat "," (Buffer.contents rs :: !fl :: List.rev !steps)
let () =
  let cases = Caseio.read_records "case" stdin in
  List.iter
    (fun (c : Caseio.case) ->
      (* boot2: the exogenous model is given to DrawParticles' two-argument constructor (attach=1: which attaches it
         to the state model, C13_Model.init_of ViaDrawParticlesCtor = init true) *)
      let have = Caseio.meta c "exo" = "1" && (c.kind <> "boot2" || Caseio.meta c "attach" = "1") in
      let k = kind_of c.kind in
      Caseio.out_begin c.id;
      if Caseio.has c "ext" then begin
        let alpha = Array.of_list (Caseio.get_word c "alphabet") and ext = Caseio.get_int c "ext" in
        let prefix = if Caseio.has c "prefix" then Caseio.get_word c "prefix" else [] in
        let a = Array.length alpha in
        let total = int_of_float (float_of_int a ** float_of_int ext) in
        let res = ref [] in
        for w = 0 to total - 1 do
          let idx = Array.make ext 0 and r = ref w in
          for i = ext - 1 downto 0 do idx.(i) <- !r mod a; r := !r / a done;
          let ops = List.map op_of (("freeze" :: prefix) @ Array.to_list (Array.map (fun i -> alpha.(i)) idx) @ [ "predict"; "correct" ]) in
          res := compress have (c13_run k have ops) :: !res
        done;
        Caseio.out_word "enum" (List.rev !res)
      end else begin
        let ops = List.map lop_of (if Caseio.has c "ops" then Caseio.get_word c "ops" else []) in
        let stream = Caseio.meta c "sensor" <> "sim" in
        Caseio.out_word "trace"
          (("init," ^ flags_str (init have))
           :: List.map (function LObs o -> obs_str stream o | LMoved f -> "moved," ^ flags_str f) (c13_run_life k have ops))
      end;
      Caseio.out_end ())
    cases
