(* drv_C07.ml — driver: runs the extracted C07 model (systematic resampling,
   neff, prior-mixing variant) on the case file given on stdin.  The random
   offset u1 is read from the implementation's output file (Sys.argv.(1)),
   where the harness printed the mirrored draw as "num u1". *)
let col_of_ints (l : int list) : float array array =
  Array.of_list (List.map (fun k -> [| float_of_int k |]) l)

let () =
  let cases = Caseio.read_records "case" stdin in
  let impl =
    if Array.length Sys.argv > 1 then begin
      let ic = open_in Sys.argv.(1) in
      let r = Caseio.read_records "out" ic in
      close_in ic; r
    end else [] in
  let tbl = Hashtbl.create 1024 in
  List.iter (fun (r : Caseio.case) -> Hashtbl.replace tbl r.id r) impl;
  List.iter
    (fun (c : Caseio.case) ->
      match Hashtbl.find_opt tbl c.id with
      | None -> ()   (* no implementation record (crash): nothing to mirror *)
      | Some io ->
        let u1 = Caseio.get_num io "u1" in
        let lw = lvec_of_col (Caseio.get_mat c "lw") in
        Caseio.out_begin c.id;
        Caseio.out_num "neff" (fl (c07_neff fops lw));
        Caseio.out_num "lse" (fl (c07_lse fops lw));
        if c.kind = "plain" then begin
          let n = List.length lw in
          let ((src, w), par) = c07_resample fops lw (ob u1) in
          (* the input particle each MEMBER of an output particle was copied from *)
          Caseio.out_mat_shape "src" n 1 (col_of_ints (List.map (fun p -> int_of_z p.p_state) src));
          Caseio.out_mat_shape "src_mean" n 1 (col_of_ints (List.map (fun p -> int_of_z p.p_mean) src));
          Caseio.out_mat_shape "src_cov" n 1 (col_of_ints (List.map (fun p -> int_of_z p.p_cov) src));
          Caseio.out_mat_shape "weights" n 1 (col_of_lvec w);
          Caseio.out_mat_shape "parents" n 1 (col_of_ints (List.map int_of_nat par));
          Caseio.out_mat_shape "csw" n 1 (col_of_lvec (c07_csw fops lw));
          Caseio.out_mat_shape "comb" n 1 (col_of_lvec (c07_comb fops (nat_of_int n) (ob u1)))
        end else begin
          let n = List.length lw in
          let ratio = (Caseio.get_mat c "ratio").(0).(0) in
          let (((cnt, src), w), par) = c07_prior fops (ob ratio) lw (ob u1) in
          let ((np, srt), tlw) = c07_prior_parts fops (ob ratio) lw in
          let np = int_of_nat np in
          Caseio.out_int "components" (int_of_nat cnt);
          Caseio.out_int "num_prior" np;
          Caseio.out_mat_shape "src" (List.length src) 1 (col_of_ints (List.map int_of_z src));
          Caseio.out_mat_shape "weights" (List.length w) 1 (col_of_lvec w);
          Caseio.out_mat_shape "parents" (List.length par) 1 (col_of_ints (List.map int_of_z par));
          Caseio.out_mat_shape "sorted" n 1 (col_of_ints (List.map int_of_nat srt));
          Caseio.out_mat_shape "kept_lw" (n - np) 1 (col_of_lvec tlw);
          Caseio.out_mat_shape "csw" (n - np) 1 (col_of_lvec (c07_csw fops tlw));
          Caseio.out_mat_shape "comb" (n - np) 1 (col_of_lvec (c07_comb fops (nat_of_int (n - np)) (ob u1)))
        end;
        Caseio.out_end ())
    cases
