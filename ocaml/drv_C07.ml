(* drv_C07.ml — driver: runs the extracted C07 model (systematic resampling,
   neff, prior-mixing variant) on the case file given on stdin.  The random
   offset u1 is read from the implementation's output file (Sys.argv.(1)),
   where the harness printed the mirrored draw as "num u1". *)
let col_of_ints (l : int list) : float array array =
  Array.of_list (List.map (fun k -> [| float_of_int k |]) l)

let () =
  let cases = Caseio.read_records "case" stdin in
  let impl =
    if Array.length Sys.argv > 1 then begin
      let ic = open_in Sys.argv.(1) in
      let r = Caseio.read_records "out" ic in
      close_in ic; r
    end else [] in
  let tbl = Hashtbl.create 1024 in
  List.iter (fun (r : Caseio.case) -> Hashtbl.replace tbl r.id r) impl;
  (* one resample call: lw = the log-weights the set holds at that call, sfx = "" or "_s<k>" (history step) *)
  let emit_plain lw u1 sfx =
    let n = List.length lw in
    let ((src, w), par) = c07_resample fops lw (ob u1) in
    (* the input particle each MEMBER of an output particle was copied from *)
    Caseio.out_mat_shape ("src" ^ sfx) n 1 (col_of_ints (List.map (fun p -> int_of_z p.p_state) src));
    Caseio.out_mat_shape ("src_mean" ^ sfx) n 1 (col_of_ints (List.map (fun p -> int_of_z p.p_mean) src));
    Caseio.out_mat_shape ("src_cov" ^ sfx) n 1 (col_of_ints (List.map (fun p -> int_of_z p.p_cov) src));
    Caseio.out_mat_shape ("weights" ^ sfx) n 1 (col_of_lvec w);
    Caseio.out_mat_shape ("parents" ^ sfx) n 1 (col_of_ints (List.map int_of_nat par));
    Caseio.out_mat_shape ("csw" ^ sfx) n 1 (col_of_lvec (c07_csw fops lw));
    Caseio.out_mat_shape ("comb" ^ sfx) n 1 (col_of_lvec (c07_comb fops (nat_of_int n) (ob u1))) in
  let emit_prior ratio lw u1 sfx =
    let n = List.length lw in
    let (((cnt, src), w), par) = c07_prior fops (ob ratio) lw (ob u1) in
    let ((np, srt), tlw) = c07_prior_parts fops (ob ratio) lw in
    let np = int_of_nat np in
    Caseio.out_int ("components" ^ sfx) (int_of_nat cnt);
    Caseio.out_int ("num_prior" ^ sfx) np;
    Caseio.out_mat_shape ("src" ^ sfx) (List.length src) 1 (col_of_ints (List.map int_of_z src));
    Caseio.out_mat_shape ("weights" ^ sfx) (List.length w) 1 (col_of_lvec w);
    Caseio.out_mat_shape ("parents" ^ sfx) (List.length par) 1 (col_of_ints (List.map int_of_z par));
    Caseio.out_mat_shape ("sorted" ^ sfx) n 1 (col_of_ints (List.map int_of_nat srt));
    Caseio.out_mat_shape ("kept_lw" ^ sfx) (n - np) 1 (col_of_lvec tlw);
    Caseio.out_mat_shape ("csw" ^ sfx) (n - np) 1 (col_of_lvec (c07_csw fops tlw));
    Caseio.out_mat_shape ("comb" ^ sfx) (n - np) 1 (col_of_lvec (c07_comb fops (nat_of_int (n - np)) (ob u1))) in
  List.iter
    (fun (c : Caseio.case) ->
      match Hashtbl.find_opt tbl c.id with
      | None -> ()   (* no implementation record (crash): nothing to mirror *)
      | Some io ->
        Caseio.out_begin c.id;
        if c.kind = "hist" then begin
          (* a history on one object: the model has no state besides the generator (mirrored offsets), so every step is
             the stateless model applied to the weights the set holds at that step *)
          let prior = Caseio.meta c "variant" = "prior" in
          List.iteri (fun k op ->
              let sfx = "_s" ^ string_of_int k in
              let lw = lvec_of_col (Caseio.get_mat c ("lw" ^ sfx)) in
              if op.[0] = 'n' then Caseio.out_num ("neff" ^ sfx) (fl (c07_neff fops lw))
              else if Caseio.has io ("u1" ^ sfx) then begin
                let u1 = Caseio.get_num io ("u1" ^ sfx) in
                if prior then emit_prior (Caseio.get_mat c "ratio").(0).(0) lw u1 sfx else emit_plain lw u1 sfx
              end)
            (Caseio.get_word c "ops")
        end else begin
          let u1 = Caseio.get_num io "u1" in
          let lw = lvec_of_col (Caseio.get_mat c "lw") in
          Caseio.out_num "neff" (fl (c07_neff fops lw));
          Caseio.out_num "lse" (fl (c07_lse fops lw));
          if c.kind = "plain" then emit_plain lw u1 ""
          else emit_prior (Caseio.get_mat c "ratio").(0).(0) lw u1 ""
        end;
        Caseio.out_end ())
    cases
