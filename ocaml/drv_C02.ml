(* drv_C02.ml — driver: runs the extracted C02 model (Kalman prediction) on the
   case file given on stdin.  Operands as documented in cpp/h_C02.cpp. *)
let blocks covs n k = List.init k (fun i -> lmx_of_mat (mat_block_cols covs (i * n) n))
let flag c name = Caseio.has c name && Caseio.get_int c name <> 0
let () =
  let cases = Caseio.read_records "case" stdin in
  List.iter
    (fun (c : Caseio.case) ->
      let f = lmx_of_mat (Caseio.get_mat c "F") and q = lmx_of_mat (Caseio.get_mat c "Q") in
      let exo =
        if Caseio.has c "B" then Some (lmx_of_mat (Caseio.get_mat c "B"), lmx_of_mat (Caseio.get_mat c "c")) else None in
      Caseio.out_begin c.id;
      if c.kind = "sequence" then begin
        (* every call of the sequence against the STATELESS model on that call's inputs and that call's live matrices *)
        let nsteps = Caseio.get_int c "nsteps" in
        for s = 0 to nsteps - 1 do
          let g name = Caseio.get_mat c (Printf.sprintf "%s_%d" name s) in
          let sf name = Printf.sprintf "%s_%d" name s in
          let f = lmx_of_mat (g "F") and q = lmx_of_mat (g "Q") in
          let exo = if Caseio.has c (sf "B") then Some (lmx_of_mat (g "B"), lmx_of_mat (g "c")) else None in
          let means = g "means" and covs = g "covs" in
          let n = Array.length means and k = mat_cols means in
          let prev = ((lmx_of_mat means, blocks covs n k), lvec_of_col (g "weights")) in
          let old = ((lmx_of_mat (g "old_means"), blocks (g "old_covs") n k), lvec_of_col (g "old_weights")) in
          let ((rm, rc), rw) = c02_run fops (nat_of_int n) (nat_of_int k) f q exo false false false prev old in
          Caseio.out_int (sf "components") (List.length rc);
          Caseio.out_mat_shape (sf "means") n k (mat_of_lmx rm);
          List.iteri (fun i p -> Caseio.out_mat (sf (Printf.sprintf "cov%d" i)) (mat_of_lmx p)) rc;
          Caseio.out_mat (sf "weights") (col_of_lvec rw)
        done
      end else
      if c.kind = "propagate" then begin
        let cur = Caseio.get_mat c "cur" and old = Caseio.get_mat c "old" in
        let n = Array.length cur and k = mat_cols cur in
        let r = c02_propagate fops (nat_of_int n) (nat_of_int k) f exo (flag c "ss") (flag c "se") (lmx_of_mat cur) (lmx_of_mat old) in
        Caseio.out_mat_shape "prop" n k (mat_of_lmx r)
      end else begin
        let means = Caseio.get_mat c "means" and covs = Caseio.get_mat c "covs" and w = Caseio.get_mat c "weights" in
        let n = Array.length means and k = mat_cols means in
        let prev = ((lmx_of_mat means, blocks covs n k), lvec_of_col w) in
        let old = ((lmx_of_mat (Caseio.get_mat c "old_means"), blocks (Caseio.get_mat c "old_covs") n k),
                   lvec_of_col (Caseio.get_mat c "old_weights")) in
        let ((rm, rc), rw) =
          c02_run fops (nat_of_int n) (nat_of_int k) f q exo (flag c "sp") (flag c "ss") (flag c "se") prev old in
        Caseio.out_int "components" (List.length rc);
        Caseio.out_mat_shape "means" n k (mat_of_lmx rm);
        List.iteri (fun i p -> Caseio.out_mat (Printf.sprintf "cov%d" i) (mat_of_lmx p)) rc;
        Caseio.out_mat "weights" (col_of_lvec rw);
        let spec = c02_spec fops (nat_of_int n) (nat_of_int k) f q exo (lmx_of_mat means) (blocks covs n k) in
        List.iteri
          (fun i (m, p) ->
            Caseio.out_mat (Printf.sprintf "spec_mean%d" i) (mat_of_lmx m);
            Caseio.out_mat (Printf.sprintf "spec_cov%d" i) (mat_of_lmx p))
          spec
      end;
      Caseio.out_end ())
    cases
