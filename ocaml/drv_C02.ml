(* drv_C02.ml — driver: runs the extracted C02 model (Kalman prediction) on the
   case file given on stdin.  Operands as documented in cpp/h_C02.cpp. *)
let blocks covs w k = List.init k (fun i -> lmx_of_mat (mat_block_cols covs (i * w) w))
let flag c name = Caseio.has c name && Caseio.get_int c name <> 0
let sfx name s = if s < 0 then name else Printf.sprintf "%s_%d" name s

let layout k dl dc q dn =
  { gl_components = nat_of_int k; gl_dim_linear = nat_of_int dl; gl_dim_circular = nat_of_int dc; gl_quat = q; gl_dim_noise = nat_of_int dn }

(* the belief of step s: GaussianMixture(k, pl, pc) + pn noise rows *)
let prev_of (c : Caseio.case) s : rawmix =
  let g name = Caseio.get_mat c (sfx name s) and gi name = Caseio.get_int c (sfx name s) in
  let means = g "means" in
  let n = Array.length means and k = mat_cols means in
  (((lmx_of_mat means, blocks (g "covs") n k), lvec_of_col (g "weights")), layout k (gi "pl") (gi "pc") false (gi "pn"))

(* the output object of step s as it is handed to the call *)
let old_of (c : Caseio.case) s : rawmix =
  let g name = Caseio.get_mat c (sfx name s) and gi name = Caseio.get_int c (sfx name s) in
  let l = layout (gi "ok") (gi "ol") (gi "oc") (gi "oq" <> 0) (gi "on") in
  let w = int_of_nat (gl_dim_cov l) in
  (((lmx_of_mat (g "old_means"), blocks (g "old_covs") w (gi "ok")), lvec_of_col (g "old_weights")), l)

let exo_of (c : Caseio.case) s =
  if Caseio.has c (sfx "B" s) then Some (lmx_of_mat (Caseio.get_mat c (sfx "B" s)), lmx_of_mat (Caseio.get_mat c (sfx "c" s))) else None

let out_mix s ((((rm, rc), rw), l) : rawmix) =
  let k = int_of_nat l.gl_components and n = int_of_nat (gl_dim l) in
  Caseio.out_int (sfx "components" s) k;
  Caseio.out_int (sfx "dim" s) n;
  Caseio.out_int (sfx "dim_linear" s) (int_of_nat l.gl_dim_linear);
  Caseio.out_int (sfx "dim_circular" s) (int_of_nat l.gl_dim_circular);
  Caseio.out_int (sfx "dim_covariance" s) (int_of_nat (gl_dim_cov l));
  Caseio.out_int (sfx "dim_noise" s) (int_of_nat l.gl_dim_noise);
  Caseio.out_int (sfx "quat" s) (if l.gl_quat then 1 else 0);
  Caseio.out_int (sfx "ncovs" s) (List.length rc);
  Caseio.out_mat (sfx "means" s) (mat_of_lmx rm);
  List.iteri (fun i p -> Caseio.out_mat (sfx (Printf.sprintf "cov%d" i) s) (mat_of_lmx p)) rc;
  Caseio.out_mat (sfx "weights" s) (col_of_lvec rw)

let () =
  let cases = Caseio.read_records "case" stdin in
  List.iter
    (fun (c : Caseio.case) ->
      Caseio.out_begin c.id;
      if c.kind = "sequence" then begin
        (* the whole sequence through the extracted sequence entry point *)
        let nsteps = Caseio.get_int c "nsteps" in
        let calls = List.init nsteps (fun s ->
          let means = Caseio.get_mat c (sfx "means" s) in
          { rc_n = nat_of_int (Array.length means); rc_k = nat_of_int (mat_cols means);
            rc_F = lmx_of_mat (Caseio.get_mat c (sfx "F" s)); rc_Q = lmx_of_mat (Caseio.get_mat c (sfx "Q" s));
            rc_exo = exo_of c s; rc_sp = flag c (sfx "sp" s); rc_ss = flag c (sfx "ss" s); rc_se = flag c (sfx "se" s);
            rc_prev = prev_of c s; rc_old = old_of c s }) in
        List.iteri (fun s r -> out_mix s r) (c02_seq fops calls)
      end else begin
        let f = lmx_of_mat (Caseio.get_mat c "F") and q = lmx_of_mat (Caseio.get_mat c "Q") in
        let exo = exo_of c (-1) in
        if c.kind = "propagate" then begin
          let cur = Caseio.get_mat c "cur" and old = Caseio.get_mat c "old" in
          let n = Array.length cur and k = mat_cols cur in
          let r = c02_propagate fops (nat_of_int n) (nat_of_int k) f exo (flag c "ss") (flag c "se") (lmx_of_mat cur) (lmx_of_mat old) in
          Caseio.out_mat_shape "prop" n k (mat_of_lmx r)
        end else begin
          let means = Caseio.get_mat c "means" and covs = Caseio.get_mat c "covs" in
          let n = Array.length means and k = mat_cols means in
          let r = c02_run fops (nat_of_int n) (nat_of_int k) f q exo (flag c "sp") (flag c "ss") (flag c "se") (prev_of c (-1)) (old_of c (-1)) in
          out_mix (-1) r;
          let spec = c02_spec fops (nat_of_int n) (nat_of_int k) f q exo (lmx_of_mat means) (blocks covs n k) in
          List.iteri
            (fun i (m, p) ->
              Caseio.out_mat (Printf.sprintf "spec_mean%d" i) (mat_of_lmx m);
              Caseio.out_mat (Printf.sprintf "spec_cov%d" i) (mat_of_lmx p))
            spec
        end
      end;
      Caseio.out_end ())
    cases
