(* drv_C18.ml — driver: runs the extracted C18 model (quaternion utilities) on
   the case file given on stdin.  Same operands as cpp/h_C18.cpp.
   The eigen-solver oracle of the model (mean_quaternion: SelfAdjointEigenSolver, first
   index attaining the largest eigenvalue) is realised here by a cyclic Jacobi iteration
   on the symmetric 4 x 4 matrix, first index attaining the largest diagonal entry; its
   contract (unit eigenvector of the largest eigenvalue) is checked by the plug-in on
   every case.  On the zero matrix both give (1, 0, 0, 0). *)
let quat_of_col (m : float array array) (j : int) : quat =
  { qw = ob m.(0).(j); qx = ob m.(1).(j); qy = ob m.(2).(j); qz = ob m.(3).(j) }
let vec_of_col (m : float array array) (j : int) : vec3 = { vx = ob m.(0).(j); vy = ob m.(1).(j); vz = ob m.(2).(j) }
let quats m = List.init (mat_cols m) (quat_of_col m)
let vecs m = List.init (mat_cols m) (vec_of_col m)
let mat_of_quats (l : quat list) : float array array =
  let a = Array.of_list l in
  Array.init 4 (fun i -> Array.map (fun q -> fl (match i with 0 -> q.qw | 1 -> q.qx | 2 -> q.qy | _ -> q.qz)) a)
let mat_of_vecs (l : vec3 list) : float array array =
  let a = Array.of_list l in
  Array.init 3 (fun i -> Array.map (fun v -> fl (match i with 0 -> v.vx | 1 -> v.vy | _ -> v.vz)) a)

(* cyclic Jacobi on a symmetric n x n matrix; returns (eigenvalues, eigenvectors as columns) *)
let jacobi (a0 : float array array) =
  let n = Array.length a0 in
  let a = Array.map Array.copy a0 in
  let v = Array.init n (fun i -> Array.init n (fun j -> if i = j then 1.0 else 0.0)) in
  for _sweep = 1 to 60 do
    for p = 0 to n - 2 do
      for q = p + 1 to n - 1 do
        if a.(p).(q) <> 0.0 then begin
          let theta = (a.(q).(q) -. a.(p).(p)) /. (2.0 *. a.(p).(q)) in
          let t = (if theta >= 0.0 then 1.0 else -1.0) /. (abs_float theta +. sqrt (theta *. theta +. 1.0)) in
          let c = 1.0 /. sqrt (t *. t +. 1.0) in
          let s = t *. c in
          for k = 0 to n - 1 do
            let akp = a.(k).(p) and akq = a.(k).(q) in
            a.(k).(p) <- c *. akp -. s *. akq; a.(k).(q) <- s *. akp +. c *. akq
          done;
          for k = 0 to n - 1 do
            let apk = a.(p).(k) and aqk = a.(q).(k) in
            a.(p).(k) <- c *. apk -. s *. aqk; a.(q).(k) <- s *. apk +. c *. aqk
          done;
          for k = 0 to n - 1 do
            let vkp = v.(k).(p) and vkq = v.(k).(q) in
            v.(k).(p) <- c *. vkp -. s *. vkq; v.(k).(q) <- s *. vkp +. c *. vkq
          done
        end
      done
    done
  done;
  (Array.init n (fun i -> a.(i).(i)), v)

let eig_max (rows : Obj.t list list) : quat =
  let m = mat_of_lmx rows in
  let ev, v = jacobi m in
  let best = ref 0 in
  Array.iteri (fun i x -> if x > ev.(!best) then best := i) ev;
  let col = Array.init 4 (fun i -> v.(i).(!best)) in
  let nrm = sqrt (Array.fold_left (fun s x -> s +. x *. x) 0.0 col) in
  { qw = ob (col.(0) /. nrm); qx = ob (col.(1) /. nrm); qy = ob (col.(2) /. nrm); qz = ob (col.(3) /. nrm) }

let neg_mat m = Array.map (Array.map (fun x -> -. x)) m

let () =
  let cases = Caseio.read_records "case" stdin in
  List.iter
    (fun (c : Caseio.case) ->
      Caseio.out_begin c.id;
      (match c.kind with
       | "conv" ->
           let q = Caseio.get_mat c "q" and r = Caseio.get_mat c "r" in
           let nq = mat_cols q and nr = mat_cols r in
           let lq = c18_log fops (quats q) in
           Caseio.out_mat_shape "log_q" 3 nq (mat_of_vecs lq);
           Caseio.out_mat_shape "log_negq" 3 nq (mat_of_vecs (c18_log fops (quats (neg_mat q))));
           Caseio.out_mat_shape "exp_log_q" 4 nq (mat_of_quats (c18_exp fops lq));
           let er = c18_exp fops (vecs r) in
           Caseio.out_mat_shape "exp_r" 4 nr (mat_of_quats er);
           Caseio.out_mat_shape "log_exp_r" 3 nr (mat_of_vecs (c18_log fops er))
       | "sumdiff" ->
           let q0 = Caseio.get_mat c "q0" and r = Caseio.get_mat c "r" and ql = Caseio.get_mat c "ql" in
           let q0q = quat_of_col q0 0 in
           let s = c18_sum fops q0q (vecs r) in
           Caseio.out_mat_shape "sum" 4 (mat_cols r) (mat_of_quats s);
           Caseio.out_mat_shape "diff_sum" 3 (mat_cols r) (mat_of_vecs (c18_diff fops s q0q));
           Caseio.out_mat_shape "diff" 3 (mat_cols ql) (mat_of_vecs (c18_diff fops (quats ql) q0q))
       | "mean" ->
           let w = Caseio.get_mat c "w" and q = Caseio.get_mat c "q" in
           let mean_of w q = mat_of_quats [ c18_mean fops eig_max (lvec_of_col w) (quats q) ] in
           Caseio.out_mat "mean" (mean_of w q);
           Caseio.out_mat "outer" (mat_of_lmx (c18_outer fops (lvec_of_col w) (quats q)));
           if Caseio.has c "q2" then Caseio.out_mat "mean_neg" (mean_of w (Caseio.get_mat c "q2"));
           if Caseio.has c "q3" then Caseio.out_mat "mean_perm" (mean_of (Caseio.get_mat c "w3") (Caseio.get_mat c "q3"))
       | _ -> ());
      Caseio.out_end ())
    cases
