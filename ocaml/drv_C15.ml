(* drv_C15.ml — driver: runs the extracted C15 model (Gaussian density utilities,
   log_sum_exp) on the case file given on stdin.
   kind uvr: input (d x b), mean (d x 1), U (d x k), V (k x d), R (bs x rc), cov (d x d)
   kind lse: x (n x 1), c (1 x 1) *)
let colvec (l : Obj.t list) : float array array = col_of_lvec l

let () =
  let cases = Caseio.read_records "case" stdin in
  List.iter
    (fun (c : Caseio.case) ->
      if c.kind = "uvr" then begin
        let input = Caseio.get_mat c "input" and mean = Caseio.get_mat c "mean" in
        let u = Caseio.get_mat c "U" and v = Caseio.get_mat c "V" and r = Caseio.get_mat c "R" in
        let cov = Caseio.get_mat c "cov" in
        let d = Array.length input and b = mat_cols input in
        let k = mat_cols u and bs = Array.length r and rc = mat_cols r in
        let nd = nat_of_int d and nb = nat_of_int b and nk = nat_of_int k in
        let nbs = nat_of_int bs and nrc = nat_of_int rc in
        let li = lmx_of_mat input and lm = lmx_of_mat mean and lu = lmx_of_mat u in
        let lv = lmx_of_mat v and lr = lmx_of_mat r and lc = lmx_of_mat cov in
        let ld = c15_logdens fops nd nb li lm lc in
        let dn = c15_dens fops nd nb li lm lc in
        let ldu = c15_logdens_uvr fops nd nb nk nbs nrc li lm lu lv lr in
        let dnu = c15_dens_uvr fops nd nb nk nbs nrc li lm lu lv lr in
        let s = c15_assembled fops nd nk nbs nrc lu lv lr in
        let spec_ld = c15_logdens fops nd nb li lm s in
        let det_s = c15_det_S fops nd nk nbs nrc lu lv lr in
        Caseio.out_begin c.id;
        Caseio.out_mat_shape "ld" b 1 (colvec ld);
        Caseio.out_mat_shape "dn" b 1 (colvec dn);
        Caseio.out_mat_shape "ldu" b 1 (colvec ldu);
        Caseio.out_mat_shape "dnu" b 1 (colvec dnu);
        Caseio.out_mat "S" (mat_of_lmx s);
        Caseio.out_mat_shape "spec_ld" b 1 (colvec spec_ld);
        Caseio.out_num "det_S" (fl det_s);
        Caseio.out_end ()
      end
      else if c.kind = "lse" then begin
        let x = Caseio.get_mat c "x" in
        let sh = (Caseio.get_mat c "c").(0).(0) in
        let xs = Array.to_list (Array.map (fun r -> r.(0)) x) in
        let run l = match l with
          | [] -> nan
          | x0 :: tl -> fl (c15_lse fops (ob x0) (List.map ob tl)) in
        let shifted = match xs with
          | [] -> []
          | x0 :: tl -> List.map fl (c15_lse_shifted fops (ob x0) (List.map ob tl)) in
        Caseio.out_begin c.id;
        Caseio.out_num "lse" (run xs);
        Caseio.out_num "lse_shift" (run (List.map (fun a -> a +. sh) xs));
        if Caseio.has c "matcols" then Caseio.out_num "lse_mat" (run xs);
        Caseio.out_mat "shifted" (Array.of_list (List.map (fun a -> [| a |]) shifted));
        Caseio.out_end ()
      end
      else failwith ("drv_C15: unknown kind " ^ c.kind))
    cases
