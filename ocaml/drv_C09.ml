(* drv_C09.ml — driver of the extracted C09 lifecycle model.

   drv                      cases on stdin (kind "word": schedule word in operand w;
                            kind "stress": nothing to predict) -> out records
   drv <impl-out-file>      same, and additionally runs the extracted trace monitors
                            (all_good) on the implementation's trace of each case
   drv gen <tag> <maxlen> <maxcmds> <maxF> [prefix tokens]
                            prints every schedule word prefix.w, w of length <= maxlen with at most
                            maxcmds controller commands and maxF false run_condition
                            answers, over the tokens that are enabled in the model state reached
                            (symmetry reduction: disabled tokens, F outside
                            run_condition, queries are dropped), as case records *)

let tok_of_string = function
  | "T" -> TT | "F" -> TF
  | "Run" -> KCmd Run | "Reset" -> KCmd Reset | "Reboot" -> KCmd Reboot | "Teardown" -> KCmd Teardown
  | "Wait" -> KCmd Wait | "IsRunning" -> KCmd IsRunning | "StepNumber" -> KCmd StepNumber
  | s -> failwith ("drv_C09: unknown token " ^ s)

let string_of_tok = function
  | TT -> "T" | TF -> "F"
  | KCmd Run -> "Run" | KCmd Reset -> "Reset" | KCmd Reboot -> "Reboot" | KCmd Teardown -> "Teardown"
  | KCmd Wait -> "Wait" | KCmd IsRunning -> "IsRunning" | KCmd StepNumber -> "StepNumber"

let string_of_event = function
  | EInit -> "init" | EStep k -> Printf.sprintf "step%d" (int_of_nat k) | EExit -> "exit"
  | ECmd Run -> "run" | ECmd Reset -> "reset" | ECmd Reboot -> "reboot" | ECmd Teardown -> "teardown"
  | ECmd Wait -> "wait" | ECmd IsRunning -> "isrunning" | ECmd StepNumber -> "stepnumber"
  | EQRun b -> if b then "isrun1" else "isrun0"
  | EQStep k -> Printf.sprintf "stepno%d" (int_of_nat k)
  | ERc b -> if b then "rc1" else "rc0"

let starts s p = String.length s >= String.length p && String.sub s 0 (String.length p) = p
let num_after s p = int_of_string (String.sub s (String.length p) (String.length s - String.length p))

(* None for tokens that are not events of the model (markers of the stress mode) *)
let event_of_string s =
  match s with
  | "init" -> Some EInit | "exit" -> Some EExit
  | "run" -> Some (ECmd Run) | "reset" -> Some (ECmd Reset) | "reboot" -> Some (ECmd Reboot)
  | "teardown" -> Some (ECmd Teardown) | "wait" -> Some (ECmd Wait)
  | "isrun1" -> Some (EQRun true) | "isrun0" -> Some (EQRun false)
  | "rc1" -> Some (ERc true) | "rc0" -> Some (ERc false)
  | _ ->
      if starts s "stepno" then Some (EQStep (nat_of_int (num_after s "stepno")))
      else if starts s "step" then Some (EStep (nat_of_int (num_after s "step")))
      else None

(* stress traces: the final store lies between the markers "final5" and "exit" (points 5 and 6).
   EExit is placed at final5; is_running() answers logged inside the window are dropped (they may
   legitimately be either value) — a run() inside the window then counts as "after the exit",
   which is the only sound reading since it may have followed the store. *)
let normalise_stress (ws : string list) : string list =
  if not (List.mem "final5" ws) then ws
  else begin
    let rec before acc = function
      | "final5" :: rest -> (List.rev acc, rest)
      | x :: rest -> before (x :: acc) rest
      | [] -> (List.rev acc, [])
    in
    let pre, rest = before [] ws in
    let rec window acc = function
      | "exit" :: rest -> (List.rev acc, rest)
      | x :: rest -> window (if starts x "isrun" then acc else x :: acc) rest
      | [] -> (List.rev acc, [])
    in
    let win, post = window [] rest in
    (* a run() logged inside the window may have been overwritten by the final store or not: the value of
       run_ is unknown to the monitors until the next run()/reboot(), so the answers in between are dropped
       (the schedule search below decides these cases exactly) *)
    let post =
      if List.mem "run" win then begin
        let known = ref false in
        List.filter (fun x -> if x = "run" || x = "reboot" then known := true; !known || not (starts x "isrun")) post
      end else post
    in
    pre @ ("exit" :: win) @ post
  end

let loc_of_pc = function
  | PTop -> "1" | PHeld -> "2" | PSleep -> "S" | PInit -> "3" | PInitBody -> "7" | PC1a -> "9" | PStepBody -> "8"
  | PAfter -> "4" | PC2a -> "9" | PFinal -> "5" | PDone -> "6" | PExited -> "X"
  | _ -> "?"

let obs c = Printf.sprintf "%s:%d:%d" (loc_of_pc c.c_pc) (if c.c_run then 1 else 0) (int_of_nat c.c_step)

let b2i b = if b then 1 else 0

(* first suffix (= shortest history prefix) of a newest-first trace that is not good, and why *)
let diagnose (tr : event list) : string list =
  let rec suffixes l = match l with [] -> [ [] ] | _ :: t -> l :: suffixes t in
  let bad = List.filter (fun s -> not (good s)) (List.rev (suffixes tr)) in
  match bad with
  | [] -> [ "none" ]
  | s :: _ ->
      let why =
        if not (le1 (pend s)) then "reset-or-reboot-not-honoured-within-one-step"
        else if not (le1 (rbm s)) then "reboot-followed-by-more-than-one-init-or-step-before-run"
        else if not (le1 (tdm s)) then "more-than-one-init-or-step-after-teardown"
        else
          match s with
          | EInit :: _ -> "init-after-exit"
          | EStep _ :: t -> if runreq t then "step-number-out-of-sequence" else "step-before-run"
          | EExit :: t -> if exit_cause t then "exit-without-epoch" else "exit-without-teardown-or-false-run-condition"
          | EQRun true :: _ -> "running-after-exit-without-run"
          | EQRun false :: _ -> "not-running-although-run-was-requested-last"
          | EQStep _ :: _ -> "step-number-answer-inconsistent-with-history"
          | _ -> "unknown"
      in
      [ why; Printf.sprintf "at-event-%d" (List.length s); (match s with e :: _ -> string_of_event e | [] -> "-") ]

(* ---- stress traces: search for a model schedule that produces the logged trace ----
   The log fixes the order of the commands (with the answers of the queries) and of the thread's
   events (init, step k, rc b; "final5"/"exit" = schedule points 5/6 around the final store).  The
   thread's silent moves (flag accesses, lock, wake-up, the final store itself), the second half of
   reboot() and spurious wake-ups may fall anywhere in between.  Depth-first search over
   (position in the log, model configuration up to its trace) with a visited table.  A schedule
   that is found is replayed through the extracted run_moves and its trace compared with the log
   (so a positive answer does not rely on this search code). *)
type item = IThr of event | IF5 | IX6 | ICmd of cmd | IQ of event | IIgnore

let item_of_string s =
  match s with
  | "final5" -> IF5 | "exit" -> IX6
  | "run" -> ICmd Run | "reset" -> ICmd Reset | "reboot" -> ICmd Reboot | "teardown" -> ICmd Teardown | "wait" -> ICmd Wait
  | _ -> (
      match event_of_string s with
      | Some ((EQRun _ | EQStep _) as e) -> IQ e
      | Some ((EInit | EStep _ | ERc _) as e) -> IThr e
      | _ -> IIgnore)

let key c = (c.c_pc, c.c_run, c.c_rst, c.c_td, int_of_nat c.c_step, c.c_woken, c.c_mid)

let emits_logged (p : pc) = match p with PInit | PStep | PC1a | PC2a -> true | _ -> false

let explain (ws : string list) : (move list option) * int =
  let items = Array.of_list (List.filter (fun i -> i <> IIgnore) (List.map item_of_string ws)) in
  let n = Array.length items in
  let visited = Hashtbl.create 4096 in
  let furthest = ref 0 in
  let head c = match c.c_trace with e :: _ -> Some e | [] -> None in
  let rec go i c (acc : move list) : move list option =
    if i > !furthest then furthest := i;
    if i = n then Some (List.rev acc)
    else if Hashtbl.mem visited (i, key c) then None
    else begin
      Hashtbl.add visited (i, key c) ();
      let try_move m k = match step c m with Some c' -> k c' | None -> None in
      let first_some l = List.fold_left (fun r f -> match r with Some _ -> r | None -> f ()) None l in
      first_some
        [ (* consume the next log item *)
          (fun () ->
            match items.(i) with
            | IThr e ->
                let b = (match e with ERc b -> b | _ -> true) in
                if emits_logged c.c_pc then
                  try_move (MThread b) (fun c' -> if head c' = Some e then go (i + 1) c' (MThread b :: acc) else None)
                else None
            | IF5 -> if c.c_pc = PFinal then go (i + 1) c acc else None
            | IX6 -> if c.c_pc = PDone || c.c_pc = PExited then go (i + 1) c acc else None
            | ICmd k -> if c.c_mid then None else try_move (MCmd k) (fun c' -> go (i + 1) c' (MCmd k :: acc))
            | IQ e ->
                if c.c_mid then None
                else
                  let k = (match e with EQRun _ -> IsRunning | _ -> StepNumber) in
                  try_move (MCmd k) (fun c' -> if head c' = Some e then go (i + 1) c' (MCmd k :: acc) else None)
            | IIgnore -> go (i + 1) c acc);
          (* second half of reboot() *)
          (fun () -> if c.c_mid then try_move MRebootEnd (fun c' -> go i c' (MRebootEnd :: acc)) else None);
          (* a silent move of the thread *)
          (fun () -> if emits_logged c.c_pc then None else try_move (MThread false) (fun c' -> go i c' (MThread false :: acc)));
          (* a spurious wake-up *)
          (fun () -> if c.c_pc = PSleep && not c.c_woken then try_move MSpurious (fun c' -> go i c' (MSpurious :: acc)) else None) ]
    end
  in
  let r = go 0 init [] in
  (r, !furthest)

(* replay of a found schedule through the extracted run_moves; traces compared up to the position of the exit marker *)
let certify (ws : string list) (ms : move list) : bool =
  match run_moves init ms with
  | None -> false
  | Some c ->
      let strip_model = List.filter (fun e -> e <> EExit) (List.rev c.c_trace) in
      let logged = List.filter_map (fun s -> if s = "exit" || s = "final5" then None else event_of_string s) ws in
      let model_exit = List.mem EExit c.c_trace and log_exit = List.mem "exit" ws in
      strip_model = logged && model_exit = log_exit

let run_cases impl =
  let cases = Caseio.read_records "case" stdin in
  List.iter
    (fun (c : Caseio.case) ->
      Caseio.out_begin c.id;
      (if c.kind = "word" then begin
         let pre = (if Caseio.has c "pre" then Caseio.get_word c "pre" else []) in
         let w = List.map tok_of_string (pre @ (if Caseio.has c "w" then Caseio.get_word c "w" else [])) in
         let observations = ref [ obs init ] in
         let cfg =
           List.fold_left
             (fun cfg t -> let cfg' = do_token cfg t in observations := obs cfg' :: !observations; cfg')
             init w
         in
         let fin = finish cfg in
         let at_end = (match cfg.c_pc with PHeld -> thread_token true cfg | _ -> cfg) in
         Caseio.out_word "end_loc" [ loc_of_pc at_end.c_pc ];
         Caseio.out_word "obs" (List.rev !observations);
         Caseio.out_word "trace" ("|" :: List.map string_of_event (List.rev fin.c_trace));
         Caseio.out_int "exited" (b2i (fin.c_pc = PExited));
         Caseio.out_int "final_running" (b2i fin.c_run);
         Caseio.out_int "final_step" (int_of_nat fin.c_step);
         Caseio.out_int "model_good" (b2i (all_good fin.c_trace))
       end);
      (match impl with
       | None -> ()
       | Some recs -> (
           match Hashtbl.find_opt recs c.id with
           | None -> ()
           | Some r ->
               if Caseio.has r "trace" then begin
                 let evs = List.filter_map event_of_string (normalise_stress (Caseio.get_word r "trace")) in
                 let tr = List.rev evs in
                 Caseio.out_int "impl_good" (b2i (all_good tr));
                 Caseio.out_word "impl_bad" (diagnose tr);
                 if c.kind = "stress" then begin
                   let ws = Caseio.get_word r "trace" in
                   match explain ws with
                   | Some ms, _ ->
                       Caseio.out_int "explained" 1;
                       Caseio.out_int "certified" (b2i (certify ws ms));
                       Caseio.out_int "schedule_moves" (List.length ms)
                   | None, far ->
                       Caseio.out_int "explained" 0;
                       let items = List.filter (fun s -> item_of_string s <> IIgnore) ws in
                       Caseio.out_word "unexplained_at"
                         [ string_of_int far; (try List.nth items far with _ -> "end") ]
                 end
               end));
      Caseio.out_end ())
    cases

(* ---- exhaustive enumeration over enabled tokens ---- *)
let gen tag maxlen maxcmds maxf prefix =
  let states = Hashtbl.create 1024 and trans = Hashtbl.create 4096 in
  let key c = (c.c_pc, c.c_run, c.c_rst, c.c_td, int_of_nat c.c_step, c.c_woken, c.c_mid) in
  let n = ref 0 in
  let buf = Buffer.create (1 lsl 20) in
  let enabled c =
    let thr = step c (MThread true) <> None in
    let rc = (c.c_pc = PC1a || c.c_pc = PC2a) in
    let mf = mutex_free c.c_pc in
    (if thr then [ TT ] else []) @ (if thr && rc then [ TF ] else [])
    @ (if mf then [ KCmd Run ] else []) @ [ KCmd Reset ]
    @ (if mf then [ KCmd Reboot; KCmd Teardown ] else [])
    @ (if c.c_pc = PExited then [ KCmd Wait ] else [])
  in
  let rec go c word depth ncmd nf =
    Hashtbl.replace states (key c) ();
    Buffer.add_string buf (Printf.sprintf "case %s%d word len=%d cmds=%d src=enum\nword w %s\nend\n" tag !n depth ncmd (String.concat " " (List.rev word)));
    incr n;
    if depth < maxlen then
      List.iter
        (fun t ->
          let isc = (match t with KCmd _ -> 1 | _ -> 0) and isf = (match t with TF -> 1 | _ -> 0) in
          if ncmd + isc <= maxcmds && nf + isf <= maxf then begin
            Hashtbl.replace trans (key c, t) ();
            go (do_token c t) (string_of_tok t :: word) (depth + 1) (ncmd + isc) (nf + isf)
          end)
        (enabled c)
  in
  let c0 = List.fold_left do_token init prefix in
  go c0 (List.rev_map string_of_tok prefix) 0 0 0;
  Printf.printf "# stats words=%d states=%d transitions=%d maxlen=%d\n" !n (Hashtbl.length states) (Hashtbl.length trans) maxlen;
  print_string (Buffer.contents buf)

let () =
  match Array.to_list Sys.argv with
  | _ :: "gen" :: tag :: k :: mc :: mf :: prefix ->
      gen tag (int_of_string k) (int_of_string mc) (int_of_string mf) (List.map tok_of_string prefix)
  | _ :: f :: _ ->
      let ic = open_in f in
      let recs = Caseio.read_records "out" ic in
      close_in ic;
      let h = Hashtbl.create 4096 in
      List.iter (fun (r : Caseio.case) -> Hashtbl.replace h r.id r) recs;
      run_cases (Some h)
  | _ -> run_cases None
