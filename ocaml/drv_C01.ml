(* drv_C01.ml — driver: runs the extracted C01 model (Kalman correction) on the
   case file given on stdin.  Operands: H (m x n), R (m x m), y (m x 1),
   means (n x comps), covs (n x n*comps). *)
let () =
  let cases = Caseio.read_records "case" stdin in
  List.iter
    (fun (c : Caseio.case) ->
      let h = Caseio.get_mat c "H" and r = Caseio.get_mat c "R" and y = Caseio.get_mat c "y" in
      let means = Caseio.get_mat c "means" and covs = Caseio.get_mat c "covs" in
      let n = Array.length means and m = Array.length h in
      let comps = mat_cols means in
      let cs =
        List.init comps (fun i -> (lmx_of_mat (mat_col means i), lmx_of_mat (mat_block_cols covs (i * n) n)))
      in
      let res = c01_run fops (nat_of_int n) (nat_of_int m) (lmx_of_mat h) (lmx_of_mat r) (lmx_of_mat y) cs in
      let spec = c01_spec fops (nat_of_int n) (nat_of_int m) (lmx_of_mat h) (lmx_of_mat r) (lmx_of_mat y) cs in
      Caseio.out_begin c.id;
      Caseio.out_int "components" (List.length res);
      List.iteri
        (fun i ((((mean, cov), innov), py), lik) ->
          Caseio.out_mat (Printf.sprintf "mean%d" i) (mat_of_lmx mean);
          Caseio.out_mat (Printf.sprintf "cov%d" i) (mat_of_lmx cov);
          Caseio.out_mat (Printf.sprintf "innov%d" i) (mat_of_lmx innov);
          Caseio.out_mat (Printf.sprintf "Py%d" i) (mat_of_lmx py);
          Caseio.out_num (Printf.sprintf "lik%d" i) (fl lik))
        res;
      List.iteri
        (fun i ((mean, cov), lik) ->
          Caseio.out_mat (Printf.sprintf "spec_mean%d" i) (mat_of_lmx mean);
          Caseio.out_mat (Printf.sprintf "spec_cov%d" i) (mat_of_lmx cov);
          Caseio.out_num (Printf.sprintf "spec_lik%d" i) (fl lik))
        spec;
      Caseio.out_end ())
    cases
