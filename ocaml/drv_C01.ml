(* drv_C01.ml — driver: runs the extracted C01 model (Kalman correction) on the
   case file given on stdin.  A case has `steps` successive corrections; the
   model is a pure function of each step's operands (H_s<t>, R_s<t>, y_s<t>,
   means_s<t>, covs_s<t>), so every step is evaluated on its own. *)
let () =
  let cases = Caseio.read_records "case" stdin in
  List.iter
    (fun (c : Caseio.case) ->
      let steps = (try Caseio.meta_int c "steps" with _ -> 1) in
      Caseio.out_begin c.id;
      for t = 0 to steps - 1 do
        let s = Printf.sprintf "_s%d" t in
        let h = Caseio.get_mat c ("H" ^ s) and r = Caseio.get_mat c ("R" ^ s) and y = Caseio.get_mat c ("y" ^ s) in
        let means = Caseio.get_mat c ("means" ^ s) and covs = Caseio.get_mat c ("covs" ^ s) in
        let n = Array.length means and m = Array.length h in
        let comps = mat_cols means in
        let cs =
          List.init comps (fun i -> (lmx_of_mat (mat_col means i), lmx_of_mat (mat_block_cols covs (i * n) n)))
        in
        let res = c01_run fops (nat_of_int n) (nat_of_int m) (lmx_of_mat h) (lmx_of_mat r) (lmx_of_mat y) cs in
        let spec = c01_spec fops (nat_of_int n) (nat_of_int m) (lmx_of_mat h) (lmx_of_mat r) (lmx_of_mat y) cs in
        Caseio.out_int ("components" ^ s) (List.length res);
        List.iteri
          (fun i ((((mean, cov), innov), py), lik) ->
            Caseio.out_mat (Printf.sprintf "mean%d%s" i s) (mat_of_lmx mean);
            Caseio.out_mat (Printf.sprintf "cov%d%s" i s) (mat_of_lmx cov);
            Caseio.out_mat (Printf.sprintf "innov%d%s" i s) (mat_of_lmx innov);
            Caseio.out_mat (Printf.sprintf "Py%d%s" i s) (mat_of_lmx py);
            Caseio.out_num (Printf.sprintf "lik%d%s" i s) (fl lik))
          res;
        List.iteri
          (fun i ((mean, cov), lik) ->
            Caseio.out_mat (Printf.sprintf "spec_mean%d%s" i s) (mat_of_lmx mean);
            Caseio.out_mat (Printf.sprintf "spec_cov%d%s" i s) (mat_of_lmx cov);
            Caseio.out_num (Printf.sprintf "spec_lik%d%s" i s) (fl lik))
          spec
      done;
      Caseio.out_end ())
    cases
