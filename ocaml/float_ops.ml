(* float_ops.ml — textual fragment, placed after "open <Extracted_model>" by
   the build: the IEEE-double instance of SOps and conversions between the
   extracted datatypes (nat, positive, z, lists of Obj.t) and OCaml values.
   This fragment is part of the trusted base of the correspondence check. *)

let rec int_of_pos (p : positive) : int =
  match p with XH -> 1 | XO q -> 2 * int_of_pos q | XI q -> 2 * int_of_pos q + 1
let int_of_z (x : z) : int =
  match x with Z0 -> 0 | Zpos p -> int_of_pos p | Zneg p -> - (int_of_pos p)
let rec float_of_pos (p : positive) : float =
  match p with XH -> 1.0 | XO q -> 2.0 *. float_of_pos q | XI q -> 2.0 *. float_of_pos q +. 1.0
let float_of_z (x : z) : float =
  match x with Z0 -> 0.0 | Zpos p -> float_of_pos p | Zneg p -> -. (float_of_pos p)
let rec pos_of_int (n : int) : positive =
  if n <= 1 then XH else if n land 1 = 0 then XO (pos_of_int (n lsr 1)) else XI (pos_of_int (n lsr 1))
let z_of_int (n : int) : z = if n = 0 then Z0 else if n > 0 then Zpos (pos_of_int n) else Zneg (pos_of_int (- n))
let rec nat_of_int (n : int) : nat = if n <= 0 then O else S (nat_of_int (n - 1))
let rec int_of_nat (n : nat) : int = match n with O -> 0 | S k -> 1 + int_of_nat k

let fl (x : Obj.t) : float = Obj.obj x
let ob (x : float) : Obj.t = Obj.repr x
let f1 (f : float -> float) : Obj.t -> Obj.t = fun a -> ob (f (fl a))
let f2 (f : float -> float -> float) : Obj.t -> Obj.t -> Obj.t = fun a b -> ob (f (fl a) (fl b))

let fops : sOps = {
  s0 = ob 0.0; s1 = ob 1.0;
  sadd = f2 ( +. ); ssub = f2 ( -. ); smul = f2 ( *. ); sdiv = f2 ( /. );
  sopp = f1 (fun a -> -. a);
  sleb = (fun a b -> fl a <= fl b); sltb = (fun a b -> fl a < fl b);
  sofZ = (fun x -> ob (float_of_z x));
  ssqrt = f1 sqrt; sexp = f1 exp; sln = f1 log; scos = f1 cos; ssin = f1 sin; sacos = f1 acos;
  satan2 = f2 Float.atan2; spi = ob (4.0 *. atan 1.0);
  stiny = ob Float.min_float   (* 2.2250738585072014e-308 = numeric_limits<double>::min() *)
}

let lmx_of_mat (m : float array array) : Obj.t list list =
  Array.to_list (Array.map (fun r -> Array.to_list (Array.map ob r)) m)
let mat_of_lmx (l : Obj.t list list) : float array array =
  Array.of_list (List.map (fun r -> Array.of_list (List.map fl r)) l)
let lvec_of_col (m : float array array) : Obj.t list = Array.to_list (Array.map (fun r -> ob r.(0)) m)
let col_of_lvec (l : Obj.t list) : float array array = Array.of_list (List.map (fun x -> [| fl x |]) l)
let row_of_lvec (l : Obj.t list) : float array array = [| Array.of_list (List.map fl l) |]
(* column j of a matrix as an n x 1 matrix *)
let mat_col (m : float array array) (j : int) : float array array = Array.map (fun r -> [| r.(j) |]) m
let mat_cols (m : float array array) : int = if Array.length m = 0 then 0 else Array.length m.(0)
(* columns [c0, c0+w) *)
let mat_block_cols (m : float array array) (c0 : int) (w : int) : float array array =
  Array.map (fun r -> Array.sub r c0 w) m
