(* drv_C06.ml — driver: runs the extracted COMMAND-LEVEL C06 model (c06_cmd_trace_full: raw skip
   commands, steps, resets) on the histories given on stdin.  Nothing about the skip flags is
   computed here or in the generator: the driver only translates the command tokens of the case
   ("name+" / "name-") into the model's command type; the flags every step runs under, the answers
   to the commands and the branch of the state model's propagate come out of the extracted dispatch.
   The random offsets of the resampling calls are read from the implementation's output file
   (Sys.argv.(1), "num u1_<k>"); a step in which the implementation did not resample gets nan (the
   model then resamples only if its own decision differs, which the comparison reports). *)
let flag (c : Caseio.case) name k = List.nth (Caseio.get_word c name) k = "1"
let tok (c : Caseio.case) name k dflt =
  if Caseio.has c name then (let w = Caseio.get_word c name in if List.length w > k then List.nth w k else dflt) else dflt

let cols_of (m : float array array) : Obj.t list list =
  (* columns of a d x N matrix as lists *)
  let d = Array.length m in
  let n = if d = 0 then 0 else Array.length m.(0) in
  List.init n (fun i -> List.init d (fun r -> ob m.(r).(i)))

let mat_of_cols (d : int) (cols : Obj.t list list) : float array array =
  let n = List.length cols in
  let a = Array.make_matrix d n 0.0 in
  List.iteri (fun i col -> List.iteri (fun r x -> a.(r).(i) <- fl x) col) cols;
  a

let dump tag k d (s : (Obj.t list, nat) sset) =
  let sk = string_of_int k in
  let n = List.length s.s_parts in
  Caseio.out_int (tag ^ "n" ^ sk) n;
  Caseio.out_int (tag ^ "dl" ^ sk) (int_of_nat s.s_lin);
  Caseio.out_int (tag ^ "dc" ^ sk) (int_of_nat s.s_circ);
  Caseio.out_mat_shape (tag ^ "lw" ^ sk) (List.length s.s_lw) 1 (col_of_lvec s.s_lw);
  Caseio.out_mat_shape (tag ^ "st" ^ sk) d n (mat_of_cols d (List.map fst s.s_parts));
  (* which initial particle the mean/covariance blocks of each particle come from *)
  Caseio.out_mat_shape (tag ^ "aux" ^ sk) n 1
    (Array.of_list (List.map (fun p -> [| float_of_int (int_of_nat (snd p)) |]) s.s_parts))

(* "none" or "name+,name-,..." -> commands *)
let name_of s = match s with
  | "prediction" -> NPrediction | "state" -> NState | "exogenous" -> NExogenous
  | "correction" -> NCorrection | "all" -> NAll | _ -> NOther
let cmds_of_token (t : string) : (name * bool) list =
  if t = "none" || t = "" then []
  else List.filter_map (fun s ->
         let l = String.length s in
         if l < 2 then None else Some (name_of (String.sub s 0 (l - 1)), s.[l - 1] = '+'))
       (String.split_on_char ',' t)

let mode_name m = match m with
  | MCopy -> "copy" | MFull -> "full" | MStateOnly -> "state" | MExoOnly -> "exo" | MNothing -> "nothing"
let res_name r = match r with Ok true -> "1" | Ok false -> "0" | Throws -> "T"

let () =
  let cases = Caseio.read_records "case" stdin in
  let impl =
    if Array.length Sys.argv > 1 then begin
      let ic = open_in Sys.argv.(1) in
      let r = Caseio.read_records "out" ic in
      close_in ic; r
    end else [] in
  let tbl = Hashtbl.create 1024 in
  List.iter (fun (r : Caseio.case) -> Hashtbl.replace tbl r.id r) impl;
  List.iter
    (fun (c : Caseio.case) ->
      match Hashtbl.find_opt tbl c.id with
      | None -> ()
      | Some io ->
        let n = Caseio.meta_int c "N" and dl = Caseio.meta_int c "dl" and dc = Caseio.meta_int c "dc" in
        let kk = Caseio.meta_int c "K" in
        let d = dl + dc in
        let have = Caseio.meta c "exo" <> "0" && Caseio.meta c "exo" <> "" in
        let fs = Caseio.get_mat c "Fs" and shift = Caseio.get_mat c "shift" and off = (Caseio.get_mat c "off").(0) in
        let gs = if have then Caseio.get_mat c "Gs" else [||] and shift2 = if have then Caseio.get_mat c "shift2" else [||] in
        let gauss = Caseio.meta c "likmodel" = "gauss" in
        (* scripted likelihood: from the case; GaussianLikelihood: the vector the library computed (checked
           against the closed form by the plug-in's oracle), None when it reported the likelihood invalid *)
        let lik_of k =
          let sk = string_of_int k in
          if gauss then
            (if Caseio.has io ("lv" ^ sk) && Caseio.get_int io ("lv" ^ sk) = 1
             then Some (lvec_of_col (Caseio.get_mat io ("lik" ^ sk))) else None)
          else
            (if flag c "likvalid" k then Some (Array.to_list (Array.map ob (Caseio.get_mat c "lik").(k))) else None) in
        (* the r-th initialisation: columns rotated by r *)
        let init_state = Caseio.get_mat c "init_state" and init_lw = Caseio.get_mat c "init_lw" in
        let init_parts r = List.init n (fun i -> let j = (i + r) mod n in (List.init d (fun q -> ob init_state.(q).(j)), nat_of_int j)) in
        let init_w r = List.init n (fun i -> ob init_lw.((i + r) mod n).(0)) in
        let s0 = { s_lin = nat_of_int dl; s_circ = nat_of_int dc; s_parts = init_parts 0; s_lw = init_w 0 } in
        (* SIS constructor: cor_particle_(num_particle_, linear, circular): zero states, weights 1/N *)
        let c0 = { s_lin = nat_of_int dl; s_circ = nat_of_int dc;
                   s_parts = List.init n (fun i -> (List.init d (fun _ -> ob 0.0), nat_of_int i));
                   s_lw = List.init n (fun _ -> ob (1.0 /. float_of_int n)) } in
        let cs0 = { c_flags = c06_init_flags have; c_sis = { step = O; pred = s0; cor = c0 } } in
        (* commands given to the parts before the filter was assembled (objects obtained by move after use) *)
        let pre =
          (if Caseio.meta c "used_pred" = "1" then cmds_of_token (tok c "precmd_pred" 0 "none") else [])
          @ (if Caseio.meta c "used_corr" = "1" then cmds_of_token (tok c "precmd_corr" 0 "none") else []) in
        let matvec (blocks : float array array) k (x : float array) r =
          let acc = ref 0.0 in
          for s = 0 to d - 1 do acc := !acc +. blocks.(r).(k * d + s) *. x.(s) done; !acc in
        let cev k =
          let u1 = if Caseio.has io ("u1_" ^ string_of_int k) then Caseio.get_num io ("u1_" ^ string_of_int k) else nan in
          { ce_cmds = (if k = 0 then pre else []) @ cmds_of_token (tok c "cmd" k "none");
            ce_freeze = flag c "freeze" k;
            ce_lik = lik_of k;
            ce_motion = (fun mode i x ->
              let xa = Array.of_list (List.map fl x) in
              let fi = float_of_int (int_of_nat i + 1) in
              List.mapi (fun r _ ->
                let fx () = matvec fs k xa r and ex () = matvec gs k xa r +. shift2.(k).(r) in
                let p = match mode with
                  | MFull -> fx () +. ex ()
                  | MStateOnly -> fx ()
                  | MExoOnly -> ex ()
                  | MCopy | MNothing -> xa.(r) in      (* not reached while the prediction step is not skipped (C06_cmd_prediction) *)
                let t = p +. shift.(k).(r) in
                ob (t +. off.(r) *. fi)) x);
            ce_u1 = ob u1 } in
        let resets = ref 0 in
        let items =
          List.concat (List.init kk (fun k ->
            let st = IStep (cev k) in
            if tok c "reset" k "0" = "1" && k < kk - 1 then begin
              incr resets; let r = !resets in [st; IReset (init_parts r, init_w r)]
            end else [st])) in
        let tr = c06_cmd_trace_full fops (nat_of_int n) cs0 items in
        Caseio.out_begin c.id;
        let k = ref 0 in
        List.iter
          (fun ((rep : ((res list * (Obj.t list, nat) sset) * bool) option), (cs : (Obj.t list, nat) cstate)) ->
            match rep with
            | None -> ()
            | Some ((answers, m), dec) ->
              let kk0 = !k in
              let sk = string_of_int kk0 in
              let st = cs.c_sis and f = cs.c_flags in
              dump "c" kk0 d st.cor; dump "p" kk0 d st.pred;
              Caseio.out_int ("step" ^ sk) (int_of_nat st.step);
              Caseio.out_int ("fP" ^ sk) (if f.f_pred then 1 else 0);
              Caseio.out_int ("fS" ^ sk) (if f.f_state then 1 else 0);
              Caseio.out_int ("fE" ^ sk) (match f.f_exo with None -> -1 | Some true -> 1 | Some false -> 0);
              Caseio.out_int ("fC" ^ sk) (if f.f_corr then 1 else 0);
              Caseio.out_word ("mode" ^ sk) [mode_name (prop_mode_of f)];
              Caseio.out_word ("ret" ^ sk) (if answers = [] then ["-"] else List.map res_name answers);
              Caseio.out_int ("res" ^ sk) (if dec then 1 else 0);
              Caseio.out_num ("neff" ^ sk) (fl (c06_neff fops m.s_lw));
              Caseio.out_num ("mlse" ^ sk) (fl (c06_lse fops m.s_lw));
              Caseio.out_mat_shape ("mlw" ^ sk) (List.length m.s_lw) 1 (col_of_lvec m.s_lw);
              if dec then begin
                let u1 = if Caseio.has io ("u1_" ^ sk) then ob (Caseio.get_num io ("u1_" ^ sk)) else ob nan in
                let par = c06_parents fops m.s_lw u1 in
                Caseio.out_mat_shape ("par" ^ sk) (List.length par) 1
                  (Array.of_list (List.map (fun p -> [| float_of_int (int_of_nat p) |]) par));
                Caseio.out_mat_shape ("csw" ^ sk) (List.length m.s_lw) 1 (col_of_lvec (c06_csw fops m.s_lw));
                Caseio.out_mat_shape ("comb" ^ sk) (List.length m.s_lw) 1
                  (col_of_lvec (c06_comb fops (nat_of_int (List.length m.s_lw)) u1))
              end;
              incr k)
          tr;
        Caseio.out_end ())
    cases
