(* drv_C06.ml — driver: runs the extracted C06 model (SIS recursion) on the
   histories given on stdin.  The random offsets of the resampling calls are
   read from the implementation's output file (Sys.argv.(1), "num u1_<k>");
   a step in which the implementation did not resample gets nan (the model then
   resamples only if its own decision differs, which the comparison reports). *)
let flag (c : Caseio.case) name k = List.nth (Caseio.get_word c name) k = "1"

let cols_of (m : float array array) : Obj.t list list =
  (* columns of a d x N matrix as lists *)
  let d = Array.length m in
  let n = if d = 0 then 0 else Array.length m.(0) in
  List.init n (fun i -> List.init d (fun r -> ob m.(r).(i)))

let mat_of_cols (d : int) (cols : Obj.t list list) : float array array =
  let n = List.length cols in
  let a = Array.make_matrix d n 0.0 in
  List.iteri (fun i col -> List.iteri (fun r x -> a.(r).(i) <- fl x) col) cols;
  a

let dump tag k d (s : (Obj.t list, nat) sset) =
  let sk = string_of_int k in
  let n = List.length s.s_parts in
  Caseio.out_int (tag ^ "n" ^ sk) n;
  Caseio.out_int (tag ^ "dl" ^ sk) (int_of_nat s.s_lin);
  Caseio.out_int (tag ^ "dc" ^ sk) (int_of_nat s.s_circ);
  Caseio.out_mat_shape (tag ^ "lw" ^ sk) (List.length s.s_lw) 1 (col_of_lvec s.s_lw);
  Caseio.out_mat_shape (tag ^ "st" ^ sk) d n (mat_of_cols d (List.map fst s.s_parts));
  (* which initial particle the mean/covariance blocks of each particle come from *)
  Caseio.out_mat_shape (tag ^ "aux" ^ sk) n 1
    (Array.of_list (List.map (fun p -> [| float_of_int (int_of_nat (snd p)) |]) s.s_parts))

let () =
  let cases = Caseio.read_records "case" stdin in
  let impl =
    if Array.length Sys.argv > 1 then begin
      let ic = open_in Sys.argv.(1) in
      let r = Caseio.read_records "out" ic in
      close_in ic; r
    end else [] in
  let tbl = Hashtbl.create 1024 in
  List.iter (fun (r : Caseio.case) -> Hashtbl.replace tbl r.id r) impl;
  List.iter
    (fun (c : Caseio.case) ->
      match Hashtbl.find_opt tbl c.id with
      | None -> ()
      | Some io ->
        let n = Caseio.meta_int c "N" and dl = Caseio.meta_int c "dl" and dc = Caseio.meta_int c "dc" in
        let kk = Caseio.meta_int c "K" in
        let d = dl + dc in
        let a = (Caseio.get_mat c "a").(0).(0) in
        let shift = Caseio.get_mat c "shift" in
        let gauss = Caseio.meta c "likmodel" = "gauss" in
        (* scripted likelihood: from the case; GaussianLikelihood: the vector the library computed (checked
           against the closed form by the plug-in's oracle), None when it reported the likelihood invalid *)
        let lik_of k =
          let sk = string_of_int k in
          if gauss then
            (if Caseio.has io ("lv" ^ sk) && Caseio.get_int io ("lv" ^ sk) = 1
             then Some (lvec_of_col (Caseio.get_mat io ("lik" ^ sk))) else None)
          else
            (if flag c "likvalid" k then Some (Array.to_list (Array.map ob (Caseio.get_mat c "lik").(k))) else None) in
        let s0 = { s_lin = nat_of_int dl; s_circ = nat_of_int dc;
                   s_parts = List.mapi (fun i x -> (x, nat_of_int i)) (cols_of (Caseio.get_mat c "init_state"));
                   s_lw = lvec_of_col (Caseio.get_mat c "init_lw") } in
        (* SIS constructor: cor_particle_(num_particle_, linear, circular): zero states, weights 1/N *)
        let c0 = { s_lin = nat_of_int dl; s_circ = nat_of_int dc;
                   s_parts = List.init n (fun i -> (List.init d (fun _ -> ob 0.0), nat_of_int i));
                   s_lw = List.init n (fun _ -> ob (1.0 /. float_of_int n)) } in
        let st0 = { step = O; pred = s0; cor = c0 } in
        let evs =
          List.init kk (fun k ->
            let u1 = if Caseio.has io ("u1_" ^ string_of_int k) then Caseio.get_num io ("u1_" ^ string_of_int k) else nan in
            { ev_skip_pred = flag c "skipp" k; ev_skip_corr = flag c "skipc" k; ev_freeze = flag c "freeze" k;
              ev_lik = lik_of k;
              ev_pred = (fun i x ->
                let fi = float_of_int (int_of_nat i + 1) in
                List.mapi (fun r v -> let t = a *. fl v in let t = t +. shift.(k).(r) in ob (t +. 0.01 *. fi)) x);
              ev_u1 = ob u1 }) in
        let tr = c06_trace_full fops (nat_of_int n) st0 evs in
        Caseio.out_begin c.id;
        List.iteri
          (fun k (((m : (Obj.t list, nat) sset), (dec : bool)), (st : (Obj.t list, nat) sis_state)) ->
            let sk = string_of_int k in
            dump "c" k d st.cor; dump "p" k d st.pred;
            Caseio.out_int ("step" ^ sk) (int_of_nat st.step);
            Caseio.out_int ("res" ^ sk) (if dec then 1 else 0);
            Caseio.out_num ("neff" ^ sk) (fl (c06_neff fops m.s_lw));
            Caseio.out_num ("mlse" ^ sk) (fl (c06_lse fops m.s_lw));
            Caseio.out_mat_shape ("mlw" ^ sk) (List.length m.s_lw) 1 (col_of_lvec m.s_lw);
            if dec then begin
              let u1 = (List.nth evs k).ev_u1 in
              let par = c06_parents fops m.s_lw u1 in
              Caseio.out_mat_shape ("par" ^ sk) (List.length par) 1
                (Array.of_list (List.map (fun p -> [| float_of_int (int_of_nat p) |]) par));
              Caseio.out_mat_shape ("csw" ^ sk) (List.length m.s_lw) 1 (col_of_lvec (c06_csw fops m.s_lw));
              Caseio.out_mat_shape ("comb" ^ sk) (List.length m.s_lw) 1
                (col_of_lvec (c06_comb fops (nat_of_int (List.length m.s_lw)) u1))
            end)
          tr;
        Caseio.out_end ())
    cases
