(* drv_C17.ml — driver: runs the extracted C17 model (HistoryBuffer and
   EstimatesExtraction state machines) over the operation sequence of each
   case and prints, after every operation, the returned pair and the state, in
   the same format as cpp/h_C17.cpp.  It also prints spec-level values used by
   the checks (spec_mapvalues<k>): the coded map scores of every extract/5. *)

let methods = [| "mean"; "smean"; "wmean"; "emean"; "mode"; "smode"; "wmode"; "emode"; "map"; "smap"; "wmap"; "emap" |]
let method_values = [| Mmean; Msmean; Mwmean; Memean; Mmode; Msmode; Mwmode; Memode; Mmap; Msmap; Mwmap; Memap |]
let method_index (m : method0) : int =
  let r = ref (-1) in
  Array.iteri (fun i v -> if v = m then r := i) method_values; !r

(* columns of a (d x n) matrix; n is given separately because a 0-row matrix has no row to measure *)
let cols_of (m : float array array) (n : int) : Obj.t list list =
  List.init n (fun j -> Array.to_list (Array.map (fun r -> ob r.(j)) m))
let rows_of (m : float array array) : Obj.t list list =
  Array.to_list (Array.map (fun r -> Array.to_list (Array.map ob r)) m)
let vec_of (m : float array array) : Obj.t list = Array.to_list (Array.map (fun r -> ob r.(0)) m)
let out_vec name (v : Obj.t list) =
  Caseio.out_mat_shape name (List.length v) 1 (Array.of_list (List.map (fun x -> [| fl x |]) v))
(* d x n matrix from its columns *)
let out_cols name (d : int) (cs : Obj.t list list) =
  let n = List.length cs in
  let cs = Array.of_list (List.map Array.of_list cs) in
  Array.iter (fun c -> if Array.length c <> d then failwith "drv_C17: stored estimate of the wrong size") cs;
  Caseio.out_mat_shape name d n (Array.init d (fun i -> Array.init n (fun j -> fl cs.(j).(i))))

let starts_with s p = String.length s >= String.length p && String.sub s 0 (String.length p) = p
let after s k = String.sub s k (String.length s - k)

let run_est (c : Caseio.case) =
  let lin = Caseio.meta_int c "lin" and circ = Caseio.meta_int c "circ" in
  let d = lin + circ in
  let nl = nat_of_int lin and nc = nat_of_int circ in
  let ops = Caseio.get_word c "ops" in
  Caseio.out_begin c.id;
  let st = ref (c17_init fops) in
  List.iteri
    (fun k o ->
      let ks = string_of_int k in
      if o = "mv" || o = "ma" || o = "vg" then begin
        let target, source = c17_move fops !st in
        st := target;
        Caseio.out_int ("ret" ^ ks) 1;
        Caseio.out_int ("movedfrom_win" ^ ks) (int_of_nat (c17_window fops source));
        Caseio.out_int ("win" ^ ks) (int_of_nat (c17_window fops target));
        out_cols ("hist" ^ ks) d (c17_history fops target);
        Caseio.out_int ("meth" ^ ks) (method_index (c17_method fops target));
        let (sm, wm), em = c17_caches fops target in
        out_vec ("smw" ^ ks) sm; out_vec ("wmw" ^ ks) wm; out_vec ("emw" ^ ks) em
      end else
      let mop =
        if o = "e2" || o = "e5" then begin
          let w = vec_of (Caseio.get_mat c ("W" ^ ks)) in
          let n = List.length w in
          let ps = cols_of (Caseio.get_mat c ("P" ^ ks)) n in
          if o = "e2" then OExtract2 (ps, w)
          else begin
            let pw = vec_of (Caseio.get_mat c ("PW" ^ ks)) and l = vec_of (Caseio.get_mat c ("L" ^ ks)) in
            let t = rows_of (Caseio.get_mat c ("T" ^ ks)) in
            out_vec ("spec_mapvalues" ^ ks) (c17_map_values fops pw l t);
            OExtract5 (ps, w, pw, l, t)
          end
        end
        else if starts_with o "m:" then begin
          let name = after o 2 in
          let idx = ref (-1) in
          Array.iteri (fun i s -> if s = name then idx := i) methods;
          if !idx < 0 then failwith ("drv_C17: unknown method " ^ name);
          OSetMethod method_values.(!idx)
        end
        else if starts_with o "w:" then OSetWindow (z_of_int (int_of_string (after o 2)))
        else if o = "c" then OClear
        else failwith ("drv_C17: unknown op " ^ o)
      in
      let st', (b, e) = c17_step fops nl nc !st mop in
      st := st';
      Caseio.out_int ("ret" ^ ks) (if b then 1 else 0);
      (match mop with OExtract2 _ | OExtract5 _ -> out_vec ("est" ^ ks) e | _ -> ());
      Caseio.out_int ("win" ^ ks) (int_of_nat (c17_window fops st'));
      out_cols ("hist" ^ ks) d (c17_history fops st');
      Caseio.out_int ("meth" ^ ks) (method_index (c17_method fops st'));
      let (sm, wm), em = c17_caches fops st' in
      out_vec ("smw" ^ ks) sm; out_vec ("wmw" ^ ks) wm; out_vec ("emw" ^ ks) em)
    ops;
  Caseio.out_int "info_window" (int_of_nat (c17_window fops !st));
  Caseio.out_int "caches_reachable" 1;
  Caseio.out_end ()

let run_hb (c : Caseio.case) =
  let d = Caseio.meta_int c "d" in
  let ops = Caseio.get_word c "ops" in
  Caseio.out_begin c.id;
  let h = ref (c17_hb_init fops) in
  List.iteri
    (fun k o ->
      let ks = string_of_int k in
      if o = "mv" || o = "ma" || o = "vg" then begin
        let target, source = c17_hb_move fops !h in
        h := target;
        Caseio.out_int ("ret" ^ ks) 1;
        Caseio.out_int ("movedfrom_win" ^ ks) (int_of_nat (c17_hb_window fops source));
        Caseio.out_int ("win" ^ ks) (int_of_nat (c17_hb_window fops target));
        out_cols ("hist" ^ ks) d (c17_hb_get fops target)
      end else
      let mop =
        if o = "a" then HAdd (vec_of (Caseio.get_mat c ("X" ^ ks)))
        else if starts_with o "s:" then
          (* the harness passes static_cast<unsigned int>(long): reduce modulo 2^32 *)
          HSet (z_of_int ((int_of_string (after o 2)) land 0xFFFFFFFF))
        else if o = "d" then HDec
        else if o = "i" then HInc
        else if o = "c" then HClear
        else failwith ("drv_C17: unknown op " ^ o)
      in
      h := c17_hb_step fops !h mop;
      Caseio.out_int ("ret" ^ ks) 1;
      Caseio.out_int ("win" ^ ks) (int_of_nat (c17_hb_window fops !h));
      out_cols ("hist" ^ ks) d (c17_hb_get fops !h))
    ops;
  Caseio.out_end ()

let () =
  let cases = Caseio.read_records "case" stdin in
  List.iter
    (fun (c : Caseio.case) ->
      if c.kind = "est" then run_est c
      else if c.kind = "hb" then run_hb c
      else failwith ("drv_C17: unknown kind " ^ c.kind))
    cases
