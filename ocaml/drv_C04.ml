(* drv_C04.ml — driver: runs the extracted C04 model (unscented Kalman prediction /
   correction, both constructors) and the Kalman steps (spec side) on the case
   file given on stdin.  A case is a sequence of calls on one object (operands of call t
   carry the suffix _s<t>): the prediction model is applied to the operands of each call,
   the correction model additionally threads the state the object keeps for getLikelihood.  The square-root / eigenvector oracles of the model are
   the Jacobi eigen-iteration also used by drv_C03.ml; contract residuals are printed. *)

(* ---- symmetric Jacobi: returns (eigenvalues, eigenvectors as columns) ---- *)
let jacobi (a0 : float array array) : float array * float array array =
  let n = Array.length a0 in
  let a = Array.map Array.copy a0 in
  let v = Array.init n (fun i -> Array.init n (fun j -> if i = j then 1.0 else 0.0)) in
  let off () =
    let s = ref 0.0 in
    for i = 0 to n - 1 do for j = 0 to n - 1 do if i <> j then s := !s +. a.(i).(j) *. a.(i).(j) done done; !s in
  let scale = ref 0.0 in
  for i = 0 to n - 1 do for j = 0 to n - 1 do scale := !scale +. a.(i).(j) *. a.(i).(j) done done;
  let sweeps = ref 0 in
  while !sweeps < 60 && off () > 1e-32 *. !scale do
    incr sweeps;
    for p = 0 to n - 2 do
      for q = p + 1 to n - 1 do
        if a.(p).(q) <> 0.0 then begin
          let theta = (a.(q).(q) -. a.(p).(p)) /. (2.0 *. a.(p).(q)) in
          let t = (if theta >= 0.0 then 1.0 else -1.0) /. (abs_float theta +. sqrt (theta *. theta +. 1.0)) in
          let c = 1.0 /. sqrt (t *. t +. 1.0) in
          let s = t *. c in
          for k = 0 to n - 1 do
            let akp = a.(k).(p) and akq = a.(k).(q) in
            a.(k).(p) <- c *. akp -. s *. akq;
            a.(k).(q) <- s *. akp +. c *. akq
          done;
          for k = 0 to n - 1 do
            let apk = a.(p).(k) and aqk = a.(q).(k) in
            a.(p).(k) <- c *. apk -. s *. aqk;
            a.(q).(k) <- s *. apk +. c *. aqk
          done;
          for k = 0 to n - 1 do
            let vkp = v.(k).(p) and vkq = v.(k).(q) in
            v.(k).(p) <- c *. vkp -. s *. vkq;
            v.(k).(q) <- s *. vkp +. c *. vkq
          done
        end
      done
    done
  done;
  (Array.init n (fun i -> a.(i).(i)), v)

let sqrt_residual = ref 0.0
let eig_residual = ref 0.0
let oracle_calls = ref 0

let maxabs (m : float array array) = Array.fold_left (fun acc r -> Array.fold_left (fun a x -> max a (abs_float x)) acc r) 0.0 m

(* A = V sqrt(max(lambda, 0)) *)
let sq_oracle (_ : nat) (p : Obj.t list list) : Obj.t list list =
  let pm = mat_of_lmx p in
  let n = Array.length pm in
  if n = 0 then p else begin
    let sym = Array.init n (fun i -> Array.init n (fun j -> 0.5 *. (pm.(i).(j) +. pm.(j).(i)))) in
    let (ev, v) = jacobi sym in
    let a = Array.init n (fun i -> Array.init n (fun j -> v.(i).(j) *. sqrt (max ev.(j) 0.0))) in
    (* contract: A A^T = P *)
    let r = ref 0.0 in
    for i = 0 to n - 1 do for j = 0 to n - 1 do
      let s = ref 0.0 in
      for k = 0 to n - 1 do s := !s +. a.(i).(k) *. a.(j).(k) done;
      r := max !r (abs_float (!s -. pm.(i).(j)))
    done done;
    sqrt_residual := max !sqrt_residual (!r /. max 1e-300 (maxabs pm));
    incr oracle_calls;
    lmx_of_mat a
  end

(* unit eigenvector of the largest eigenvalue (symmetric argument) *)
let eg_oracle (_ : nat) (p : Obj.t list list) : Obj.t list list =
  let pm = mat_of_lmx p in
  let n = Array.length pm in
  let sym = Array.init n (fun i -> Array.init n (fun j -> 0.5 *. (pm.(i).(j) +. pm.(j).(i)))) in
  let (ev, v) = jacobi sym in
  let best = ref 0 in
  for i = 1 to n - 1 do if ev.(i) > ev.(!best) then best := i done;
  let x = Array.init n (fun i -> v.(i).(!best)) in
  let r = ref 0.0 in
  for i = 0 to n - 1 do
    let s = ref 0.0 in
    for k = 0 to n - 1 do s := !s +. pm.(i).(k) *. x.(k) done;
    r := max !r (abs_float (!s -. ev.(!best) *. x.(i)))
  done;
  eig_residual := max !eig_residual !r;
  incr oracle_calls;
  lmx_of_mat (Array.map (fun xi -> [| xi |]) x)


let comps_of (means : float array array) (covs : float array array) (n : int) =
  List.init (mat_cols means) (fun i -> (lmx_of_mat (mat_col means i), lmx_of_mat (mat_block_cols covs (i * n) n)))
let flist (m : float array array) : Obj.t list = Array.to_list (Array.map (fun r -> ob r.(0)) m)
let out_flist name (l : Obj.t list) = Caseio.out_mat_shape name 1 (List.length l) [| Array.of_list (List.map fl l) |]

let sfx name t = Printf.sprintf "%s_s%d" name t
let geti (c : Caseio.case) name d = if Caseio.has c name then Caseio.get_int c name else d

let () =
  let cases = Caseio.read_records "case" stdin in
  List.iter
    (fun (c : Caseio.case) ->
      sqrt_residual := 0.0; eig_residual := 0.0; oracle_calls := 0;
      let params = Caseio.get_mat c "params" in
      let alpha = ob params.(0).(0) and beta = ob params.(0).(1) and kappa = ob params.(0).(2) in
      let generic = Caseio.get_int c "generic" <> 0 in
      let circ = geti c "circ" 0 in
      let nsteps = Caseio.get_int c "nsteps" in
      Caseio.out_begin c.id;
      (* the state kept by an UKFCorrection object between calls: innovations, innovation covariances *)
      let st = ref ([], []) in
      for t = 0 to nsteps - 1 do
        let n = geti c (sfx "n" t) (Caseio.get_int c "n") and q = geti c (sfx "q" t) (Caseio.get_int c "q") in
        let means = Caseio.get_mat c (sfx "means" t) and covs = Caseio.get_mat c (sfx "covs" t) in
        let cs = comps_of means covs n in
        let ws = flist (Caseio.get_mat c (sfx "weights" t)) in
        let out_comps pre res =
          List.iteri (fun i (mean, cov) ->
              Caseio.out_mat_shape (sfx (Printf.sprintf "%smean%d" pre i) t) n 1 (mat_of_lmx mean);
              Caseio.out_mat_shape (sfx (Printf.sprintf "%scov%d" pre i) t) n n (mat_of_lmx cov)) res in
        (match c.kind with
         | "predict" ->
             let a = lmx_of_mat (Caseio.get_mat c (sfx "A" t)) and qm = lmx_of_mat (Caseio.get_mat c (sfx "Q" t)) in
             let sp = Caseio.get_int c (sfx "skip_pred" t) <> 0 and ss = Caseio.get_int c (sfx "skip_state" t) <> 0 in
             let exo = if Caseio.has c (sfx "exo_c" t) then Some (lmx_of_mat (Caseio.get_mat c (sfx "exo_c" t))) else None in
             let (res, w) = c04_predict fops sq_oracle eg_oracle (nat_of_int n) (nat_of_int circ) (nat_of_int q) generic alpha beta kappa sp ss a qm exo cs ws in
             Caseio.out_int (sfx "components" t) (List.length res);
             out_comps "" res;
             out_flist (sfx "weights" t) w;
             (* the Kalman prediction on the same inputs *)
             let f = lmx_of_mat (Caseio.get_mat c (sfx "F" t)) in
             let qeff = if generic then c04_congr fops (nat_of_int n) (nat_of_int q) (lmx_of_mat (Caseio.get_mat c (sfx "B" t))) qm else qm in
             out_comps "kf_" (c04_kf_predict fops (nat_of_int n) f qeff exo cs)
         | _ ->
             let m = Caseio.get_int c (sfx "m" t) in
             let a = lmx_of_mat (Caseio.get_mat c (sfx "A" t)) and r = lmx_of_mat (Caseio.get_mat c (sfx "R" t)) in
             let skip = Caseio.get_int c (sfx "skip" t) <> 0 and fail = Caseio.get_int c (sfx "fail" t) <> 0 in
             let fail_innov = geti c (sfx "fail_innov" t) 0 <> 0 in
             let ymat = lmx_of_mat (Caseio.get_mat c (sfx "y" t)) in
             let y = if Caseio.get_int c (sfx "have_y" t) <> 0 then Some ymat else None in
             let old_cs = comps_of (Caseio.get_mat c (sfx "old_means" t)) (Caseio.get_mat c (sfx "old_covs" t)) n in
             let old_ws = flist (Caseio.get_mat c (sfx "old_weights" t)) in
             (* correct(g, g): the output object is the input object *)
             let (old_cs, old_ws) = if geti c (sfx "alias" t) 0 <> 0 then (cs, ws) else (old_cs, old_ws) in
             let mnoise = geti c (sfx "mnoise" t) 0 in
             let (((res, w), lik), st') =
               c04_correct fops sq_oracle eg_oracle (nat_of_int n) (nat_of_int circ) (nat_of_int q) (nat_of_int m) generic alpha beta kappa skip a r y fail fail_innov
                 (nat_of_int mnoise) cs ws old_cs old_ws !st in
             st := st';
             Caseio.out_int (sfx "components" t) (List.length res);
             out_comps "" res;
             out_flist (sfx "weights" t) w;
             (match lik with
              | None -> Caseio.out_int (sfx "lik_valid" t) 0
              | Some l -> Caseio.out_int (sfx "lik_valid" t) 1; out_flist (sfx "lik" t) l);
             let h = lmx_of_mat (Caseio.get_mat c (sfx "H" t)) in
             let reff = if generic then c04_congr fops (nat_of_int m) (nat_of_int q) (lmx_of_mat (Caseio.get_mat c (sfx "D" t))) r else r in
             List.iteri (fun i ((mean, cov), l) ->
                 Caseio.out_mat_shape (sfx (Printf.sprintf "kf_mean%d" i) t) n 1 (mat_of_lmx mean);
                 Caseio.out_mat_shape (sfx (Printf.sprintf "kf_cov%d" i) t) n n (mat_of_lmx cov);
                 Caseio.out_num (sfx (Printf.sprintf "kf_lik%d" i) t) (fl l))
               (c04_kf_correct fops (nat_of_int n) (nat_of_int m) h reff ymat cs))
      done;
      Caseio.out_num "sqrt_residual" !sqrt_residual;
      Caseio.out_num "eig_residual" !eig_residual;
      Caseio.out_end ())
    cases
