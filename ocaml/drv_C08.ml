(* drv_C08.ml — driver: runs the extracted C08 model (Gaussian particle filter
   prediction / correction over a multi-step history with per-step operands) on the case
   file given on stdin, one step at a time from the state the implementation reported
   before that step.  The standard-normal draws of every step are read from the
   implementation's output (Sys.argv.(1), fields z<k>): they are inputs of the model.
   The square root of the proposal draws is the Gallina ldlt_sqrt of C08_Model (extracted);
   the record's msqrt oracle (used by C05's sigma points only) is a Jacobi factor. *)

(* Square-root oracle of the record (used by the unscented wrapped steps only, C05's sigma
   points): Eigen's jacobiSvd factor U sqrt(S) of a symmetric PSD matrix, here from a cyclic
   Jacobi eigen-decomposition.  Columns are determined up to order and sign (distinct
   eigenvalues), which leaves the set of sigma points, hence the unscented moments, unchanged. *)
let jacobi_sqrt (_ : nat) (p : Obj.t list list) : Obj.t list list =
  let a = Array.map Array.copy (mat_of_lmx p) in
  let n = Array.length a in
  let v = Array.init n (fun i -> Array.init n (fun j -> if i = j then 1.0 else 0.0)) in
  for i = 0 to n - 1 do for j = 0 to i - 1 do let s = 0.5 *. (a.(i).(j) +. a.(j).(i)) in a.(i).(j) <- s; a.(j).(i) <- s done done;
  for _sweep = 1 to 60 do
    for p = 0 to n - 2 do for q = p + 1 to n - 1 do
      if abs_float a.(p).(q) > 1e-300 then begin
        let theta = (a.(q).(q) -. a.(p).(p)) /. (2.0 *. a.(p).(q)) in
        let t = (if theta >= 0.0 then 1.0 else -1.0) /. (abs_float theta +. sqrt (theta *. theta +. 1.0)) in
        let c = 1.0 /. sqrt (t *. t +. 1.0) in
        let s = t *. c in
        for k = 0 to n - 1 do
          let akp = a.(k).(p) and akq = a.(k).(q) in
          a.(k).(p) <- c *. akp -. s *. akq; a.(k).(q) <- s *. akp +. c *. akq
        done;
        for k = 0 to n - 1 do
          let apk = a.(p).(k) and aqk = a.(q).(k) in
          a.(p).(k) <- c *. apk -. s *. aqk; a.(q).(k) <- s *. apk +. c *. aqk
        done;
        for k = 0 to n - 1 do
          let vkp = v.(k).(p) and vkq = v.(k).(q) in
          v.(k).(p) <- c *. vkp -. s *. vkq; v.(k).(q) <- s *. vkp +. c *. vkq
        done
      end
    done done
  done;
  lmx_of_mat (Array.init n (fun i -> Array.init n (fun j -> v.(i).(j) *. sqrt (max 0.0 a.(j).(j)))))

let ldlt n p = c08_ldlt fops jacobi_sqrt n p

(* A x = b by Gaussian elimination with partial pivoting *)
let solve (a : float array array) (b : float array) : float array =
  let n = Array.length b in
  let a = Array.map Array.copy a and b = Array.copy b in
  for k = 0 to n - 1 do
    let p = ref k in
    for i = k + 1 to n - 1 do if abs_float a.(i).(k) > abs_float a.(!p).(k) then p := i done;
    let t = a.(k) in a.(k) <- a.(!p); a.(!p) <- t;
    let t = b.(k) in b.(k) <- b.(!p); b.(!p) <- t;
    for i = k + 1 to n - 1 do
      let f = a.(i).(k) /. a.(k).(k) in
      for j = k to n - 1 do a.(i).(j) <- a.(i).(j) -. f *. a.(k).(j) done;
      b.(i) <- b.(i) -. f *. b.(k)
    done
  done;
  let x = Array.make n 0.0 in
  for i = n - 1 downto 0 do
    let s = ref b.(i) in
    for j = i + 1 to n - 1 do s := !s -. a.(i).(j) *. x.(j) done;
    x.(i) <- !s /. a.(i).(i)
  done;
  x

let particles_of (st : float array array) (mean : float array array) (cov : float array array)
    (lw : float array array) : ptuple list =
  let n = Array.length mean in
  let cnt = mat_cols mean in
  List.init cnt (fun i ->
      (((lmx_of_mat (mat_col st i), lmx_of_mat (mat_col mean i)), lmx_of_mat (mat_block_cols cov (i * n) n)), ob lw.(i).(0)))

let out_set (prefix : string) (n : int) (ps : ptuple list) =
  let cnt = List.length ps in
  let arr = Array.of_list ps in
  let col f = Array.init n (fun r -> Array.init cnt (fun i -> (mat_of_lmx (f arr.(i))).(r).(0))) in
  Caseio.out_int (prefix ^ "_components") cnt;
  Caseio.out_mat_shape (prefix ^ "_state") n cnt (col (fun (((x, _), _), _) -> x));
  Caseio.out_mat_shape (prefix ^ "_mean") n cnt (col (fun (((_, m), _), _) -> m));
  let covs = Array.init n (fun r -> Array.concat (List.map (fun (((_, _), p), _) -> (mat_of_lmx p).(r)) ps)) in
  Caseio.out_mat_shape (prefix ^ "_cov") n (n * cnt) covs;
  Caseio.out_mat_shape (prefix ^ "_lw") cnt 1 (Array.init cnt (fun i -> let (_, w) = arr.(i) in [| fl w |]))

let () =
  let cases = Caseio.read_records "case" stdin in
  let impl =
    if Array.length Sys.argv > 1 then begin
      let ic = open_in Sys.argv.(1) in
      let r = Caseio.read_records "out" ic in
      close_in ic; r
    end else [] in
  List.iter
    (fun (c : Caseio.case) ->
      match List.find_opt (fun (r : Caseio.case) -> r.id = c.id) impl with
      | None -> ()
      | Some _ when c.kind = "gpf_fresh" || c.kind = "gpf_moved" ->
        (* lifetime kinds: nothing to compute (the statement is refuted at model level, see Properties_C08.v) *)
        Caseio.out_begin c.id; Caseio.out_end ()
      | Some io when Caseio.has io "skipped_ndebug" ->
        Caseio.out_begin c.id; Caseio.out_int "skipped_ndebug" 1; Caseio.out_end ()
      | Some io ->
        let n = Caseio.meta_int c "n" and nn = Caseio.meta_int c "N" in
        let steps = Caseio.meta_int c "steps" in
        (* operands of step k: mat "<name>_<k>" when the case has it, mat "<name>" otherwise (time-varying models) *)
        let sm name k = let nk = Printf.sprintf "%s_%d" name k in Caseio.get_mat c (if Caseio.has c nk then nk else name) in
        let g name k = lmx_of_mat (sm name k) in
        let tkind = if Caseio.meta c "tkind" = "cauchy" then 1 else 0 in
        let wrap = match Caseio.meta c "wrap" with "ukf" -> 1 | "sukf" -> 2 | _ -> 0 in
        let ut = if Caseio.has c "ut" then Caseio.get_mat c "ut" else [| [| 1.0; 2.0; 0.0 |] |] in
        let ys = Caseio.get_mat c "ys" in
        (* physical units of the state coordinates (mat D of a case rewritten x -> D x; all 1 otherwise): a deviation of a
           position is measured against the size of its own coordinate, and the triangular solve that maps a position back
           to draws is done on the rows divided by d_r (row scaling of L and of x - m: the solution is the same) *)
        let dsc = if Caseio.has c "D" then (Caseio.get_mat c "D").(0) else Array.make n 1.0 in
        let w name = Array.of_list (Caseio.get_word c name) in
        let fl_ a k = k < Array.length a && a.(k) <> "0" in
        let gcok = w "gcok" and l1 = w "l1" and l2 = w "l2" and l3 = w "l3" and l4 = w "l4" and lok = w "lok" in
        let skpp = w "skpp" and skgp = w "skgp" and skpc = w "skpc" and skgc = w "skgc" in
        (* the model is stateless per step: the configuration record is built per step *)
        let cf k = { cf_wrap = nat_of_int wrap; cf_ut = ((ob ut.(0).(0), ob ut.(0).(1)), ob ut.(0).(2));
                     cf_hkind = nat_of_int (int_of_string (Caseio.meta c "hkind"));
                     cf_H = g "H" k; cf_G = g "G" k; cf_G2 = g "G2" k; cf_b = g "b" k; cf_g = g "g" k; cf_R = g "R" k;
                     cf_F = g "F" k; cf_Q = g "Q" k;
                     cf_scale = ob (sm "scale" k).(0).(0); cf_tkind = nat_of_int tkind; cf_Ft = g "Ft" k; cf_Qt = g "Qt" k } in
        let mk k = Array.length (sm "H" k) in            (* measurement size of step k *)
        let set_of (r : Caseio.case) p = particles_of (Caseio.get_mat r (p ^ "_state")) (Caseio.get_mat r (p ^ "_mean"))
                      (Caseio.get_mat r (p ^ "_cov")) (Caseio.get_mat r (p ^ "_lw")) in
        let step k zs : step_tuple =
          let y = Array.sub (mat_col ys k) 0 (mk k) in
          (((((lmx_of_mat y, fl_ gcok k), (((fl_ l1 k, fl_ l2 k), fl_ l3 k), fl_ l4 k)), fl_ lok k),
            (((fl_ skpp k, fl_ skgp k), fl_ skpc k), fl_ skgc k)), zs) in
        let run_step k pred corr valid lik st =
          (* c08_trace_tv: the entry point with a measurement size and a configuration record per step *)
          match c08_trace_tv fops jacobi_sqrt (nat_of_int n) pred corr valid lik [ ((nat_of_int (mk k), cf k), st) ] with
          | [ r ] -> r
          | _ -> failwith "c08_trace_tv: one step expected" in
        Caseio.out_begin c.id;
        let pred = ref (set_of c "p") and corr = ref (set_of c "c") and valid = ref false and lik = ref [] in
        let max_zz = ref 0.0 and refact = ref 0 in
        for k = 0 to steps - 1 do
          let z = Caseio.get_mat io (Printf.sprintf "z%d" k) in
          let zs = List.init nn (fun i -> lmx_of_mat (mat_col z i)) in
          let zz_of (z : Obj.t list list) = List.fold_left (fun a row -> List.fold_left (fun a v -> a +. fl v *. fl v) a row) 0.0 z in
          let r0 = run_step k !pred !corr !valid !lik (step k zs) in
          let (((_, corr0), valid0), _) = r0 in
          let skipped = fl_ skpc k in
          (* The property leaves the square-root factor free (any L with L L^T = P).  If the implementation's
             positions differ from m + L z for the model's L, the positions are compared through the relation
             instead: z' = L^-1 (x_impl - m) must satisfy |z'|^2 = |z|^2 (zz<k> reports |z'|^2 per particle), and
             the step is re-run on z' so that everything downstream is still compared. *)
          let refactored = ref false in
          let zs_used = ref zs in
          let r =
            if valid0 && not skipped && Caseio.has io (Printf.sprintf "c%d_state" k) && Caseio.get_int io (Printf.sprintf "valid%d" k) = 1 then begin
              let xi = Caseio.get_mat io (Printf.sprintf "c%d_state" k) in
              let dev = ref 0.0 in
              List.iteri (fun i (((x, _), _), _) ->
                  let xm = mat_of_lmx x in
                  for r = 0 to n - 1 do
                    let d = abs_float (xm.(r).(0) -. xi.(r).(i)) /. (dsc.(r) +. abs_float xi.(r).(i)) in
                    if d > !dev then dev := d
                  done) corr0;
              if !dev > 1e-6 then begin
                incr refact; refactored := true;
                let zs' = List.mapi (fun i ((((_, mu), p), _), z) ->
                    let l = Array.mapi (fun r row -> Array.map (fun v -> v /. dsc.(r)) row) (mat_of_lmx (ldlt (nat_of_int n) p)) and mu = mat_of_lmx mu in
                    let rhs = Array.init n (fun r -> (xi.(r).(i) -. mu.(r).(0)) /. dsc.(r)) in
                    let z' = solve l rhs in
                    let zz = Array.fold_left (fun a v -> a +. v *. v) 0.0 z'
                    and zz0 = zz_of z in
                    let d = abs_float (zz -. zz0) /. (1.0 +. zz0) in
                    if d > !max_zz || d <> d then max_zz := d;
                    lmx_of_mat (Array.map (fun v -> [| v |]) z')) (List.combine corr0 zs) in
                zs_used := zs';
                run_step k !pred !corr !valid !lik (step k zs')
              end else r0
            end else r0 in
          let (((pred', corr'), valid'), lik') = r in
          out_set (Printf.sprintf "p%d" k) n pred';
          out_set (Printf.sprintf "c%d" k) n corr';
          Caseio.out_int (Printf.sprintf "valid%d" k) (if valid' then 1 else 0);
          Caseio.out_mat_shape (Printf.sprintf "lik%d" k) (List.length lik') 1
            (Array.of_list (List.map (fun x -> [| fl x |]) lik'));
          (* proposal density and square-root factor of the model at its own corrected set *)
          Caseio.out_mat_shape (Printf.sprintf "q%d" k) (List.length corr') 1
            (Array.of_list (List.map (fun (((x, mu), p), _) -> [| fl (c08_proposal fops jacobi_sqrt (nat_of_int n) x mu p) |]) corr'));
          let ls = List.map (fun (((_, _), p), _) -> mat_of_lmx (ldlt (nat_of_int n) p)) corr' in
          Caseio.out_mat_shape (Printf.sprintf "L%d" k) n (n * List.length corr')
            (Array.init n (fun r -> Array.concat (List.map (fun l -> l.(r)) ls)));
          (* |z|^2 of the draws the model used (those of the implementation, or z' after a change of factor) *)
          Caseio.out_mat_shape (Printf.sprintf "zz%d" k) (List.length !zs_used) 1
            (Array.of_list (List.map (fun z -> [| zz_of z |]) !zs_used));
          Caseio.out_int (Printf.sprintf "refact%d" k) (if !refactored then 1 else 0);
          (* RE-SYNCHRONISATION.  The model is a function of the state before the step (the two buffers,
             valid_likelihood_, likelihood_) and of the step's inputs; the history is the composition of the steps
             (C08_multi_step / C08_trace_is_run).  Step k+1 of the model therefore starts from the state the
             IMPLEMENTATION reported after step k (every field of which has just been compared with the model's):
             each step is compared on identical inputs and rounding differences do not compound along the history.
             Where the implementation's record lacks a field the model's own state is kept. *)
          let has_set p = List.for_all (fun f -> Caseio.has io (Printf.sprintf "%s%d_%s" p k f)) [ "state"; "mean"; "cov"; "lw" ]
                          && mat_cols (Caseio.get_mat io (Printf.sprintf "%s%d_mean" p k)) = nn
                          && Array.length (Caseio.get_mat io (Printf.sprintf "%s%d_mean" p k)) = n in
          pred := (if has_set "p" then set_of io (Printf.sprintf "p%d" k) else pred');
          corr := (if has_set "c" then set_of io (Printf.sprintf "c%d" k) else corr');
          if Caseio.has io (Printf.sprintf "valid%d" k) && Caseio.has io (Printf.sprintf "lik%d" k) then begin
            valid := (Caseio.get_int io (Printf.sprintf "valid%d" k) = 1);
            lik := List.map (fun r -> ob r.(0)) (Array.to_list (Caseio.get_mat io (Printf.sprintf "lik%d" k)))
          end else begin valid := valid'; lik := lik' end
        done;
        Caseio.out_int "other_factor_steps" !refact;
        Caseio.out_num "zz_dev" !max_zz;
        Caseio.out_end ())
    cases
