(* drv_C08.ml — driver: runs the extracted C08 model (Gaussian particle filter
   prediction / correction over a multi-step history) on the case file given on
   stdin.  The standard-normal draws of every step are read from the
   implementation's output (Sys.argv.(1), fields z<k>): they are inputs of the model.
   The square-root oracle is an LDL^T factorisation with Eigen's pivoting rule
   (largest remaining original diagonal entry first), P^T L sqrt(D). *)

let min_gap = ref infinity     (* smallest relative gap between diagonal entries compared by the pivoting *)
let max_resid = ref 0.0        (* largest |L L^T - P| / max|P| seen: run-time check of the oracle contract *)

let ldlt_sqrt (_ : nat) (a : Obj.t list list) : Obj.t list list =
  let a = mat_of_lmx a in
  let n = Array.length a in
  let perm = Array.init n (fun i -> i) in
  for k = 0 to n - 1 do
    let best = ref k in
    for j = k + 1 to n - 1 do
      let dj = abs_float a.(perm.(j)).(perm.(j)) and db = abs_float a.(perm.(!best)).(perm.(!best)) in
      let g = abs_float (dj -. db) /. (max dj db +. 1e-300) in
      if g < !min_gap then min_gap := g;
      if dj > db then best := j
    done;
    let t = perm.(k) in perm.(k) <- perm.(!best); perm.(!best) <- t
  done;
  (* B = P A P^T read from the lower triangle of A, as Eigen does *)
  let b i j = let pi = perm.(i) and pj = perm.(j) in if pi >= pj then a.(pi).(pj) else a.(pj).(pi) in
  let l = Array.make_matrix n n 0.0 and d = Array.make n 0.0 in
  for j = 0 to n - 1 do
    let s = ref (b j j) in
    for k = 0 to j - 1 do s := !s -. l.(j).(k) *. l.(j).(k) *. d.(k) done;
    d.(j) <- !s;
    l.(j).(j) <- 1.0;
    for i = j + 1 to n - 1 do
      let s = ref (b i j) in
      for k = 0 to j - 1 do s := !s -. l.(i).(k) *. l.(j).(k) *. d.(k) done;
      l.(i).(j) <- (if d.(j) <> 0.0 then !s /. d.(j) else !s)
    done
  done;
  let r = Array.make_matrix n n 0.0 in
  for i = 0 to n - 1 do for j = 0 to n - 1 do r.(perm.(i)).(j) <- l.(i).(j) *. sqrt d.(j) done done;
  (* contract check *)
  let amax = ref 1e-300 in
  Array.iter (Array.iter (fun x -> if abs_float x > !amax then amax := abs_float x)) a;
  for i = 0 to n - 1 do for j = 0 to n - 1 do
    let s = ref 0.0 in
    for k = 0 to n - 1 do s := !s +. r.(i).(k) *. r.(j).(k) done;
    let e = abs_float (!s -. a.(i).(j)) /. !amax in
    if e > !max_resid || e <> e then max_resid := e
  done done;
  lmx_of_mat r

(* A x = b by Gaussian elimination with partial pivoting *)
let solve (a : float array array) (b : float array) : float array =
  let n = Array.length b in
  let a = Array.map Array.copy a and b = Array.copy b in
  for k = 0 to n - 1 do
    let p = ref k in
    for i = k + 1 to n - 1 do if abs_float a.(i).(k) > abs_float a.(!p).(k) then p := i done;
    let t = a.(k) in a.(k) <- a.(!p); a.(!p) <- t;
    let t = b.(k) in b.(k) <- b.(!p); b.(!p) <- t;
    for i = k + 1 to n - 1 do
      let f = a.(i).(k) /. a.(k).(k) in
      for j = k to n - 1 do a.(i).(j) <- a.(i).(j) -. f *. a.(k).(j) done;
      b.(i) <- b.(i) -. f *. b.(k)
    done
  done;
  let x = Array.make n 0.0 in
  for i = n - 1 downto 0 do
    let s = ref b.(i) in
    for j = i + 1 to n - 1 do s := !s -. a.(i).(j) *. x.(j) done;
    x.(i) <- !s /. a.(i).(i)
  done;
  x

let particles_of (st : float array array) (mean : float array array) (cov : float array array)
    (lw : float array array) : ptuple list =
  let n = Array.length mean in
  let cnt = mat_cols mean in
  List.init cnt (fun i ->
      (((lmx_of_mat (mat_col st i), lmx_of_mat (mat_col mean i)), lmx_of_mat (mat_block_cols cov (i * n) n)), ob lw.(i).(0)))

let out_set (prefix : string) (n : int) (ps : ptuple list) =
  let cnt = List.length ps in
  let arr = Array.of_list ps in
  let col f = Array.init n (fun r -> Array.init cnt (fun i -> (mat_of_lmx (f arr.(i))).(r).(0))) in
  Caseio.out_int (prefix ^ "_components") cnt;
  Caseio.out_mat_shape (prefix ^ "_state") n cnt (col (fun (((x, _), _), _) -> x));
  Caseio.out_mat_shape (prefix ^ "_mean") n cnt (col (fun (((_, m), _), _) -> m));
  let covs = Array.init n (fun r -> Array.concat (List.map (fun (((_, _), p), _) -> (mat_of_lmx p).(r)) ps)) in
  Caseio.out_mat_shape (prefix ^ "_cov") n (n * cnt) covs;
  Caseio.out_mat_shape (prefix ^ "_lw") cnt 1 (Array.init cnt (fun i -> let (_, w) = arr.(i) in [| fl w |]))

let () =
  let cases = Caseio.read_records "case" stdin in
  let impl =
    if Array.length Sys.argv > 1 then begin
      let ic = open_in Sys.argv.(1) in
      let r = Caseio.read_records "out" ic in
      close_in ic; r
    end else [] in
  List.iter
    (fun (c : Caseio.case) ->
      match List.find_opt (fun (r : Caseio.case) -> r.id = c.id) impl with
      | None -> ()
      | Some _ when c.kind <> "gpf" && c.kind <> "gpf_ks" ->
        (* lifetime kinds: nothing to compute (the statement is refuted at model level, see Properties_C08.v) *)
        Caseio.out_begin c.id; Caseio.out_end ()
      | Some io ->
        let n = Caseio.meta_int c "n" and m = Caseio.meta_int c "m" and nn = Caseio.meta_int c "N" in
        let steps = Caseio.meta_int c "steps" in
        let g name = lmx_of_mat (Caseio.get_mat c name) in
        let tkind = if Caseio.meta c "tkind" = "cauchy" then 1 else 0 in
        let ys = Caseio.get_mat c "ys" in
        let mv = Array.of_list (Caseio.get_word c "mv") and lok = Array.of_list (Caseio.get_word c "lok") in
        let scale = (Caseio.get_mat c "scale").(0).(0) in
        let set p = particles_of (Caseio.get_mat c (p ^ "_state")) (Caseio.get_mat c (p ^ "_mean"))
                      (Caseio.get_mat c (p ^ "_cov")) (Caseio.get_mat c (p ^ "_lw")) in
        let step k =
          let z = Caseio.get_mat io (Printf.sprintf "z%d" k) in
          let zs = List.init nn (fun i -> lmx_of_mat (mat_col z i)) in
          (((lmx_of_mat (mat_col ys k), mv.(k) <> "0"), lok.(k) <> "0"), zs) in
        min_gap := infinity; max_resid := 0.0;
        let run_step pred corr st =
          match c08_trace fops ldlt_sqrt (nat_of_int n) (nat_of_int m) (g "F") (g "Q") (g "H") (g "R") (ob scale)
                  (nat_of_int tkind) (g "Ft") (g "Qt") pred corr [ st ] with
          | [ r ] -> r
          | _ -> failwith "c08_trace: one step expected" in
        Caseio.out_begin c.id;
        let pred = ref (set "p") and corr = ref (set "c") in
        let max_zz = ref 0.0 and refact = ref 0 in
        for k = 0 to steps - 1 do
          let (((y, mv_), lok_), zs) = step k in
          let r0 = run_step !pred !corr (((y, mv_), lok_), zs) in
          let (((_, corr0), valid0), _) = r0 in
          (* The property leaves the square-root factor free (any L with L L^T = P).  If the implementation's
             positions differ from m + L z for the driver's L, the positions are compared through the relation
             instead: z' = L^-1 (x_impl - m) must satisfy |z'|^2 = |z|^2 (reported as zz_dev), and the step is
             re-run on z' so that everything downstream is still compared. *)
          let r =
            if valid0 && Caseio.has io (Printf.sprintf "c%d_state" k) && Caseio.get_int io (Printf.sprintf "valid%d" k) = 1 then begin
              let xi = Caseio.get_mat io (Printf.sprintf "c%d_state" k) in
              let dev = ref 0.0 in
              List.iteri (fun i (((x, _), _), _) ->
                  let xm = mat_of_lmx x in
                  for r = 0 to n - 1 do
                    let d = abs_float (xm.(r).(0) -. xi.(r).(i)) /. (1.0 +. abs_float xi.(r).(i)) in
                    if d > !dev || d <> d then dev := d
                  done) corr0;
              if !dev > 1e-6 then begin
                incr refact;
                let zs' = List.mapi (fun i ((((_, mu), p), _), z) ->
                    let l = mat_of_lmx (ldlt_sqrt (nat_of_int n) p) and mu = mat_of_lmx mu in
                    let rhs = Array.init n (fun r -> xi.(r).(i) -. mu.(r).(0)) in
                    let z' = solve l rhs in
                    let zz = Array.fold_left (fun a v -> a +. v *. v) 0.0 z'
                    and zz0 = List.fold_left (fun a row -> List.fold_left (fun a v -> a +. fl v *. fl v) a row) 0.0 z in
                    let d = abs_float (zz -. zz0) /. (1.0 +. zz0) in
                    if d > !max_zz || d <> d then max_zz := d;
                    lmx_of_mat (Array.map (fun v -> [| v |]) z')) (List.combine corr0 zs) in
                run_step !pred !corr (((y, mv_), lok_), zs')
              end else r0
            end else r0 in
          let (((pred', corr'), valid), lik) = r in
          out_set (Printf.sprintf "p%d" k) n pred';
          out_set (Printf.sprintf "c%d" k) n corr';
          Caseio.out_int (Printf.sprintf "valid%d" k) (if valid then 1 else 0);
          Caseio.out_mat_shape (Printf.sprintf "lik%d" k) (List.length lik) 1
            (Array.of_list (List.map (fun x -> [| fl x |]) lik));
          (* proposal density of the model at its own corrected set *)
          Caseio.out_mat_shape (Printf.sprintf "q%d" k) (List.length corr') 1
            (Array.of_list (List.map (fun (((x, mu), p), _) -> [| fl (c08_proposal fops ldlt_sqrt (nat_of_int n) x mu p) |]) corr'));
          pred := pred'; corr := corr'
        done;
        Caseio.out_num "pivot_gap" !min_gap;
        Caseio.out_num "sqrt_resid" !max_resid;
        Caseio.out_int "other_factor_steps" !refact;
        Caseio.out_num "zz_dev" !max_zz;
        Caseio.out_end ())
    cases
