#!/bin/bash
cd "$(dirname "$0")" && exec /usr/local/bin/python3-vt -m vlib.setup
