#!/bin/bash
# baseline_off.sh — builds /repo's working tree the way the pinned suite is built, with the
# BFL_VERIF guard OFF, in a scratch directory outside /repo and /verif, and runs the 13 tests.
set -e
D=$(mktemp -d /tmp/bfl-baseline-off.XXXXXX)
trap 'rm -rf "$D"' EXIT
cmake -G Ninja -S /repo -B "$D" -DBUILD_TESTING=ON -DCMAKE_BUILD_TYPE=RelWithDebInfo -DCMAKE_CXX_FLAGS=-Wno-error > "$D/configure.log" 2>&1 || { cat "$D/configure.log"; exit 1; }
cmake --build "$D" -j16 > "$D/build.log" 2>&1 || { tail -50 "$D/build.log"; exit 1; }
ctest --test-dir "$D" -j8 --timeout 900
