#!/bin/bash
# sweep.sh <tier> [seed] — runs every claimed check once, sequentially; summary lines to stdout
TIER=${1:-quick}; SEED=${2:-1}
cd "$(dirname "$0")/.."
for P in $(python3 -c "import json;print(' '.join(json.load(open('vlib/claimed.json'))))"); do
  S=$(date +%s)
  OUT=$(VERIF_SEED=$SEED ./check $P --tier $TIER 2>/tmp/sweep-$$-$P.err); RC=$?
  E=$(( $(date +%s) - S ))
  echo "$P tier=$TIER seed=$SEED exit=$RC wall=${E}s :: $(echo "$OUT" | grep -E "^$P " | tail -1)"
  echo "$OUT" | grep -E "^VIOLATION" | head -3
done
