#!/usr/local/bin/python3-vt
"""mutate.py — systematic mutation run of the checks (development tool, not a registered check).

For every sampled syntactic mutant of a library source file (relational / arithmetic / logical operator
replacement, constant replacement, deleted assignment or call statement) it applies the mutant to a scratch
worktree of /repo HEAD, runs the quick check of every property anchored in that file (BFL_REPO=<worktree>,
--skip-proofs except for C10) until one reports a VIOLATION, and records caught / survived / does-not-build.
Survivors are candidates for gaps of the checks (or equivalent mutants) and are triaged by hand.

usage: tools/mutate.py [--files f1.cpp,f2.cpp] [--per-file N] [--workers K] [--seed S] [--out DIR] [--only-props C01,C02]
"""
import argparse, json, os, random, re, subprocess, sys, time
from concurrent.futures import ThreadPoolExecutor

V = os.path.dirname(os.path.dirname(os.path.abspath(__file__)))
sys.path.insert(0, V)
from vlib import pins  # noqa: E402

SRC = "src/BayesFilters"

REPL = [
    (r" < ", [" <= ", " > "]), (r" <= ", [" < "]), (r" > ", [" >= ", " < "]), (r" >= ", [" > "]),
    (r" == ", [" != "]), (r" != ", [" == "]), (r" && ", [" || "]), (r" \|\| ", [" && "]),
    (r" \+ ", [" - "]), (r" - ", [" + "]), (r" \* ", [" + "]), (r" / ", [" * "]),
    (r" \+= ", [" -= ", " = "]), (r" -= ", [" += "]),
    (r"\btrue\b", ["false"]), (r"\bfalse\b", ["true"]),
    (r"\.transpose\(\)", [""]), (r"\bcols\(\)", ["rows()"]), (r"\brows\(\)", ["cols()"]),
    (r"\bdim_linear\b", ["dim_circular"]), (r"\bdim_covariance\b", ["dim"]), (r"\bdim\b", ["dim_covariance"]),
    (r"\bmin\b", ["max"]), (r"\bmax\b", ["min"]), (r"\bsin\b", ["cos"]), (r"\bcos\b", ["sin"]),
    (r"\bi \* ", ["(i + 1) * "]), (r"\(i\)", ["(0)"]), (r"\bleftCols\b", ["rightCols"]), (r"\btopRows\b", ["bottomRows"]),
]
NUM = re.compile(r"(?<![\w.])(\d+)(\.\d+)?(?![\w.])")
ASSIGN = re.compile(r"^\s+[A-Za-z_][\w.\[\]()>:,-]*\s*(=|\+=|-=|\*=)\s[^;]*;\s*$")
CALL = re.compile(r"^\s+[A-Za-z_][\w.>:-]*\([^;]*\);\s*$")


def candidate_lines(lines):
    out, depth, in_block_comment = [], 0, False
    for i, l in enumerate(lines):
        s = l.strip()
        if in_block_comment:
            if "*/" in s:
                in_block_comment = False
            continue
        if s.startswith("/*"):
            if "*/" not in s:
                in_block_comment = True
            continue
        d0 = depth
        depth += l.count("{") - l.count("}")
        if d0 <= 0:
            continue
        if not s or s.startswith(("#", "//", "*", "using ", "throw ", "return std::make_pair(false")):
            continue
        if '"' in l or "std::cout" in l or "std::cerr" in l or "static_assert" in l:
            continue
        out.append(i)
    return out


def mutants_of(path, rng, n):
    txt = open(path).read()
    lines = txt.split("\n")
    sites = []
    for i in candidate_lines(lines):
        l = lines[i]
        code = l.split("//")[0]
        for pat, reps in REPL:
            for m in re.finditer(pat, code):
                for r in reps:
                    sites.append((i, l[:m.start()] + r + l[m.end():], "%s -> %s" % (m.group(0).strip() or "T", r.strip() or "(removed)")))
        for m in NUM.finditer(code):
            v = m.group(0)
            if m.group(2):
                alts = [str(float(v) + 1.0)]
            else:
                k = int(v)
                alts = [str(k + 1)] + (["0"] if k == 1 else []) + ([str(k - 1)] if k > 1 else [])
            for r in alts:
                sites.append((i, l[:m.start()] + r + l[m.end():], "%s -> %s" % (v, r)))
        if ASSIGN.match(code) or CALL.match(code):
            sites.append((i, re.match(r"^\s*", l).group(0) + ";", "delete statement"))
    rng.shuffle(sites)
    out, seen_lines = [], {}
    for i, new, what in sites:
        if seen_lines.get(i, 0) >= 2:
            continue
        seen_lines[i] = seen_lines.get(i, 0) + 1
        out.append({"line": i + 1, "old": lines[i], "new": new, "what": what})
        if len(out) >= n:
            break
    return out


def props_for(rel):
    out = []
    for pid in ["C%02d" % k for k in range(1, 21)]:
        if rel in pins.anchors(pid):
            out.append(pid)
    return out


def run(cmd, env=None, timeout=900, cwd=None):
    try:
        p = subprocess.run(cmd, env=env, cwd=cwd, capture_output=True, text=True, timeout=timeout)
        return p.returncode, p.stdout, p.stderr
    except subprocess.TimeoutExpired:
        return -999, "", "TIMEOUT"


def worker_tree(k):
    wt = "/tmp/mut-w%d" % k
    subprocess.run(["git", "-C", "/repo", "worktree", "remove", "--force", wt], capture_output=True)
    subprocess.run(["rm", "-rf", wt])
    subprocess.run(["git", "-C", "/repo", "worktree", "add", "--detach", wt, "HEAD", "-q"], check=True)
    return wt


def evaluate(job, wt, only):
    rel, mut = job["file"], job["mut"]
    path = os.path.join(wt, rel)
    orig = open(path).read()
    lines = orig.split("\n")
    assert lines[mut["line"] - 1] == mut["old"]
    lines[mut["line"] - 1] = mut["new"]
    res = {"file": rel, **mut, "props": {}, "status": "survived"}
    try:
        open(path, "w").write("\n".join(lines))
        env = dict(os.environ, BFL_REPO=wt, VERIF_JOBS="6")
        for pid in job["props"]:
            if only and pid not in only:
                continue
            args = [os.path.join(V, "check"), pid, "--tier", "quick"] + ([] if pid == "C10" else ["--skip-proofs"])
            t0 = time.time()
            rc, so, se = run(args, env=env, cwd=V)
            viol = [l for l in so.splitlines() if l.startswith("VIOLATION")]
            res["props"][pid] = {"rc": rc, "violations": len(viol), "nfi": sum("no-failing-input-found" in l for l in viol), "s": round(time.time() - t0, 1)}
            if rc == 2 and "library does not compile" in se:
                res["status"] = "does-not-build"; break
            if viol:
                res["status"] = "caught"; res["caught_by"] = pid; break
    finally:
        open(path, "w").write(orig)
    return res


def main():
    ap = argparse.ArgumentParser()
    ap.add_argument("--files", default="")
    ap.add_argument("--per-file", type=int, default=8)
    ap.add_argument("--workers", type=int, default=4)
    ap.add_argument("--seed", type=int, default=1)
    ap.add_argument("--out", default=os.path.join(V, "build", "mutation"))
    ap.add_argument("--only-props", default="")
    a = ap.parse_args()
    rng = random.Random(a.seed)
    os.makedirs(a.out, exist_ok=True)
    files = [f for f in a.files.split(",") if f] or [r for r in pins.all_sources("/repo") if r.endswith(".cpp")]
    files = [f if f.startswith("src/") else (SRC + "/src/" + f if f.endswith(".cpp") else SRC + "/include/BayesFilters/" + f) for f in files]
    only = set(x for x in a.only_props.split(",") if x)
    jobs = []
    for rel in files:
        ps = props_for(rel)
        if not ps:
            continue
        for m in mutants_of(os.path.join("/repo", rel), rng, a.per_file):
            jobs.append({"file": rel, "mut": m, "props": ps})
    rng.shuffle(jobs)
    print("%d mutants over %d files" % (len(jobs), len(files)), flush=True)
    trees = [worker_tree(k) for k in range(a.workers)]
    import queue
    q = queue.Queue()
    for t in trees:
        q.put(t)
    outp = os.path.join(a.out, "results-%d.jsonl" % a.seed)
    fout = open(outp, "a")

    def go(job):
        wt = q.get()
        try:
            r = evaluate(job, wt, only)
        except Exception as e:
            r = {"file": job["file"], **job["mut"], "status": "error", "error": repr(e)}
        finally:
            q.put(wt)
        fout.write(json.dumps(r) + "\n"); fout.flush()
        print("%-14s %s:%d  %s   [%s]" % (r["status"], os.path.basename(r["file"]), r["line"], r["what"], r.get("caught_by", "")), flush=True)
        return r

    with ThreadPoolExecutor(a.workers) as ex:
        rs = list(ex.map(go, jobs))
    for t in trees:
        subprocess.run(["git", "-C", "/repo", "worktree", "remove", "--force", t], capture_output=True)
    st = {}
    for r in rs:
        st[r["status"]] = st.get(r["status"], 0) + 1
    print("summary:", st, "->", outp)


if __name__ == "__main__":
    main()
