#!/usr/local/bin/python3-vt
"""Validates MANIFEST.json and every evidence file against the schemas, plus the proof-level rules."""
import json, jsonschema, sys, os
V = os.path.dirname(os.path.dirname(os.path.abspath(__file__)))
ms = json.load(open('/root/.vp/MANIFEST.schema.json')); es = json.load(open('/root/.vp/EVIDENCE.schema.json'))
man = json.load(open(os.path.join(V, 'MANIFEST.json'))); jsonschema.validate(man, ms)
bad = 0
for c in man['checks']:
    p = c['evidence_file']
    try:
        e = json.load(open(p)); jsonschema.validate(e, es)
        cov = e['coverage']
        assert e['property_id'] == c['property_id']
        assert cov['obligations'] >= 1 and cov['discharged'] == cov['obligations'], "discharged %s/%s" % (cov['discharged'], cov['obligations'])
        assert cov['evaluations'] >= 1 and cov['distinct_nontrivial'] >= 2 and len(cov['samples']) >= 1
        assert not cov.get('proof_problems'), cov.get('proof_problems')
        assert e.get('violations', 0) == 0
    except Exception as ex:
        bad += 1; print("BAD", c['property_id'], repr(ex)[:200])
print("manifest ok, %d checks, %d bad evidence files" % (len(man['checks']), bad))
sys.exit(1 if bad else 0)
