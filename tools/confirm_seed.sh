#!/bin/bash
# confirm_seed.sh <name> <dir-with-patch.diff,demo.cpp,meta.json>
# Confirms, in a fresh scratch worktree of /repo HEAD, that the seeded change builds, that the 13 tests
# pass with it, that the demonstration fails with it and passes without it; then stores it under /verif/seeded/<name>/.
set -u
NAME=$1; SRC=$2
WT=/tmp/confirm-$NAME
git -C /repo worktree remove --force $WT >/dev/null 2>&1; rm -rf $WT
git -C /repo worktree add --detach $WT HEAD -q || exit 2
LOG=$WT/confirm.log; : > $LOG
build() { cmake -G Ninja -S $WT -B $WT/_b -DBUILD_TESTING=ON -DCMAKE_BUILD_TYPE=RelWithDebInfo -DCMAKE_CXX_FLAGS=-Wno-error >>$LOG 2>&1 && cmake --build $WT/_b -j8 >>$LOG 2>&1; }
demo() {
  EXTRA=""; [ -f $SRC/demo_flags.txt ] && EXTRA=$(cat $SRC/demo_flags.txt)
  g++ -std=c++11 -DEIGEN_INITIALIZE_MATRICES_BY_ZERO -I$WT/src/BayesFilters/include -I/usr/include/eigen3 $SRC/demo.cpp -L$WT/_b/lib -lBayesFilters -lpthread -Wl,-rpath,$WT/_b/lib $EXTRA -o $WT/demo >>$LOG 2>&1 || return 99
  timeout 300 $WT/demo >>$LOG 2>&1; return $?
}
R_BUILD0=fail; R_DEMO0=na; R_APPLY=fail; R_BUILD1=fail; R_TESTS=na; R_DEMO1=na
if build; then R_BUILD0=ok; demo; R_DEMO0=$?; fi
if git -C $WT apply $SRC/patch.diff >>$LOG 2>&1; then R_APPLY=ok
  if build; then R_BUILD1=ok
    if ctest --test-dir $WT/_b -j8 --timeout 900 >>$LOG 2>&1; then R_TESTS=pass; else R_TESTS=FAIL; fi
    demo; R_DEMO1=$?
  fi
fi
echo "$NAME: build0=$R_BUILD0 demo_unchanged_rc=$R_DEMO0 apply=$R_APPLY build1=$R_BUILD1 tests=$R_TESTS demo_changed_rc=$R_DEMO1"
OK=no
if [ "$R_DEMO0" = "0" ] && [ "$R_TESTS" = "pass" ] && [ "$R_DEMO1" != "0" ] && [ "$R_DEMO1" != "na" ] && [ "$R_DEMO1" != "99" ]; then OK=yes; fi
if [ $OK = yes ]; then
  mkdir -p /verif/seeded/$NAME
  cp $SRC/patch.diff $SRC/demo.cpp /verif/seeded/$NAME/
  [ -f $SRC/demo_flags.txt ] && cp $SRC/demo_flags.txt /verif/seeded/$NAME/
  python3 - "$SRC/meta.json" "/verif/seeded/$NAME/meta.json" "$R_DEMO0" "$R_DEMO1" <<'PY'
import json,sys
try: m=json.load(open(sys.argv[1]))
except Exception as e: m={"note":"seeder's meta.json unreadable: %r"%e}
m["confirmed_by_me"]={"fresh_worktree_of":"/repo HEAD","builds_with_change":True,"thirteen_tests_pass_with_change":True,
  "demo_rc_unchanged":int(sys.argv[3]),"demo_rc_changed":int(sys.argv[4]),"how":"tools/confirm_seed.sh"}
json.dump(m,open(sys.argv[2],"w"),indent=1)
PY
  echo "$NAME: CONFIRMED -> /verif/seeded/$NAME"
else
  echo "$NAME: NOT confirmed (see $LOG)"; tail -5 $LOG
fi
[ $OK = yes ] && { git -C /repo worktree remove --force $WT; rm -rf $WT; }
exit 0
