#!/bin/bash
# rerun_seeds.sh [jobs] [name-regex] — re-runs every seeded change against the properties recorded in its detection.json
# (or the property of its meta.json), `jobs` at a time; prints one line per (seed, property).
JOBS=${1:-3}; RE=${2:-.}
cd "$(dirname "$0")/.."
ls seeded | grep -E "$RE" | while read n; do
  [ -f seeded/$n/patch.diff ] || continue
  P=$(python3 -c "
import json,os
d='seeded/$n'
try: k=list(json.load(open(d+'/detection.json')).keys())
except Exception: k=[]
if not k: k=[json.load(open(d+'/meta.json')).get('property','')]
print(' '.join(k))")
  echo "$n $P"
done | xargs -P $JOBS -L 1 bash -c 'tools/run_seeded.sh "$@" 2>&1 | grep -v "WARN\|^VIOLATION"' _
