#!/usr/bin/env python3
"""Regenerates the seeded-changes table of DESIGN.md (between the SEEDED-TABLE markers) from seeded/*/meta.json and detection.json."""
import json, os, re
V = os.path.dirname(os.path.dirname(os.path.abspath(__file__)))
rows = []
for name in sorted(os.listdir(os.path.join(V, "seeded"))):
    d = os.path.join(V, "seeded", name)
    mp = os.path.join(d, "meta.json")
    if not os.path.isdir(d) or not os.path.exists(mp):
        continue
    m = json.load(open(mp))
    if "confirmed_by_me" not in m:
        continue
    det = {}
    if os.path.exists(os.path.join(d, "detection.json")):
        det = json.load(open(os.path.join(d, "detection.json")))
    def cell(x):
        return re.sub(r"\s+", " ", str(x)).replace("|", "\\|")[:330]
    caught = "; ".join("%s: %s" % (p, ("caught (%d VIOLATION line(s)%s)" % (r["violation_lines"], ", no failing input found" if r.get("no_failing_input_found") else "")) if r["exit"] == 1 and r["violation_lines"] > 0 else "NOT caught (exit %s)" % r["exit"]) for p, r in det.items()) or "not run yet"
    rows.append("| `seeded/%s` | %s | %s | %s | %s |" % (name, m.get("property", ""), cell(m.get("summary", "")), cell(m.get("needs", "")), caught))
table = "| change | property | what it does | what it needs to manifest | quick check of that property on the changed tree |\n|---|---|---|---|---|\n" + "\n".join(rows) + "\n"
p = os.path.join(V, "DESIGN.md")
s = open(p).read()
a, b = "<!-- SEEDED-TABLE-BEGIN -->", "<!-- SEEDED-TABLE-END -->"
if a in s:
    s = s[:s.index(a) + len(a)] + "\n" + table + s[s.index(b):]
    open(p, "w").write(s)
print(table)
