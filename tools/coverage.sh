#!/bin/bash
# coverage.sh [property ids...] — development tool: line coverage of /repo's library sources under the quick
# tier of the checks (all claimed ones by default, C10 excluded: it runs under TSan only).  Builds the library
# with --coverage (variant "cov"), runs each check with that variant (--skip-proofs), then gcov.
# Output: build/coverage/summary.txt (per file: executed / executable lines) and build/coverage/uncovered.txt.
cd "$(dirname "$0")/.."
V=$(pwd)
PROPS="$@"
[ -z "$PROPS" ] && PROPS=$(python3 -c "import json;print(' '.join(p for p in json.load(open('vlib/claimed.json')) if p!='C10'))")
rm -rf build/obj/cov build/coverage; mkdir -p build/coverage
for P in $PROPS; do
  VERIF_VARIANT_OVERRIDE=cov ./check $P --tier quick --skip-proofs >build/coverage/$P.out 2>build/coverage/$P.err
  echo "$P rc=$? $(tail -1 build/coverage/$P.out)"
done
cd build/coverage
for g in $V/build/obj/cov/*.gcda; do
  gcov -o $V/build/obj/cov "$g" >/dev/null 2>&1
done
python3 - <<'E'
import glob, os, re
tot = {}
unc = {}
for f in sorted(glob.glob("*.gcov")):
    src = None; ex = hit = 0; miss = []
    for line in open(f, errors="replace"):
        m = re.match(r"\s*([^:]+):\s*(\d+):(.*)", line)
        if not m: continue
        cnt, ln, txt = m.group(1).strip(), int(m.group(2)), m.group(3)
        if ln == 0:
            if txt.startswith("Source:"): src = txt[7:]
            continue
        if cnt == "-": continue
        ex += 1
        if cnt in ("#####", "=====") : miss.append((ln, txt.strip()))
        else: hit += 1
    if src and "/src/BayesFilters/" in src:
        key = src.split("/src/BayesFilters/")[1]
        a = tot.setdefault(key, [0, 0, {}])
        # a header is reported once per translation unit: a line counts as covered if any unit covers it
        for ln, t in miss: a[2].setdefault(ln, [t, True])
        # mark covered lines
        for line in open(f, errors="replace"):
            m = re.match(r"\s*([^:]+):\s*(\d+):(.*)", line)
            if m and m.group(1).strip() not in ("-", "#####", "=====") and int(m.group(2)) > 0:
                a[2][int(m.group(2))] = [m.group(3).strip(), False]
with open("summary.txt", "w") as s, open("uncovered.txt", "w") as u:
    E = H = 0
    for k in sorted(tot):
        lines = tot[k][2]; e = len(lines); miss = sorted(ln for ln, v in lines.items() if v[1])
        E += e; H += e - len(miss)
        s.write("%-60s %4d / %4d  (%.0f%%)\n" % (k, e - len(miss), e, 100.0 * (e - len(miss)) / max(1, e)))
        for ln in miss: u.write("%s:%d: %s\n" % (k, ln, lines[ln][0]))
    s.write("TOTAL %d / %d (%.1f%%)\n" % (H, E, 100.0 * H / max(1, E)))
print(open("summary.txt").read())
E
