#!/bin/bash
# run_seeded.sh <seed-name> [property ids...]
# Applies /verif/seeded/<seed-name>/patch.diff to a scratch worktree of /repo HEAD, runs the quick check of the
# given properties (default: the one named in meta.json) against it via BFL_REPO, records what was detected in
# /verif/seeded/<seed-name>/detection.json, removes the worktree. (Equivalent to git -C /repo apply ... && ./check && git checkout,
# without disturbing /repo while other work reads it.)
set -u
NAME=$1; shift
D=/verif/seeded/$NAME
PIDS="$@"
[ -z "$PIDS" ] && PIDS=$(python3 -c "import json;print(json.load(open('$D/meta.json')).get('property','').strip())")
WT=/tmp/seedrun-$NAME
git -C /repo worktree remove --force $WT >/dev/null 2>&1; rm -rf $WT
git -C /repo worktree add --detach $WT HEAD -q || exit 2
git -C $WT apply $D/patch.diff || { echo "patch does not apply"; git -C /repo worktree remove --force $WT; exit 2; }
cd /verif
RES="{"
for P in $PIDS; do
  OUT=$(BFL_REPO=$WT ./check $P --tier quick 2>/tmp/seedrun-$NAME.err); RC=$?
  V=$(echo "$OUT" | grep -c '^VIOLATION')
  NF=$(echo "$OUT" | grep -c 'no-failing-input-found')
  echo "$NAME vs $P: exit=$RC violations=$V no-failing-input=$NF"
  echo "$OUT" | grep '^VIOLATION' | head -3
  RES="$RES\"$P\": {\"exit\": $RC, \"violation_lines\": $V, \"no_failing_input_found\": $NF},"
done
RES="${RES%,}}"
echo "$RES" > $D/detection.json
git -C /repo worktree remove --force $WT; rm -rf $WT
# restore the evidence written by the mutant run: re-run on the real tree is the caller's business
