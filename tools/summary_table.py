#!/usr/bin/env python3
"""Regenerates the per-property summary table of DESIGN.md (between the SUMMARY-TABLE markers) from evidence/*.json."""
import json, os
V = os.path.dirname(os.path.dirname(os.path.abspath(__file__)))
rows = []
for i in range(1, 21):
    pid = "C%02d" % i
    p = os.path.join(V, "evidence", pid + ".json")
    if not os.path.exists(p):
        rows.append("| %s | - | - | - | - | - | no evidence file |" % pid); continue
    e = json.load(open(p)); c = e["coverage"]
    ax = set()
    for v in (c.get("axioms_per_theorem") or {}).values():
        for a in (v or []):
            ax.add(a.split(".")[-1])
    kf = c.get("known_finding_hits") or {}
    rows.append("| %s | %d/%d | %s | %s | %d | %d | %.0f | %s |" % (pid, c["discharged"], c["obligations"], ", ".join(sorted(ax)) or "none", e.get("tier"), c["evaluations"],
                c["distinct_nontrivial"], e["wall_s"], ("%d signature(s)" % len(kf)) if kf else "-"))
table = ("| id | theorems discharged | axioms (Print Assumptions, last component) | tier of the last run | cases | distinct non-trivial | wall s | known findings hit |\n"
         "|---|---|---|---|---|---|---|---|\n" + "\n".join(rows) + "\n")
p = os.path.join(V, "DESIGN.md"); s = open(p).read()
a, b = "<!-- SUMMARY-TABLE-BEGIN -->", "<!-- SUMMARY-TABLE-END -->"
if a in s:
    s = s[:s.index(a) + len(a)] + "\n" + table + s[s.index(b):]
    open(p, "w").write(s)
print(table)
