"""C14 — no operation reads or writes outside its matrices or mixes incompatible sizes (DESIGN.md §5 C14).

Model: a shape calculus (coq/C14_Model.v).  Correspondence: the model's verdict for a case (safe / the code
throws / first failing entry point) must equal what the library does when built with Eigen's assertions on
(variant `assert`) and under ASan+UBSan (variant `asan`); for cases that run to their end the shapes and return
values the model predicts must equal the observed ones."""
import itertools, math, re, zlib
from vlib import caseio

import os
# short UBSan stack traces (file:line only): the entry announcement of the harness must stay within the
# tail of stderr the runner keeps
os.environ.setdefault("UBSAN_OPTIONS", 'print_stacktrace=1:halt_on_error=1:stack_trace_format="#%n %L"')

ID = "C14"
COQ_TARGETS = ["C14_Extract.vo", "C14_Proofs.vo", "C14_Regress.vo"]
EXTRACTED = "C14_model"
DRIVER = "drv_C14.ml"
HARNESS = "h_C14.cpp"
# both tiers run every case under Eigen assertions AND under ASan+UBSan (raw-pointer writes such as
# *(rand_vectors.data() + i) are invisible to Eigen's assertions)
VARIANTS = {"quick": ["assert", "asan"], "thorough": ["assert", "asan"]}
AXIOMS_ALLOWED = []
TIMEOUT = 1500

# ------------------------------------------------------------------ layouts
LIN, EUL, QUA = (3, 0, 0), (2, 1, 0), (2, 1, 1)
LAYOUTS = [(3, 0, 0), (1, 0, 0), (2, 1, 0), (0, 2, 0), (2, 1, 1), (0, 2, 1), (1, 2, 1)]
FOUR = [(3, 0, 0), (2, 2, 0), (2, 1, 1), (0, 1, 1)]          # linear, linear+circular, linear+quaternion, quaternion only


def csz(l): return 4 if l[2] else 1
def tsz(l): return 3 if l[2] else 1
def ldim(l, noise=0): return l[0] + l[1] * csz(l) + noise
def lcov(l, noise=0): return l[0] + l[1] * tsz(l) + noise


def lay(pfx, l):
    return {pfx + "L": l[0], pfx + "C": l[1], pfx + "q": l[2]}


class Gen:
    def __init__(self):
        self.cases = []

    def add(self, kind, cls, meta, words=None, tag=None):
        m = {"cls": cls}
        if tag:
            m["tag"] = tag
        m.update(meta)
        c = caseio.Case(len(self.cases), kind, m)
        for k, v in (words or {}).items():
            c.word(k, v)
        self.cases.append(c)
        return c


# ------------------------------------------------------------------ generators, one per case kind
def g_wna(g, rng, tier):
    for D in (1, 2, 3):
        d = 2 * D
        for num in (0, 1, 3):
            for sc in (0, 1, 4):
                g.add("wna", "valid", dict(D=D, num=num, sr=d, sc=sc, mr=d, mc=sc, pr=d, pc=sc, cr=d, cc=sc))
    for _ in range(12 if tier == "quick" else 200):
        D = rng.randint(1, 3); d = 2 * D; sc = rng.randint(0, 60)
        g.add("wna", "valid", dict(D=D, num=rng.randint(0, 80), sr=d, sc=sc, mr=d, mc=sc, pr=d, pc=sc, cr=d, cc=sc))
    # inputs whose shape does not match the model's state description
    g.add("wna", "outside", dict(D=1, num=2, sr=4, sc=2, mr=4, mc=2, pr=2, pc=2, cr=2, cc=2))      # propagate: 4-row states into the 1-D model
    g.add("wna", "outside", dict(D=2, num=2, sr=4, sc=2, mr=4, mc=3, pr=4, pc=2, cr=4, cc=2))      # output with another column count
    g.add("wna", "outside", dict(D=3, num=2, sr=6, sc=2, mr=6, mc=2, pr=6, pc=2, cr=6, cc=3))      # transition probability of 2 vs 3 states
    g.add("wna", "outside", dict(D=3, num=2, sr=6, sc=2, mr=6, mc=2, pr=4, pc=2, cr=4, cc=2))


def g_simstate(g, rng, tier):
    for D in (1, 2, 3):
        for T in (1, 2, 5):
            for calls in sorted({0, T - 1, T, T + 1, T + 3}):
                g.add("simstate", "valid", dict(D=D, T=T, ir=2 * D), {"ops": ["b"] * calls})
            # setProperty("reset") in the middle, at the end of the trajectory and after exhaustion
            g.add("simstate", "valid", dict(D=D, T=T, ir=2 * D), {"ops": ["b"] * (T - 1) + ["r"] + ["b"] * (T + 1)})
            g.add("simstate", "valid", dict(D=D, T=T, ir=2 * D), {"ops": ["b"] * (T + 2) + ["r", "r"] + ["b"] * T + ["r", "b"]})
    for _ in range(6 if tier == "quick" else 100):
        D = rng.randint(1, 3); T = rng.randint(1, 40)
        ops = ["r" if rng.random() < 0.05 else "b" for _ in range(T + rng.randint(0, 25))]
        g.add("simstate", "valid", dict(D=D, T=T, ir=2 * D), {"ops": ops})
    g.add("simstate", "outside", dict(D=2, T=3, ir=2), {"ops": ["b"]})      # initial state of the wrong size
    g.add("simstate", "outside", dict(D=1, T=0, ir=2), {"ops": ["b"]})      # empty simulation: rejected by the constructor


def subsets(d, kmax=3):
    for k in range(1, kmax + 1):
        for s in itertools.combinations(range(d), k):
            yield list(s)


def g_linsensor(g, rng, tier):
    for D in (1, 2, 3):
        d = 2 * D
        for ms in subsets(d):
            T = 1 + (sum(ms) + len(ms)) % 3
            m = len(ms)
            g.add("linsensor", "valid", dict(D=D, T=T, ir=d, sn=d, rr=m, rc=m, calls=T + 2, num=1 + sum(ms) % 4, sr=d, sc=1 + len(ms)), {"ms": ms})
    for _ in range(8 if tier == "quick" else 150):
        D = rng.randint(1, 3); d = 2 * D
        m = rng.randint(1, 6)
        ms = [rng.randrange(d) for _ in range(m)]          # repeated and unordered components, more measurements than states
        T = rng.randint(1, 12)
        g.add("linsensor", "valid", dict(D=D, T=T, ir=d, sn=d, rr=m, rc=m, calls=T + rng.randint(0, 4), num=rng.randint(0, 30), sr=d, sc=rng.randint(0, 30)), {"ms": ms})
    # the constructor's own validation (exceptions)
    g.add("linsensor", "outside", dict(D=2, T=2, ir=4, sn=4, rr=2, rc=2, calls=1, num=1, sr=4, sc=1), {"ms": [0, 4]})     # component out of bound
    g.add("linsensor", "outside", dict(D=2, T=2, ir=4, sn=4, rr=3, rc=3, calls=1, num=1, sr=4, sc=1), {"ms": [0, 2]})     # R of another size
    g.add("linsensor", "outside", dict(D=2, T=2, ir=4, sn=4, rr=2, rc=3, calls=1, num=1, sr=4, sc=1), {"ms": [0, 2]})     # R not square
    g.add("linsensor", "outside", dict(D=2, T=2, ir=4, sn=4, rr=1, rc=1, calls=1, num=1, sr=4, sc=1), {"ms": []})         # nothing measured
    # declared state size different from the simulated model's, states of the wrong size
    g.add("linsensor", "outside", dict(D=2, T=2, ir=4, sn=6, rr=2, rc=2, calls=1, num=1, sr=6, sc=1), {"ms": [0, 5]})
    g.add("linsensor", "outside", dict(D=1, T=2, ir=2, sn=2, rr=1, rc=1, calls=3, num=1, sr=4, sc=2), {"ms": [1]})


def g_history(g, rng, tier):
    def ops_random(n, ssz):
        ops = []
        for _ in range(n):
            r = rng.random()
            if r < 0.45: ops.append("a%d" % ssz)
            elif r < 0.65: ops.append("s%d" % rng.choice([0, 1, 2, 3, 4, 5, 6, 10, 29, 30, 31, 100]))
            elif r < 0.75: ops.append("dec")
            elif r < 0.83: ops.append("inc")
            elif r < 0.88: ops.append("clr")
            else: ops.append("get")
        return ops + ["get"]
    fixed = [
        ["a2"] * 3 + ["s2", "get"],                       # 3 stored, window 5 -> 2 (the repaired shrink)
        ["a2"] * 2 + ["s30", "s2", "get"],                # window 30 -> 2 with 2 stored (old code: pops 28 from 2)
        ["s10"] + ["a2"] * 4 + ["s3", "get"],
        ["a2"] * 7 + ["get", "dec", "dec", "dec", "dec", "get"],
        ["s1", "a2", "a2", "a2", "get"], ["s0", "get"], ["s100"] + ["a2"] * 35 + ["get", "s2", "get"],
        ["clr", "get", "dec", "get"], ["a2", "clr", "s2", "a2", "get"],
    ]
    for ops in fixed:
        g.add("history", "valid", dict(ssz=2), {"ops": ops})
    for _ in range(40 if tier == "quick" else 1500):
        ssz = rng.randint(0, 5)
        g.add("history", "valid", dict(ssz=ssz), {"ops": ops_random(rng.randint(1, 40), ssz)})
    g.add("history", "outside", dict(ssz=3), {"ops": ["a3", "a2", "get"]})      # element of another size than the buffer's state size


def g_grid(g, rng, tier):
    for nx in range(1, 5):
        for ny in range(1, 5):
            for l in ((4, 0, 0), (2, 2, 0), (0, 1, 1)):
                g.add("grid", "valid", dict(nx=nx, ny=ny, n=nx * ny, **lay("", l)))
            g.add("grid", "valid", dict(nx=nx, ny=ny, n=nx * ny + 1, **lay("", (4, 0, 0))))     # count mismatch: returns false
            g.add("grid", "valid", dict(nx=nx, ny=ny, n=nx * ny + 1, **lay("", (3, 0, 0))))     # returns false before touching the states
    for _ in range(3 if tier == "quick" else 40):
        nx, ny = rng.randint(1, 30), rng.randint(1, 30)
        g.add("grid", "valid", dict(nx=nx, ny=ny, n=nx * ny, **lay("", (4, 0, 0))))
    # states that are not (x, vx, y, vy): the states of the 1-D and 3-D motion models (enumerated options of the API) have
    # 2 and 6 rows; the initialiser must refuse them (return false).  The tag names the finding a reintroduction gets.
    for nx, ny in ((1, 1), (2, 2), (2, 3), (4, 4)):
        for l in ((2, 0, 0), (6, 0, 0), (3, 2, 0), (1, 1, 0), (1, 1, 1)):
            g.add("grid", "valid", dict(nx=nx, ny=ny, n=nx * ny, **lay("", l)), tag="state-not-4d")


def g_sigma(g, rng, tier):
    for l in LAYOUTS:
        for comps in (1, 2, 3, 4):
            for noise in (0, 2):
                g.add("sigma", "valid", dict(comps=comps, noise=noise, **lay("", l)))
    for _ in range(5 if tier == "quick" else 100):
        l = (rng.randint(0, 6), rng.randint(0, 3), rng.randint(0, 1))
        if ldim(l) == 0:
            l = (1, l[1], l[2])
        g.add("sigma", "valid", dict(comps=rng.randint(1, 8), noise=rng.randint(0, 4), **lay("", l)))


def g_psaug(g, rng, tier):
    for l in FOUR + [(1, 0, 0)]:
        for comps in (1, 2, 3, 4):
            for (qr, qc, qr2, qc2) in ((2, 2, 0, 1), (1, 1, 3, 3), (2, 3, 2, 2), (3, 3, 1, 2)):
                g.add("psaug", "valid", dict(comps=comps, qr=qr, qc=qc, qr2=qr2, qc2=qc2, **lay("", l)))
    for _ in range(4 if tier == "quick" else 80):
        l = (rng.randint(1, 5), rng.randint(0, 2), rng.randint(0, 1)); q1, q2 = rng.randint(1, 4), rng.randint(1, 4)
        g.add("psaug", "valid", dict(comps=rng.randint(1, 9), qr=q1, qc=q1, qr2=q2, qc2=q2, **lay("", l)))


def ut_case(variant, li, inoise, comps, lo, valid=1, w=None, pr=None, pc=None, qr=None, qc=None):
    base = 2 * lcov(li, inoise) + 1
    return dict(variant=variant, comps=comps, inoise=inoise, valid=valid,
                w=lcov(li, inoise) if w is None else w,
                pr=ldim(lo) if pr is None else pr, pc=base * comps if pc is None else pc,
                qr=lcov(lo) if qr is None else qr, qc=lcov(lo) if qc is None else qc,
                **lay("i", li), **lay("o", lo))


def g_ut(g, rng, tier):
    for variant in (0, 1, 2, 3, 4):
        for li in (FOUR if tier == "quick" else LAYOUTS):
            for lo in (FOUR if tier == "quick" else LAYOUTS):
                for comps in (1, 2, 3, 4):
                    inoise = 2 if variant in (1, 3) else 0         # the generic overloads are used on noise-augmented inputs
                    if variant == 2 and (li != lo):
                        continue                                    # propagate() maps the state space to itself
                    if (comps + li[1] + lo[0]) % 2 == 1 and tier == "quick" and comps > 2:
                        continue
                    g.add("ut", "valid", ut_case(variant, li, inoise, comps, lo))
    # failing evaluations (the measurement overloads and the function overload have a failure path)
    for variant in (0, 3):
        for comps in (1, 2, 4):
            g.add("ut", "valid", ut_case(variant, LIN, 2 if variant == 3 else 0, comps, (2, 0, 0), valid=0))
    for comps in (1, 2, 3, 4):
        for m in (1, 2, 3):
            g.add("ut", "valid", ut_case(4, LIN, 0, comps, (m, 0, 0), valid=0))
    g.add("ut", "valid", ut_case(4, EUL, 0, 2, (1, 1, 0), valid=0))
    g.add("ut", "valid", ut_case(4, QUA, 0, 3, (0, 1, 1), valid=0))
    for _ in range(6 if tier == "quick" else 150):
        li = (rng.randint(0, 4), rng.randint(0, 2), rng.randint(0, 1)); lo = (rng.randint(0, 4), rng.randint(0, 2), rng.randint(0, 1))
        if ldim(li) == 0: li = (2, 0, 0)
        if ldim(lo) == 0: lo = (1, 0, 0)
        variant = rng.choice([0, 1, 3, 4])
        g.add("ut", "valid", ut_case(variant, li, rng.randint(0, 3), rng.randint(1, 6), lo))
    # shapes that do not match: weights for another dimension, a function returning too few columns / rows
    g.add("ut", "outside", ut_case(0, LIN, 0, 2, (2, 0, 0), w=2))
    g.add("ut", "outside", ut_case(0, LIN, 0, 2, (2, 0, 0), pc=7))
    g.add("ut", "outside", ut_case(0, LIN, 0, 1, (2, 1, 1), pr=5))
    g.add("ut", "outside", ut_case(3, EUL, 1, 2, (2, 1, 0), pr=2))
    g.add("ut", "outside", ut_case(2, LIN, 0, 2, LIN, qr=2, qc=2))
    g.add("ut", "outside", ut_case(4, LIN, 0, 2, (2, 0, 0), qr=3, qc=3))


def g_kf(g, rng, tier):
    for n in (1, 2, 4, 6):
        for comps in (1, 2, 3, 4):
            l = (n, 0, 0)
            g.add("kfp", "valid", dict(d=n, comps=comps, compsq=comps, **lay("p", l), **lay("q", l)))
            for m in (1, 2, 3):
                g.add("kfc", "valid", dict(m=m, n=n, comps=comps, compsq=comps, yr=m, yc=1, again=(m + comps) % 2, **lay("p", l), **lay("q", l)))
    # circular (Euler) components are stored like linear ones
    g.add("kfp", "valid", dict(d=3, comps=2, compsq=2, **lay("p", (2, 1, 0)), **lay("q", (2, 1, 0))))
    g.add("kfc", "valid", dict(m=2, n=3, comps=2, compsq=2, yr=2, yc=1, **lay("p", (2, 1, 0)), **lay("q", (1, 2, 0))))
    g.add("kfc", "valid", dict(m=2, n=3, comps=2, compsq=2, yr=2, yc=3, **lay("p", LIN), **lay("q", LIN)))      # only column 0 of the measurement is used
    for _ in range(4 if tier == "quick" else 80):
        n = rng.randint(1, 9); comps = rng.randint(1, 7); m = rng.randint(1, 9); l = (n, 0, 0)
        g.add("kfp", "valid", dict(d=n, comps=comps, compsq=comps, **lay("p", l), **lay("q", l)))
        g.add("kfc", "valid", dict(m=m, n=n, comps=comps, compsq=comps, yr=m, yc=1, **lay("p", l), **lay("q", l)))
    # output object of another shape, model of another dimension, measurement of another size
    g.add("kfp", "outside", dict(d=3, comps=2, compsq=3, **lay("p", LIN), **lay("q", LIN)))
    g.add("kfp", "outside", dict(d=3, comps=2, compsq=2, **lay("p", LIN), **lay("q", (4, 0, 0))))
    g.add("kfp", "outside", dict(d=2, comps=1, compsq=1, **lay("p", LIN), **lay("q", LIN)))
    g.add("kfc", "outside", dict(m=2, n=3, comps=2, compsq=1, yr=2, yc=1, **lay("p", LIN), **lay("q", LIN)))
    g.add("kfc", "outside", dict(m=2, n=3, comps=2, compsq=2, yr=3, yc=1, **lay("p", LIN), **lay("q", LIN)))
    g.add("kfc", "outside", dict(m=2, n=4, comps=1, compsq=1, yr=2, yc=1, **lay("p", LIN), **lay("q", LIN)))
    g.add("kfc", "outside", dict(m=2, n=4, comps=1, compsq=1, yr=2, yc=1, **lay("p", (2, 1, 1)), **lay("q", (2, 1, 1))))   # KF on a quaternion belief: H x has 6 rows, P is 5x5


def g_ukf(g, rng, tier):
    for add in (0, 1):
        for ls in FOUR:
            for comps in (1, 2, 3, 4):
                q = lcov(ls) if add else 2
                g.add("ukfp", "valid", dict(additive=add, comps=comps, q=q, **lay("p", ls), **lay("s", ls)))
    g.add("ukfp", "outside", dict(additive=1, comps=2, q=2, **lay("p", LIN), **lay("s", LIN)))         # Q of another size than the state covariance
    g.add("ukfp", "outside", dict(additive=0, comps=2, q=2, **lay("p", LIN), **lay("s", (2, 0, 0))))   # belief of another layout than the model's input
    # corrections: linear and Euler states, linear and Euler measurements
    for add in (0, 1):
        for lp in ((3, 0, 0), (2, 2, 0), (1, 0, 0)):
            for lm in ((2, 0, 0), (1, 1, 0), (3, 0, 0)):
                for comps in (1, 2, 3, 4):
                    r = lcov(lm)
                    for again in (0, 1):
                        # again: a second correction whose predictedMeasure fails, then getLikelihood()
                        g.add("ukfc", "valid", dict(additive=add, comps=comps, compsq=comps, r=r if add else 2, valid=1, ir=lcov(lm), again=again,
                                                    online=(comps + again) % 2, **lay("p", lp), **lay("m", lm), **lay("q", lp)))
    # the evaluation fails on the first correction already (any component count, measurement sizes 1, 2, 3)
    for comps in (1, 2, 3, 4):
        for m in (1, 2, 3):
            for add in (0, 1):
                g.add("ukfc", "valid", dict(additive=add, comps=comps, compsq=comps, r=m if add else 2, valid=0, ir=m, again=comps % 2,
                                            **lay("p", LIN), **lay("m", (m, 0, 0)), **lay("q", LIN)))
    # quaternion measurements: Pxy is sliced with total_size() (4 per quaternion), its blocks are dim_covariance (3) wide
    for add in (0, 1):
        for comps in (1, 2, 3):
            for lm in ((0, 1, 1), (2, 1, 1)):
                g.add("ukfc", "valid", dict(additive=add, comps=comps, compsq=comps, r=lcov(lm) if add else 2, valid=1, ir=lcov(lm),
                                            again=comps % 2, **lay("p", LIN), **lay("m", lm), **lay("q", LIN)))
    # quaternion states: mean(i) has 4 numbers per quaternion, K*innovation 3
    for add in (0, 1):
        for comps in (1, 2):
            g.add("ukfc", "valid", dict(additive=add, comps=comps, compsq=comps, r=2, valid=1, ir=2,
                                        **lay("p", QUA), **lay("m", (2, 0, 0)), **lay("q", QUA)), tag="quaternion-state")
    g.add("ukfc", "outside", dict(additive=1, comps=2, compsq=1, r=2, valid=1, ir=2, **lay("p", LIN), **lay("m", (2, 0, 0)), **lay("q", LIN)))
    g.add("ukfc", "outside", dict(additive=1, comps=2, compsq=2, r=2, valid=1, ir=3, **lay("p", LIN), **lay("m", (2, 0, 0)), **lay("q", LIN)))
    g.add("ukfc", "outside", dict(additive=1, comps=2, compsq=2, r=3, valid=1, ir=2, **lay("p", LIN), **lay("m", (2, 0, 0)), **lay("q", LIN)))
    # serial UKF on linear / Euler states
    for lp in ((3, 0, 0), (2, 2, 0), (0, 1, 0), (1, 0, 0)):
        for comps in (1, 2, 3, 4):
            for msz, sub in ((2, 1), (2, 2), (4, 2), (3, 1), (6, 3), (3, 2), (1, 1)):
                if tier == "quick" and (comps + msz) % 2 == 1 and comps > 1:
                    continue
                g.add("sukf", "valid", dict(comps=comps, compsq=comps, msz=msz, sub=sub, r=msz, ir=msz, again=(comps + sub) % 2, **lay("p", lp), **lay("q", lp)))
                if comps <= 2:      # one sub x sub covariance used for every sub-measurement
                    g.add("sukf", "valid", dict(comps=comps, compsq=comps, msz=msz, sub=sub, r=sub, ir=msz, reduced=1, again=comps % 2, **lay("p", lp), **lay("q", lp)))
    for comps in (1, 2, 3):
        for lp in ((2, 1, 1), (0, 1, 1)):
            g.add("sukf", "valid", dict(comps=comps, compsq=comps, msz=2, sub=1, r=2, ir=2, **lay("p", lp), **lay("q", lp)), tag="quaternion-state")
    g.add("sukf", "outside", dict(comps=2, compsq=2, msz=4, sub=2, r=2, ir=4, **lay("p", LIN), **lay("q", LIN)))     # reduced R passed as full R
    g.add("sukf", "outside", dict(comps=2, compsq=2, msz=4, sub=2, r=4, ir=4, reduced=1, **lay("p", LIN), **lay("q", LIN)))     # full R passed as reduced R
    # measurement_sub_size = 0 is accepted by the noexcept constructor: meas_size % 0 (documented use: M = k J, J > 0)
    g.add("sukf", "outside", dict(comps=1, compsq=1, msz=2, sub=0, r=2, ir=2, **lay("p", LIN), **lay("q", LIN)))
    g.add("sukf", "outside", dict(comps=2, compsq=2, msz=0, sub=0, r=0, ir=0, **lay("p", EUL), **lay("q", EUL)))
    g.add("sukf", "outside", dict(comps=2, compsq=1, msz=2, sub=1, r=2, ir=2, **lay("p", LIN), **lay("q", LIN)))
    g.add("sukf", "outside", dict(comps=1, compsq=1, msz=2, sub=1, r=2, ir=1, **lay("p", LIN), **lay("q", LIN)))
    for _ in range(4 if tier == "quick" else 80):
        lp = (rng.randint(1, 5), rng.randint(0, 2), 0); comps = rng.randint(1, 6)
        lm = (rng.randint(1, 4), rng.randint(0, 2), 0); add = rng.randint(0, 1)
        g.add("ukfc", "valid", dict(additive=add, comps=comps, compsq=comps, r=lcov(lm) if add else rng.randint(1, 3), valid=1, ir=lcov(lm),
                                    **lay("p", lp), **lay("m", lm), **lay("q", lp)))
        sub = rng.randint(1, 3); msz = sub * rng.randint(1, 3)
        g.add("sukf", "valid", dict(comps=comps, compsq=comps, msz=msz, sub=sub, r=msz, ir=msz, **lay("p", lp), **lay("q", lp)))
        g.add("ukfp", "valid", dict(additive=add, comps=comps, q=lcov(lp) if add else rng.randint(1, 3), **lay("p", lp), **lay("s", lp)))


def g_resample(g, rng, tier):
    for l in ((4, 0, 0), (2, 1, 0), (1, 0, 0), (2, 1, 1)):
        for n in (1, 2, 3, 7):
            g.add("resample", "valid", dict(n=n, nr=n, np=n, **lay("c", l), **lay("r", l)))
    for l in ((4, 0, 0), (2, 1, 0), (1, 0, 0)):
        for n in (1, 2, 3, 4, 7):
            for ratio in ("0", "0.25", "0.5", "0.75", "0.999"):
                k = int(math.floor(n * float(ratio)))
                g.add("resprior", "valid", dict(n=n, k=k, np=n, ratio=ratio, **lay("c", l)))
    for _ in range(4 if tier == "quick" else 60):
        n = rng.randint(1, 200); l = (rng.randint(1, 6), rng.randint(0, 2), 0)
        ratio = "%.3f" % (rng.random() * 0.99)
        g.add("resample", "valid", dict(n=n, nr=n, np=n, **lay("c", l), **lay("r", l)))
        g.add("resprior", "valid", dict(n=n, k=int(math.floor(n * float(ratio))), np=n, ratio=ratio, **lay("c", l)))
    # priors whose initialize() reports FAILURE (the library ignores the return value: the prior block stays as constructed):
    # a prior that refuses, the shipped grid prior with a grid of another size / with states that are not 4-dimensional;
    # prior share below / at / above one half, odd and even particle counts, no prior particle at all (n * ratio < 1)
    for n in (1, 2, 3, 4, 5, 6, 7, 9, 12):
        for ratio in ("0.1", "0.25", "0.4", "0.5", "0.6", "0.75"):
            k = int(math.floor(n * float(ratio)))
            if tier == "quick" and (n + int(float(ratio) * 20)) % 3 == 0 and n > 3:
                continue
            g.add("resprior", "valid", dict(n=n, k=k, np=n, ratio=ratio, prior="refuse", **lay("c", rng.choice([(4, 0, 0), (2, 1, 0), (2, 1, 1), (1, 0, 0)]))))
    for n, ratio, gx, gy, l in ((5, "0.5", 2, 2, (4, 0, 0)), (6, "0.5", 1, 3, (4, 0, 0)), (7, "0.3", 1, 2, (4, 0, 0)), (7, "0.3", 2, 2, (4, 0, 0)),
                                (4, "0.5", 1, 2, (2, 0, 0)), (9, "0.25", 1, 2, (3, 1, 0)), (3, "0.2", 1, 1, (4, 0, 0)), (8, "0.5", 2, 2, (4, 0, 0)),
                                (5, "0.4", 1, 3, (4, 0, 0)), (9, "0.4", 1, 3, (6, 0, 0))):
        g.add("resprior", "valid", dict(n=n, k=int(math.floor(n * float(ratio))), np=n, ratio=ratio, prior="grid", gx=gx, gy=gy, **lay("c", l)))
    for _ in range(6 if tier == "quick" else 80):
        n = rng.randint(1, 60); ratio = "%.3f" % (rng.random() * 0.99)
        g.add("resprior", "valid", dict(n=n, k=int(math.floor(n * float(ratio))), np=n, ratio=ratio, prior=rng.choice(["refuse", "grid"]),
                                        gx=rng.randint(1, 4), gy=rng.randint(1, 4), **lay("c", rng.choice([(4, 0, 0), (4, 0, 0), (2, 1, 0), (0, 1, 1)]))))
    g.add("resample", "outside", dict(n=3, nr=2, np=3, **lay("c", LIN), **lay("r", LIN)))
    g.add("resample", "outside", dict(n=3, nr=3, np=2, **lay("c", LIN), **lay("r", LIN)))
    g.add("resample", "outside", dict(n=3, nr=3, np=3, **lay("c", LIN), **lay("r", (2, 0, 0))))
    g.add("resample", "outside", dict(n=0, nr=0, np=0, **lay("c", LIN), **lay("r", LIN)))          # empty set: csw(0)
    g.add("resprior", "outside", dict(n=4, k=4, np=4, ratio="1", **lay("c", LIN)))                 # nothing left to resample
    g.add("resprior", "outside", dict(n=4, k=2, np=3, ratio="0.5", **lay("c", LIN)))
    for n, ratio in ((1, "0.5"), (4, "0.5"), (5, "0.25"), (7, "0.75"), (3, "0")):
        for l in ((2, 1, 1), (0, 2, 1)):
            g.add("resprior", "valid", dict(n=n, k=int(math.floor(n * float(ratio))), np=n, ratio=ratio, **lay("c", l)))


def g_density(g, rng, tier):
    for r in (1, 2, 3, 6):
        for c in (0, 1, 4):
            g.add("density", "valid", dict(r=r, c=c, k=r, a=r, b=r))
    g.add("density", "outside", dict(r=3, c=2, k=2, a=3, b=3))
    g.add("density", "outside", dict(r=3, c=2, k=3, a=2, b=2))
    g.add("density", "outside", dict(r=3, c=2, k=3, a=3, b=2))
    for r, bs in ((2, 1), (2, 2), (4, 2), (6, 3), (3, 1), (6, 2)):
        for c in (1, 3):
            for s in (1, 5):
                g.add("uvr", "valid", dict(r=r, c=c, k=r, ur=r, uc=s, vr=s, vc=r, bs=bs, rc=r))     # all diagonal blocks of R
                g.add("uvr", "valid", dict(r=r, c=c, k=r, ur=r, uc=s, vr=s, vc=r, bs=bs, rc=bs))    # one block, repeated
    g.add("uvr", "outside", dict(r=2, c=1, k=2, ur=2, uc=3, vr=3, vc=2, bs=0, rc=0))     # empty R: input_size / 0
    g.add("uvr", "outside", dict(r=4, c=1, k=4, ur=4, uc=3, vr=3, vc=4, bs=2, rc=3))
    g.add("uvr", "outside", dict(r=4, c=1, k=4, ur=4, uc=3, vr=2, vc=4, bs=2, rc=4))
    g.add("uvr", "outside", dict(r=4, c=2, k=3, ur=4, uc=3, vr=3, vc=4, bs=2, rc=4))


def g_extract(g, rng, tier):
    def ext(el, ec, stat, avg, n, calls, w, **over):
        d = dict(el=el, ec=ec, stat=stat, avg=avg, n=n, calls=calls, w=w, pr=el + ec, wn=n, pw=n, ln=n, tr=n, tc=n)
        d.update(over); return d
    for (el, ec) in ((4, 0), (2, 1), (0, 2), (1, 0)):
        for stat in (0, 1, 2):
            for avg in (0, 1, 2, 3):
                for n in (1, 3):
                    g.add("extract", "valid", ext(el, ec, stat, avg, n, calls=7, w=(stat + avg) % 4 + (2 if avg else 0)))
    for _ in range(6 if tier == "quick" else 150):
        el, ec = rng.randint(0, 5), rng.randint(0, 3)
        if el + ec == 0: el = 1
        g.add("extract", "valid", ext(el, ec, rng.randint(0, 2), rng.randint(0, 3), rng.randint(1, 50), calls=rng.randint(1, 45), w=rng.choice([0, 1, 2, 3, 10, 30, 40])))
    g.add("extract", "outside", ext(3, 0, 0, 0, 4, 1, 0, wn=3))
    g.add("extract", "outside", ext(3, 0, 1, 1, 4, 2, 0, pr=2))             # mode of 2-row particles pushed into a 3-row history
    g.add("extract", "outside", ext(3, 0, 2, 0, 4, 1, 0, tc=3))
    g.add("extract", "outside", ext(3, 0, 2, 0, 4, 1, 0, ln=3))
    g.add("extract", "outside", ext(3, 1, 0, 2, 4, 2, 0, pr=3))


# ------------------------------------------------------------------ operation sequences on ONE object
METHODS = ["mean", "smean", "wmean", "emean", "mode", "smode", "wmode", "emode", "map", "smap", "wmap", "emap"]
WINDOWS = [-3, 0, 1, 2, 2, 3, 3, 4, 5, 6, 7, 10, 29, 30, 31, 100]


def xtok(rng, ssz, stat, n=None):
    """one valid extract call: n particles now, tc particles at the previous step; the five-argument overload is the
    only one that evaluates the map family, and is also used (forwarding) with the other families"""
    n = n if n is not None else rng.choice([1, 1, 2, 2, 3, 4, 5, 8, 13])
    if stat == 2 or rng.random() < 0.25:
        if stat == 2 and rng.random() < 0.1:
            return "x:%d:%d:%d" % (ssz, n, n)              # map family through the two-argument overload: reports false
        tc = rng.choice([1, 2, 3, n, n, 7])
        return "X:%d:%d:%d:%d:%d:%d:%d" % (ssz, n, n, tc, n, n, tc)
    return "x:%d:%d:%d" % (ssz, n, n)


def g_extseq(g, rng, tier):
    lays = [(2, 0), (2, 1), (0, 2), (1, 0), (3, 2), (0, 1)]
    # systematic: two averaging families f1 != f2 of one statistic used alternately on one object, the window changed or
    # the history cleared in between, so that each family's cached weight vector is older than the history it meets
    shapes = [(5, 2, 1, 0), (2, None, 3, 0), (3, 4, 2, 0), (6, 3, 1, 1), (1, 30, 7, 0), (4, None, 2, 1), (7, 1, 1, 0), (2, 100, 31, 0)]
    idx = 0
    for stat in (0, 1, 2):
        for f1 in (1, 2, 3):
            for f2 in (1, 2, 3):
                if f1 == f2:
                    continue
                for (a, wnew, c, clr) in shapes:
                    idx += 1
                    if tier == "quick" and (idx % 3) != 0 and not (f1 == 3 or f2 == 3) :
                        continue
                    el, ec = lays[idx % 4]
                    ssz = el + ec
                    ops = ["m%d" % (4 * stat + f1)] + [xtok(rng, ssz, stat) for _ in range(a)]
                    if wnew is not None: ops.append("w%d" % wnew)
                    if clr: ops.append("clr")
                    ops += ["m%d" % (4 * stat + f2)] + [xtok(rng, ssz, stat) for _ in range(c)]
                    ops += ["m%d" % (4 * stat + f1)] + [xtok(rng, ssz, stat) for _ in range(2)]
                    ops += ["m%d" % (4 * stat + f2), xtok(rng, ssz, stat), "m%d" % (4 * ((stat + 1) % 3) + f1), xtok(rng, ssz, (stat + 1) % 3)]
                    g.add("extseq", "valid", dict(el=el, ec=ec), {"ops": ops})
    # every method once on one object, in enumeration order and reversed, window shrinking meanwhile
    for (el, ec) in lays[:4]:
        ssz = el + ec
        for order in (list(range(12)), list(range(11, -1, -1))):
            ops = []
            for k, m in enumerate(order):
                ops += ["m%d" % m, xtok(rng, ssz, m // 4), xtok(rng, ssz, m // 4)]
                if k % 4 == 3: ops.append("w%d" % (6 - k // 2))
            g.add("extseq", "valid", dict(el=el, ec=ec), {"ops": ops})
    # seeded random sequences
    for _ in range(150 if tier == "quick" else 1200):
        el, ec = rng.choice(lays) if rng.random() < 0.8 else (rng.randint(0, 5), rng.randint(0, 3))
        if el + ec == 0: el = 1
        ssz = el + ec
        stat, ops = 1, []
        fams = rng.choice([(1, 2, 3), (1, 2, 3), (2, 3), (0, 1, 2, 3), (1, 3)])
        for _ in range(rng.randint(6, 45 if tier == "quick" else 70)):
            r = rng.random()
            if r < 0.55: ops.append(xtok(rng, ssz, stat))
            elif r < 0.80:
                stat = rng.choice([0, 0, 1, 1, 2]) if rng.random() < 0.4 else stat
                ops.append("m%d" % (4 * stat + rng.choice(fams)))
            elif r < 0.94: ops.append("w%d" % rng.choice(WINDOWS))
            else: ops.append("clr")
        g.add("extseq", "valid", dict(el=el, ec=ec), {"ops": ops + [xtok(rng, ssz, stat)]})
    # inputs of other shapes in the middle of a sequence (informative only)
    g.add("extseq", "outside", dict(el=2, ec=0), {"ops": ["m1", "x:2:3:3", "x:2:3:4"]})              # weights for another particle count
    g.add("extseq", "outside", dict(el=2, ec=1), {"ops": ["m5", "x:3:3:3", "m6", "x:4:3:3"]})        # a 4-row mode pushed into the 3-row history
    g.add("extseq", "outside", dict(el=2, ec=0), {"ops": ["m9", "X:2:3:3:2:3:3:2", "X:2:3:3:2:3:3:4"]})  # previous weights of another count
    g.add("extseq", "outside", dict(el=1, ec=1), {"ops": ["m3", "x:2:2:2", "w2", "m2", "x:2:0:0"]})  # no particle at all


def g_objseq(g, rng, tier):
    """One object of a step / model / utility that keeps a buffer sized by an earlier call, driven through several calls with
    CHANGING sizes (no shape program: observed under the assertion and sanitizer builds; reported sizes are checked)."""
    reps = 2 if tier == "quick" else 6
    counts = [1, 2, 3, 4, 5, 7]

    def cseq(n, toks="cccccuukl"):
        out = []
        for _ in range(n):
            t = rng.choice(toks)
            out.append("l" if t == "l" else "%s%d" % (t, rng.choice(counts)))
        return out
    for _ in range(reps):
        # KFCorrection: innovations_, meas_covariances_ (resized "only if needed") across component counts
        for (m, n) in ((2, 4), (1, 3), (3, 2)):
            g.add("objseq", "valid", dict(what="kf", m=m, n=n), {"steps": ["l", "c3", "l", "c1", "l", "c4", "u2", "l", "c2", "l", "k5", "l", "c5", "l"] + cseq(8) + ["l"]})
        # UKFCorrection: innovations_, predicted_meas_, UT weights; component count, measurement layout / size, noise size
        lms = [(2, 0, 0), (1, 1, 0), (3, 0, 0), (0, 1, 1), (2, 1, 1), (1, 0, 0), (0, 2, 0)]
        for additive, online in ((1, 0), (0, 0), (0, 1)):
            for lp in ((3, 0, 0), (2, 2, 0), (1, 0, 0)):
                r0 = 2
                steps = ["l"]
                for i in range(9):
                    lm = lms[(i + lp[0]) % len(lms)] if i < 7 else rng.choice(lms)
                    r = lcov(lm) if additive else (rng.randint(1, 3) if online else r0)
                    kind = "f" if i in (3, 6) else "c"
                    steps += ["%s%d:%d:%d:%d:%d" % (kind, rng.choice(counts) if i else 3, lm[0], lm[1], lm[2], r), "l"]
                g.add("objseq", "valid", dict(what="ukf", additive=additive, online=online, r=r0, **lay("p", lp)), {"steps": steps})
        # SUKFCorrection: propagated_sigma_points_, innovations_; component count and measurement size (multiples of the sub-size)
        for lp in ((3, 0, 0), (2, 2, 0)):
            for sub, reduced in ((1, 0), (2, 0), (2, 1), (3, 1)):
                steps = ["l"]
                for i in range(8):
                    steps += ["%s%d:%d" % ("f" if i in (2, 5) else "c", rng.choice(counts), sub * rng.randint(1, 3)), "l"]
                g.add("objseq", "valid", dict(what="sukf", sub=sub, reduced=reduced, msz=sub * 2, **lay("p", lp)), {"steps": steps})
        # GPFCorrection (Kalman / unscented inner step) and BootstrapCorrection: likelihood_ across particle counts
        for inner in (0, 1):
            g.add("objseq", "valid", dict(what="gpf", inner=inner), {"steps": ["l", "c3", "l", "c7", "l", "c1", "l", "u4", "l", "c2", "k6", "l", "c5", "l"] + cseq(6) + ["l"]})
        g.add("objseq", "valid", dict(what="boot"), {"steps": ["l", "c4", "l", "c9", "l", "u2", "l", "c1", "l", "k3", "l", "c6", "l"] + cseq(8) + ["l"]})
        # Resampling / ResamplingWithPrior: particle count and layout changing between calls of one object
        lays4 = [(4, 0, 0), (2, 1, 0), (1, 0, 0), (2, 1, 1), (0, 2, 1)]
        for what, ratio, prior in (("resample", "0", "zero"), ("resprior", "0.5", "zero"), ("resprior", "0.25", "zero"), ("resprior", "0.8", "zero"),
                                   ("resprior", "0.5", "refuse"), ("resprior", "0.3", "refuse"), ("resprior", "0.7", "refuse"), ("resprior", "0.1", "refuse"),
                                   ("resprior", "0.5", "grid"), ("resprior", "0.3", "grid")):
            if prior == "grid":
                # the shipped grid prior (2 x 1 and 1 x 3): succeeds for some particle counts of the sequence, fails for the others
                gx, gy = (2, 1) if ratio == "0.5" else (1, 3)
                steps = ["r%d:%d:0:0" % (n, L) for (n, L) in ((4, 4), (5, 4), (7, 4), (4, 2), (10, 4), (3, 4), (12, 4), (1, 4), (6, 6), (11, 4))]
                g.add("objseq", "valid", dict(what=what, ratio=ratio, prior=prior, gx=gx, gy=gy), {"steps": steps})
                continue
            steps = []
            for i in range(10):
                l = lays4[i % 5] if what == "resample" or i % 5 < 3 or True else lays4[0]
                n = [7, 1, 3, 12, 2, 5, 1, 9, 4, 6][i] if i < 6 else rng.randint(1, 40)
                if what == "resprior" and int(math.floor(n * float(ratio))) >= n:
                    n += 1
                steps.append("%s%d:%d:%d:%d" % ("n" if (what == "resample" and i % 4 == 3) else "r", n, l[0], l[1], l[2]))
            g.add("objseq", "valid", dict(what=what, ratio=ratio, prior=prior), {"steps": steps})
        # WhiteNoiseAcceleration / LinearModel: sample and state counts changing between calls of one object
        for D in (1, 2, 3):
            steps = ["%s%d" % (rng.choice("spmt"), q) for q in (3, 0, 1, 17, 2, 40, 1, 5)] + ["s7", "s0", "s1", "m2", "m9", "t4", "t1", "p6"]
            g.add("objseq", "valid", dict(what="wna", D=D), {"steps": steps})
            ms = [rng.randrange(2 * D) for _ in range(rng.randint(1, 4))]
            steps = ["z", "s3", "h5", "z", "s0", "h1", "z", "z", "s9", "h2", "z", "s1", "z", "h7"]
            g.add("objseq", "valid", dict(what="sensor", D=D, T=3 + D), {"steps": steps, "ms": ms})
        # predictions: UT weights / output object across component counts
        for ls in ((3, 0, 0), (2, 1, 0), (2, 1, 1)):
            for additive in (0, 1):
                q = lcov(ls) if additive else 2
                g.add("objseq", "valid", dict(what="ukfp", additive=additive, q=q, **lay("s", ls)), {"steps": ["c2", "c5", "c1", "k3", "c4", "c1", "c7", "k2", "c3"]})
        g.add("objseq", "valid", dict(what="kfp", additive=0, q=0, **lay("s", (4, 0, 0))), {"steps": ["c2", "c5", "c1", "k3", "c4", "c1"]})
        g.add("objseq", "valid", dict(what="kfp", additive=0, q=0, **lay("s", (2, 1, 0))), {"steps": ["c3", "c1", "k2", "c6"]})
        # one ParticleSet: storage (state_, mean_, covariance_, weight_) re-sized by augmentWithNoise / resize / += and then
        # paired with sets of the shape its descriptors advertise
        for ls0 in ((4, 0, 0), (2, 1, 0), (2, 1, 1), (0, 2, 1), (1, 0, 0)):
            n = rng.choice([1, 2, 3, 5]); comps = n; ls = ls0
            steps = ["f", "s", "a%d" % rng.randint(1, 3), "r%d" % comps, "f", "s", "m", "c"]      # resize to the very description it has
            for _ in range(10):
                t = rng.choice(["a", "r=", "r", "+", "R", "R=", "+"])
                if t == "a": steps.append("a%d" % rng.randint(1, 3))
                elif t == "r=": steps.append("r%d" % comps)
                elif t == "r": comps = rng.choice([c for c in (1, 2, 3, 4, 6) if c != comps]); steps.append("r%d" % comps)
                elif t == "+": k = rng.randint(1, 3); comps += k; steps.append("+%d" % k)
                elif t == "R=": steps.append("R%d:%d:%d" % (comps, ls[0], ls[1]))
                else:
                    comps = rng.randint(1, 4); ls = (rng.randint(0, 4), ls[1] if rng.random() < 0.5 else rng.randint(0, 2), ls[2])
                    if ls[0] + ls[1] == 0: ls = (1, 0, ls[2])
                    steps.append("R%d:%d:%d" % (comps, ls[0], ls[1]))
                steps += rng.choice([["f", "s"], ["f", "m"], ["f", "c"], ["f", "s", "m", "c"], []])
            g.add("objseq", "valid", dict(what="pset", n=n, **lay("s", ls0)), {"steps": steps})
        # one grid initialiser, particle sets of changing count and state size
        g.add("objseq", "valid", dict(what="grid", nx=2, ny=3), {"steps": ["g6:4", "g5:4", "g6:2", "g6:6", "g7:4", "g6:4", "g1:4", "g6:4"]})


def objseq_expected(case):
    """the sizes / return values the calls of an objseq case must report, from the arguments alone"""
    m = case.meta
    what = m["what"]
    steps = list(case.get("steps"))
    ints = lambda t: [int(x) for x in t[1:].split(":") if x != ""]
    out = []
    if what in ("kf", "ukf", "sukf", "gpf", "boot"):
        lik = (0, 0)
        for t in steps:
            if t == "l":
                out += list(lik); continue
            k = ints(t)[0]
            if what == "kf": out += [k, int(m["n"])]
            elif what in ("ukf", "sukf"): out += [k, ldim((int(m["pL"]), int(m["pC"]), int(m["pq"])))]
            else: out += [k, k, k]
            if t[0] == "c": lik = (1, k)
            elif t[0] in "uf": lik = (0, 0)
    elif what in ("resample", "resprior"):
        for t in steps:
            n, L, C, q = ints(t)
            out += [1] if t[0] == "n" else [n, n, n, n, lcov((L, C, q)) * n, 0]      # sizes of the result; no parent that is neither -1 nor an input index
    elif what == "wna":
        d = 2 * int(m["D"])
        for t in steps:
            q = ints(t)[0]
            out += [q, 1] if t[0] == "t" else [d, q]
    elif what == "sensor":
        T, served, ms = int(m["T"]), 0, len(case.get("ms"))
        for t in steps:
            if t[0] == "z":
                out += [1, ms, 1] if served < T else [0, 0, 0]
                served += 1 if served < T else 0
            else:
                out += [ms, ints(t)[0]]
    elif what in ("ukfp", "kfp"):
        ls = (int(m["sL"]), int(m["sC"]), int(m["sq"]))
        for t in steps:
            out += [ints(t)[0], ldim(ls), lcov(ls)]
    elif what == "grid":
        for t in steps:
            n, L = ints(t)
            out += [1 if (n == int(m["nx"]) * int(m["ny"]) and L == 4) else 0]
    return out


ENTRY_OF_OBJSEQ = {"kf": "KFCorrection", "ukf": "UKFCorrection", "sukf": "SUKFCorrection", "gpf": "GPFCorrection", "boot": "BootstrapCorrection",
                   "resample": "Resampling", "resprior": "ResamplingWithPrior", "wna": "WhiteNoiseAcceleration", "sensor": "SimulatedLinearSensor",
                   "ukfp": "UKFPrediction", "kfp": "KFPrediction", "grid": "InitSurveillanceAreaGrid", "pset": "ParticleSet"}
# kinds without a shape program: every report of the assertion / sanitizer builds is a finding
UNMODELLED = ("lifetime", "objseq")


def g_lifetime(g, rng, tier):
    for what in ("linearmodel_traits", "wna_move", "resampling_copy", "history_move"):
        g.add("lifetime", "valid", dict(what=what))
    if tier == "thorough":
        g.add("lifetime", "valid", dict(what="gpf_move"), tag="use-after-move")
        g.add("lifetime", "valid", dict(what="gpf_move_assign"), tag="use-after-move")
        g.add("lifetime", "valid", dict(what="gpf_move_fresh"), tag="uninitialised-flag")


PERTURB = {"wna": ["num", "sr", "sc", "mr", "mc", "pr", "pc", "cr", "cc"], "simstate": ["ir", "T"], "linsensor": ["ir", "sn", "rr", "rc", "sr"],
           "grid": ["n", "nx"], "ut": ["w", "pr", "pc", "qr", "qc"], "kfp": ["d", "compsq"], "kfc": ["n", "yr", "compsq"], "ukfp": ["q"],
           "ukfc": ["r", "ir", "compsq"], "sukf": ["r", "ir", "sub", "msz", "compsq"], "resample": ["nr", "np"], "resprior": ["np"],
           "density": ["k", "a", "b"], "uvr": ["k", "ur", "uc", "vr", "vc", "rc"], "extract": ["pr", "wn", "pw", "ln", "tr", "tc"]}
AT_LEAST_ONE = {"compsq", "nr", "nx", "d", "n"}


def g_perturb(g, rng, tier):
    """Shape fuzzing: a valid case with ONE size parameter moved by +-1 / +-2.  Wherever the result leaves the
    declared shapes, model and implementation must fail in the same entry point with the same kind of
    precondition; this is what exercises the site labels that no valid configuration can make fail."""
    pool = [c for c in g.cases if c.meta.get("cls") == "valid" and not c.meta.get("tag") and c.kind in PERTURB]
    by_kind = {}
    for c in pool:
        by_kind.setdefault(c.kind, []).append(c)
    kinds = sorted(by_kind)
    for i in range(72):
        kind = kinds[i % len(kinds)]
        c = rng.choice(by_kind[kind])
        key = rng.choice(PERTURB[kind])
        meta = {k: v for k, v in c.meta.items() if k not in ("cls", "tag")}
        old = int(meta.get(key, 0))
        newv = max(1 if key in AT_LEAST_ONE else 0, old + rng.choice([-2, -1, 1, 2]))
        if newv == old:
            newv = old + 1
        meta[key] = newv
        meta["fuzz"] = key
        words = {n: v for (t, n, v) in c.ops if t == "word"}
        g.add(kind, "outside", meta, words)


GENS = [g_wna, g_simstate, g_linsensor, g_history, g_grid, g_sigma, g_psaug, g_ut, g_kf, g_ukf, g_resample, g_density, g_extract, g_extseq, g_objseq,
        g_lifetime, g_perturb]


def generate(rng, tier):
    g = Gen()
    for f in GENS:
        f(g, rng, tier)
    return g.cases


SEARCH_CASES = 3000


def search_cases(rng):
    """The widened search (vlib/runner.py: widen_if_needed): the thorough generator, taken round-robin over the case kinds
    (its first 3000 cases in generation order would be history buffers and transforms only)."""
    by_kind = {}
    for c in generate(rng, "thorough"):
        by_kind.setdefault(c.kind, []).append(c)
    out, depth = [], 0
    while len(out) < SEARCH_CASES and any(depth < len(v) for v in by_kind.values()):
        for k in sorted(by_kind):
            if depth < len(by_kind[k]) and len(out) < SEARCH_CASES:
                out.append(by_kind[k][depth])
        depth += 1
    return out


def main(ctx, a):
    """The runner's standard flow.  Its widened search (widen_if_needed) is skipped as soon as ctx.violations is not empty,
    and the two registered known findings (UKF / SUKF correction of a quaternion state) are in that list on every run, so the
    widened search would never run for C14: they are set aside while it decides and put back before classification."""
    import sys
    from vlib import runner
    if not a.skip_proofs:
        runner.prove(ctx)
    if a.replay:
        cases = caseio.read_cases(a.replay)
        ctx.log("replaying %d case(s) from %s" % (len(cases), a.replay))
    else:
        cases = generate(ctx.rng, a.tier)
    if cases:
        runner.standard_cases(ctx, cases)
    known = {k.get("signature") for k in runner.load_known().get("findings", []) if k.get("property") == ID}
    aside = [v for v in ctx.violations if v[0] in known]
    ctx.violations[:] = [v for v in ctx.violations if v[0] not in known]
    try:
        runner.widen_if_needed(ctx, sys.modules[__name__], a)
    finally:
        ctx.violations[:] = aside + list(ctx.violations)
    ctx.extra["histogram"] = histogram(cases)
    return runner.finish(ctx)


# ------------------------------------------------------------------ verdicts
def word1(rec, name):
    v = rec.get(name)
    if isinstance(v, (list, tuple)):
        return v[0] if v else ""
    return v


def model_verdict(model):
    if model is None:
        return ("none", "", "")
    return (word1(model, "verdict"), word1(model, "entry"), word1(model, "site"))


def signature(case, entry, site):
    return "C14:%s:%s" % (entry, case.meta.get("tag") or site)


def compare(case, impl, model):
    """The implementation ran to the end of the case (no assertion, no sanitizer report)."""
    note_sites(model)
    d = []
    mv, me, ms = model_verdict(model)
    iv, ie = word1(impl, "verdict"), word1(impl, "entry")
    if case.meta.get("cls") == "outside":
        # the library did not fail (it ran through, returned false or threw): never a difference
        OUTSIDE["outside_accepted" if mv == "fails" else "outside_agree_no_failure"] += 1
        return d
    if mv == "fails":
        if case.kind in UNMODELLED:
            return d
        d.append("model: %s fails at site %s; implementation: no report (verdict %s)" % (me, ms, iv))
    elif mv != iv or (mv == "threw" and me != ie):
        d.append("verdict: model %s %s, implementation %s %s" % (mv, me, iv, ie))
    elif mv == "safe" and case.kind not in UNMODELLED:
        mo, io = list(model.get("obs") or []), list(impl.get("obs") or [])
        if mo != io:
            d.append("observable shapes / return values: model %s, implementation %s" % (" ".join(mo), " ".join(io)))
        if case.kind == "extseq":
            # the window after every operation, as getInfo() reports it; a message the harness cannot read is counted, not compared
            mw, iw = list(model.get("win") or []), list(impl.get("win") or [])
            if iw and all(x != "-1" for x in iw):
                WINDOW_SEEN[0] += 1
                if mw != iw:
                    d.append("window after each operation: model %s, implementation %s" % (" ".join(mw), " ".join(iw)))
            else:
                WINDOW_SEEN[1] += 1
    return d


def oracle(case, impl, model):
    """Property clauses on an implementation that reported nothing: the case must not have thrown for a valid
    configuration, exhaustion must have been reported by the return value, descriptors must agree with storage."""
    v = []
    if case.meta.get("cls") == "outside":
        return v
    iv, ie = word1(impl, "verdict"), word1(impl, "entry")
    o = [int(x) for x in (impl.get("obs") or [])]
    if case.meta.get("cls") == "valid" and iv == "threw":
        v.append(("C14:%s:valid-configuration-rejected" % ie, "the library threw on a valid configuration"))
    if iv != "safe":
        return v
    k = case.kind
    if k in ("simstate", "linsensor"):
        T = int(case.meta["T"])
        ops = list(case.get("ops")) if k == "simstate" else ["b"] * int(case.meta["calls"])
        rets, i = [], 0
        for t in ops:
            if t != "b": continue
            if i >= len(o): break
            rets.append(o[i]); i += 3 if o[i] == 1 else 1
        want, served = [], 0
        for t in ops:
            if t == "r": served = 0
            else:
                want.append(1 if served < T else 0); served += 1 if served < T else 0
        if rets != want:
            v.append(("C14:%s:exhaustion-not-reported" % ("SimulatedStateModel::bufferData" if k == "simstate" else "SimulatedLinearSensor::freeze"),
                      "returns %s for a trajectory of %d steps" % (rets, T)))
    if k == "history":
        # the stored count never exceeds the window, the window stays within [2, 30] once set
        ops = case.get("ops"); i = 0
        for t in ops:
            if t == "get":
                cols = o[i + 1]; win = o[i + 2]; i += 3
                if cols > win:
                    v.append(("C14:HistoryBuffer::getHistoryBuffer:stored>window", "%d stored with window %d" % (cols, win))); break
            else:
                i += 1
    if k in ("kfc", "ukfc", "sukf") and str(case.meta.get("again", "0")) == "1" and len(o) >= 8:
        if o[-2] != 0 or o[-1] != 0:
            name = {"kfc": "KFCorrection", "ukfc": "UKFCorrection", "sukf": "SUKFCorrection"}[k]
            v.append(("C14:%s::getLikelihood:stale-after-unusable-measurement" % name,
                      "getLikelihood() reports (%d, %d values) after a correction that could not use the measurement" % (o[-2], o[-1])))
    if k == "psaug" and len(o) >= 9:
        if not (o[5] == o[2] and o[6] == o[2] and o[7] == o[3]):
            v.append(("C14:ParticleSet::augmentWithNoise:descriptor!=storage",
                      "dim %d / dim_covariance %d but state rows %d, mean rows %d, covariance rows %d" % (o[2], o[3], o[5], o[6], o[7])))
    if k == "lifetime" and case.meta.get("what") == "linearmodel_traits" and any(o):
        v.append(("C14:LinearModel:copyable-or-movable-with-reference-capture",
                  "LinearModel / SimulatedLinearSensor became copyable or movable (%s) while gauss_rnd_sample_ captures this by reference" % o))
    if k == "objseq" and case.meta["what"] == "pset":
        # after every operation the descriptors of the set agree with its storage
        for j in range(0, len(o) - 12, 13):
            comps, dim, dc, noise, L, C, sr, sc, mr, mc, cr, cc, wn = o[j:j + 13]
            q = int(case.meta["sq"])
            if not (sr == dim == mr and sc == comps == mc == wn and cr == dc and cc == dc * comps
                    and dim == L + C * (4 if q else 1) + noise and dc == L + C * (3 if q else 1) + noise):
                v.append(("C14:ParticleSet:sequence-on-one-object:descriptor!=storage",
                          "after operation %d of %s: components %d, dim %d, dim_covariance %d, dim_noise %d (linear %d, circular %d) but state %dx%d, mean %dx%d, "
                          "covariance %dx%d, %d weights" % (j // 13, " ".join(case.get("steps")), comps, dim, dc, noise, L, C, sr, sc, mr, mc, cr, cc, wn)))
                break
    elif k == "objseq":
        want = objseq_expected(case)
        if o != want:
            i = next((j for j in range(min(len(o), len(want))) if o[j] != want[j]), min(len(o), len(want)))
            v.append(("C14:%s:sequence-on-one-object:reported-size!=arguments" % ENTRY_OF_OBJSEQ.get(case.meta["what"], case.meta["what"]),
                      "steps %s: value %d of the reported sizes / flags is %s, the arguments imply %s (reported %s, implied %s)"
                      % (" ".join(case.get("steps")), i, o[i] if i < len(o) else "missing", want[i] if i < len(want) else "nothing", o, want)))
    if k == "extseq":
        # every extraction that is possible is reported as available, with one number per state component
        ssz, stat, i = int(case.meta["el"]) + int(case.meta["ec"]), 1, 0
        for t in case.get("ops"):
            if t[0] == "m": stat = int(t[1:]) // 4
            if t[0] in "xX" and i + 1 < len(o):
                ok_ = 0 if (stat == 2 and t[0] == "x") else 1
                if o[i] != ok_ or o[i + 1] != ssz:
                    v.append(("C14:EstimatesExtraction::extract:estimate-shape", "operation %s (statistic %d) returned (%d, %d numbers) for a %d-dimensional state"
                              % (t, stat, o[i], o[i + 1], ssz))); break
            i += 2 if t[0] in "xX" else 1
    if k == "resprior" and len(o) == 6 and o[5] != 0:
        v.append(("C14:ResamplingWithPrior::resample:parent-out-of-range", "%d parent(s) are neither -1 nor the index of one of the %s input particles (prior %s, share %s)"
                  % (o[5], case.meta["n"], case.meta.get("prior"), case.meta.get("ratio"))))
    if k in ("resample", "resprior") and len(o) in (5, 6):
        o = o[:5]
        n = int(case.meta["n"] if k == "resprior" else case.meta["nr"])
        if not (o[0] == o[1] == o[2] == o[3] == n):
            v.append(("C14:%s:descriptor!=storage" % ("ResamplingWithPrior::resample" if k == "resprior" else "Resampling::resample"),
                      "components %d, state cols %d, mean cols %d, weights %d for %d particles" % (o[0], o[1], o[2], o[3], n)))
    return v


REPORT_KIND = {"eigen-assert": "eigen-assert", "asan": "asan", "ubsan": "ubsan"}


def entry_of(info):
    se = info.get("stderr", "")
    m = re.findall(r"entry=(\S+)", se)      # the last announcement: the assertion / death line, or the entry entered last
    if m:
        return m[-1]
    # UBSan's abort path does not run the death callback: take the innermost library frame of its stack trace
    m = re.search(r"#\d+ 0x[0-9a-f]+ in (bfl::[^/]*?\)) /", se)
    return m.group(1).replace("bfl::", "").replace(" ", "") if m else "unknown"


def report_class(info):
    se = info.get("stderr", "")
    if info.get("kind") == "eigen-assert":
        m = re.search(r"cond=\[(.*?)\] at", se)
        cond = m.group(1) if m else ""
        if "invalid matrix product" in cond: return "product"
        if "empty matrix" in cond or "rows()>0" in cond.replace(" ", ""): return "empty"
        if cond.replace(" ", "") in ("rows()==cols()",): return "not-square"
        if "startRow" in cond or "startCol" in cond or "(i>=0)" in cond.replace(" ", ""): return "block"
        if "dst.rows() == src.rows()" in cond or "aLhs.rows() == aRhs.rows()" in cond or "does not actually allow" in cond: return "size-mismatch"
        if "index >= 0" in cond or "row >= 0" in cond: return "index"
        if "comma" in cond.lower() or "Too" in cond: return "comma-initializer"
        return "eigen-assert"
    m = re.search(r"AddressSanitizer: ([\w-]+)", se)
    if m: return m.group(1)
    if "BFL_VERIF_SIGNAL" in se: return "crash"
    if "runtime error" in se:
        m = re.search(r"runtime error: ([a-z ]+?)(?: \d|,|$|\n)", se)
        return "ubsan-" + (m.group(1).strip().replace(" ", "-")[:40] if m else "report")
    return info.get("kind", "crash")


# which reports of the implementation correspond to which kind of model precondition
CLASS_OF_OP = {"mul": {"product"}, "same": {"size-mismatch", "not-square"}, "blk": {"block"}, "idx": {"block", "index", "empty"},
               "comma": {"comma-initializer"}, "div": {"crash", "FPE", "ubsan-division-by-zero"}, "pop": {"crash", "SEGV", "heap-buffer-overflow", "eigen-assert"}}
ALL_SITES, FAILED_SITES, CLASS_CHECKED = set(), set(), [0, 0]
WINDOW_SEEN = [0, 0]
# 'outside' cases (inputs outside the property's quantifier) are informative only: hardening the code there must not alarm
OUTSIDE = {"outside_failed_as_predicted": 0, "outside_failed_elsewhere": 0, "outside_accepted": 0, "outside_agree_no_failure": 0}


def note_sites(model):
    if model is None:
        return
    ALL_SITES.update(model.get("sites") or [])
    if word1(model, "verdict") == "fails":
        FAILED_SITES.add("%s|%s" % (word1(model, "entry"), word1(model, "site")))


def on_crash(case, info, model):
    """The implementation ended abnormally (assertion, sanitizer report, signal) inside some entry point."""
    note_sites(model)
    mv, me, ms = model_verdict(model)
    ie = entry_of(info)
    rc = report_class(info)
    if case.meta.get("cls") == "outside":
        want = CLASS_OF_OP.get(word1(model, "opclass") if model is not None else "", set())
        same = mv == "fails" and me == ie and (rc in want or (rc.startswith("ubsan-") and word1(model, "opclass") in ("blk", "idx")))
        OUTSIDE["outside_failed_as_predicted" if same else "outside_failed_elsewhere"] += 1
        return []
    if mv == "fails" and me == ie and case.kind not in UNMODELLED:
        # same entry point: the kind of failing precondition must correspond too
        want = CLASS_OF_OP.get(word1(model, "opclass"), set())
        CLASS_CHECKED[0] += 1
        # a block with a negative start makes Eigen's MapBase do the pointer arithmetic before its assertion: UBSan reports first
        if rc not in want and not (rc.startswith("ubsan-") and word1(model, "opclass") in ("blk", "idx")):
            CLASS_CHECKED[1] += 1
            return [("C14:correspondence-class:%s" % ie, "model: site %s fails as %s; implementation reports %s; %s"
                     % (ms, word1(model, "opclass"), rc, info.get("stderr", "")[-400:].replace("\n", " | ")))]
    detail = "%s in %s (rc=%s): %s" % (info.get("kind"), ie, info.get("rc"), info.get("stderr", "")[-700:].replace("\n", " | "))
    if case.kind == "lifetime":
        return [("C14:%s:%s" % (ie, case.meta.get("tag") or rc), "lifetime / initialisation error outside the shape calculus: " + detail)]
    if case.kind == "objseq":
        return [("C14:%s:sequence-on-one-object:%s" % (ie, rc), "calls with changing sizes on one %s object (%s), valid arguments: %s"
                 % (ENTRY_OF_OBJSEQ.get(case.meta.get("what"), "?"), " ".join(case.get("steps")), detail))]
    if mv == "fails" and me == ie:
        if case.meta.get("cls") == "outside":
            return []            # an input outside the declared shapes: model and implementation agree on the failing entry point
        return [(signature(case, ie, ms), "valid configuration; the model predicts the failure at site %s; %s" % (ms, detail))]
    if mv == "fails":
        return [("C14:correspondence:%s" % ie, "model fails in %s (site %s) but the implementation reports in %s; %s" % (me, ms, ie, detail))]
    return [("C14:%s:%s" % (ie, case.meta.get("tag") or rc), "the model says %s but the implementation reports (%s): %s" % (mv, rc, detail))]


def nontrivial(c):
    m = c.meta
    keys = ("D", "comps", "pL", "pC", "pq", "iL", "iC", "iq", "oL", "oC", "oq", "mL", "mC", "mq", "variant", "additive", "valid", "stat", "avg", "L", "C", "q", "noise", "sub", "cls", "tag")
    key = (c.kind,) + tuple(str(m.get(k, "")) for k in keys)
    if c.kind == "linsensor":
        key += (" ".join(c.get("ms")),)
    if c.kind == "history":
        key += (len(c.get("ops")),)
    if c.kind == "extseq":
        key += (m.get("el"), m.get("ec"), zlib.crc32(" ".join(c.get("ops")).encode()))
    if c.kind == "objseq":
        key += (m.get("what"), zlib.crc32((" ".join(c.get("steps")) + repr(sorted(m.items()))).encode()))
    if c.kind in ("wna", "simstate") and str(m.get("D")) == "2" and m.get("cls") == "valid":
        return None              # what the existing tests already instantiate
    return key


def histogram(cases):
    h, cls, tags = {}, {}, {}
    for c in cases:
        h[c.kind] = h.get(c.kind, 0) + 1
        cls[c.meta.get("cls")] = cls.get(c.meta.get("cls"), 0) + 1
        if c.meta.get("tag"):
            tags[c.meta["tag"]] = tags.get(c.meta["tag"], 0) + 1
    never = sorted(ALL_SITES - FAILED_SITES)
    return {"kind": h, "class": cls, "open_item_cases": tags,
            "model_site_labels_executed": len(ALL_SITES), "model_site_labels_failing_in_some_case": len(FAILED_SITES & ALL_SITES),
            "site_labels_never_failing": never,
            "failing_cases_with_class_compared": CLASS_CHECKED[0], "class_mismatches": CLASS_CHECKED[1],
            "extseq_window_compared": WINDOW_SEEN[0], "extseq_window_not_readable": WINDOW_SEEN[1],
            "objseq_by_object": {w: sum(1 for c in cases if c.kind == "objseq" and c.meta.get("what") == w) for w in sorted(ENTRY_OF_OBJSEQ)}, **OUTSIDE}


REQUIRED_THEOREMS = ["C14_WhiteNoiseAcceleration_safe", "C14_SimulatedStateModel_safe", "C14_bufferData_exhaustion_reported",
                     "C14_SimulatedLinearSensor_safe", "C14_HistoryBuffer_safe", "C14_InitSurveillanceAreaGrid_safe",
                     "C14_InitSurveillanceAreaGrid_state_2d_safe", "C14_InitSurveillanceAreaGrid_state_6d_safe", "C14_sigma_point_safe",
                     "C14_augmentWithNoise_safe", "C14_unscented_transform_safe", "C14_unscented_transform_additive_measurement_failed_safe",
                     "C14_KFPrediction_safe", "C14_KFCorrection_safe", "C14_UKFPrediction_additive_safe", "C14_UKFPrediction_generic_safe",
                     "C14_UKFCorrection_safe", "C14_UKFCorrection_quaternion_measurement_safe", "C14_UKFCorrection_quaternion_state_refuted",
                     "C14_SUKFCorrection_safe", "C14_SUKFCorrection_quaternion_state_refuted", "C14_SUKFCorrection_zero_sub_size_refuted",
                     "C14_Resampling_safe", "C14_ResamplingWithPrior_safe", "C14_ResamplingWithPrior_quaternion_safe",
                     "C14_gaussian_density_safe", "C14_gaussian_density_UVR_safe", "C14_gaussian_density_UVR_zero_block_size_refuted",
                     "C14_EstimatesExtraction_safe", "C14_EstimatesExtraction_sequences_safe",
                     "C14_EstimatesExtraction_weights_match_history"]
RULE = ("exhaustive over the enumerated options: 3 Dim values x every measured-component subset of size <= 3 x component counts 1..4 x the "
        "layouts (linear, linear+Euler, linear+quaternion, quaternion only; with and without noise augmentation) x the five unscented-transform "
        "overloads x small num / window / call counts (call sequences longer than the trajectory, the window and the 30-element cap), plus seeded "
        "random larger configurations and history-buffer operation sequences; plus inputs outside the declared shapes, on which model and "
        "implementation must fail in the same entry point with the same kind of precondition; EstimatesExtraction as ONE object driven through "
        "operation sequences (setMethod over all twelve methods, setMobileAverageWindowSize grow / shrink / clamped / refused, clear, both extract "
        "overloads, particle count changing per call; every ordered pair of averaging families alternated around a window change or a clear, on "
        "linear, mixed and circular-only layouts, plus seeded random sequences); call sequences with CHANGING sizes on one object of every step / "
        "model that keeps a buffer sized by an earlier call (KF / UKF / SUKF correction, GPF / bootstrap correction, Resampling(+prior), "
        "WhiteNoiseAcceleration, SimulatedLinearSensor, KF / UKF prediction, the grid initialiser, and a ParticleSet re-sized by augmentWithNoise / "
        "resize / += and then paired with sets of its advertised shape); and 72 seeded shape-fuzzing cases per run (one "
        "size parameter of a valid case moved by +-1/+-2); non-trivial = everything except the 2-D motion model alone; distinct by "
        "(kind, Dim, components, layouts, overload, flags, measured subset; operation sequence for the sequence kinds)")
TRUSTED_BASE = ["Coq 8.16.1 kernel (coqc); no axioms (Print Assumptions: closed under the global context); lia/nia",
                "the shape programs of coq/C14_Model.v are hand transcriptions of the Eigen operations of each entry point (checked only by the differential run)",
                "extraction (ExtrOcamlBasic only; Peano nat) and ocaml/drv_C14.ml, ocaml/caseio.ml",
                "cpp/h_C14.cpp harness: the user-defined state/measurement models, the data it fills in (argmax positions), the entry labels",
                "Eigen's own assertions (cpp/verif_eigen_assert.h redirect) and ASan/UBSan as the observers of the implementation",
                "correspondence is sampled and at entry-point granularity: agreement is established on the generated configurations only"]
ASSUMPTIONS = ["GaussianMixture / ParticleSet objects are built through their constructors and augmentWithNoise (descriptor = storage is C11's subject)",
               "user-supplied models return matrices of the shape their descriptions declare (valid class) — other shapes are generated as 'outside' cases"]
LEVEL_TEXT = ("Proof of a shape calculus: for every configuration (unbounded dimensions, component / particle / call counts, every history-buffer "
              "operation sequence) the shape program of each modelled entry point — WhiteNoiseAcceleration, LinearModel / SimulatedLinearSensor, "
              "SimulatedStateModel, HistoryBuffer, InitSurveillanceAreaGrid, augmentWithNoise, sigma_point, the five unscented_transform overloads, "
              "KF / UKF / SUKF steps and their likelihoods, Resampling(+prior), the density utilities, EstimatesExtraction (single-method call "
              "sequences, and a state machine over window, stored estimates and the three cached weight-vector lengths for EVERY sequence of "
              "setMethod / setMobileAverageWindowSize / clear / extract operations on one object) — has every Eigen "
              "precondition satisfied (products conformable, fixed-size assignments equal, blocks inside, indices in range, no pop of an empty deque, "
              "comma initialisers exact) and exhaustion is reported by the return value; the two classes where this is false of the code (UKF / SUKF "
              "correction of a state containing quaternions) are proved refuted and registered as known findings. Tied to the code by running the "
              "same configurations through the library with Eigen's assertions on and under ASan/UBSan and comparing verdict, failing entry point and "
              "observable shapes / return values.")
LEVEL_NOTE = ("The shape programs are hand transcriptions. Their tie to the code is sampled (exhaustive over the enumerated options, seeded random "
              "beyond) and consists, on the valid cases, of: equality of verdict (safe / threw / fails), of the failing entry point, of the KIND of failing precondition "
              "(product, size mismatch, block, index, comma initialiser, division) and of the observable shapes / return values, under Eigen "
              "assertions and under ASan+UBSan (both tiers). It is NOT a site-by-site trace comparison: a redirected eigen_assert sees neither "
              "operand sizes nor the calling line, and Eigen's decompositions evaluate thousands of internal assertions of the same kinds. A site "
              "label is therefore confronted with the code only in cases where it is the first to fail; valid cases, the 'outside' cases and the "
              "seeded shape fuzzing (one size parameter of a valid case moved by +-1/+-2) make about 60-70 of about 700 (entry, site) labels fail per "
              "run (numbers and the list of never-failing labels are in the evidence histogram); most of the others (all of sigma_point, "
              "augmentWithNoise, the likelihood programs, the blocks guarded by earlier items) cannot fail for any input constructible through the "
              "API, so a wrong offset in their transcription would be noticed only through the hand-made mutations of the code, not by a run. "
              "The shape calculus cannot exhibit memory errors that are not index/shape errors: dangling reference captures after a move, reads of "
              "uninitialised members, raw-pointer loops (rand_vectors.data() + i), aliasing, data-dependent indices other than those the harness "
              "pins (argmax positions). Those are covered only by the sanitizer variant on the generated call sequences, which includes move/copy "
              "followed by a call for GPFCorrection (use-after-move and uninitialised flag, both repaired in /repo; a reintroduction is reported), "
              "WhiteNoiseAcceleration, Resampling and HistoryBuffer; LinearModel, SimulatedLinearSensor and LTIMeasurementModel are neither "
              "copyable nor movable (checked on every run). Not modelled: standalone GaussianMixture / ParticleSet constructors, resize and element "
              "accessors (C11's subject; used here only through the steps), measure(), the logger. Degenerate configurations are outside the "
              "validity premises, modelled as failing items where the code divides (SUKF sub-measurement size 0, empty noise covariance in the UVR "
              "density); empty particle sets, prior share 1, inputs whose shape differs from the declared description. On these 'outside' cases "
              "agreement of model and code is only COUNTED in the evidence (failed as predicted / failed elsewhere / accepted), never reported, so "
              "that hardening the code there raises no alarm. "
              "Objects that keep a buffer sized by an earlier call: only HistoryBuffer and EstimatesExtraction have a proved sequence model (window, "
              "stored elements, cached weight lengths). The call sequences with changing component / particle counts, measurement layouts and sizes, "
              "noise sizes and sample counts on ONE KFCorrection, UKFCorrection (additive, generic, weights recomputed online), SUKFCorrection, "
              "GPFCorrection (Kalman and unscented inner step), BootstrapCorrection, Resampling, ResamplingWithPrior, WhiteNoiseAcceleration, "
              "SimulatedLinearSensor, KFPrediction, UKFPrediction, InitSurveillanceAreaGrid and ParticleSet object (kind objseq) have NO shape program: for them "
              "the assertion and sanitizer builds are the only observers, plus a comparison of the sizes / flags the calls report (corrected "
              "mixture, likelihood availability and length, resampled set, sample shapes) with what the arguments imply; the single-call shape "
              "programs of those steps say nothing about state carried from one call to the next. EstimatesExtraction's window is read from the "
              "text of getInfo(); if that text is not recognised the window is not compared (counted in the evidence). "
              "DESIGN.md's plan to re-run the generators of the other properties under the assertion build was NOT carried out: only C14's own "
              "generators run under these builds.")
