"""C10 — the control interface may be used from another thread without data races (DESIGN.md §2.3, §5 C10).

Flow (own `main`): translate (props/C10_translate.py regenerates coq/C10_AccessTable.v from the C++
sources) -> runner.prove (C10_Proofs / C10_AccessTable / C10_Current / Properties_C10 are re-checked
against the regenerated table) -> static findings (offending pairs of the table) -> dynamic run (a
ThreadSanitizer build of cpp/h_C10.cpp: a controller thread issuing seeded command sequences against a
running KF-based GaussianFilter and a bootstrap SIS) -> cross-validation (every variable ThreadSanitizer
reports must be flagged by the static checker) -> runner.finish."""
import fcntl, json, os, re, subprocess, sys
from concurrent.futures import ThreadPoolExecutor
from vlib import build, caseio, runner
from props import C10_translate as T

ID = "C10"
COQ_TARGETS = ["C10_Proofs.vo", "C10_AccessTable.vo", "C10_Current.vo", "C10_Regress_PreFix.vo"]
EXTRACTED = None
DRIVER = None
HARNESS = "h_C10.cpp"
VARIANTS = {"quick": ["tsan"], "thorough": ["tsan"]}
AXIOMS_ALLOWED = []
LEVEL = "proof"
REQUIRED_THEOREMS = ["C10_races_confined", "C10_race_freeb_sound", "C10_no_adjacent_conflict", "C10_race_freeb_iff_race_free",
                     "C10_offenders_realisable", "C10_race_vars_confined", "C10_current_table_race_free", "C10_current_table_discipline",
                     "C10_current_table_no_data_race", "C10_current_table_no_adjacent_conflict", "C10_current_table_covers_the_control_state",
                     "C10_reported_offenders_are_the_checked_ones"]
TECHNIQUE = ("Coq proof of a lock-set/atomic discipline over an access table regenerated from the C++ source by a clang-AST translator "
             "+ ThreadSanitizer cross-validation")
RULE = ("static: one access table regenerated from EVERY source file of the library (every function body of namespace bfl reachable from the "
        "control API or from the filtering-thread body); dynamic: directed command lists (one per skip target on KF and bootstrap SIS with and without "
        "exogenous model; one control+skips list per filter kind: KF, generic UKF, additive UKF, SUKF, bootstrap SIS, GPF with KF / UKF inside, each with "
        "LTI and WhiteNoiseAcceleration state models, exogenous model attached, logging enabled, ResamplingWithPrior on the particle filters) plus seeded "
        "random command lists of 30-80 commands over the same configurations; non-trivial = the list contains at least one skip command and one of "
        "reset/reboot; distinct by (filter kind, state model, inner filter, exogenous model, logging, resampling, set of command kinds)")
TRUSTED_BASE = ["Coq 8.16.1 kernel (coqc); no axioms (Print Assumptions: closed under the global context)",
                "the translator props/C10_translate.py and clang 14's JSON AST: that every access of a translated body is listed in the table with a protection it really has "
                "(fail-closed: unknown constructs, unresolved calls into repository code, escaping references are reported as unprotected accesses)",
                "the definition of a data race used by the theorems: conflicting accesses of different threads, not both atomic, not ordered by happens-before "
                "(program order, unlock->lock of the same mutex, thread creation, join); the C++ memory model proper is not formalised",
                "class-level abstraction: all instances of a class share one variable per member (and one per pointee of a pointer/reference member); control flow is "
                "abstracted (any order and number of the listed accesses)",
                "not in the table: constructors/destructors (objects are constructed before boot() and destroyed after wait()), user code (filter subclasses, models "
                "implementing pure virtuals), Eigen, the standard library",
                "std::atomic, std::mutex, std::condition_variable and std::cout/cerr/clog are taken as internally synchronised; a bfl class only if ALL its data members are",
                "cpp/h_C10.cpp, GCC 12 ThreadSanitizer, the parser of its reports in props/C10.py"]
ASSUMPTIONS = ["ONE controlling thread (the property statement); pairs of control accesses that would conflict with two controllers are listed separately in the evidence",
               "the control interface is the command list of the property (run, reset, reboot, teardown, step_number, is_running, skip, plus boot/wait); the Logger "
               "switches enable_log/disable_log are not in it (what they would race on is reported under outside_the_command_list)",
               "objects are constructed and configured before boot() and destroyed after wait()",
               "user-defined filtering_step/run_condition of a GaussianFilter subclass use prediction(), correction(), predict, correct, freeze_measurements, getLikelihood, "
               "step_number, logger only (FLT_ASSUMED_ROOTS)",
               "the verification hook bfl_verif_hook is not installed (it is null unless a verification harness sets it)"]
LEVEL_TEXT = ("Proof of the discipline, over a table regenerated from the source: for EVERY access table and EVERY interleaving of its two-thread "
              "small-step semantics (ONE controlling thread and the filtering thread; mutex acquire/release, fork at boot, join at wait) every data race is "
              "between a pair of accesses that the boolean checker race_freeb reports (C10_races_confined; soundness C10_race_freeb_sound; completeness "
              "C10_offenders_realisable). The table of the current sources is regenerated on every run by a translator over clang's JSON AST of every source "
              "file of the library (every function body of namespace bfl reachable from run/reset/reboot/teardown/step_number/is_running/skip/boot/wait and "
              "from the filtering-thread body); race_freeb current_table = [] is re-checked by the kernel (C10_current_table_race_free), hence no execution "
              "of the table has a data race (C10_current_table_no_data_race), and the table is pinned (C10_current_table_covers_the_control_state: the control "
              "flags, mutex, condition variable, six skip flags and SkipFlag::value_ are seen as shared; at least 20 control and 100 filtering-thread bodies). "
              "A ThreadSanitizer build of a two-thread harness (KF, generic/additive UKF, SUKF, bootstrap SIS, GPF; LTI and WhiteNoiseAcceleration models; "
              "exogenous model; logging; prior-mixing resampling; seeded command lists) searches for concrete racy schedules and cross-validates the table: "
              "every variable it reports must be flagged by the checker. A planted race in a scratch copy must be detected by both parts on every run.")
LEVEL_NOTE = ("What this level is: a proof of the lock-set/atomic/fork-join discipline over an access table regenerated from the source, not a proof about "
              "the C++ memory model. 'Data race' is DEFINED in the Coq model (conflicting accesses of different threads, not both atomic, not ordered by "
              "program order / unlock->lock / thread creation / join). Trusted or partial: the translator (Python + clang 14 JSON AST; fail-closed: unknown "
              "constructs, calls into repository code it cannot resolve to a translated body, references/pointers that outlive the expression become "
              "unprotected accesses, the first two to a variable that aliases everything) and its claim that the table lists every access with a protection "
              "it really has; std::atomic, std::mutex, std::condition_variable, std::cout/cerr/clog as internally synchronised (a bfl class such as SkipFlag "
              "only if ALL its data members are - decided from the AST, not by name); class-level abstraction of variables; constructors/destructors, user "
              "code, Eigen and libstdc++ are not in the table; ONE controlling thread; the control interface is the property's command list (the Logger "
              "switches are outside it and reported separately); the dynamic part is a sampled ThreadSanitizer search (quick: 44 command lists; thorough: 430).")

COUNTS = {"quick": 14, "thorough": 400}
SKIPS = ["prediction", "state", "exogenous", "correction", "all"]
TABLE_V = os.path.join(build.COQ, "C10_AccessTable.v")

# a fresh checkout has no generated table, but setup builds every .v before calling setup(): generate it on import
if not os.path.exists(TABLE_V):
    try:
        T.write_table(T.translate())
    except Exception as e:      # reported again by main()/setup()
        print("C10: could not generate %s: %r" % (TABLE_V, e), file=sys.stderr)


# ----------------------------------------------------------------------------- cases

CONFIGS = [  # (kind, model, inner): every translated prediction / correction / state-model class is instantiated by one of them
    ("kf", "lti", "kf"), ("kf", "wna", "kf"), ("ukf", "lti", "kf"), ("ukfa", "lti", "kf"), ("ukfa", "wna", "kf"), ("sukf", "lti", "kf"),
    ("sukf", "wna", "kf"), ("sis", "lti", "kf"), ("sis", "wna", "kf"), ("gpf", "lti", "kf"), ("gpf", "lti", "ukf"), ("gpf", "wna", "kf")]


def case(cid, kind, exo, cmds, tag, model="lti", inner="kf", log=0, rwp=0):
    c = caseio.Case(cid, kind, {"model": model, "exo": int(exo), "log": int(log), "rwp": int(rwp), "inner": inner,
                                "cap": 200000, "np": 12, "tag": tag})
    c.word("cmds", cmds)
    return c


def directed():
    """One list per skip target on the KF and the bootstrap SIS with AND without an exogenous model (the path on which a
    plain cache of the exogenous skip state was caught), one control list per filter kind / state model (logging on,
    prior-mixing resampling on the particle filters), one all-skips list per kind."""
    out = []
    k = 0
    for kind in ("kf", "sis"):
        for what in SKIPS:
            for exo in ((0, 1) if what in ("exogenous", "state", "all", "prediction") else (1,)):
                cmds = ["run", "sleep:20000"]
                for rep in range(3):
                    cmds += ["skip:%s:1" % what, "sleep:4000", "step", "skip:%s:0" % what, "sleep:4000", "isrun"]
                cmds += ["teardown", "wait"]
                out.append(case("d%d" % k, kind, exo, cmds, "skip-" + what)); k += 1
    for (kind, model, inner) in CONFIGS:
        cmds = ["run", "sleep:15000"]
        for rep in range(3):
            cmds += ["step", "isrun", "reset", "sleep:3000", "step", "reboot", "sleep:2000", "isrun", "run", "sleep:4000"]
        for what in SKIPS:
            cmds += ["skip:%s:1" % what, "sleep:2500", "skip:%s:0" % what, "sleep:1500"]
        cmds += ["teardown", "isrun", "step", "wait"]
        out.append(case("d%d" % k, kind, 1, cmds, "control+skips", model=model, inner=inner, log=1, rwp=1 if kind in ("sis", "gpf") else 0)); k += 1
    return out


def generate(rng, tier):
    cases = directed()
    for i in range(COUNTS[tier]):
        kind, model, inner = rng.choice(CONFIGS)
        exo = rng.random() < 0.6
        n = rng.randint(30, 80)
        cmds = ["run", "sleep:%d" % rng.randint(2000, 15000)]
        early = rng.random() < 0.1
        for j in range(n):
            r = rng.random()
            if r < 0.30:
                cmds.append("skip:%s:%d" % (rng.choice(SKIPS), rng.randint(0, 1)))
            elif r < 0.42:
                cmds.append("step")
            elif r < 0.54:
                cmds.append("isrun")
            elif r < 0.60:
                cmds.append("reset")
            elif r < 0.65:
                cmds += ["reboot", "sleep:%d" % rng.randint(50, 600), "run"]
            elif r < 0.70:
                cmds.append("run")
            elif r < 0.74:
                cmds.append("yield")
            elif early and r < 0.76:
                cmds.append("teardown")
            else:
                cmds.append("sleep:%d" % rng.choice([50, 200, 1000, 3000, 6000, 12000]))
        cmds += ["run", "sleep:%d" % rng.randint(1000, 8000), "step", "teardown", "wait"]
        cases.append(case("r%d" % i, kind, exo, cmds, "random", model=model, inner=inner, log=int(rng.random() < 0.3),
                          rwp=int(kind in ("sis", "gpf") and rng.random() < 0.5)))
    return cases


def kinds_of(c):
    ks = set()
    for t in c.get("cmds"):
        ks.add(t.split(":")[0] + (":" + t.split(":")[1] if t.startswith("skip:") else ""))
    ks.discard("sleep"); ks.discard("yield")
    return ks


def nontrivial(c):
    ks = kinds_of(c)
    if any(k.startswith("skip:") for k in ks) and (("reset" in ks) or ("reboot" in ks)):
        return (c.kind, c.meta.get("model"), c.meta.get("inner"), c.meta.get("exo"), c.meta.get("log"), c.meta.get("rwp"), tuple(sorted(ks)))
    return None


# ----------------------------------------------------------------------------- ThreadSanitizer reports

ACCESS_HEAD = re.compile(r"^\s+(Previous )?(atomic )?(write|read) of size \d+ at \S+ by (main thread|thread T\d+)", re.I)
FRAME = re.compile(r"^\s+#(\d+) (.*?) (\S+?):(\d+)(?::\d+)? \(")
FRAME_NOLINE = re.compile(r"^\s+#(\d+) (.*?) (\S+) \(")


def parse_tsan(stderr):
    """[{type, stacks: [[(func, file, line)]], text}]"""
    reports = []
    for block in re.split(r"^=+\s*$", stderr, flags=re.M):
        m = re.search(r"WARNING: ThreadSanitizer: ([^(\n]+)", block)
        if not m:
            continue
        rep = {"type": m.group(1).strip(), "stacks": [], "text": block.strip()[:2500]}
        cur = None
        for line in block.splitlines():
            if ACCESS_HEAD.match(line):
                cur = {"head": line.strip(), "frames": [], "lost": False}
                rep["stacks"].append(cur)
                continue
            if cur is not None:
                if "failed to restore the stack" in line:
                    cur["lost"] = True
                    continue
                fm = FRAME.match(line)
                if fm:
                    cur["frames"].append((fm.group(2), fm.group(3), int(fm.group(4))))
                    continue
                if FRAME_NOLINE.match(line):
                    continue
                if not line.strip():
                    cur = None
        reports.append(rep)
    return reports


def repo_sites(stack):
    """frames of the stack that lie in the repository sources, innermost first"""
    root = os.path.realpath(build.SRC)
    out = []
    for func, path, line in stack["frames"]:
        rp = os.path.realpath(path)
        if rp.startswith(root + os.sep) or "/src/BayesFilters/" in path:
            out.append((os.path.basename(path), line, func))
    return out


def repo_site(stack, sites=None):
    """innermost repository frame at which the table lists an access (an access inlined from a helper that is
    not translated is attributed to its nearest caller in the table); else the innermost repository frame"""
    fr = repo_sites(stack)
    if sites is not None:
        for f in fr:
            if vars_at(sites, f[0], f[1]):
                return f
    return fr[0] if fr else None


def vars_at(sites, fn, line):
    """variables the table lists at file:line (nearest listed line within 2 lines: debug line info of a
    multi-line statement may point at a neighbouring line)."""
    for d in (0, 1, -1, 2, -2):
        k = "%s:%d" % (fn, line + d)
        if k in sites:
            return set(sites[k])
    return set()


def classify_report(rep, info):
    """-> (signature, detail)"""
    if not rep["type"].startswith("data race"):
        return "C10:tsan:%s" % rep["type"].replace(" ", "-"), rep["text"][:600]
    stacks = rep["stacks"][:2]
    located = [(s, repo_site(s, info["sites"])) for s in stacks]
    sets, where = [], []
    for s, site in located:
        if site:
            where.append("%s:%d (%s)" % site)
            sets.append(vars_at(info["sites"], site[0], site[1]))
        else:
            where.append("stack lost" if s["lost"] else ("outside the repository: " + (s["frames"][0][0] if s["frames"] else "?")))
    if not sets:
        return "C10:tsan-outside-repo:%s" % (stacks[0]["frames"][0][0] if stacks and stacks[0]["frames"] else "unknown"), "race with no frame in the repository sources: " + " / ".join(where)
    cand = set.intersection(*sets) if len(sets) > 1 else sets[0]
    if not cand and len(sets) > 1:
        cand = set()
    flagged = sorted(v for v in cand if v in info["racy_vars"])
    if flagged:
        return "C10:race:%s" % flagged[0], "ThreadSanitizer: %s between %s" % (rep["type"], " and ".join(where))
    return ("C10:tsan-unexplained:%s" % "|".join(w.split(" ")[0] for w in where),
            "ThreadSanitizer reports a race between %s but the access table lists no racy variable there (candidates %s): the translator missed an access"
            % (" and ".join(where), sorted(cand)))


def run_case(exe, c, timeout):
    env = dict(os.environ)
    env["TSAN_OPTIONS"] = "exitcode=0:halt_on_error=0:history_size=7:report_thread_leaks=0"
    try:
        p = subprocess.run([exe], input=c.dump(), capture_output=True, text=True, timeout=timeout, env=env)
        return p.returncode, p.stdout, p.stderr
    except subprocess.TimeoutExpired as e:
        return -999, "", "TIMEOUT after %ds" % timeout


# ----------------------------------------------------------------------------- main

def proposed():
    p = os.path.join(build.VERIF, "findings", "C10.json")
    try:
        return {e["signature"]: e for e in json.load(open(p))}
    except Exception:
        return {}


def static_findings(ctx, info):
    """Offending pairs of the table, one violation per racy variable (detail: the pairs)."""
    by_var = {}
    for o in info["offenders"]:
        vs = {o["ctl"][0] or "unknown", o["flt"][0] or "unknown"}
        real = [v for v in vs if v != "unknown"] or ["unknown"]
        # an Unknown access conflicts with everything: report it once, under `unknown`
        key = "unknown" if "unknown" in vs else real[0]
        by_var.setdefault(key, []).append(o)
    out = []
    for v, offs in by_var.items():
        pairs = "; ".join("%s %s %s [%s] at %s  vs  %s %s %s [%s] at %s%s" % (
            o["ctl_method"], o["ctl"][1], o["ctl"][0] or "unknown", o["ctl"][2], o["ctl"][3],
            o["flt_method"], o["flt"][1], o["flt"][0] or "unknown", o["flt"][2], o["flt"][3],
            (" (" + (o["ctl"][4] or o["flt"][4]) + ")") if (o["ctl"][0] is None or o["flt"][0] is None) else "") for o in offs[:6])
        out.append(("C10:race:%s" % v, "access table: %d offending pair(s) on %s: %s" % (len(offs), v, pairs)))
    return out


def main(ctx, args):
    lockf = open(os.path.join(build.BUILD, "C10.lock"), "w")
    fcntl.flock(lockf, fcntl.LOCK_EX)     # the generated table is shared by concurrent runs of this check
    try:
        try:
            info = T.translate()
            path, sha = T.write_table(info)
        except Exception as e:
            ctx.proof_problems.append("translator failed: %r" % (e,))
            info = None
        if info is not None:
            ctx.log("access table regenerated from %s: %d entries, %d accesses, racy variables %s (%.1fs)"
                    % (build.REPO, len(info["table"]), sum(len(e["accs"]) for e in info["table"]), info["racy_vars"], info["seconds"]))
        if not args.skip_proofs:
            runner.prove(ctx)
    finally:
        fcntl.flock(lockf, fcntl.LOCK_UN)
        lockf.close()
    if info is None:
        return runner.finish(ctx)

    prop = proposed()
    stat = static_findings(ctx, info)
    for p in info["problems"]:
        ctx.violations.append(("C10:translator:%s" % re.sub(r"\W+", "-", p)[:60], "translator: " + p, None))

    # ---- dynamic
    if args.replay:
        cases = caseio.read_cases(args.replay)
        ctx.log("replaying %d case(s) from %s" % (len(cases), args.replay))
    else:
        cases = generate(ctx.rng, ctx.tier)
    tsan_by_sig, dyn = {}, []
    n_reports = unexplained = 0
    if cases:
        exe = build.build_harness(HARNESS, "tsan")
        ctx.log("running %d command lists under ThreadSanitizer" % len(cases))
        with ThreadPoolExecutor(4) as ex:
            results = list(ex.map(lambda c: run_case(exe, c, 120), cases))
        for c, (rc, so, se) in zip(cases, results):
            ctx.evaluations += 1
            key = nontrivial(c)
            if key is not None:
                ctx.nontrivial.add(key)
            recs = caseio.parse_records(so, "out")
            if rc == -999:
                dyn.append(("C10:timeout", "the command list did not terminate within 120 s", c)); continue
            if rc != 0 or c.id not in recs:
                dyn.append(("C10:crash:rc=%s" % rc, "harness ended abnormally: %s" % se[-500:], c)); continue
            reps = parse_tsan(se)
            n_reports += len(reps)
            for rep in reps:
                sig, detail = classify_report(rep, info)
                if sig.startswith("C10:tsan-unexplained") or sig.startswith("C10:tsan-outside"):
                    unexplained += 1
                tsan_by_sig[sig] = tsan_by_sig.get(sig, 0) + 1
                dyn.append((sig, detail + " | " + rep["text"][:700].replace("\n", " / "), c))
            if len(ctx.samples) < 3:
                s = c.summary(); s["cmds"] = " ".join(c.get("cmds")[:40]); s["tsan_reports"] = len(reps)
                s["final_step"] = recs[c.id].get("final_step")
                ctx.samples.append(s)
            ctx.extra.setdefault("steps_total", 0)
            ctx.extra["steps_total"] += int(recs[c.id].get("max_step") or 0)

    # ---- self-test (static part always; dynamic part in the thorough tier: it rebuilds the library from the scratch copy)
    st_v, st_summary = ([], {"skipped": "replay"}) if args.replay else selftest(ctx, ctx.tier == "thorough")
    for sig, detail in st_v:
        dyn.append((sig, detail, None))
    ctx.log("self-test (planted race): %s" % st_summary)
    # ---- the logging switches inherited from Logger: not in the property's command list; analysed and reported, not violations
    try:
        ext = T.translate(extra_ctl_roots=T.EXTENDED_CTL_ROOTS)
        ext_racy = [v for v in ext["racy_vars"] if v not in info["racy_vars"]]
        ext_pairs = ["%s %s %s [%s] %s  vs  %s %s %s [%s] %s" % (o["ctl_method"], o["ctl"][1], o["ctl"][0], o["ctl"][2], o["ctl"][3],
                                                                  o["flt_method"], o["flt"][1], o["flt"][0], o["flt"][2], o["flt"][3]) for o in ext["offenders"]][:12]
    except Exception as e:
        ext_racy, ext_pairs = ["analysis failed: %r" % (e,)], []

    # ---- violations: unexpected ones first (the runner prints at most five)
    dyn_sigs = {}
    for sig, detail, c in dyn:
        dyn_sigs.setdefault(sig, (detail, c))
    allv = []
    for sig, detail in stat:
        d, c = dyn_sigs.get(sig, (None, None))
        allv.append((sig, detail + ((" || confirmed dynamically: " + d[:600]) if d else " || not reproduced dynamically in this run"), c))
    for sig, (detail, c) in dyn_sigs.items():
        if sig not in dict(stat):
            allv.append((sig, detail, c))
    allv.sort(key=lambda v: (v[0] in prop, v[0]))
    ctx.violations.extend(allv)

    ctx.extra.update({
        "translated_classes": info["translated_classes"],
        "control_api_roots": ["%s::%s" % r for r in T.CTL_ROOTS],
        "filtering_thread_roots": info["forks"] + ["%s::%s (assumed)" % r for r in T.FLT_ASSUMED_ROOTS],
        "methods_reachable": {"Ctl": info["ctl_methods"], "Flt": info["flt_methods"]},
        "table": {"entries": len(info["table"]), "accesses": sum(len(e["accs"]) for e in info["table"]), "sha": sha,
                  "translator_seconds": info["seconds"]},
        "shared_variables": info["shared_vars"],
        "racy_variables_static": info["racy_vars"],
        "offending_pairs": len(info["offenders"]),
        "translator_problems": info["problems"], "translator_notes": info["notes"][:40],
        "tsan": {"command_lists": len(cases), "reports": n_reports, "by_signature": tsan_by_sig, "unexplained": unexplained},
        "selftest_planted_race": st_summary,
        "ctl_ctl_conflicts_if_two_controllers": {"variables": sorted(set(c["var"] for c in info["ctl_ctl"])), "pairs": info["ctl_ctl"][:20],
                                                 "note": "outside the property (one controlling thread); listed, not violations"},
        "outside_the_command_list": {"roots": ["%s::%s" % r for r in T.EXTENDED_CTL_ROOTS], "would_race_on": ext_racy, "pairs": ext_pairs,
                                     "note": "enable_log/disable_log are not among the commands the property names; if a controller called them "
                                             "while the filter runs these members would race (reported for information)"},
        "translated_files": info["translated_files"], "uncovered_virtuals": info["uncovered_virtuals"],
        "explanation": "static: access table regenerated from the sources and checked in Coq; dynamic: ThreadSanitizer over seeded command lists",
    })
    return runner.finish(ctx)


# ----------------------------------------------------------------------------- self-test: a planted race must be seen by BOTH parts

# Planted by pattern (robust against rewrites of the bodies): a plain counter incremented at the start of reset() and read at the start
# of step_number(), which the filtering thread calls in every run_condition().  (The static discipline does not count the
# release/acquire ordering of the atomic flags; the read in every step makes the dynamic race independent of it too.)
PLANT = [("include/BayesFilters/FilteringAlgorithm.h", r"\n\};\s*\n\s*#endif", "\n    unsigned int c10_planted_ = 0;\n};\n\n#endif"),
         ("src/FilteringAlgorithm.cpp", r"(void\s+FilteringAlgorithm::reset\(\)\s*\{)", r"\1\n    ++c10_planted_;"),
         ("src/FilteringAlgorithm.cpp", r"(unsigned int\s+FilteringAlgorithm::step_number\(\)\s*\{)", r"\1\n    if (c10_planted_ > 1000000u) return 0;")]
PLANTED_VAR = "FilteringAlgorithm::c10_planted_"


class scratch_repo:
    """A copy of the library sources with the planted race; vlib.build is pointed at it for the duration."""

    def __init__(self, ctx):
        self.root = os.path.join(ctx.work, "selftest")

    def __enter__(self):
        import shutil
        dst = os.path.join(self.root, "src", "BayesFilters")
        shutil.rmtree(self.root, ignore_errors=True)
        os.makedirs(os.path.dirname(dst))
        shutil.copytree(build.SRC, dst, ignore=shutil.ignore_patterns("_build*", ".git"))
        for rel, old, new in PLANT:
            fp = os.path.join(dst, rel)
            txt = open(fp).read()
            new_txt, n = re.subn(old, new, txt, count=1)
            if n != 1:
                raise RuntimeError("cannot plant the self-test race: anchor %r not found in %s" % (old, rel))
            with open(fp, "w") as f:
                f.write(new_txt)
        self.saved = (build.REPO, build.SRC, list(build.BASE_FLAGS))
        build.REPO, build.SRC = self.root, dst
        build.BASE_FLAGS[:] = [("-I" + os.path.join(dst, "include")) if x == "-I" + os.path.join(self.saved[1], "include") else x for x in build.BASE_FLAGS]
        return self

    def __exit__(self, *a):
        build.REPO, build.SRC = self.saved[0], self.saved[1]
        build.BASE_FLAGS[:] = self.saved[2]


def selftest(ctx, dynamic):
    """-> ([(signature, detail)], summary dict)"""
    out, summ = [], {"static": None, "dynamic": None}
    try:
        with scratch_repo(ctx):
            info = T.translate()
            summ["static"] = PLANTED_VAR in info["racy_vars"]
            summ["static_racy_vars"] = info["racy_vars"]
            if not summ["static"]:
                out.append(("C10:selftest:static-part-missed-a-planted-race", "a plain counter written by reset() and read by the filtering thread was planted "
                            "in a scratch copy; the translator + checker report %s" % info["racy_vars"]))
            if dynamic:
                exe = build.build_harness(HARNESS, "tsan")
                cmds = ["run", "sleep:15000"] + ["reset", "sleep:2500"] * 8 + ["teardown", "wait"]
                sigs = set()
                for kind in ("kf", "sis"):
                    rc, so, se = run_case(exe, case("selftest-" + kind, kind, 1, cmds, "selftest"), 120)
                    for rep in parse_tsan(se):
                        sigs.add(classify_report(rep, info)[0])
                summ["dynamic"] = ("C10:race:" + PLANTED_VAR) in sigs
                summ["dynamic_signatures"] = sorted(sigs)
                if not summ["dynamic"]:
                    out.append(("C10:selftest:dynamic-part-missed-a-planted-race", "ThreadSanitizer harness on the scratch copy reported %s" % sorted(sigs)))
    except (RuntimeError, build.BuildError) as e:
        out.append(("C10:selftest:could-not-run", "%s %s" % (e, getattr(e, "log", "")[-400:])))
    return out, summ


def pre_setup():
    """Called by vlib/setup.py before the Coq build: the generated table must exist and be current."""
    T.write_table(T.translate())


def setup():
    """MANIFEST.setup_cmd: regenerate the table (the Coq files were built by vlib/setup.py with the table that
    existed or that the import above generated) and build the ThreadSanitizer harness."""
    info = T.translate()
    T.write_table(info)
    ok, log = build.coq_make(COQ_TARGETS + ["Properties_C10.vo"])
    if not ok:
        raise build.BuildError("C10 Coq files do not build against the regenerated table", log)
    build.build_harness(HARNESS, "tsan")
    print("C10 table + tsan harness ok")
