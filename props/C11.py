"""C11 — belief containers keep their declared shape consistent with their storage (DESIGN.md §5 C11).

Cases are operation sequences on one GaussianMixture / Gaussian / ParticleSet object:
  case <id> gm|gauss|pset c=<components> l=<linear> ci=<circular> q=<0|1> ctor=full|two|default
  word ops <token> ...
  mat <qname> r c v...   int <qname>.r r   int <qname>.c c        (noise covariances)
Tokens: F<base> fill all storage with distinct integers base, base+1, ... (through the public Ref accessors);
C copy-construct, M move-construct (no move constructor exists: copies), S copy-assign into a default-constructed
object; R<c>,<l>,<ci> resize (Gaussian: R<l>,<ci>); A<qname> augmentWithNoise; particle sets only:
P<c>,<l>,<ci>,<q>,<base> `+=` a fresh filled set, Q... the same with operator+, D `+=` a copy of itself,
E `x + x`.  Both sides print, after the constructor (step 0) and after each operation k, "<k>.<field>".
"""
import numpy as np
from vlib import caseio

ID = "C11"
COQ_TARGETS = ["C11_Extract.vo", "C11_Regress.vo"]
EXTRACTED = "C11_model"
DRIVER = "drv_C11.ml"
HARNESS = "h_C11.cpp"
VARIANTS = {"quick": ["assert"], "thorough": ["assert", "asan"]}
AXIOMS_ALLOWED = []
REQUIRED_THEOREMS = ["C11_ctor_consistent", "C11_ctor_uniform_weights", "C11_inv", "C11_reachable",
                     "C11_gauss_reachable", "C11_pset_inv", "C11_pset_reachable", "C11_copy_is_identity", "C11_invariant_executable",
                     "C11_accessors", "C11_pset_accessors", "C11_gauss_accessors",
                     "C11_storage_is_concatenation_of_blocks", "C11_components_view",
                     "C11_resize_components_preserves", "C11_pset_resize_components_preserves",
                     "C11_augment_content", "C11_augment_nonsquare", "C11_augment_twice_content",
                     "C11_pset_augment_content", "C11_concat_content", "C11_plus_is_concat", "C11_concat_defined_iff"]
TIMEOUT = 2400

RULE = ("operation sequences from one seeded stream over gm / gauss / pset objects: constructor layouts components 1..4 x "
        "linear 0..4 x circular 0..2 x Euler/quaternion (all three constructor overloads), then 1..12 (quick) / 1..60 (thorough) "
        "operations out of fill, copy/move/assign, resize (same layout, other component count, other split of the same size, "
        "other size, quaternion split change), augmentWithNoise (0x0, 1..3, non-square; repeated), += / + (fresh operand of the same "
        "or an equal-size layout, self copy); thorough adds every sequence of length <= 3 over the small layouts; "
        "non-trivial = at least two operations other than fill; distinct by (kind, constructor layout, operation-type word)")
TRUSTED_BASE = ["Coq 8.16.1 kernel (coqc); no axioms (Print Assumptions: closed under the global context)",
                "extraction (ExtrOcamlBasic only) and ocaml/float_ops.ml, ocaml/drv_C11.ml, ocaml/caseio.ml",
                "the model of the Eigen 3.4 primitives in coq/C11_Model.v (resize keeps an equal-sized buffer and zero-fills "
                "otherwise, conservativeResize(NoChange, n) leaves new cells uninitialised, conservativeResize(n, NoChange) and "
                "conservativeResizeLike pad from a zero matrix, block assignment, column swap) — compared cell by cell with Eigen on every case",
                "cpp/h_C11.cpp harness (subclasses exposing the protected matrices); comparison is exact, cells the model marks "
                "uninitialised (NaN) are not compared",
                "correspondence is sampled: agreement is established on the generated sequences only"]
ASSUMPTIONS = ["augmentWithNoise is modelled for components >= 1 (the C++ loop bound components-1 is unsigned; premise of the theorems)",
               "concatenation is modelled for operands with equal dim and dim_covariance (otherwise Eigen asserts / undefined; premise)",
               "a Gaussian is only resized through Gaussian::resize (not through a GaussianMixture& to another component count)"]
LEVEL_TEXT = ("Proof: for the list model of GaussianMixture / Gaussian / ParticleSet (descriptors + column-major storage with explicit "
              "shapes, Eigen resize / conservativeResize / block / column-swap semantics), the invariant Consistent (dim = dl + dc*dcc + dn, "
              "dcc = 4|1, dcov = dl + dc*(3|1) + dn, mean dim x components, covariance dcov x dcov*components, weight components, state dim x "
              "components, all well-formed) holds after the constructors and is preserved by every operation, hence along all operation "
              "sequences of any length and all layouts; accessors address exactly component i's block; a change of the component count "
              "preserves the survivors; augmentation gives [m;0] and blockdiag(P,Q) for every component, also repeatedly; concatenation "
              "gives both operands in order; new mixtures have uniform weights.")
LEVEL_NOTE = ("Tied to the code by exact comparison of every descriptor, storage dimension, storage cell and accessor view after every "
              "operation of generated sequences (assert build; asan in the thorough tier). Premises: components >= 1 for augmentation, equal "
              "dim/dim_covariance for concatenation, no non-empty noise augmentation of a ParticleSet (refuted otherwise: known finding).")

LEN = {"quick": (1, 12), "thorough": (1, 60)}
COUNTS = {"quick": 420, "thorough": 6000}
MAXC = 9
MAXDIM = 16


# ------------------------------------------------------------------ shape tracker (used only to pick valid operations)
class Sh:
    def __init__(s, kind, c, l, ci, q):
        s.kind, s.c, s.l, s.ci, s.q, s.n = kind, c, l, ci, q, 0
        s.dcc = 4 if q else 1

    @property
    def dim(s):
        return s.l + s.ci * s.dcc + s.n

    @property
    def dcov(s):
        return s.l + s.ci * (3 if s.q else 1) + s.n

    def resize(s, c, l, ci):
        if (c, l, ci) == (s.c, s.l, s.ci):
            return
        s.c, s.l, s.ci, s.n = c, l, ci, 0


def qmat(case, name, r, c, base):
    case.int(name + ".r", r).int(name + ".c", c)
    if r > 0 and c > 0:
        case.mat_shape(name, r, c, [base + k for k in range(r * c)])


def pick_resize(rng, sh):
    """(c, l, ci) aimed at the branches of resize."""
    k = rng.random()
    cs = [x for x in range(1, 5) if x != sh.c]
    if k < 0.12:
        return sh.c, sh.l, sh.ci                                  # early return
    if k < 0.45:
        return rng.choice(cs), sh.l, sh.ci                        # only the component count
    if k < 0.60 and not sh.q and sh.l + sh.ci > 0:                # same size, other split (Euler)
        tot = sh.l + sh.ci
        ci = rng.randint(0, min(2, tot))
        return rng.choice(cs + [sh.c]), tot - ci, ci
    if k < 0.72 and sh.q:                                         # quaternion: same dim, other covariance size
        if sh.ci > 0:
            return rng.choice(cs + [sh.c]), sh.l + 4, sh.ci - 1
        if sh.l >= 4:
            return rng.choice(cs + [sh.c]), sh.l - 4, sh.ci + 1
    if k < 0.80 and sh.n > 0:                                     # augmented: noise reinterpreted as linear
        return rng.choice(cs + [sh.c]), sh.l + sh.n, sh.ci
    if k < 0.86:                                                  # same total number of cells, other shape
        return sh.dim if 1 <= sh.dim <= 4 else rng.randint(1, 4), sh.c if sh.c <= 4 else 1, 0
    return rng.randint(1, 4), rng.randint(0, 4), rng.randint(0, 2)


def random_case(rng, cid, tier, kind):
    lo, hi = LEN[tier]
    ctor = rng.choice(["full"] * 6 + ["two", "default"])
    if ctor == "default":
        c, l, ci, q = 1, 1, 0, 0
    elif ctor == "two":
        c, l, ci, q = rng.randint(1, 4), rng.randint(0, 4), 0, 0
    else:
        c, l, ci, q = rng.randint(1, 4), rng.randint(0, 4), rng.randint(0, 2), rng.randint(0, 1)
    if kind == "gauss":
        c = 1
    sh = Sh(kind, c, l, ci, q)
    case = caseio.Case(cid, kind, {"c": c, "l": l, "ci": ci, "q": q, "ctor": ctor})
    n = rng.randint(lo, hi) if rng.random() < 0.7 else rng.randint(lo, min(hi, 6))
    toks, nq, base = [], 0, rng.randint(1, 50)
    if rng.random() < 0.9:
        toks.append("F%d" % base); base += 4000
    while len(toks) < n:
        k = rng.random()
        if k < 0.14:
            toks.append("F%d" % base); base += 4000
        elif k < 0.26:
            toks.append(rng.choice("CMS"))
        elif k < 0.56:
            c2, l2, ci2 = pick_resize(rng, sh)
            if kind == "gauss":
                c2 = 1
            if l2 + ci2 * sh.dcc > MAXDIM:
                continue
            toks.append("R%d,%d" % (l2, ci2) if kind == "gauss" else "R%d,%d,%d" % (c2, l2, ci2))
            sh.resize(c2, l2, ci2)
        elif k < 0.78 or kind != "pset":
            r = rng.choice([0, 1, 1, 2, 2, 3, 3])
            cols = r if rng.random() < 0.88 else r + rng.choice([1, 2])
            if sh.dim + r > MAXDIM:
                continue
            name = "q%d" % nq; nq += 1
            qmat(case, name, r, cols, 9000 + 100 * nq)
            toks.append("A" + name)
            if cols == r:
                sh.n += r
        else:
            kk = rng.random()
            if kk < 0.2:
                if 2 * sh.c > MAXC:
                    continue
                toks.append(rng.choice("DE")); sh.c *= 2
            else:
                c2 = rng.randint(1, 3)
                if sh.c + c2 > MAXC:
                    continue
                l2, ci2, q2 = sh.l + sh.n, sh.ci, sh.q      # equal dim and dim_covariance (noise counted as linear)
                if rng.random() < 0.3:
                    if not sh.q:
                        tot = sh.l + sh.ci + sh.n
                        ci2 = rng.randint(0, min(2, tot)); l2 = tot - ci2
                        if ci2 == 0 and rng.random() < 0.5:
                            q2 = 1
                    elif sh.ci == 0 and rng.random() < 0.5:
                        q2 = 0
                toks.append("%s%d,%d,%d,%d,%d" % (rng.choice("PPQ"), c2, l2, ci2, q2, base)); base += 4000
                sh.c += c2
    case.word("ops", toks)
    case.meta["len"] = len(toks)
    case.meta["word"] = "".join(t[0] for t in toks)
    return case


def exhaustive(cid0):
    """Every sequence of length <= 3 (after an initial fill) over the small layouts."""
    import itertools
    cases, cid = [], cid0
    starts = [(c, l, ci, q) for c in (1, 2) for (l, ci) in ((1, 0), (0, 1), (2, 1)) for q in (0, 1)]
    lay = [(1, 0), (0, 1), (2, 1)]
    for kind in ("gm", "gauss", "pset"):
        for (c, l, ci, q) in starts:
            if kind == "gauss" and c != 1:
                continue
            alpha = ["C"] + ["A%d" % r for r in (0, 1, 2)]
            if kind == "gauss":
                alpha += ["R%d,%d" % x for x in lay]
            else:
                alpha += ["R%d,%d,%d" % ((cc,) + x) for cc in (1, 3) for x in lay] + ["R3,6,0"]   # (2,1,quat) -> (6,0): same dim
            if kind == "pset":
                alpha += ["P", "D"]
            for n in (1, 2, 3):
                for seq in itertools.product(alpha, repeat=n):
                    case = caseio.Case(cid, kind, {"c": c, "l": l, "ci": ci, "q": q, "ctor": "full", "exh": 1})
                    sh = Sh(kind, 1 if kind == "gauss" else c, l, ci, q)
                    toks, ok, nq, base = ["F7"], True, 0, 4000
                    for a in seq:
                        if a[0] == "A":
                            r = int(a[1:]); name = "q%d" % nq; nq += 1
                            qmat(case, name, r, r, 9000 + 100 * nq)
                            toks.append("A" + name); sh.n += r
                        elif a[0] == "R":
                            v = [int(x) for x in a[1:].split(",")]
                            toks.append(a)
                            if kind == "gauss":
                                sh.resize(1, v[0], v[1])
                            else:
                                sh.resize(*v)
                        elif a == "P":
                            toks.append("P2,%d,%d,%d,%d" % (sh.l + sh.n, sh.ci, sh.q, base)); base += 4000; sh.c += 2
                        elif a == "D":
                            toks.append("D"); sh.c *= 2
                        else:
                            toks.append(a)
                        if sh.c > 12 or sh.dim > MAXDIM:
                            ok = False
                    if not ok:
                        continue
                    case.word("ops", toks)
                    case.meta["len"] = len(toks)
                    case.meta["word"] = "".join(t[0] for t in toks)
                    cases.append(case); cid += 1
    return cases


def corpus():
    """Minimal witnesses of the repaired defects and hand-picked boundary sequences; they run first, so that a
    reintroduced defect is reported with the shortest replay."""
    def mkc(cid, kind, c, l, ci, q, toks, qs=(), ctor="full"):
        case = caseio.Case("c%d" % cid, kind, {"c": c, "l": l, "ci": ci, "q": q, "ctor": ctor, "corpus": 1})
        for i, (r, cl) in enumerate(qs):
            qmat(case, "q%d" % i, r, cl, 9100 + 100 * i)
        case.word("ops", toks)
        case.meta["len"] = len(toks)
        case.meta["word"] = "".join(t[0] for t in toks)
        return case
    L = [
        ("pset", 3, 2, 0, 0, ["P2,2,0,0,100"], ()),                      # 7c71916: += must update components
        ("pset", 3, 2, 1, 0, ["R3,2,0"], ()),                            # eeaa10f: assignment in the early-return test
        ("gm", 2, 2, 0, 0, ["Aq0", "R3,2,0"], ((1, 1),)),                # a255301: dim_noise survives a resize
        ("gm", 2, 4, 0, 1, ["R3,0,1"], ()),                              # a255301: same dim, other covariance size
        ("gm", 2, 2, 0, 0, ["F1", "Aq0", "Aq1"], ((1, 1), (2, 2))),      # 9b0609f: second augmentation
        ("pset", 2, 2, 0, 0, ["F1", "Aq0", "R3,3,0"], ((1, 1),)),        # 28573a1: particle states not augmented
        ("gm", 3, 2, 0, 0, ["F1", "Aq0"], ((1, 1),)),                    # three components: relocation order matters
        ("gm", 2, 2, 0, 0, ["F1", "R3,2,0"], ()),                        # only the component count: survivors kept
        ("gm", 3, 2, 1, 1, ["F1", "R2,2,1"], ()),                        # shrinking, quaternion layout
        ("gm", 2, 3, 0, 0, ["F1", "R3,2,0"], ()),                        # other shape, same number of cells: buffer kept
        ("gm", 2, 3, 0, 0, ["F1", "R2,2,1"], ()),                        # same size, other split, same count: full branch, buffer kept
        ("gm", 3, 0, 0, 0, ["Aq0", "F1", "Aq1"], ((0, 0), (2, 2))),      # empty layout, empty noise
        ("gm", 2, 1, 1, 1, ["F1", "Aq0"], ((2, 3),)),                    # non-square noise covariance refused
        ("gm", 1, 1, 0, 0, ["F1", "C", "M", "S"], (), "default"),
        ("gauss", 1, 1, 0, 0, ["F1", "Aq0", "R2,1", "S"], ((1, 1),), "default"),
        ("gauss", 1, 2, 1, 1, ["F1", "Aq0", "Aq1", "C"], ((1, 1), (2, 2))),
        ("pset", 2, 1, 1, 1, ["F1", "D", "E", "R3,1,1"], ()),
        ("pset", 2, 2, 0, 0, ["F1", "Aq0", "P1,3,0,0,500", "Q2,2,1,0,900"], ((1, 1),)),
        ("pset", 1, 4, 0, 1, ["F1", "R2,0,1", "F9", "R1,0,1"], ()),      # quaternion split change: state kept, Gaussian part reset
    ]
    out = []
    for i, t in enumerate(L):
        out.append(mkc(i, *t[:6], qs=t[6], ctor=t[7] if len(t) > 7 else "full"))
    return out


def generate(rng, tier):
    cases = []
    for k in range(COUNTS[tier]):
        kind = rng.choice(["gm"] * 4 + ["gauss"] * 2 + ["pset"] * 5)
        cases.append(random_case(rng, k, tier, kind))
    if tier == "thorough":
        cases += exhaustive(len(cases))
    # shortest sequences first: the first case violating a clause is the one written as replay
    cases.sort(key=lambda c: int(c.meta.get("len", 0)))
    return corpus() + cases


def nontrivial(c):
    w = c.meta.get("word", "")
    if len([x for x in w if x != "F"]) >= 2:
        return (c.kind, c.meta["c"], c.meta["l"], c.meta["ci"], c.meta["q"], w)
    return None


def histogram(cases):
    kinds, ops, lens = {}, {}, {}
    for c in cases:
        kinds[c.kind] = kinds.get(c.kind, 0) + 1
        for x in c.meta.get("word", ""):
            ops[x] = ops.get(x, 0) + 1
        b = min(int(c.meta.get("len", 0)) // 10 * 10, 60)
        lens["%d-%d" % (b, b + 9)] = lens.get("%d-%d" % (b, b + 9), 0) + 1
    return {"kind": kinds, "operation": ops, "length": lens}


# ------------------------------------------------------------------ comparison
INTS = ["components", "quat", "dcc", "dim", "dl", "dc", "dn", "dcov", "ret"]
MATS = {"gm": ["mean", "cov", "w", "amean", "acov", "aw", "emean", "ecov"],
        "gauss": ["mean", "cov", "w", "amean", "acov", "aw", "emean", "ecov", "gmean", "gcov"],
        "pset": ["mean", "cov", "w", "amean", "acov", "aw", "emean", "ecov", "state", "astate", "estate"]}


def steps(c):
    return len(c.get("ops")) if c.has("ops") else 0


def same(a, b, mask_nan_of_b=False):
    a, b = np.asarray(a, dtype=float), np.asarray(b, dtype=float)
    if a.shape != b.shape:
        return False
    with np.errstate(invalid="ignore"):
        eq = (a == b) | (np.isnan(a) & np.isnan(b))
        if mask_nan_of_b:
            eq = eq | np.isnan(b)
    return bool(np.all(eq))


def compare(c, impl, model):
    d = []
    stopped = impl.get("stopped")
    for k in range(steps(c) + 1):
        if stopped is not None and k > stopped:
            break
        if k > 0 and model.get("%d.defined" % k) != 1:
            d.append("%d.defined: the operation is outside the premises under which the model is faithful" % k)
        for f in INTS + ["model_consistent"]:
            name = "%d.%s" % (k, f)
            if f == "model_consistent":
                want = 1
                if c.kind == "pset":
                    name = "%d.model_ps_consistent" % k
                if model.get(name) != want:
                    d.append("%s: the model's own invariant evaluates to %s" % (name, model.get(name)))
                continue
            if impl.get(name) != model.get(name):
                d.append("%s: impl=%s model=%s" % (name, impl.get(name), model.get(name)))
        fs = list(MATS[c.kind])
        for f in fs:
            name = "%d.%s" % (k, f)
            if not impl.has(name):
                if stopped == k and f not in ("mean", "cov", "w", "state"):
                    continue
                d.append("%s: missing in the implementation's output" % name); continue
            if not model.has(name):
                d.append("%s: missing in the model's output" % name); continue
            a, b = impl.get(name), model.get(name)
            if a.shape != b.shape:
                d.append("%s: shape impl=%s model=%s" % (name, a.shape, b.shape))
            elif not same(a, b, mask_nan_of_b=True):
                bad = np.argwhere(~((a == b) | np.isnan(b)))
                i, j = bad[0]
                d.append("%s: %d cell(s) differ, first (%d,%d): impl=%r model=%r" % (name, len(bad), i, j, a[i, j], b[i, j]))
        if c.kind == "gauss":
            name = "%d.gweight" % k
            a, b = impl.get(name), model.get(name)
            if a is None or b is None or not same([[a]], [[b]], True):
                d.append("%s: impl=%r model=%r" % (name, a, b))
        if len(d) > 8:
            break
    if stopped is not None:
        d.append("the implementation's accessors would leave the storage after step %s" % stopped)
    return d


# ------------------------------------------------------------------ the property evaluated on the implementation
def optype(tok):
    return {"F": "fill", "C": "copy", "M": "move", "S": "assign", "R": "resize", "A": "augment",
            "P": "concat", "Q": "plus", "D": "concat-self", "E": "plus-self"}[tok[0]]


def fresh_rhs(tok):
    """Storage of the fresh operand of P/Q: constructor + fill, as the harness builds it."""
    c2, l2, ci2, q2, b = [int(x) for x in tok[1:].split(",")]
    dcc = 4 if q2 else 1
    dim = l2 + ci2 * dcc
    dcv = l2 + ci2 * (3 if q2 else 1)

    def blockfill(r, cc, b0):
        return np.array([[b0 + j * r + i for j in range(cc)] for i in range(r)], dtype=float).reshape(r, cc)
    mean = blockfill(dim, c2, b); b += dim * c2
    cov = blockfill(dcv, dcv * c2, b); b += dcv * dcv * c2
    w = blockfill(c2, 1, b); b += c2
    st = blockfill(dim, c2, b)
    return {"components": c2, "dim": dim, "dcov": dcv, "mean": mean, "cov": cov, "w": w, "state": st}


def oracle(c, impl, model):
    v = []
    kind = c.kind
    ops = c.get("ops") if c.has("ops") else []
    G = lambda k, f: impl.get("%d.%s" % (k, f))

    def add(k, clause, detail):
        op = "ctor" if k == 0 else optype(ops[k - 1])
        v.append(("C11:%s:%s:%s" % (kind, op, clause), "step %d: %s" % (k, detail)))

    stopped = impl.get("stopped")
    last = steps(c) if stopped is None else stopped
    for k in range(last + 1):
        if G(k, "components") is None:
            v.append(("C11:%s:no-output" % kind, "step %d missing" % k)); break
        tok = ops[k - 1] if k > 0 else None
        n, quat, dcc, dim, dl, dc, dn, dcv = [G(k, f) for f in ("components", "quat", "dcc", "dim", "dl", "dc", "dn", "dcov")]
        mean, cov, w = G(k, "mean"), G(k, "cov"), G(k, "w")
        # --- Consistent
        if dcc != (4 if quat else 1):
            add(k, "dcc", "dim_circular_component=%d with use_quaternion=%d" % (dcc, quat))
        if dim != dl + dc * dcc + dn:
            add(k, "dim", "dim=%d != %d + %d*%d + %d" % (dim, dl, dc, dcc, dn))
        if dcv != dl + dc * (3 if quat else 1) + dn:
            add(k, "dcov", "dim_covariance=%d != %d + %d*%d + %d" % (dcv, dl, dc, 3 if quat else 1, dn))
        if mean.shape != (dim, n):
            add(k, "mean-shape", "mean_ is %dx%d, descriptors say %dx%d" % (mean.shape + (dim, n)))
        if cov.shape != (dcv, dcv * n):
            add(k, "cov-shape", "covariance_ is %dx%d, descriptors say %dx%d" % (cov.shape + (dcv, dcv * n)))
        if w.shape != (n, 1):
            add(k, "weight-shape", "weight_ has %d entries for %d components" % (w.shape[0], n))
        st = G(k, "state") if kind == "pset" else None
        if kind == "pset" and st.shape != (dim, n):
            add(k, "state-shape", "state_ is %dx%d, descriptors say %dx%d" % (st.shape + (dim, n)))
        if kind == "gauss" and n != 1:
            add(k, "gaussian-components", "a Gaussian reports %d components" % n)
        # --- accessors address exactly component i's block
        if G(k, "acc_oob") == 1 or (kind == "pset" and G(k, "state_oob") == 1):
            add(k, "state-accessor-out-of-range" if G(k, "acc_oob") == 0 else "accessor-out-of-range",
                "an accessor for a component < components would leave the storage")
            break
        if not same(G(k, "amean"), mean[:, :n]) or not same(G(k, "emean"), mean[:dim, :n]):
            add(k, "accessor-mean", "mean(i) / mean(i,j) do not return column i of mean_")
        if not same(G(k, "acov"), cov[:, :dcv * n]) or not same(G(k, "ecov"), cov[:dcv, :dcv * n]):
            add(k, "accessor-covariance", "covariance(i) / covariance(i,j,k) do not return block i of covariance_")
        if not same(G(k, "aw"), w[:n]):
            add(k, "accessor-weight", "weight(i) does not return entry i of weight_")
        if G(k, "const_same") != 1:
            add(k, "accessor-const", "const and non-const accessors address different cells")
        if kind == "pset" and (not same(G(k, "astate"), st[:, :n]) or not same(G(k, "estate"), st[:dim, :n])):
            add(k, "state-accessor", "state(i) / state(i,j) do not return column i of state_")
        if kind == "gauss" and n == 1:
            if not same(G(k, "gmean"), mean[:, :1]) or not same(G(k, "gcov"), cov) or not same([[G(k, "gweight")]], w[:1]):
                add(k, "accessor-gaussian", "Gaussian::mean()/covariance()/weight() do not return the single component")
        # --- content clauses
        if k == 0:
            if n > 0 and not same(w, np.full((n, 1), 1.0 / n)):
                add(k, "uniform-weights", "a new mixture has weights %s" % w.ravel()[:4])
            continue
        pn, pdim, pdl, pdc, pdn, pdcv = [G(k - 1, f) for f in ("components", "dim", "dl", "dc", "dn", "dcov")]
        pmean, pcov, pw = G(k - 1, "mean"), G(k - 1, "cov"), G(k - 1, "w")
        pst = G(k - 1, "state") if kind == "pset" else None
        t = tok[0]
        desc_same = all(G(k, f) == G(k - 1, f) for f in ("quat", "dcc", "dim", "dl", "dc", "dn", "dcov"))
        if t in "CMS" or (t == "A" and G(k, "ret") == 0) or t == "F":
            if not desc_same or n != pn:
                add(k, "descriptors-changed", "descriptors changed by %s" % optype(tok))
            if t != "F" and not (same(mean, pmean) and same(cov, pcov) and same(w, pw) and (pst is None or same(st, pst))):
                add(k, "content-changed", "storage changed by %s" % optype(tok))
        if t == "R":
            rq = [int(x) for x in tok[1:].split(",")]
            rc, rl, rci = (1, rq[0], rq[1]) if kind == "gauss" else rq
            if (n, dl, dc) != (rc, rl, rci):
                add(k, "requested-layout", "resize(%d;%d,%d) left components=%d dl=%d dc=%d" % (rc, rl, rci, n, dl, dc))
            if (rl, rci) == (pdl, pdc) and rc == pn:
                if not (desc_same and same(mean, pmean) and same(cov, pcov) and same(w, pw) and (pst is None or same(st, pst))):
                    add(k, "same-layout-not-identity", "resize to the current layout changed the object")
            elif (rl, rci) == (pdl, pdc) and pdn == 0:
                m = min(n, pn)
                ok = (mean.shape[0] == pmean.shape[0] and cov.shape[0] == pcov.shape[0] and mean.shape[1] >= m and cov.shape[1] >= m * pdcv
                      and w.shape[0] >= m and same(mean[:, :m], pmean[:, :m]) and same(cov[:, :m * pdcv], pcov[:, :m * pdcv]) and same(w[:m], pw[:m]))
                if not ok:
                    add(k, "survivors-not-preserved", "changing only the component count %d -> %d lost data of a surviving component" % (pn, n))
                if pst is not None and not (st.shape[0] == pst.shape[0] and st.shape[1] >= m and same(st[:, :m], pst[:, :m])):
                    add(k, "state-survivors-not-preserved", "changing only the component count %d -> %d lost particle states" % (pn, n))
        if t == "A" and G(k, "ret") == 1:
            name = tok[1:]
            r = c.get(name + ".r")
            Q = c.get(name) if r > 0 else np.zeros((0, 0))
            if c.get(name + ".c") != r:
                add(k, "augment-nonsquare-accepted", "a %dx%d noise covariance was accepted" % (r, c.get(name + ".c")))
                continue
            if (n, dl, dc, dn, dim, dcv) != (pn, pdl, pdc, pdn + r, pdim + r, pdcv + r):
                add(k, "augment-descriptors", "after augmenting with %dx%d: components=%d dl=%d dc=%d dn=%d dim=%d dcov=%d (before: %d %d %d %d %d %d)"
                    % (r, r, n, dl, dc, dn, dim, dcv, pn, pdl, pdc, pdn, pdim, pdcv))
                continue
            if mean.shape != (pdim + r, pn) or cov.shape != (pdcv + r, (pdcv + r) * pn):
                continue        # already reported as a shape clause
            okm = same(mean[:pdim, :], pmean) and same(mean[pdim:, :], np.zeros((r, pn)))
            if not okm:
                add(k, "augment-mean", "means are not [m; 0]")
            for i in range(pn):
                B = cov[:, i * dcv:(i + 1) * dcv]
                want = np.zeros((dcv, dcv))
                want[:pdcv, :pdcv] = pcov[:, i * pdcv:(i + 1) * pdcv]
                want[pdcv:, pdcv:] = Q
                if not same(B, want):
                    add(k, "augment-covariance", "component %d of %d: covariance is not blockdiag(P, Q) (dn before %d, added %d)" % (i, pn, pdn, r))
                    break
            if not same(w, pw):
                add(k, "augment-weights", "weights changed")
            if pst is not None and st.shape == (pdim + r, pn) and not (same(st[:pdim, :], pst) and same(st[pdim:, :], np.zeros((r, pn)))):
                add(k, "state-augment", "particle states are not [x; 0]")
        if t in "PQDE":
            if t in "PQ":
                R = fresh_rhs(tok)
            else:
                R = {"components": pn, "dim": pdim, "dcov": pdcv, "mean": pmean, "cov": pcov, "w": pw, "state": pst}
            rn = R["components"]
            if not desc_same:
                add(k, "concat-descriptors", "layout descriptors changed by a concatenation")
            if n != pn + rn:
                add(k, "concat-components", "components=%d after concatenating %d and %d components" % (n, pn, rn))
            if mean.shape == (pdim, pn + rn) and cov.shape == (pdcv, pdcv * (pn + rn)) and w.shape == (pn + rn, 1) and st.shape == (pdim, pn + rn):
                ok = (same(mean, np.hstack([pmean, R["mean"]])) and same(cov, np.hstack([pcov, R["cov"]]))
                      and same(w, np.vstack([pw, R["w"]])) and same(st, np.hstack([pst, R["state"]])))
                if not ok:
                    add(k, "concat-content", "the result is not the components of both operands in order")
            else:
                add(k, "concat-storage", "storage after concatenating %d and %d components: mean %s cov %s w %s state %s" % (pn, rn, mean.shape, cov.shape, w.shape, st.shape))
            if G(k, "ret") != 1:
                add(k, "concat-return", "operator+= did not return *this")
    # report the first failing step only (later steps inherit the damage), at most two clauses of it
    seen, out, step0 = set(), [], None
    for s, dt in v:
        st = dt.split(":")[0]
        if step0 is None:
            step0 = st
        if st != step0 or len(out) >= 2:
            break
        if s not in seen:
            seen.add(s); out.append((s, dt))
    return out
