"""C11 — belief containers keep their declared shape consistent with their storage (DESIGN.md §5 C11).

Cases are operation sequences on one GaussianMixture / Gaussian / ParticleSet object:
  case <id> gm|gauss|pset c=<components> l=<linear> ci=<circular> q=<0|1> ctor=full|noq|two|default
  word ops <token> ...
  mat <qname> r c v...   int <qname>.r r   int <qname>.c c        (noise covariances)
ctor: full = (c, l, ci, q); noq = (c, l, ci) relying on the default use_quaternion; two = (c, dim) / Gaussian(l);
default = ().  Tokens: F<base> fill all storage with distinct integers base, base+1, ... (through the public whole-matrix
Ref accessors); G<base> the same values written cell by cell through the non-const ELEMENT accessors of every component
(mean(i,j), covariance(i,j,k), weight(i), state(i,j); a one-component Gaussian: its own mean(j), covariance(j,k), weight());
H<base> the same through the non-const BLOCK accessors (mean(i) = column, covariance(i) = block, state(i) = column);
C copy-construct, M move-construct (no move constructor exists: copies), S copy-assign into a
default-constructed object; R<c>,<l>,<ci> resize (Gaussian: R<l>,<ci>); r<c>,<l> (Gaussian: r<l>) resize relying on
the default dim_circular = 0; B<c>,<l>,<ci> (Gaussian only) the virtual GaussianMixture::resize through a
GaussianMixture&; A<qname> augmentWithNoise; W augmentWithNoise(own covariance()) (aliased argument); particle sets
only: P<c>,<l>,<ci>,<q>,<base> `+=` a fresh filled set, Q... the same with operator+, D `+=` a copy of itself,
E `x + x`, Z `x += x` (aliased operand).  Both sides print, after the constructor (step 0) and after each operation
k, "<k>.<field>".

POOL.  A case may have further objects of the same class: word pool <c,l,ci,q> ... (slots 1, 2, ...; slot 0 is the object
of the case header).  Upper-case tokens act on the object in focus (slot 0 at the start).  Lower-case tokens are the special
member functions between slots and from temporaries; the slot they write becomes the focus and is the one printed
("<k>.slot"):  @<i> look at slot i (nothing is executed);  c<t>,<s> copy-construct a new object from slot s, replacing
slot t;  m<t>,<s> the same with std::move (s is moved-from afterwards: not looked at until it is a target);  s<t>,<s>
copy-assign (t = s: self-assignment);  v<t>,<s> move-assign;  t<t>,<c>,<l>,<ci>,<q>,<base> assign a temporary (base < 0:
the constructor call itself, else a function returning a filled object by value);  n<t>,... construct from such a
temporary;  f<t>,<s>,<qname> t = augmented(s, Q) (function returning an augmented copy by value; s may be t);
a<t>,<s>,<qname> the same through a named augmented copy (copy assignment);  g<t>,<s>,<c>,<l>,<ci> / b... the same with a
resized copy;  particle sets: p<t>,<a>,<b> t = a + b, w<t>,<a>,<b> construct from a + b, u<t>,<s> t += s;  mixtures:
x<t>,<l>,<ci>,<q>,<named> t = Gaussian(l, ci, q) (named: from a named Gaussian), y<t>,<c>,<l>,<ci>,<q>,<base> t = f()
returning a filled ParticleSet.  The oracle compares the target with the source AS THE IMPLEMENTATION PRINTED IT when it
was last written.

"Outside" operations (the model's definedness predicate is false: square augmentation of a 0-component object,
`+=` of a mismatched or aliased operand, augmentation with the own covariance() when storage is reallocated) end a
sequence.  The model prints "undefined_at k".  The harness executes them only in a build that turns the undefined
behaviour into a failure (Eigen assertion -> exit 42, ASan -> exit 43) and prints "skipped k" otherwise; the check
reports a failure of the library only where the model says the operation is DEFINED; on an operation the model marks
undefined (outside the property's quantifier) nothing is reported whether the library fails (counted as
outside_failed_as_predicted) or accepts it (outside_accepted): the comparison of that sequence stops before that step.
"""
import itertools
import numpy as np
from vlib import caseio

ID = "C11"
COQ_TARGETS = ["C11_Extract.vo", "C11_Regress.vo", "C11_Access.vo"]
EXTRACTED = "C11_model"
DRIVER = "drv_C11.ml"
HARNESS = "h_C11.cpp"
VARIANTS = {"quick": ["assert", "O1"], "thorough": ["assert", "O1", "asan"]}
AXIOMS_ALLOWED = []
REQUIRED_THEOREMS = ["C11_ctor_consistent", "C11_ctor_uniform_weights", "C11_inv", "C11_reachable",
                     "C11_gauss_reachable", "C11_pset_inv", "C11_pset_reachable",
                     "C11_pool_reachable", "C11_gauss_pool_reachable", "C11_pset_pool_reachable", "C11_copy_exact", "C11_move_exact",
                     "C11_temporary_exact", "C11_assign_function_result", "C11_assign_sum", "C11_pool_single_history",
                     "C11_copy_is_identity", "C11_invariant_executable",
                     "C11_accessors", "C11_pset_accessors", "C11_gauss_accessors",
                     "C11_pset_components_view", "C11_view_determines_storage", "C11_write_mean_el", "C11_write_cov_el", "C11_write_weight",
                     "C11_write_state_el", "C11_write_blocks", "C11_fill_through_accessors", "C11_augment_repeated_content",
                     "C11_noise_mean_zero", "C11_pset_augment_parts",
                     "C11_storage_is_concatenation_of_blocks", "C11_components_view",
                     "C11_resize_components_preserves", "C11_pset_resize_components_preserves",
                     "C11_augment_content", "C11_augment_nonsquare", "C11_augment_twice_content",
                     "C11_pset_augment_content", "C11_concat_content", "C11_plus_is_concat", "C11_concat_defined_iff",
                     "C11_concat_self_defined_iff", "C11_resize_components_preserves_with_noise_refuted",
                     "C11_gauss_base_resize_refuted"]
TIMEOUT = 2400

RULE = ("operation sequences from one seeded stream over gm / gauss / pset objects: constructor layouts components 0..4 x "
        "linear 0..4 x circular 0..2 x Euler/quaternion (all four constructor overloads, also the defaulted arguments), then 1..12 "
        "(quick) / 1..60 (thorough) operations out of fill, copy/move/assign, resize (same layout, other component count, other split of "
        "the same size, other size, quaternion split change, defaulted dim_circular, through GaussianMixture& for a Gaussian), "
        "augmentWithNoise (0x0, 1..3, non-square; repeated; with the own covariance()), += / + (fresh operand of the same or an "
        "equal-size layout, self copy, aliased self), and 'outside' endings (0-component augmentation, mismatched / aliased operand) "
        "which are outside the property (nothing is reported on them, both outcomes are counted); plus every sequence of length <= 2 (quick) / <= 3 (thorough) over boundary "
        "layouts; POOLS: 400 (quick) / 4000 (thorough) sequences over 2..3 objects of one class with unrelated layouts, contents and noise "
        "augmentation, mixing the single-object operations on the object in focus with copy / move construction, copy / move assignment "
        "between objects, self-assignment, construction / assignment from temporaries (constructor call, function returning a filled "
        "object, function returning an augmented / resized copy of another object or of the target itself, a + b of pool objects, a "
        "mixture assigned from a Gaussian / ParticleSet), t += s, and looks at the objects that must not have changed; plus every one "
        "(thorough: every two) of these operations on two filled objects in all four noise-augmentation combinations; a moved-from object "
        "is not looked at until it is the target of a construction / assignment; "
        "non-trivial = at least two operations other than fill / look; distinct by (kind, constructor layout, operation-type word)")
TRUSTED_BASE = ["Coq 8.16.1 kernel (coqc); no axioms (Print Assumptions: closed under the global context)",
                "extraction (ExtrOcamlBasic only) and ocaml/float_ops.ml, ocaml/drv_C11.ml, ocaml/caseio.ml",
                "the model of the Eigen 3.4 primitives in coq/C11_Model.v (resize keeps an equal-sized buffer and zero-fills "
                "otherwise, conservativeResize(NoChange, n) leaves new cells uninitialised, conservativeResize(n, NoChange) and "
                "conservativeResizeLike pad from a zero matrix, block assignment, column swap) — compared cell by cell with Eigen on every case",
                "the definedness predicates of the model (gop_defined / pop_defined): checked against the library's Eigen assertions / ASan "
                "on the generated 'outside' cases only",
                "cpp/h_C11.cpp harness (subclasses exposing the protected matrices); comparison is exact, cells the model marks "
                "uninitialised (NaN) are not compared",
                "correspondence is sampled: agreement is established on the generated sequences only"]
ASSUMPTIONS = ["copies: in /repo the three classes declare only a virtual destructor, so copy construction / assignment are the implicit "
               "member-wise ones and std::move / temporaries bind to them; the model says 'the target becomes the source's value' for copy AND "
               "move operations and marks the source of a move as unavailable (valid but unspecified): the check never looks at a moved-from "
               "object before it is re-assigned, and does not exercise self-move-assignment",
               "histories are quantified through gm_run / gauss_run / ps_run (one object) and gm_krun / gauss_krun / ps_krun (pools): an operation is executed only if it is defined in the C++ "
               "(square augmentation needs components >= 1; += / + need a distinct operand of equal dim and dim_covariance; the aliased calls "
               "x += x and x.augmentWithNoise(x.covariance()) are defined only when nothing is reallocated)",
               "a Gaussian keeps ONE component only while it is not resized to another count through a GaussianMixture& "
               "(C11_gauss_base_resize_refuted); it stays a consistent mixture regardless",
               "'changing only the number of components' excludes an augmented mixture resized to its noise-free layout "
               "(C11_resize_components_preserves_with_noise_refuted; counted by the oracle)"]
LEVEL_TEXT = ("Proof: for the list model of GaussianMixture / Gaussian / ParticleSet (descriptors + column-major storage with explicit "
              "shapes, Eigen resize / conservativeResize / block / column-swap semantics), the invariant Consistent (dim = dl + dc*dcc + dn, "
              "dcc = 4|1, dcov = dl + dc*(3|1) + dn, mean dim x components, covariance dcov x dcov*components, weight components, state dim x "
              "components, all well-formed) holds after the constructors and is preserved by every operation, hence along all operation "
              "sequences of any length and all layouts on which the C++ is defined, also for every object of a pool in which objects are "
              "copy-/move-constructed and -assigned from one another, from themselves and from temporaries (constructor calls, results of "
              "functions that modify a copy, a + b): the target is exactly the source's value, no third object changes; "
              "accessors address exactly component i's block; a change "
              "of the component count preserves the survivors; augmentation gives [m;0] and blockdiag(P,Q) for every component (particle "
              "states [x;0]), also repeatedly; concatenation gives both operands in order; new mixtures have uniform weights.")
LEVEL_NOTE = ("Tied to the code by exact comparison of every descriptor, storage dimension, storage cell and the views of every accessor "
              "overload (block/element, const/non-const, whole-matrix, defaulted arguments) after every operation of generated sequences, on "
              "the assert build and on the NDEBUG (O1) build of the pinned tests (asan added in the thorough tier). ParticleSet noise "
              "augmentation is inside the theorems (28573a1). Outside the theorems and outside the report (the library may fail or accept; both are counted, the sequence stops there): "
              "augmentation of a 0-component object, += of a mismatched operand, x += x, x.augmentWithNoise(x.covariance()). The copy theorem "
              "and the accessor cell equations are definitional (record eta / unfolding); their content is on the correspondence side.")

LEN = {"quick": (1, 12), "thorough": (1, 60)}
COUNTS = {"quick": 360, "thorough": 5000}
POOL_COUNTS = {"quick": 400, "thorough": 4000}
MAXC = 9
MAXDIM = 16
COUNTERS = {}


def count(key, n=1):
    COUNTERS[key] = COUNTERS.get(key, 0) + n


# ------------------------------------------------------------------ shape tracker (used only to pick operations)
class Sh:
    def __init__(s, kind, c, l, ci, q):
        s.kind, s.c, s.l, s.ci, s.q, s.n = kind, c, l, ci, q, 0
        s.dcc = 4 if q else 1

    @property
    def dim(s):
        return s.l + s.ci * s.dcc + s.n

    @property
    def dcov(s):
        return s.l + s.ci * (3 if s.q else 1) + s.n

    def resize(s, c, l, ci):
        if (c, l, ci) == (s.c, s.l, s.ci):
            return
        s.c, s.l, s.ci, s.n = c, l, ci, 0

    def copy(s):
        o = Sh(s.kind, s.c, s.l, s.ci, s.q)
        o.n = s.n
        return o


def qmat(case, name, r, c, base):
    case.int(name + ".r", r).int(name + ".c", c)
    if r > 0 and c > 0:
        case.mat_shape(name, r, c, [base + k for k in range(r * c)])


def rtok(kind, c, l, ci, rng=None, force_default=None):
    """Resize token; with dim_circular = 0 half of the time through the overload that defaults it."""
    dflt = (ci == 0) and (force_default if force_default is not None else (rng is not None and rng.random() < 0.5))
    if kind == "gauss":
        return "r%d" % l if dflt else "R%d,%d" % (l, ci)
    return "r%d,%d" % (c, l) if dflt else "R%d,%d,%d" % (c, l, ci)


def pick_resize(rng, sh):
    """(c, l, ci) aimed at the branches of resize."""
    k = rng.random()
    cs = [x for x in range(1, 5) if x != sh.c]
    if k < 0.12:
        return sh.c, sh.l, sh.ci                                  # early return
    if k < 0.45:
        return rng.choice(cs), sh.l, sh.ci                        # only the component count (also of an augmented mixture)
    if k < 0.60 and not sh.q and sh.l + sh.ci > 0:                # same size, other split (Euler)
        tot = sh.l + sh.ci
        ci = rng.randint(0, min(2, tot))
        return rng.choice(cs + [sh.c]), tot - ci, ci
    if k < 0.72 and sh.q:                                         # quaternion: same dim, other covariance size
        if sh.ci > 0:
            return rng.choice(cs + [sh.c]), sh.l + 4, sh.ci - 1
        if sh.l >= 4:
            return rng.choice(cs + [sh.c]), sh.l - 4, sh.ci + 1
    if k < 0.80 and sh.n > 0:                                     # augmented: noise reinterpreted as linear
        return rng.choice(cs + [sh.c]), sh.l + sh.n, sh.ci
    if k < 0.86:                                                  # same total number of cells, other shape
        return sh.dim if 1 <= sh.dim <= 4 else rng.randint(1, 4), sh.c if 1 <= sh.c <= 4 else 1, 0
    if k < 0.89:
        return 0, rng.randint(0, 3), rng.randint(0, 1)            # no components at all
    return rng.randint(1, 4), rng.randint(0, 4), rng.randint(0, 2)


def finish_case(case, toks, outside=None):
    case.word("ops", toks)
    case.meta["len"] = len(toks)
    case.meta["word"] = "".join(t[0] for t in toks)
    if outside:
        case.meta["outside"] = outside
    return case


def pick_single(rng, kind, sh, case, st):
    """One operation on the object in focus (its shape is tracked by sh); None if the drawn one does not fit."""
    k = rng.random()
    if k < 0.14:
        st["base"] += 4000
        # through the whole-matrix accessors, or (small objects: the model executes every single write) cell by cell
        # through the element accessors / component by component through the block accessors
        how = "F" if (k < 0.07 or sh.dcov * sh.dcov * sh.c > 300) else rng.choice("GH")
        return "%s%d" % (how, st["base"] - 4000)
    if k < 0.26:
        return rng.choice("CMS")
    if k < 0.54:
        c2, l2, ci2 = pick_resize(rng, sh)
        if kind == "gauss":
            c2 = 1
        if l2 + ci2 * sh.dcc > MAXDIM:
            return None
        sh.resize(c2, l2, ci2)
        return rtok(kind, c2, l2, ci2, rng)
    if k < 0.57 and kind == "gauss":
        c2 = rng.choice([1, 2, 3])                           # through a GaussianMixture&
        l2, ci2 = (sh.l, sh.ci) if rng.random() < 0.5 else (rng.randint(0, 3), rng.randint(0, 1))
        sh.resize(c2, l2, ci2)
        return "B%d,%d,%d" % (c2, l2, ci2)
    if k < 0.60:
        # augmentation with the own covariance(): defined when it is not square (refused) or empty (nothing added)
        if sh.c == 0 or (sh.c == 1 and sh.dcov > 0):
            return None
        return "W"
    if k < 0.78 or kind != "pset":
        r = rng.choice([0, 1, 1, 2, 2, 3, 3])
        cols = r if rng.random() < 0.88 else r + rng.choice([1, 2])
        if sh.dim + r > MAXDIM:
            return None
        if sh.c == 0 and cols == r:
            return None                                       # outside: only as an ending
        name = "q%d" % st["nq"]; st["nq"] += 1
        qmat(case, name, r, cols, 9000 + 100 * st["nq"])
        if cols == r:
            sh.n += r
        return "A" + name
    kk = rng.random()
    if kk < 0.2:
        if 2 * sh.c > MAXC:
            return None
        sh.c *= 2
        return rng.choice("DE")
    if kk < 0.24 and sh.c == 0:
        return "Z"                                            # x += x of an empty set is defined
    c2 = rng.randint(1, 3)
    if sh.c + c2 > MAXC:
        return None
    l2, ci2, q2 = sh.l + sh.n, sh.ci, sh.q                    # equal dim and dim_covariance (noise counted as linear)
    if rng.random() < 0.3:
        if not sh.q:
            tot = sh.l + sh.ci + sh.n
            ci2 = rng.randint(0, min(2, tot)); l2 = tot - ci2
            if ci2 == 0 and rng.random() < 0.5:
                q2 = 1
        elif sh.ci == 0 and rng.random() < 0.5:
            q2 = 0
    st["base"] += 4000
    sh.c += c2
    return "%s%d,%d,%d,%d,%d" % (rng.choice("PPQ"), c2, l2, ci2, q2, st["base"] - 4000)


def random_case(rng, cid, tier, kind):
    lo, hi = LEN[tier]
    ctor = rng.choice(["full"] * 5 + ["noq", "noq", "two", "default"])
    if ctor == "default":
        c, l, ci, q = 1, 1, 0, 0
    elif ctor == "two":
        c, l, ci, q = rng.randint(1, 4), rng.randint(0, 4), 0, 0
    else:
        c, l, ci, q = rng.randint(1, 4), rng.randint(0, 4), rng.randint(0, 2), rng.randint(0, 1)
        if rng.random() < 0.06 and kind != "gauss":
            c = 0
        if ctor == "noq":
            q = 0
    if kind == "gauss":
        c = 1
    sh = Sh(kind, c, l, ci, q)
    case = caseio.Case(cid, kind, {"c": c, "l": l, "ci": ci, "q": q, "ctor": ctor})
    n = rng.randint(lo, hi) if rng.random() < 0.7 else rng.randint(lo, min(hi, 6))
    toks = []
    st = {"nq": 0, "base": rng.randint(1, 50)}
    end_outside = rng.random() < (0.07 if tier == "quick" else 0.02)
    if rng.random() < 0.9:
        toks.append("F%d" % st["base"]); st["base"] += 4000
    tries = 0
    while len(toks) < n and tries < 400:
        tries += 1
        tok = pick_single(rng, kind, sh, case, st)
        if tok is not None:
            toks.append(tok)
    outside = None
    nq, base = st["nq"], st["base"]
    if end_outside:
        opts = []
        if sh.c == 0 and sh.dcov + 1 <= MAXDIM:
            opts.append("aug0")
        if sh.c == 1 and sh.dcov > 0 and sh.dim + sh.dcov <= 2 * MAXDIM:
            opts.append("selfaug")
        if kind == "pset" and sh.c > 0:
            opts += ["selfconcat", "mismatch"]
        if opts:
            outside = rng.choice(opts)
            if outside == "aug0":
                name = "q%d" % nq; nq += 1
                qmat(case, name, 1, 1, 9900); toks.append("A" + name)
            elif outside == "selfaug":
                toks.append("W")
            elif outside == "selfconcat":
                toks.append("Z")
            else:
                toks.append("%s%d,%d,%d,%d,%d" % (rng.choice("PQ"), rng.randint(1, 2), sh.l + sh.n + 1, sh.ci, sh.q, base))
    return finish_case(case, toks, outside)


def rand_layout(rng, kind, like=None):
    if like is not None and rng.random() < 0.6:
        # the same total and covariance size as another object (so that a + b is defined), another component count
        return (rng.randint(1, 4), like.l + like.n, like.ci, like.q)
    c, l, ci, q = rng.randint(1, 4), rng.randint(0, 4), rng.randint(0, 2), rng.randint(0, 1)
    if rng.random() < 0.05 and kind != "gauss":
        c = 0
    if kind == "gauss":
        c = 1
    return (c, l, ci, q)


def pooled_case(rng, cid, tier, kind):
    """Sequences over a pool of 2..3 objects of unrelated layouts / contents / noise augmentation: the single-object
    operations on the object in focus, mixed with copy / move construction and assignment between the objects, from
    temporaries, from functions returning a modified copy by value, from a + b, self-assignment."""
    lo, hi = LEN[tier]
    nslots = rng.choice([2, 3, 3])
    lays = [rand_layout(rng, kind)]
    sh = [Sh(kind, *lays[0])]
    for i in range(1, nslots):
        lays.append(rand_layout(rng, kind, sh[0] if kind == "pset" else None))
        sh.append(Sh(kind, *lays[-1]))
    c, l, ci, q = lays[0]
    case = caseio.Case(cid, kind, {"c": c, "l": l, "ci": ci, "q": q, "ctor": "full", "slots": nslots})
    case.word("pool", ["%d,%d,%d,%d" % x for x in lays[1:]])
    alive = [True] * nslots
    st = {"nq": 0, "base": rng.randint(1, 50)}
    toks = []
    focus = 0

    def noise(r, cols=None):
        name = "q%d" % st["nq"]; st["nq"] += 1
        qmat(case, name, r, r if cols is None else cols, 9000 + 100 * st["nq"])
        return name

    def fill():
        st["base"] += 4000
        return "F%d" % (st["base"] - 4000)

    # every object gets its own content and, often, its own noise augmentation, so that target and source differ
    for i in range(nslots):
        if i > 0:
            toks.append("@%d" % i)
        focus = i
        if rng.random() < 0.85:
            toks.append(fill())
        if rng.random() < 0.5 and sh[i].c >= 1:
            r = rng.randint(1, 3)
            if sh[i].dim + r <= MAXDIM:
                toks.append("A" + noise(r)); sh[i].n += r
        if rng.random() < 0.15:
            tok = pick_single(rng, kind, sh[i], case, st)
            if tok is not None:
                toks.append(tok)
    n = len(toks) + (rng.randint(lo, hi) if rng.random() < 0.7 else rng.randint(lo, min(hi, 6)))
    tries = 0
    while len(toks) < n and tries < 400:
        tries += 1
        live = [i for i in range(nslots) if alive[i]]
        k = rng.random()
        if k < 0.40:
            tok = pick_single(rng, kind, sh[focus], case, st) if alive[focus] else None
            if tok is not None:
                toks.append(tok)
            continue
        if k < 0.53:
            j = rng.choice(live)
            toks.append("@%d" % j); focus = j
            continue
        t = rng.randrange(nslots)
        s = rng.choice(live)
        kinds = ["c", "m", "s", "s", "v", "v", "self", "t", "t", "n", "f", "f", "a", "g", "b"]
        if kind == "pset":
            kinds += ["p", "p", "p", "w", "w", "u", "u", "u"]
        if kind == "gm":
            kinds += ["x", "y"]
        op = rng.choice(kinds)
        look_at = None
        if op in ("c", "s"):
            toks.append("%s%d,%d" % (op, t, s)); sh[t] = sh[s].copy()
            look_at = s
        elif op == "self":
            toks.append("s%d,%d" % (s, s)); t = s
        elif op in ("m", "v"):
            if op == "v" and t == s:
                continue
            toks.append("%s%d,%d" % (op, t, s)); sh[t] = sh[s].copy()
            if t != s:
                alive[s] = False
        elif op in ("t", "n"):
            lay = rand_layout(rng, kind, sh[s] if kind == "pset" else None)
            b = -1
            if rng.random() < 0.5:
                b = st["base"]; st["base"] += 4000
            toks.append("%s%d,%d,%d,%d,%d,%d" % ((op, t) + lay + (b,))); sh[t] = Sh(kind, *lay)
        elif op in ("f", "a"):
            r = rng.choice([0, 1, 1, 2, 2, 3])
            cols = r if rng.random() < 0.9 else r + 1
            if rng.random() < 0.5:
                t = s                                           # an augmented copy of itself
            if sh[s].dim + r > MAXDIM or (sh[s].c == 0 and cols == r):
                continue
            toks.append("%s%d,%d,%s" % (op, t, s, noise(r, cols))); sh[t] = sh[s].copy()
            if cols == r:
                sh[t].n += r
            look_at = s if s != t else None
        elif op in ("g", "b"):
            if rng.random() < 0.5:
                t = s                                           # a resized copy of itself
            c2, l2, ci2 = pick_resize(rng, sh[s])
            if kind == "gauss":
                c2 = 1
            if l2 + ci2 * sh[s].dcc > MAXDIM:
                continue
            toks.append("%s%d,%d,%d,%d,%d" % (op, t, s, c2, l2, ci2))
            nsh = sh[s].copy(); nsh.resize(c2, l2, ci2); sh[t] = nsh
            look_at = s if s != t else None
        elif op in ("p", "w", "u"):
            # operands of equal dim and dim_covariance
            cands = [j for j in live if sh[j].dim == sh[s].dim and sh[j].dcov == sh[s].dcov]
            s2 = rng.choice(cands)
            if op == "u":
                if not alive[t] or t == s or sh[t].dim != sh[s].dim or sh[t].dcov != sh[s].dcov or sh[t].c + sh[s].c > MAXC:
                    continue
                toks.append("u%d,%d" % (t, s)); sh[t].c += sh[s].c
                look_at = s
            else:
                if sh[s].c + sh[s2].c > MAXC:
                    continue
                toks.append("%s%d,%d,%d" % (op, t, s, s2))
                nsh = sh[s].copy(); nsh.c += sh[s2].c; sh[t] = nsh
                look_at = rng.choice([s, s2]) if t not in (s, s2) else None
        elif op == "x":
            lay = rand_layout(rng, "gauss")
            toks.append("x%d,%d,%d,%d,%d" % (t, lay[1], lay[2], lay[3], rng.randint(0, 1))); sh[t] = Sh(kind, 1, lay[1], lay[2], lay[3])
        elif op == "y":
            lay = rand_layout(rng, "pset")
            b = st["base"]; st["base"] += 4000
            toks.append("y%d,%d,%d,%d,%d,%d" % ((t,) + lay + (b,))); sh[t] = Sh(kind, *lay)
        alive[t] = True
        focus = t
        # a copy must not change its source
        if look_at is not None and look_at != t and alive[look_at] and rng.random() < 0.5:
            toks.append("@%d" % look_at); focus = look_at
    return finish_case(case, toks)


def pool_exhaustive(tier):
    """Two objects of different layouts, each filled, each noise-augmented or not (all four combinations, different noise
    sizes), then EVERY special member operation between them / from temporaries / from function results once, then a look at
    the other object and one more augmentation of the target.  Thorough: every pair of such operations."""
    cases = []
    pairs = {"gm": [((2, 1, 1, 0), (3, 2, 1, 1)), ((1, 2, 0, 0), (2, 2, 0, 0)), ((3, 0, 1, 1), (1, 4, 0, 1))],
             "gauss": [((1, 1, 1, 0), (1, 2, 1, 1)), ((1, 2, 0, 0), (1, 3, 0, 0)), ((1, 0, 1, 1), (1, 4, 0, 1))],
             "pset": [((2, 2, 1, 0), (1, 2, 1, 0)), ((2, 1, 0, 0), (3, 0, 1, 0)), ((1, 2, 0, 0), (2, 3, 1, 1))]}

    def alphabet(kind, lays):
        o = lays[1]
        al = ["c0,1", "c1,0", "m0,1", "m1,0", "s0,1", "s1,0", "s0,0", "s1,1", "v0,1", "v1,0",
              "t0,%d,%d,%d,%d,-1" % o, "t1,%d,%d,%d,%d,8000" % lays[0], "n0,%d,%d,%d,%d,8000" % o, "n1,3,1,1,1,-1",
              ("f", 0, 0), ("f", 0, 1), ("f", 1, 0), ("a", 0, 1), ("a", 1, 1), ("fn", 0, 1),
              ("g", 0, 0, 3), ("g", 0, 1, 2), ("b", 1, 0, 1), ("b", 1, 1, 4)]
        if kind == "pset":
            al += ["p0,0,1", "p0,1,0", "p1,0,0", "p1,1,1", "w0,1,0", "w1,0,1", "u0,1", "u1,0"]
        if kind == "gm":
            al += ["x0,2,1,1,0", "x1,3,0,0,1", "y0,2,2,1,0,8000", "y1,1,0,2,1,8000"]
        return al

    def build(kind, lays, aug, seq, tag):
        c, l, ci, q = lays[0]
        case = caseio.Case("y", kind, {"c": c, "l": l, "ci": ci, "q": q, "ctor": "full", "slots": 2, "exh": tag})
        case.word("pool", ["%d,%d,%d,%d" % lays[1]])
        sh = [Sh(kind, *lays[0]), Sh(kind, *lays[1])]
        alive = [True, True]
        nq = [0]

        def noise(r, cols=None):
            name = "q%d" % nq[0]; nq[0] += 1
            qmat(case, name, r, r if cols is None else cols, 9000 + 100 * nq[0])
            return name
        toks = ["F7"]
        if aug[0]:
            toks.append("A" + noise(1)); sh[0].n += 1
        toks += ["@1", "G5007"]
        if aug[1]:
            toks.append("A" + noise(2)); sh[1].n += 2
        for a in seq:
            if isinstance(a, tuple) and a[0] in ("f", "a", "fn"):
                t, s = a[1], a[2]
                if not alive[s]:
                    return None
                r, cols = (1, 1) if a[0] != "fn" else (2, 3)
                toks.append("%s%d,%d,%s" % (a[0][0], t, s, noise(r, cols)))
                sh[t] = sh[s].copy()
                if r == cols:
                    sh[t].n += r
            elif isinstance(a, tuple):
                t, s, c2 = a[1], a[2], a[3]
                if not alive[s]:
                    return None
                c2 = 1 if kind == "gauss" else c2
                l2, ci2 = (sh[s].l, sh[s].ci) if c2 % 2 else (sh[s].l + sh[s].n, sh[s].ci)
                toks.append("%s%d,%d,%d,%d,%d" % (a[0], t, s, c2, l2, ci2))
                nsh = sh[s].copy(); nsh.resize(c2, l2, ci2); sh[t] = nsh
            else:
                v = [int(x) for x in a[1:].split(",")]
                t = v[0]
                if a[0] in "cmsv":
                    if not alive[v[1]]:
                        return None
                    sh[t] = sh[v[1]].copy()
                    if a[0] in "mv" and v[1] != t:
                        alive[v[1]] = False
                elif a[0] in "tn":
                    sh[t] = Sh(kind, *v[1:5])
                elif a[0] in "pw":
                    if not (alive[v[1]] and alive[v[2]]) or sh[v[1]].dim != sh[v[2]].dim or sh[v[1]].dcov != sh[v[2]].dcov:
                        return None
                    nsh = sh[v[1]].copy(); nsh.c += sh[v[2]].c; sh[t] = nsh
                elif a[0] == "u":
                    if not (alive[t] and alive[v[1]]) or sh[t].dim != sh[v[1]].dim or sh[t].dcov != sh[v[1]].dcov:
                        return None
                    sh[t].c += sh[v[1]].c
                elif a[0] == "x":
                    sh[t] = Sh(kind, 1, v[1], v[2], v[3])
                elif a[0] == "y":
                    sh[t] = Sh(kind, *v[1:5])
                toks.append(a)
            alive[t] = True
            other = 1 - t
            if alive[other]:
                toks += ["@%d" % other, "@%d" % t]
            if sh[t].c >= 1 and sh[t].dim + 1 <= MAXDIM:
                toks.append("A" + noise(1)); sh[t].n += 1
                if alive[other]:
                    toks += ["H60007", "@%d" % other, "@%d" % t]
            if sh[t].c > 12 or sh[t].dim > MAXDIM + 4:
                return None
        return finish_case(case, toks)

    for kind in ("gm", "gauss", "pset"):
        for pi, lays in enumerate(pairs[kind]):
            if tier == "quick" and pi == 2 and kind != "pset":
                continue
            for aug in ((0, 0), (1, 0), (0, 1), (1, 1)):
                for a in alphabet(kind, lays):
                    cs = build(kind, lays, aug, (a,), "p1")
                    if cs is not None:
                        cases.append(cs)
        if tier == "thorough":
            lays = pairs[kind][0]
            for aug in ((1, 0), (0, 1)):
                al = alphabet(kind, lays)
                for a in al:
                    for b in al:
                        cs = build(kind, lays, aug, (a, b), "p2")
                        if cs is not None:
                            cases.append(cs)
    for i, cs in enumerate(cases):
        cs.id = "y%d" % i
    return cases


def small_q(case, toks, nq, r, cols):
    name = "q%d" % nq
    qmat(case, name, r, cols, 9000 + 100 * (nq + 1))
    toks.append("A" + name)


def exhaustive(tier):
    """Every sequence (after an initial fill) of length <= 3 over small layouts (thorough); of length 1 over components
    1..4 x boundary layouts and of length 2 over a few of them, with the full alphabet (quick, and thorough as well)."""
    cases = []
    lay_small = [(1, 0), (0, 1), (2, 1)]
    lay_bound = [(0, 0), (1, 0), (0, 1), (4, 2)]

    def alphabet(kind, full):
        al = ["C"] + (["M", "S", "W"] if full else [])
        al += [("A", r, r) for r in ((0, 1, 3) if full else (0, 1, 2))] + ([("A", 2, 3)] if full else [])
        if kind == "gauss":
            al += [("R", 1) + x for x in (lay_small + [(4, 2)] if full else lay_small + [(6, 0)])]
            al += [("B", 3, 1, 0), ("B", 1, 0, 1)] if full else []
        elif full:
            al += [("R", cc) + x for cc in (2, 4) for x in lay_small + [(4, 2)]]
        else:
            al += [("R", cc) + x for cc in (1, 3) for x in ((1, 0), (2, 1))] + [("R", 3, 6, 0), ("R", 1, 0, 1)]
        if kind == "pset":
            al += ["P", "D"] + (["Q", "E", "Palt"] if full else [])
        return al

    def build(kind, start, seq, tag):
        c, l, ci, q = start
        case = caseio.Case("x", kind, {"c": c, "l": l, "ci": ci, "q": q, "ctor": "full", "exh": tag})
        sh = Sh(kind, 1 if kind == "gauss" else c, l, ci, q)
        toks, nq, base = ["F7"], 0, 4000
        for a in seq:
            if isinstance(a, tuple) and a[0] == "A":
                small_q(case, toks, nq, a[1], a[2]); nq += 1
                if a[1] == a[2]:
                    sh.n += a[1]
            elif isinstance(a, tuple) and a[0] == "R":
                toks.append(rtok(kind, a[1], a[2], a[3], force_default=(len(toks) % 2 == 0)))
                sh.resize(1 if kind == "gauss" else a[1], a[2], a[3])
            elif isinstance(a, tuple) and a[0] == "B":
                toks.append("B%d,%d,%d" % a[1:]); sh.resize(*a[1:])
            elif a in ("P", "Q"):
                toks.append("%s2,%d,%d,%d,%d" % (a, sh.l + sh.n, sh.ci, sh.q, base)); base += 4000; sh.c += 2
            elif a == "Palt":
                if sh.q:
                    return None
                tot = sh.l + sh.ci + sh.n
                toks.append("P1,%d,%d,0,%d" % (tot - min(1, tot), min(1, tot), base)); base += 4000; sh.c += 1
            elif a in ("D", "E"):
                toks.append(a); sh.c *= 2
            elif a == "W":
                if sh.c == 1 and sh.dcov > 0:
                    return None                                   # outside: covered by the corpus and the random endings
                toks.append("W")
            else:
                toks.append(a)
            if sh.c > 12 or sh.dim > MAXDIM + 4:
                return None
        return finish_case(case, toks)

    def add(kind, starts, n, full, tag):
        al = alphabet(kind, full)
        for start in starts:
            if kind == "gauss" and start[0] != 1:
                continue
            for seq in itertools.product(al, repeat=n):
                cs = build(kind, start, seq, tag)
                if cs is not None:
                    cases.append(cs)

    for kind in ("gm", "gauss", "pset"):
        b1 = [(c, l, ci, q) for c in (1, 2, 3, 4) for (l, ci) in lay_bound for q in (0, 1)]
        add(kind, b1, 1, True, "b1")
        b2 = [(1, 1, 0, 0), (2, 0, 1, 1), (3, 4, 2, 0), (4, 0, 0, 0), (2, 4, 2, 1)]
        add(kind, b2, 2, True, "b2")
        if tier == "thorough":
            s3 = [(c, l, ci, q) for c in (1, 2) for (l, ci) in ((1, 0), (2, 1)) for q in (0, 1)]
            for n in (1, 2, 3):
                add(kind, s3, n, False, "s%d" % n)
    for i, cs in enumerate(cases):
        cs.id = "x%d" % i
    return cases


def corpus():
    """Minimal witnesses of the repaired defects, of the refuted statements and of the outside operations, and
    hand-picked boundary sequences; they run first, so that a reintroduced defect is reported with the shortest replay."""
    def mkc(cid, kind, c, l, ci, q, toks, qs=(), ctor="full", outside=None, pool=()):
        case = caseio.Case("c%d" % cid, kind, {"c": c, "l": l, "ci": ci, "q": q, "ctor": ctor, "corpus": 1})
        if pool:
            case.word("pool", ["%d,%d,%d,%d" % x for x in pool])
        for i, (r, cl) in enumerate(qs):
            qmat(case, "q%d" % i, r, cl, 9100 + 100 * i)
        return finish_case(case, toks, outside)
    L = [
        ("pset", 3, 2, 0, 0, ["P2,2,0,0,100"], ()),                      # 7c71916: += must update components
        ("pset", 3, 2, 1, 0, ["R3,2,0"], ()),                            # eeaa10f: assignment in the early-return test
        ("gm", 2, 2, 0, 0, ["Aq0", "R3,2,0"], ((1, 1),)),                # a255301: dim_noise survives a resize
        ("gm", 2, 4, 0, 1, ["R3,0,1"], ()),                              # a255301: same dim, other covariance size
        ("gm", 2, 2, 0, 0, ["F1", "Aq0", "Aq1"], ((1, 1), (2, 2))),      # 9b0609f: second augmentation
        ("pset", 2, 2, 0, 0, ["F1", "Aq0", "R3,3,0"], ((1, 1),)),        # 28573a1: particle states not augmented
        ("gm", 3, 2, 0, 0, ["F1", "Aq0"], ((1, 1),)),                    # three components: relocation order matters
        ("gm", 2, 2, 0, 0, ["F1", "R3,2,0"], ()),                        # only the component count: survivors kept
        ("gm", 2, 2, 0, 0, ["F1", "Aq0", "R3,2,0"], ((1, 1),)),          # ... of an augmented mixture: 3x2 -> 2x3, buffer reinterpreted
        ("gm", 3, 2, 1, 1, ["F1", "R2,2,1"], ()),                        # shrinking, quaternion layout
        ("gm", 2, 3, 0, 0, ["F1", "r3,2"], ()),                          # other shape, same number of cells: buffer kept; default dc
        ("gm", 2, 3, 0, 0, ["F1", "R2,2,1"], ()),                        # same size, other split, same count: full branch, buffer kept
        ("gm", 3, 0, 0, 0, ["Aq0", "F1", "Aq1"], ((0, 0), (2, 2))),      # empty layout, empty noise
        ("gm", 2, 1, 1, 1, ["F1", "Aq0"], ((2, 3),)),                    # non-square noise covariance refused
        ("gm", 2, 2, 1, 0, ["F1", "W", "r3,3"], (), "noq"),              # own covariance (2 comps: non-square, refused); defaults
        ("gm", 1, 1, 0, 0, ["F1", "C", "M", "S"], (), "default"),
        ("gauss", 1, 1, 0, 0, ["F1", "Aq0", "R2,1", "S", "r3"], ((1, 1),), "default"),
        ("gauss", 1, 2, 1, 1, ["F1", "Aq0", "Aq1", "C"], ((1, 1), (2, 2))),
        ("gauss", 1, 2, 1, 0, ["F1", "B3,2,1", "F9", "R2,1"], (), "noq"),  # Gaussian resized through GaussianMixture&: 3 components
        ("gauss", 1, 2, 0, 0, ["F1", "B3,2,0", "Aq0"], ((1, 1),), "two"),
        ("pset", 2, 1, 1, 1, ["F1", "D", "E", "R3,1,1"], ()),
        ("pset", 2, 2, 0, 0, ["F1", "Aq0", "P1,3,0,0,500", "Q2,2,1,0,900"], ((1, 1),), "noq"),
        ("pset", 1, 4, 0, 1, ["F1", "R2,0,1", "F9", "R1,0,1"], ()),      # quaternion split change: state kept, Gaussian part reset
        ("pset", 0, 2, 0, 0, ["Z", "F1", "P2,2,0,0,50", "r0,2", "Z"], ()),  # empty set: x += x is defined
        ("gm", 0, 2, 1, 1, ["F1", "C", "Aq0", "R2,2,1"], ((2, 3),)),     # no components: non-square augmentation refused
        # special member functions between objects that differ in noise augmentation (a hand-written move assignment that
        # forgets a descriptor): g augmented, then g = GaussianMixture(...); r = a + b for augmented a, b and an unrelated r;
        # h = augmented(belief, Q), then augmented again; the same for a Gaussian; self-assignment; assignment between an
        # object and an augmented / resized copy of itself
        ("gm", 2, 1, 1, 0, ["Aq0", "t0,3,2,1,1,-1"], ((2, 2),)),
        ("pset", 2, 2, 1, 0, ["F1", "Aq0", "@1", "F500", "Aq1", "p2,0,1", "@0", "@1"], ((2, 2), (2, 2)), "full", None, ((1, 2, 1, 0), (1, 1, 0, 0))),
        ("gm", 2, 2, 0, 0, ["F1", "@1", "f1,0,q0", "Aq1", "@0"], ((2, 2), (1, 1)), "full", None, ((4, 3, 0, 0),)),
        ("gauss", 1, 2, 0, 0, ["Aq0", "t0,1,3,0,0,-1"], ((2, 2),)),
        ("gauss", 1, 2, 1, 1, ["F1", "Aq0", "@1", "v1,0", "c0,1", "s0,0"], ((1, 1),), "full", None, ((1, 1, 0, 0),)),
        ("gm", 3, 1, 1, 1, ["F1", "Aq0", "s0,0", "f0,0,q1", "g0,0,2,2,1", "a0,0,q2", "b0,0,4,2,1"], ((1, 1), (2, 2), (1, 1))),
        ("gm", 2, 1, 0, 0, ["F1", "Aq0", "@1", "F900", "v1,0", "x0,2,1,1,0", "y1,2,1,1,0,50", "m0,1"], ((1, 1),), "full", None, ((1, 3, 1, 1),)),
        ("pset", 2, 2, 0, 0, ["F1", "@1", "F500", "Aq0", "@0", "Aq1", "u0,1", "w1,0,0", "m2,1", "s1,2", "v0,2"], ((1, 1), (1, 1)), "full", None, ((1, 2, 0, 0), (3, 1, 1, 1))),
        # writes through the non-const element / block accessors, before and after augmentations (state and noise parts)
        ("gm", 3, 2, 1, 1, ["G1", "Aq0", "H50", "Aq1", "G900"], ((1, 1), (2, 2))),
        ("pset", 2, 1, 1, 0, ["H1", "Aq0", "G77", "Aq1", "Aq2", "H500"], ((2, 2), (1, 1), (1, 1))),
        ("gauss", 1, 2, 1, 1, ["G1", "Aq0", "H9", "B2,2,1", "G5", "H7"], ((1, 1),)),
        # outside the premises: library must fail where the model says undefined
        ("gm", 0, 2, 0, 0, ["Aq0"], ((1, 1),), "full", "aug0"),          # unsigned components - 1
        ("pset", 0, 1, 1, 0, ["F1", "Aq0"], ((2, 2),), "full", "aug0"),
        ("pset", 2, 2, 0, 0, ["F1", "Z"], (), "full", "selfconcat"),     # x += x
        ("pset", 2, 2, 0, 0, ["F1", "P1,3,0,0,50"], (), "full", "mismatch"),
        ("pset", 2, 2, 1, 1, ["F1", "Q2,6,0,1,50"], (), "full", "mismatch"),   # same dim, other dim_covariance
        ("gm", 1, 2, 0, 0, ["F1", "W"], (), "full", "selfaug"),          # dangling Ref (ASan only)
        ("gauss", 1, 1, 1, 1, ["F1", "W"], (), "full", "selfaug"),
        ("pset", 1, 2, 0, 0, ["F1", "W"], (), "full", "selfaug"),
    ]
    out = []
    for i, t in enumerate(L):
        out.append(mkc(i, *t[:6], qs=t[6], ctor=t[7] if len(t) > 7 else "full", outside=t[8] if len(t) > 8 else None,
                       pool=t[9] if len(t) > 9 else ()))
    return out


def generate(rng, tier):
    COUNTERS.clear()
    cases = []
    for k in range(COUNTS[tier]):
        kind = rng.choice(["gm"] * 4 + ["gauss"] * 2 + ["pset"] * 5)
        cases.append(random_case(rng, k, tier, kind))
    for k in range(POOL_COUNTS[tier]):
        kind = rng.choice(["gm"] * 4 + ["gauss"] * 3 + ["pset"] * 5)
        cases.append(pooled_case(rng, "k%d" % k, tier, kind))
    cases += exhaustive(tier)
    cases += pool_exhaustive(tier)
    # shortest sequences first: the first case violating a clause is the one written as replay; the cases that end
    # with an operation on which the library is expected to die come last (each one restarts the harness)
    cases.sort(key=lambda c: int(c.meta.get("len", 0)))
    cp = corpus()
    inside = [c for c in cp + cases if not c.meta.get("outside")]
    outside = [c for c in cp + cases if c.meta.get("outside")]
    return inside + outside


def search_cases(rng):
    """The widened search (anchored sources edited / correspondence broken): long sequences, pools, pairs of special member operations."""
    cases = []
    for k in range(1100):
        cases.append(random_case(rng, "r%d" % k, "thorough", rng.choice(["gm"] * 4 + ["gauss"] * 2 + ["pset"] * 5)))
    for k in range(1500):
        cases.append(pooled_case(rng, "q%d" % k, "thorough", rng.choice(["gm"] * 4 + ["gauss"] * 3 + ["pset"] * 5)))
    cases += rng.sample([c for c in pool_exhaustive("thorough") if c.meta.get("exh") == "p2"], 400)
    cases.sort(key=lambda c: int(c.meta.get("len", 0)))
    return [c for c in cases if not c.meta.get("outside")] + [c for c in cases if c.meta.get("outside")]


def nontrivial(c):
    w = c.meta.get("word", "")
    if len([x for x in w if x not in "FGH@"]) >= 2:
        return (c.kind, c.meta["c"], c.meta["l"], c.meta["ci"], c.meta["q"], w)
    return None


def histogram(cases):
    kinds, ops, lens, ctors, outs = {}, {}, {}, {}, {}
    for c in cases:
        kinds[c.kind] = kinds.get(c.kind, 0) + 1
        ctors[c.meta.get("ctor", "full")] = ctors.get(c.meta.get("ctor", "full"), 0) + 1
        if c.meta.get("outside"):
            outs[c.meta["outside"]] = outs.get(c.meta["outside"], 0) + 1
        for x in c.meta.get("word", ""):
            ops[x] = ops.get(x, 0) + 1
        b = min(int(c.meta.get("len", 0)) // 10 * 10, 60)
        lens["%d-%d" % (b, b + 9)] = lens.get("%d-%d" % (b, b + 9), 0) + 1
    return {"kind": kinds, "operation": ops, "length": lens, "constructor": ctors, "outside_endings_generated": outs,
            "oracle_counters_summed_over_variants": dict(COUNTERS)}


# ------------------------------------------------------------------ comparison
INTS = ["components", "quat", "dcc", "dim", "dl", "dc", "dn", "dcov", "ret", "slot"]
PARTS = ["smean", "nmean", "scov", "ncov"]
MATS = {"gm": ["mean", "cov", "w", "amean", "acov", "aw", "emean", "ecov"] + PARTS,
        "gauss": ["mean", "cov", "w", "amean", "acov", "aw", "emean", "ecov", "gmean", "gcov", "gemean", "gecov"] + PARTS,
        "pset": ["mean", "cov", "w", "amean", "acov", "aw", "emean", "ecov", "state", "astate", "estate"] + PARTS + ["sstate", "nstate"]}


def steps(c):
    return len(c.get("ops")) if c.has("ops") else 0


def same(a, b, mask_nan_of_b=False):
    a, b = np.asarray(a, dtype=float), np.asarray(b, dtype=float)
    if a.shape != b.shape:
        return False
    with np.errstate(invalid="ignore"):
        eq = (a == b) | (np.isnan(a) & np.isnan(b))
        if mask_nan_of_b:
            eq = eq | np.isnan(b)
    return bool(np.all(eq))


def last_step(c, impl, model):
    """Last step both sides executed, and the bookkeeping of an 'outside' ending."""
    last = steps(c)
    und = model.get("undefined_at") if model is not None else None
    if und is not None:
        last = min(last, und - 1)
    for key in ("stopped", "skipped"):
        v = impl.get(key)
        if v is not None:
            last = min(last, v if key == "stopped" else v - 1)
    return last, und


def compare(c, impl, model):
    d = []
    stopped = impl.get("stopped")
    last, und = last_step(c, impl, model)
    skipped = impl.get("skipped")
    if und is not None and skipped is not None and skipped != und:
        d.append("the model says operation %d is undefined, the harness skipped operation %s" % (und, skipped))
    if und is None and skipped is not None:
        d.append("the harness treated operation %s as outside the premises, the model says it is defined" % skipped)
    for k in range(last + 1):
        if k > 0 and model.get("%d.defined" % k) != 1:
            d.append("%d.defined: model=%s" % (k, model.get("%d.defined" % k)))
        for f in INTS + ["model_consistent"]:
            name = "%d.%s" % (k, f)
            if f == "model_consistent":
                if c.kind == "pset":
                    name = "%d.model_ps_consistent" % k
                if model.get(name) != 1:
                    d.append("%s: the model's own invariant evaluates to %s" % (name, model.get(name)))
                continue
            if impl.get(name) != model.get(name):
                d.append("%s: impl=%s model=%s" % (name, impl.get(name), model.get(name)))
        for f in MATS[c.kind]:
            name = "%d.%s" % (k, f)
            if not impl.has(name):
                if stopped == k and f not in ("mean", "cov", "w", "state"):
                    continue
                d.append("%s: missing in the implementation's output" % name); continue
            if not model.has(name):
                d.append("%s: missing in the model's output" % name); continue
            a, b = impl.get(name), model.get(name)
            if a.shape != b.shape:
                d.append("%s: shape impl=%s model=%s" % (name, a.shape, b.shape))
            elif not same(a, b, mask_nan_of_b=True):
                with np.errstate(invalid="ignore"):
                    bad = np.argwhere(~((a == b) | np.isnan(b)))
                i, j = bad[0]
                d.append("%s: %d cell(s) differ, first (%d,%d): impl=%r model=%r" % (name, len(bad), i, j, float(a[i, j]), float(b[i, j])))
        if c.kind == "gauss":
            name = "%d.gweight" % k
            a, b = impl.get(name), model.get(name)
            if a is None or b is None or not same([[a]], [[b]], True):
                d.append("%s: impl=%r model=%r" % (name, a, b))
        if len(d) > 8:
            break
    if stopped is not None:
        d.append("the implementation's accessors would leave the storage after step %s" % stopped)
    return d


# ------------------------------------------------------------------ outside operations: the library must fail too
ENTRY = {"A": "GaussianMixture::augmentWithNoise", "W": "GaussianMixture::augmentWithNoise", "P": "ParticleSet::operator+=",
         "Z": "ParticleSet::operator+=", "Q": "operator+(ParticleSet,ParticleSet)"}


def on_crash(c, info, model):
    """An Eigen assertion / sanitizer report is the expected outcome exactly when the model says the operation is undefined."""
    und = model.get("undefined_at") if model is not None else None
    kind = info.get("kind")
    if und is None:
        return None                      # the model says every operation is defined: a failure of the library is a violation
    tok = c.get("ops")[und - 1]
    se = info.get("stderr", "")
    if kind in ("asan", "ubsan"):
        # sanitizer reports are long and the runner keeps their tail only: the harness's announcement is cut off
        pass
    elif "BFL_VERIF_EXPECT outside step=%d " % und not in se:
        return None                      # it died before reaching the operation the model marks undefined
    count("outside_failed_as_predicted")
    count("outside_failed_as_predicted:%s(%s)" % (c.meta.get("outside", tok[0]), kind))
    return []


# ------------------------------------------------------------------ the property evaluated on the implementation
OPTYPE = {"G": "fill-elementwise", "H": "fill-blockwise", "F": "fill", "C": "copy", "M": "move", "S": "assign", "R": "resize", "r": "resize-default-dc", "B": "resize-via-base",
          "A": "augment", "W": "augment-self", "P": "concat", "Q": "plus", "D": "concat-self-copy", "E": "plus-self",
          "Z": "concat-aliased",
          "@": "look", "c": "copy-construct", "m": "move-construct", "s": "copy-assign", "v": "move-assign",
          "t": "assign-temporary", "n": "construct-temporary", "f": "assign-augmented-result", "a": "assign-augmented-copy",
          "g": "assign-resized-result", "b": "assign-resized-copy", "p": "assign-sum", "w": "construct-sum", "u": "concat-slot",
          "x": "assign-from-gaussian", "y": "assign-from-particleset"}


def optype(tok):
    if tok[0] == "s":
        v = tok[1:].split(",")
        if v[0] == v[1]:
            return "self-assign"
    return OPTYPE[tok[0]]


def blockfill(r, cc, b0):
    return np.array([[b0 + j * r + i for j in range(cc)] for i in range(r)], dtype=float).reshape(r, cc)


def fresh_obj(kind, c2, l2, ci2, q2, b=-1):
    """Descriptors and storage of a freshly constructed (b < 0) or constructed-and-filled object, as the harness builds it."""
    if kind == "gauss":
        c2 = 1
    dcc = 4 if q2 else 1
    dim = l2 + ci2 * dcc
    dcv = l2 + ci2 * (3 if q2 else 1)
    o = {"components": c2, "quat": 1 if q2 else 0, "dcc": dcc, "dim": dim, "dl": l2, "dc": ci2, "dn": 0, "dcov": dcv}
    if b < 0:
        o.update(mean=np.zeros((dim, c2)), cov=np.zeros((dcv, dcv * c2)),
                 w=np.full((c2, 1), 1.0 / c2) if c2 > 0 else np.zeros((0, 1)), state=np.zeros((dim, c2)))
        return o
    o["mean"] = blockfill(dim, c2, b); b += dim * c2
    o["cov"] = blockfill(dcv, dcv * c2, b); b += dcv * dcv * c2
    o["w"] = blockfill(c2, 1, b); b += c2
    o["state"] = blockfill(dim, c2, b)
    return o


def fresh_rhs(tok):
    """Storage of the fresh operand of P/Q: constructor + fill, as the harness builds it."""
    c2, l2, ci2, q2, b = [int(x) for x in tok[1:].split(",")]
    return fresh_obj("pset", c2, l2, ci2, q2, b)


def resize_request(kind, tok):
    if tok[0] in "gb":
        rq = [int(x) for x in tok[1:].split(",")][2:]
        if kind == "gauss":
            rq[0] = 1
        return rq
    rq = [int(x) for x in tok[1:].split(",")]
    if tok[0] == "r":
        rq = rq + [0]
    if kind == "gauss" and tok[0] != "B":
        rq = [1] + rq
    return rq


DESC = ("components", "quat", "dcc", "dim", "dl", "dc", "dn", "dcov")


def pool_layouts(c):
    lays = [(int(c.meta["c"]) if c.kind != "gauss" else 1, int(c.meta["l"]), int(c.meta["ci"]), int(c.meta["q"]))]
    for t in (c.get("pool") if c.has("pool") else []):
        v = [int(x) for x in t.split(",")]
        lays.append((1 if c.kind == "gauss" else v[0], v[1], v[2], v[3]))
    return lays


def oracle(c, impl, model):
    v = []
    kind = c.kind
    ops = c.get("ops") if c.has("ops") else []
    G = lambda k, f: impl.get("%d.%s" % (k, f))
    lays = pool_layouts(c)

    def D(k):
        d = {f: G(k, f) for f in DESC}
        d.update(mean=G(k, "mean"), cov=G(k, "cov"), w=G(k, "w"), state=G(k, "state") if kind == "pset" else None)
        return d

    def add(k, clause, detail):
        op = "ctor" if k == 0 else optype(ops[k - 1])
        v.append(("C11:%s:%s:%s" % (kind, op, clause), "step %d: %s" % (k, detail)))

    def same_obj(a, b):
        return (all(a[f] == b[f] for f in DESC) and same(a["mean"], b["mean"]) and same(a["cov"], b["cov"]) and same(a["w"], b["w"])
                and (kind != "pset" or same(a["state"], b["state"])))

    def what_differs(a, b):
        out = ["%s %s (source %s)" % (f, a[f], b[f]) for f in DESC if a[f] != b[f]]
        out += [f for f in ("mean", "cov", "w") + (("state",) if kind == "pset" else ()) if not same(a[f], b[f])]
        return ", ".join(out)

    last, und = last_step(c, impl, model)
    skipped = impl.get("skipped")
    if skipped is not None:
        if und == skipped:
            count("outside_skipped_in_a_build_that_cannot_detect_it:%s" % c.meta.get("outside", "?"))
        else:
            add(skipped, "harness-outside-but-model-defined", "the harness refused an operation the model defines (model undefined_at=%s)" % und)
    if und is not None and skipped is None and G(und, "survived") is not None:
        # outside the property's quantifier: a library that accepts the operation is as fine as one that fails; only counted
        count("outside_accepted")
        count("outside_accepted:%s" % c.meta.get("outside", ops[und - 1][0]))
    via_base = {}
    lastdump = {}                 # slot -> the step at which it was last printed (no later operation wrote to it)
    for k in range(last + 1):
        if G(k, "components") is None:
            v.append(("C11:%s:no-output" % kind, "step %d missing" % k)); break
        tok = ops[k - 1] if k > 0 else None
        slot = G(k, "slot") or 0
        n, quat, dcc, dim, dl, dc, dn, dcv = [G(k, f) for f in DESC]
        mean, cov, w = G(k, "mean"), G(k, "cov"), G(k, "w")
        if tok and tok[0] == "B":
            via_base[slot] = True
        elif tok and tok[0] in "Rr":
            via_base[slot] = False
        elif tok and tok[0] in "cmsv":
            via_base[slot] = via_base.get(int(tok[1:].split(",")[1]), False)
        elif tok and tok[0] in "fagb":
            via_base[slot] = via_base.get(int(tok[1:].split(",")[1]), False) and tok[0] in "fa"
        elif tok and tok[0] in "tn":
            via_base[slot] = False
        # --- Consistent
        if dcc != (4 if quat else 1):
            add(k, "dcc", "dim_circular_component=%d with use_quaternion=%d" % (dcc, quat))
        if dim != dl + dc * dcc + dn:
            add(k, "dim", "dim=%d != %d + %d*%d + %d" % (dim, dl, dc, dcc, dn))
        if dcv != dl + dc * (3 if quat else 1) + dn:
            add(k, "dcov", "dim_covariance=%d != %d + %d*%d + %d" % (dcv, dl, dc, 3 if quat else 1, dn))
        if mean.shape != (dim, n):
            add(k, "mean-shape", "mean_ is %dx%d, descriptors say %dx%d" % (mean.shape + (dim, n)))
        if cov.shape != (dcv, dcv * n):
            add(k, "cov-shape", "covariance_ is %dx%d, descriptors say %dx%d" % (cov.shape + (dcv, dcv * n)))
        if w.shape != (n, 1):
            add(k, "weight-shape", "weight_ has %d entries for %d components" % (w.shape[0], n))
        st = G(k, "state") if kind == "pset" else None
        if kind == "pset" and st.shape != (dim, n):
            add(k, "state-shape", "state_ is %dx%d, descriptors say %dx%d" % (st.shape + (dim, n)))
        if kind == "gauss" and n != 1:
            if via_base.get(slot):
                count("gaussian-with-%s-components-after-resize-through-GaussianMixture&" % ("0" if n == 0 else "several"))
            else:
                add(k, "gaussian-components", "a Gaussian reports %d components" % n)
        # --- accessors address exactly component i's block
        if G(k, "acc_oob") == 1 or (kind == "pset" and G(k, "state_oob") == 1):
            add(k, "state-accessor-out-of-range" if G(k, "acc_oob") == 0 else "accessor-out-of-range",
                "an accessor for a component < components would leave the storage")
            break
        if not same(G(k, "amean"), mean[:, :n]) or not same(G(k, "emean"), mean[:dim, :n]):
            add(k, "accessor-mean", "mean(i) / mean(i,j) do not return column i of mean_")
        if not same(G(k, "acov"), cov[:, :dcv * n]) or not same(G(k, "ecov"), cov[:dcv, :dcv * n]):
            add(k, "accessor-covariance", "covariance(i) / covariance(i,j,k) do not return block i of covariance_")
        if not same(G(k, "aw"), w[:n]):
            add(k, "accessor-weight", "weight(i) does not return entry i of weight_")
        for fld in ("acc_bad", "sacc_bad", "gacc_bad"):
            names = G(k, fld)
            if names is not None and names != ["-"]:
                add(k, "accessor-overload:" + "+".join(names), "these accessor overloads do not address the storage cells of their non-const / block counterpart")
        if kind == "pset" and (not same(G(k, "astate"), st[:, :n]) or not same(G(k, "estate"), st[:dim, :n])):
            add(k, "state-accessor", "state(i) / state(i,j) do not return column i of state_")
        if kind == "gauss":
            gm_, gc_, ge_, gv_ = G(k, "gmean"), G(k, "gcov"), G(k, "gemean"), G(k, "gecov")
            ok = (gm_ is not None and n >= 1 and same(gm_, mean[:, :1]) and same(ge_, mean[:dim, :1]) and same([[G(k, "gweight")]], w[:1])
                  and same(gv_, cov[:dcv, :dcv]))
            # Gaussian::covariance() is the whole storage: component 0's block for the one-component object it is meant to be
            ok = ok and same(gc_, cov)
            if n >= 1 and not ok:
                add(k, "accessor-gaussian", "Gaussian::mean()/mean(i)/covariance()/covariance(i,j)/weight() do not return component 0 / the covariance storage")
        # --- the parts addressed through dim_noise: state part (head / top-left), noise part (tail / bottom-right)
        if G(k, "parts_oob") == 1:
            add(k, "noise-part-out-of-range", "dim_noise=%d does not fit dim=%d / dim_covariance=%d / the storage" % (dn, dim, dcv))
        elif G(k, "smean") is not None and mean.shape == (dim, n) and cov.shape == (dcv, dcv * n):
            sd, sv = dim - dn, dcv - dn
            okp = same(G(k, "smean"), mean[:sd, :]) and same(G(k, "nmean"), mean[sd:, :])
            for i in range(n):
                Bi = cov[:, i * dcv:(i + 1) * dcv]
                okp = okp and same(G(k, "scov")[:, i * sv:(i + 1) * sv], Bi[:sv, :sv]) and same(G(k, "ncov")[:, i * dn:(i + 1) * dn], Bi[sv:, sv:])
            if kind == "pset" and G(k, "sstate") is not None and st.shape == (dim, n):
                okp = okp and same(G(k, "sstate"), st[:sd, :]) and same(G(k, "nstate"), st[sd:, :])
            if not okp:
                add(k, "accessor-parts", "head/tail of mean(i) / state(i), corners of covariance(i) by dim_noise are not the state / noise part of the storage")
        # --- content clauses
        now = D(k)
        t = tok[0] if tok else None
        args = tok[1:].split(",") if tok else []
        # the object the clause compares with: the same slot before the operation, or the source of a construction / assignment
        prev = None
        if k == 0 or (t == "@" and slot not in lastdump):
            # a constructor call: uniform weights, zero storage, the requested layout
            lay = lays[slot] if slot < len(lays) else None
            if n > 0 and not same(w, np.full((n, 1), 1.0 / n)):
                add(k, "uniform-weights", "a new mixture has weights %s" % w.ravel()[:4])
            if np.any(mean != 0) or np.any(cov != 0) or (st is not None and np.any(st != 0)):
                add(k, "new-storage-not-zero", "freshly constructed storage is not zero")
            if lay is not None and (n, dl, dc, quat, dn) != lay + (0,):
                add(k, "constructor-arguments", "constructed (%s) reports components=%d dl=%d dc=%d quat=%d dn=%d" % (lay, n, dl, dc, quat, dn))
            lastdump[slot] = k
            continue
        if t in "cmsv":
            tgt, src = int(args[0]), int(args[1])
            if src in lastdump:
                S_ = D(lastdump[src])
                if not same_obj(now, S_):
                    add(k, "not-the-source", "the target of %s differs from its source (slot %d as printed at step %d): %s"
                        % (optype(tok), src, lastdump[src], what_differs(now, S_)))
                count("copy:%s:target-compared-with-source" % optype(tok))
            else:
                count("copy:source-never-printed(not-compared)")
            if G(k, "ret") != 1:
                add(k, "assignment-return", "operator= did not return *this")
            if t in "mv" and src != tgt:
                lastdump.pop(src, None)          # moved-from: valid but unspecified, not looked at any more
            lastdump[slot] = k
            continue
        if t in "tnxy":
            iv = [int(x) for x in args]
            if t == "x":
                want = fresh_obj("gauss", 1, iv[1], iv[2], iv[3])
            else:
                want = fresh_obj(kind, iv[1], iv[2], iv[3], iv[4], iv[5])
            if not same_obj(now, want):
                add(k, "not-the-temporary", "the target of %s differs from the temporary it was given: %s" % (optype(tok), what_differs(now, want)))
            if G(k, "ret") != 1:
                add(k, "assignment-return", "operator= did not return *this")
            lastdump[slot] = k
            continue
        if t == "@":
            P_ = D(lastdump[slot])
            if not same_obj(now, P_):
                add(k, "changed-behind-the-back", "slot %d differs from what it was when last written (step %d): %s; in between only other objects were operated on"
                    % (slot, lastdump[slot], what_differs(now, P_)))
            lastdump[slot] = k
            continue
        src = int(args[1]) if t in "fagbpw" else slot
        before = dict(lastdump)
        lastdump[slot] = k
        if src not in before:
            count("content:source-never-printed(not-compared)")
            continue
        P_ = D(before[src])
        pn, pdim, pdl, pdc, pdn, pdcv = [P_[f] for f in ("components", "dim", "dl", "dc", "dn", "dcov")]
        pmean, pcov, pw, pst = P_["mean"], P_["cov"], P_["w"], P_["state"]
        desc_same = all(now[f] == P_[f] for f in ("quat", "dcc", "dim", "dl", "dc", "dn", "dcov"))
        aug_ret = G(k, "ret")
        if t in "fa":
            # the function result: the noise covariance is accepted iff it is square
            qn = args[2]
            aug_ret = 1 if c.get(qn + ".r") == c.get(qn + ".c") else 0
            if G(k, "ret") != 1:
                add(k, "assignment-return", "operator= did not return *this")
        if t in "CMS" or (t in "AWfa" and aug_ret == 0) or t in "FGH":
            if not desc_same or n != pn:
                add(k, "descriptors-changed", "descriptors changed by %s" % optype(tok))
            if t not in "FGH" and not (same(mean, pmean) and same(cov, pcov) and same(w, pw) and (pst is None or same(st, pst))):
                add(k, "content-changed", "storage changed by %s" % optype(tok))
            if t in "GH" and mean.shape == (dim, n) and cov.shape == (dcv, dcv * n) and w.shape == (n, 1):
                # what was written through the per-component accessors is where the storage model says it is
                b0 = int(tok[1:])
                wm = blockfill(dim, n, b0); wc = blockfill(dcv, dcv * n, b0 + dim * n); ww = blockfill(n, 1, b0 + dim * n + dcv * dcv * n)
                okf = same(mean, wm) and same(cov, wc) and same(w, ww)
                if pst is not None and st.shape == (dim, n):
                    okf = okf and same(st, blockfill(dim, n, b0 + dim * n + dcv * dcv * n + n))
                if not okf:
                    add(k, "write-accessors", "values written through the non-const %s accessors of component i are not in component i's cells of the storage"
                        % ("element" if t == "G" else "block"))
                count("fill-through-accessors:%s:storage-checked" % ("element" if t == "G" else "block"))
        if t in "RrBgb":
            rc, rl, rci = resize_request(kind, tok)
            if (n, dl, dc) != (rc, rl, rci):
                add(k, "requested-layout", "resize(%d;%d,%d) left components=%d dl=%d dc=%d" % (rc, rl, rci, n, dl, dc))
            if (rl, rci) == (pdl, pdc) and rc == pn:
                if not (desc_same and same(mean, pmean) and same(cov, pcov) and same(w, pw) and (pst is None or same(st, pst))):
                    add(k, "same-layout-not-identity", "resize to the current layout changed the object")
            elif (rl, rci) == (pdl, pdc) and pdn == 0:
                m = min(n, pn)
                ok = (mean.shape[0] == pmean.shape[0] and cov.shape[0] == pcov.shape[0] and mean.shape[1] >= m and cov.shape[1] >= m * pdcv
                      and w.shape[0] >= m and same(mean[:, :m], pmean[:, :m]) and same(cov[:, :m * pdcv], pcov[:, :m * pdcv]) and same(w[:m], pw[:m]))
                if not ok:
                    add(k, "survivors-not-preserved", "changing only the component count %d -> %d lost data of a surviving component" % (pn, n))
                if pst is not None and not (st.shape[0] == pst.shape[0] and st.shape[1] >= m and same(st[:, :m], pst[:, :m])):
                    add(k, "state-survivors-not-preserved", "changing only the component count %d -> %d lost particle states" % (pn, n))
                count("resize:only-the-component-count:survivors-checked")
            elif (rl, rci) == (pdl, pdc):
                # an augmented mixture resized to its noise-free layout with another count: dim and dim_covariance shrink as
                # well, nothing is preserved (C11_resize_components_preserves_with_noise_refuted): counted, not a violation
                count("resize:augmented-mixture-to-noise-free-layout-with-other-count(outside-the-clause)")
                m = min(n, pn)
                if m > 0 and mean.shape == (pdim - pdn, n) and np.array_equal(mean[:, :m], pmean[:pdim - pdn, :m]):
                    count("resize:augmented...:non-noise-part-of-the-survivors-happens-to-be-kept")
            if t in "gb" and G(k, "ret") != 1:
                add(k, "assignment-return", "operator= did not return *this")
        if t in "AWfa" and aug_ret == 1:
            if t in "Afa":
                name = tok[1:] if t == "A" else args[2]
                r, qc = c.get(name + ".r"), c.get(name + ".c")
                Q = c.get(name) if r > 0 and qc > 0 else np.zeros((r, qc))
            else:
                Q = pcov; r, qc = pcov.shape
            if qc != r:
                add(k, "augment-nonsquare-accepted", "a %dx%d noise covariance was accepted" % (r, qc))
                continue
            if (n, dl, dc, dn, dim, dcv) != (pn, pdl, pdc, pdn + r, pdim + r, pdcv + r):
                add(k, "augment-descriptors", "after augmenting with %dx%d: components=%d dl=%d dc=%d dn=%d dim=%d dcov=%d (before: %d %d %d %d %d %d)"
                    % (r, r, n, dl, dc, dn, dim, dcv, pn, pdl, pdc, pdn, pdim, pdcv))
                continue
            if mean.shape != (pdim + r, pn) or cov.shape != (pdcv + r, (pdcv + r) * pn):
                continue        # already reported as a shape clause
            okm = same(mean[:pdim, :], pmean) and same(mean[pdim:, :], np.zeros((r, pn)))
            if not okm:
                add(k, "augment-mean", "means are not [m; 0]")
            for i in range(pn):
                B = cov[:, i * dcv:(i + 1) * dcv]
                want = np.zeros((dcv, dcv))
                want[:pdcv, :pdcv] = pcov[:, i * pdcv:(i + 1) * pdcv]
                want[pdcv:, pdcv:] = Q
                if not same(B, want):
                    add(k, "augment-covariance", "component %d of %d: covariance is not blockdiag(P, Q) (dn before %d, added %d)" % (i, pn, pdn, r))
                    break
            if not same(w, pw):
                add(k, "augment-weights", "weights changed")
            if pst is not None and st.shape == (pdim + r, pn) and not (same(st[:pdim, :], pst) and same(st[pdim:, :], np.zeros((r, pn)))):
                add(k, "state-augment", "particle states are not [x; 0]")
        if t in "AW" and G(k, "ret") == 0:
            shp = (c.get(tok[1:] + ".r"), c.get(tok[1:] + ".c")) if t == "A" else pcov.shape
            if shp[0] == shp[1]:
                add(k, "augment-square-refused", "a square %dx%d noise covariance was refused" % shp)
        if t in "PQDEZpwu":
            if t in "PQ":
                R = fresh_rhs(tok)
            elif t in "pwu":
                rs = int(args[2]) if t in "pw" else int(args[1])
                if rs not in before:
                    count("content:source-never-printed(not-compared)")
                    continue
                R = D(before[rs])          # the right operand as it was before this step (it may be the target itself)
            else:
                R = P_
            rn = R["components"]
            if not desc_same:
                add(k, "concat-descriptors", "layout descriptors changed by a concatenation")
            if n != pn + rn:
                add(k, "concat-components", "components=%d after concatenating %d and %d components" % (n, pn, rn))
            if mean.shape == (pdim, pn + rn) and cov.shape == (pdcv, pdcv * (pn + rn)) and w.shape == (pn + rn, 1) and st.shape == (pdim, pn + rn):
                ok = (same(mean, np.hstack([pmean, R["mean"]])) and same(cov, np.hstack([pcov, R["cov"]]))
                      and same(w, np.vstack([pw, R["w"]])) and same(st, np.hstack([pst, R["state"]])))
                if not ok:
                    add(k, "concat-content", "the result is not the components of both operands in order")
            else:
                add(k, "concat-storage", "storage after concatenating %d and %d components: mean %s cov %s w %s state %s" % (pn, rn, mean.shape, cov.shape, w.shape, st.shape))
            if G(k, "ret") != 1:
                add(k, "concat-return", "operator+= / operator= did not return *this")
    # report the first failing step only (later steps inherit the damage), at most two clauses of it
    seen, out, step0 = set(), [], None
    for s, dt in v:
        st_ = dt.split(":")[0]
        if step0 is None:
            step0 = st_
        if st_ != step0 or len(out) >= 2:
            break
        if s not in seen:
            seen.add(s); out.append((s, dt))
    return out
