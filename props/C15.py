"""C15 — Gaussian density utilities agree with their definition and with each other; log-sum-exp
(DESIGN.md §5 C15)."""
import sys
import math
import numpy as np
from vlib import caseio, gen, runner

ID = "C15"
WIDEN_DEFAULT = True
COQ_TARGETS = ["C15_Extract.vo", "C15_Proofs.vo", "C15_RProofs.vo", "C15_Transport.vo"]
EXTRACTED = "C15_model"
DRIVER = "drv_C15.ml"
HARNESS = "h_C15.cpp"
VARIANTS = {"quick": ["O1"], "thorough": ["O1", "asan"]}
AXIOMS_ALLOWED = runner.REAL_AXIOMS     # only the log-sum-exp theorems (over R) use them; the matrix theorems print "Closed"
CLOSED_THEOREMS = ["C15_det_lemma", "C15_capacitance_invertible", "C15_woodbury", "C15_blockdiag_entries", "C15_blockdiag_inverse",
                   "C15_blockdiag_det", "C15_uvr_det", "C15_uvr_eq_direct", "C15_uvr_eq_direct_per_block", "C15_uvr_eq_direct_shared",
                   "C15_sym_factor_assembled_spd", "C15_uvr_eq_direct_sym_factor",
                   "C15_uvr_capacitance_invertible", "C15_direct_logdet_guard", "C15_uvr_logdet_guard", "C15_uvr_det_R_guard",
                   "C15_uvr_logdet_guard_sym_factor", "C15_density_uvr_eq_direct", "C15_log_density_uvr_eq_direct_batch", "C15_density_uvr_exp", "C15_density_exp", "C15_batch_lengths", "C15_logdensity_def",
                   # C15_Transport.v: the executed list instance (Gauss-Jordan inverse/determinant) = the MathComp instance of the theorems
                   "C15_executed_uvr_is_theorem_model", "C15_executed_uvr_full_R_is_theorem_model", "C15_executed_uvr_shared_R_is_theorem_model",
                   "C15_executed_uvr_sym_factor_is_theorem_model", "C15_executed_uvr_is_direct_definition", "C15_executed_direct_is_theorem_model"]
REQUIRED_THEOREMS = CLOSED_THEOREMS + ["C15_lse_spec", "C15_lse_shift", "C15_lse_max_is_entry", "C15_lse_no_overflow", "C15_lse_neginf",
                                       "C15_lse_neginf_shift", "C15_lse_all_neginf_is_nan"]
COQ_PREFIXES = ["C15", "C19", "C01", "C02"]   # C15_ROps / C15_RProofs import the shared real instance ROps of C19_ROps.v; C15_Transport imports C01_/C02_Transport
RULE = ("a fixed corpus first (ties at the maximum, uniform log-weights of length 100, ties beside -inf, b = 0, k = 0, nearly singular R, four call histories on one shared / full R "
        "with the number of blocks going down, up, to one and back), then independent cases and CALL HISTORIES from one seeded stream, in a random order. "
        "All cases of a run are evaluated by one process, on one thread, in the order of the case file; plain arguments are passed in persistent buffers (same address when the shape is the same). "
        "uvr: num_blocks 1..4, block_size with d = num_blocks*block_size <= 8, batch 1..5, k 1..4, "
        "R shared (one block) or per block (SPD blocks, cond <= 1e5), V = U^T / W U^T (W symmetric) / general (S not symmetric, symmetric part PD) / zero, "
        "also (about 1 in 6) empty batch b = 0, k = 0 (U d x 0), and R nearly singular (block cond 1e2..1e6) with a well conditioned S and a general V (worst Woodbury cancellation); "
        "assembled S with cond <= 1e6, evaluation points near the mean and far away (thorough: 15% of the cases with d up to 12, up to 5 blocks, k up to 6). "
        "Units (half of the independent cases, 30% of the histories, and as a history step): S -> s S with the entries of R from 1e-8 to 1e8, U -> sqrt(s) t U, V -> sqrt(s)/t V with t over 8 orders, "
        "one unit per coordinate (S -> D S D, spread up to 1e3 per coordinate, reduced until cond S <= 1e6), U -> U E, V -> E^-1 V with a diagonal E over 4 orders; the tolerances are computed from the rescaled matrices "
        "(cond S, cond R, cond(I + V R^-1 U), sizes of the quadratic forms). "
        "A call history is 3..7 consecutive cases; each step keeps every argument of the previous call bit-identical except the named one: number of blocks with the same shared block / the same leading blocks (both directions), "
        "U and V, k, U only, V only, R only, R with its blocks rotated, mean, evaluation points, batch size (both directions, also 0), encoding of R (shared <-> the same block repeated in full), everything the same, units; "
        "every case calls, in a per-case order (12 orders), log-density and density, direct and UVR, with plain matrices, with blocks/segments of larger buffers and (log-densities) with an expression argument. "
        "Independent cases and the first case of a history also run the same four calls concurrently from 3 threads on different data of the same shapes (25 repetitions), compared bit for bit with the sequential results; "
        "the probe has threads of its own, so it is not part of the main thread's call history. "
        "lse: length 1..50, entries in [-1e4,1e4] "
        "(uniform / clustered at +-1e4 / equal / largest magnitude negative / maximum occurring 2..n times / ties beside -inf / Constant(n, -log n) / with -inf / all -inf), dyadic so that the shift is exact, "
        "also as row vector, strided row, matrix and expression argument, in 4 call orders; lse histories (3..6 calls): the same vector, a prefix, the same head with more entries, other entries of the same length, shifted, "
        "the maximum lowered (first entry unchanged), permuted; the same concurrency probe. "
        "A violation inside a history is replayed with the calls before it (the replay file holds the history). "
        "non-trivial = uvr with num_blocks >= 2 or shared encoding, lse with length >= 2; "
        "distinct by (d, block_size, k, encoding, V kind, batch>1, cond decade, magnitude of R / 1e4, history step kind) resp. (lse kind, length bucket, has -inf, history step kind)")
TRUSTED_BASE = ["Coq 8.16.1 kernel (coqc)",
                "matrix theorems (Woodbury, determinant lemma, block-diagonal inverse/determinant, UVR = direct, definitions): no axioms (MathComp 1.15; ln/exp/pi uninterpreted)",
                "log-sum-exp theorems: Coq Reals, the four standard axioms (sig_forall_dec, sig_not_dec, functional_extensionality_dep, classic)",
                "extraction (ExtrOcamlBasic only) and ocaml/float_ops.ml, ocaml/drv_C15.ml, ocaml/caseio.ml",
                "ListOps list instance of MatOps: proved (C15_Transport.v, ListGauss.v, ListOpsCorrect.v; no axioms) to return, over any real field and on well-formed lists, "
                "the values of the MathComp instance for log_density_uvr / density_uvr (R in full and as one shared block), log_density_mat / density_mat and the assembly of S, "
                "with every inverted matrix proved invertible from the SPD premises; what stays trusted is that the OCaml floats stand for the field (rounding). "
                "Its linv/ldet are additionally run against exact rational inverses/determinants for sizes 1..6 incl. row swaps (Example C15_gauss_jordan_exact_Q), "
                "and the oracle's spec values are also computed by numpy (slogdet/solve), independently of that routine",
                "cpp/h_C15.cpp harness (one process, one thread for the whole case file; std::thread for the re-entrancy probe); tolerances derived from the constructed conditioning (cond R, cond(I+V R^-1 U), cond S, size of the cancelling Woodbury terms)",
                "EOps (coq/C15_ROps.v): the extension of the reals by -inf with the IEEE meaning of + - < exp ln stated there (Bad = +inf/NaN, absorbing)",
                "numpy float64/longdouble reference values in the oracle",
                "correspondence is sampled: agreement is established on the generated cases only",
                "IEEE rounding is not modelled (theorems over an exact real field / R)"]
ASSUMPTIONS = ["Eigen inverse()/determinant() behave as matrix inverse/determinant up to rounding (checked against the model's Gauss-Jordan and numpy on every case)",
               "std::pow(x, n) for the integer block count is the n-fold product up to rounding (checked on every shared-R case)",
               "std::log/std::exp are the real ln/exp up to rounding; exp(-inf) = 0, -inf - finite = -inf (IEEE), checked on the -inf cases",
               "the utilities are pure functions: a call's value does not depend on earlier calls or on calls running in other threads (checked: call histories, concurrency probe)",
               "densities are compared with a relative tolerance plus the absolute floor DBL_MIN: Eigen's vectorised exp returns 5.56e-309 instead of 0 below -709.4"]

COUNTS = {"quick": (500, 250), "thorough": (9000, 5000)}
EPS = 2.220446049250313e-16
# densities below the smallest normal double are indistinguishable from 0: Eigen's vectorised exp saturates at
# exp(-709.436) = 5.56e-309 instead of returning 0 (its scalar tail lanes return 0), so the absolute floor is DBL_MIN
DBL_MIN = 2.2250738585072014e-308


# ----------------------------------------------------------------------------- generators

def blockdiag(blocks):
    n = sum(b.shape[0] for b in blocks)
    out = np.zeros((n, n)); o = 0
    for b in blocks:
        s = b.shape[0]; out[o:o + s, o:o + s] = b; o += s
    return out


def mx0(a):
    """max |a| with the empty maximum = 0 (batch 0, k = 0)"""
    a = np.asarray(a, dtype=float)
    return float(np.max(np.abs(a))) if a.size else 0.0


def draw_uvr(rng, big=False, force=None, enc=None, nb0=None):
    """One random factorised covariance with evaluation points, as a state dict (see mk_uvr).
    force: None, "b0" (empty batch), "k0" (U d x 0, V 0 x d), "nearsing" (R nearly singular, S well conditioned)"""
    if big:       # beyond the stated ranges (thorough tier only): d up to 12, k up to 6
        nb = rng.randint(1, 5); bs = rng.randint(1, 12 // nb); k = rng.randint(1, 6)
    else:
        nb = rng.randint(1, 4); bs = rng.randint(1, 8 // nb); k = rng.randint(1, 4)
    if nb0 is not None:
        nb = nb0; bs = rng.randint(1, (12 if big else 8) // nb)
    kind = force if force is not None else rng.choice([None] * 20 + ["b0", "k0", "nearsing", "nearsing"])
    if kind == "nearsing" and bs < 2:
        bs = 2
    d = nb * bs
    b = 0 if kind == "b0" else rng.randint(1, 5)
    if kind == "k0":
        k = 0
    enc = enc if enc is not None else rng.choice(["shared", "perblock"])
    lo = 10 ** rng.uniform(-2, 1)
    cmax = rng.choice([1, 3, 5])
    W = None
    if kind == "nearsing":
        # every block has one eigenvalue eps << lo along q_t; U V fills exactly those directions, so that
        # S = U V + R is well conditioned although R is nearly singular (worst cancellation in the Woodbury form)
        def nsblock():
            q = gen.orthogonal(rng, bs)
            ev = np.array([lo * 10 ** -rng.uniform(2, 5)] + [lo * 10 ** rng.uniform(0, 1) for _ in range(bs - 1)])
            B = (q * ev) @ q.T
            return (B + B.T) / 2, q[:, 0]
        if enc == "shared":
            B, q0 = nsblock(); blocks, qs = [B] * nb, [q0] * nb
        else:
            pr = [nsblock() for _ in range(nb)]
            blocks, qs = [p[0] for p in pr], [p[1] for p in pr]
        k = nb
        U = np.zeros((d, k))
        for t in range(nb):
            U[t * bs:(t + 1) * bs, t] = math.sqrt(lo) * 10 ** rng.uniform(0, 0.5) * qs[t]
        V = U.T * (1 + 0.3 * gen.matrix(rng, k, d)) + 0.05 * math.sqrt(lo) * gen.matrix(rng, k, d)
        vkind = "nearsing"
    else:
        if enc == "shared":
            B, _ = gen.spd(rng, bs, 10 ** rng.uniform(0, cmax), lo)
            blocks = [B] * nb
        else:
            blocks = [gen.spd(rng, bs, 10 ** rng.uniform(0, cmax), lo * 10 ** rng.uniform(-0.5, 0.5))[0] for _ in range(nb)]
        vkind = rng.choice(["UT", "UT", "WUT", "general", "general", "zero"]) if k > 0 else "k0"
        uscale = math.sqrt(lo) * 10 ** rng.uniform(-1, 1.5)
        U = gen.matrix(rng, d, k, uscale).reshape(d, k)
        if vkind == "UT":
            V = U.T.copy()
        elif vkind == "WUT":
            W = gen.matrix(rng, k, k); W = (W + W.T) / 2
            V = W @ U.T
        elif vkind == "general":
            V = gen.matrix(rng, k, d, uscale)
        elif vkind == "k0":
            V = np.zeros((0, d))
        else:
            V = np.zeros((k, d))
            if rng.random() < 0.5:
                V = gen.matrix(rng, k, d, uscale); U = np.zeros((d, k))
    st = {"enc": enc, "bs": bs, "nb": nb, "k": k, "b": b, "blocks": blocks, "U": U, "V": V, "vkind": vkind, "lo": lo,
          "kind": kind, "far": 1, "scaling": "none"}
    if not settle(st):
        return None
    st["mean"] = gen.matrix(rng, d, 1, 3.0)
    st["far"] = 10 ** rng.choice([0, 0, 0, 1, 2]) if kind != "nearsing" else 1
    st["inp"] = points(rng, st, b)
    if b > 0 and rng.random() < 0.1:
        st["inp"][:, 0] = st["mean"][:, 0]          # a point exactly at the mean
    return st


def assembled(st):
    return st["U"] @ st["V"] + blockdiag(st["blocks"])


def settle(st):
    """keep the symmetric part of S positive definite (then det S > 0) by shrinking U V if needed"""
    Rd = blockdiag(st["blocks"])
    lo = min(float(np.linalg.eigvalsh(B).min()) for B in st["blocks"])
    for _ in range(6):
        S = st["U"] @ st["V"] + Rd
        if np.linalg.eigvalsh((S + S.T) / 2).min() > (0.05 * lo if st["kind"] != "nearsing" else 0.0):
            return True
        if st["kind"] == "nearsing":
            return True         # judged by mk_uvr
        st["U"] = st["U"] / 2; st["V"] = st["V"] / 2
    return False


def points(rng, st, b, mean=None):
    """evaluation points: S^(1/2)-scaled around the mean, some far away"""
    mean = st["mean"] if mean is None else mean
    S = assembled(st)
    d = S.shape[0]
    L = np.linalg.cholesky((S + S.T) / 2)
    return (mean + st["far"] * (L @ gen.matrix(rng, d, b).reshape(d, b))).reshape(d, b)


def rescale(rng, st):
    """Physical units: the same Gaussian in other units.  kinds: "global" (S -> s S with s over 16 orders of magnitude,
    U -> sqrt(s) t U, V -> sqrt(s)/t V with t over 8 orders: the factors U, V are far apart in size although U V is not),
    "coord" (S -> D S D with a diagonal D, one unit per coordinate of a block; the same D in every block so that a
    shared block stays shared; the spread is reduced until cond S <= 1e6), "kspace" (U -> U E, V -> E^-1 V, diagonal E:
    S unchanged, I + V R^-1 U replaced by a similar matrix).  Points and mean follow the units.  The tolerances are
    computed by mk_uvr from the rescaled matrices."""
    how = rng.choice(["global", "global", "coord", "coord", "kspace", "global+coord"])
    d, k, bs, nb = st["nb"] * st["bs"], st["k"], st["bs"], st["nb"]
    out = dict(st); out["scaling"] = how
    if "global" in how:
        hi = max(float(np.abs(B).max()) for B in st["blocks"])
        low = min(float(np.linalg.eigvalsh(B).min()) for B in st["blocks"])
        e = rng.uniform(-8 - math.log10(low), 8 - math.log10(hi)) if rng.random() < 0.7 else rng.choice([-8 - math.log10(low), 8 - math.log10(hi)])
        s = 10.0 ** e
        t = 10.0 ** rng.uniform(-4, 4)
        rs = math.sqrt(s)
        out["blocks"] = share([B * s for B in st["blocks"]], st)
        out["U"], out["V"] = st["U"] * (rs * t), st["V"] * (rs / t)
        out["mean"], out["inp"] = st["mean"] * rs, st["inp"] * rs
        st = out; out = dict(st)
    if "coord" in how:
        spread = rng.choice([0.5, 1.0, 1.5, 3.0])
        for _ in range(8):
            if st["enc"] == "shared" or rng.random() < 0.3:
                dv = np.tile(10.0 ** np.array([rng.uniform(-spread, spread) for _ in range(bs)]), nb)
            else:
                dv = 10.0 ** np.array([rng.uniform(-spread, spread) for _ in range(d)])
            D = np.diag(dv)
            S2 = D @ assembled(st) @ D
            if np.linalg.cond(S2) <= 0.9e6:
                break
            spread /= 2
        else:
            dv = np.ones(d); D = np.eye(d)
        blocks = [np.diag(dv[i * bs:(i + 1) * bs]) @ B @ np.diag(dv[i * bs:(i + 1) * bs]) for i, B in enumerate(st["blocks"])]
        out["blocks"] = share([(B + B.T) / 2 for B in blocks], st)
        out["U"], out["V"] = D @ st["U"], st["V"] @ D
        out["mean"], out["inp"] = D @ st["mean"], D @ st["inp"]
    if how == "kspace" and k > 0:
        ev = 10.0 ** np.array([rng.uniform(-2, 2) for _ in range(k)]) * 10.0 ** rng.uniform(-4, 4)
        out["U"], out["V"] = st["U"] * ev, (st["V"].T / ev).T
    return out


def share(blocks, st):
    """a shared block stays ONE array (bit-identical blocks)"""
    return [blocks[0]] * len(blocks) if st["enc"] == "shared" else blocks


def mk_uvr(cid, st, extra=None):
    """The case of a state, with the conditioning data the tolerances are derived from; None when the assembled S is
    outside the quantifier (cond S > 1e6, symmetric part not positive definite) or the case class cannot be judged."""
    enc, bs, nb, k, blocks, U, V, mean, inp = (st[n] for n in ("enc", "bs", "nb", "k", "blocks", "U", "V", "mean", "inp"))
    kind, vkind, far = st["kind"], st["vkind"], st["far"]
    d, b = nb * bs, inp.shape[1]
    R = blocks[0] if enc == "shared" else np.hstack(blocks)
    Rd = blockdiag(blocks)
    S = U @ V + Rd
    if not np.all(np.isfinite(S)) or np.linalg.eigvalsh((S + S.T) / 2).min() <= 0:
        return None
    condS = float(np.linalg.cond(S))
    if not (condS <= 1e6 and np.linalg.slogdet(S)[0] > 0):
        return None
    condR = max(float(np.linalg.cond(B)) for B in blocks)
    if kind == "nearsing" and not condR > 30 * condS:
        return None
    Ri = np.linalg.inv(Rd)
    Mc = np.eye(k) + V @ Ri @ U
    condM = float(np.linalg.cond(Mc)) if k > 0 else 1.0
    if not condM <= 1e10:
        return None
    diff = inp - mean
    q1 = mx0(np.einsum("ij,ij->j", diff, Ri @ diff))
    Wd = Ri @ U @ np.linalg.solve(Mc, V @ Ri) if k > 0 else np.zeros((d, d))
    q2 = mx0(np.einsum("ij,ij->j", diff, Wd @ diff))
    q = mx0(np.einsum("ij,ij->j", diff, np.linalg.solve(S, diff)))
    # norm-wise sizes (for a non-symmetric S the quadratic forms can be much smaller than their terms)
    qn = mx0(np.sum(diff * diff, axis=0)) * float(np.linalg.norm(np.linalg.inv(S), 2))
    q1n = mx0(np.sum(diff * diff, axis=0)) * float(np.linalg.norm(Ri, 2))
    q2n = (mx0(np.linalg.norm(U.T @ Ri.T @ diff, axis=0) * np.linalg.norm(V @ Ri @ diff, axis=0))
           * float(np.linalg.norm(np.linalg.inv(Mc), 2))) if k > 0 else 0.0
    meta = {"d": d, "b": b, "k": k, "bs": bs, "nb": nb, "enc": enc, "vkind": vkind,
            "condS": "%.4g" % condS, "condR": "%.4g" % condR, "condM": "%.4g" % condM,
            "q1": "%.4g" % q1, "q1n": "%.4g" % q1n, "q2": "%.4g" % max(q2, q2n), "q": "%.4g" % q, "qn": "%.4g" % qn, "far": far,
            "scaling": st.get("scaling", "none"), "mag": gen.decade(max(mx0(Rd), 1e-300))}
    meta.update(extra or {})
    c = caseio.Case(cid, "uvr", meta)
    c.mat_shape("input", d, b, inp).mat_shape("mean", d, 1, mean).mat_shape("U", d, k, U).mat_shape("V", k, d, V)
    c.mat_shape("R", bs, R.shape[1], R).mat_shape("cov", d, d, S)
    return c


def gen_uvr(rng, cid, big=False, force=None, scaled=None):
    """one independent case; scaled: None = in about half of the cases the units are changed (rescale)"""
    while True:
        st = draw_uvr(rng, big, force)
        if st is None:
            continue
        if (scaled if scaled is not None else rng.random() < 0.5) and st["kind"] != "nearsing":
            st = rescale(rng, st)
        c = mk_uvr(cid, st, {"order": rng.randrange(12)})
        if c is not None:
            c.int("order", int(c.meta["order"]))
            return c


# ----------------------------------------------------------------------------- call histories

UVR_MUTATIONS = ["nb", "nb", "nb", "uv", "k", "u", "v", "r", "rperm", "mean", "inp", "b", "b", "enc", "same", "units"]


def mutate(rng, st, mut, big=False, arg=None):
    """The next call of a history: a copy of the state in which the arguments named by `mut` change and ALL OTHER arrays
    are the same objects (bit-identical arguments of the next call).  None when the mutation does not apply."""
    n = dict(st)
    enc, bs, nb, k, b = st["enc"], st["bs"], st["nb"], st["k"], st["inp"].shape[1]
    d = nb * bs
    lo = min(float(np.linalg.eigvalsh(B).min()) for B in st["blocks"])
    usc = max(mx0(st["U"]), mx0(st["V"]), 1e-3 * math.sqrt(lo)) if st["vkind"] != "zero" else 0.0
    # sizes of U and V separately (after a change of units they differ by orders of magnitude)
    us = mx0(st["U"]) if mx0(st["U"]) > 0 else usc
    vs = mx0(st["V"]) if mx0(st["V"]) > 0 else usc

    def newU(r, c):
        return gen.matrix(rng, r, c, us / 2).reshape(r, c)

    def newV(r, c):
        return gen.matrix(rng, r, c, vs / 2).reshape(r, c)

    def newblock():
        B0 = st["blocks"][0]
        ev = np.linalg.eigvalsh(B0)
        return gen.spd(rng, bs, max(1.0, float(ev.max() / ev.min())) * 10 ** rng.uniform(-0.3, 0.3), float(ev.min()) * 10 ** rng.uniform(-0.5, 0.5))[0]

    if mut == "nb":
        # another number of blocks with the SAME block(s): R given as one shared block is bit-identical
        cap = (12 if big else 8) // bs
        choices = [m for m in range(1, min(cap, 5 if big else 4) + 1) if m != nb]
        if not choices:
            return None
        nb2 = arg if arg in choices else rng.choice(choices)
        d2 = nb2 * bs
        if enc == "shared":
            n["blocks"] = [st["blocks"][0]] * nb2
        else:
            n["blocks"] = list(st["blocks"][:nb2]) + [newblock() for _ in range(nb2 - nb)]
        if d2 < d:
            n["U"] = st["U"][:d2, :].copy()
            n["V"] = n["U"].T.copy() if st["vkind"] == "UT" else st["V"][:, :d2].copy()
            n["mean"], n["inp"] = st["mean"][:d2].copy(), st["inp"][:d2].copy()
        else:
            n["U"] = np.vstack([st["U"], newU(d2 - d, k) if usc > 0 else np.zeros((d2 - d, k))])
            n["V"] = n["U"].T.copy() if st["vkind"] == "UT" else np.hstack([st["V"], newV(k, d2 - d) if usc > 0 else np.zeros((k, d2 - d))])
            n["mean"] = np.vstack([st["mean"], st["mean"][:d2 - d] if d2 - d <= d else gen.matrix(rng, d2 - d, 1, mx0(st["mean"]) + 1e-300)])
            n["inp"] = None
        n["nb"] = nb2
        if st["vkind"] == "WUT":
            n["vkind"] = "general"
    elif mut == "uv":
        if k == 0 or usc == 0:
            return None
        n["U"] = newU(d, k)
        n["V"] = n["U"].T.copy() if st["vkind"] == "UT" else newV(k, d)
        if st["vkind"] == "WUT":
            n["vkind"] = "general"
    elif mut == "k":
        if st["vkind"] in ("k0", "nearsing") or usc == 0:
            return None
        k2 = rng.choice([m for m in range(1, (6 if big else 4) + 1) if m != k])
        n["U"] = np.hstack([st["U"][:, :k2], newU(d, max(0, k2 - k))])
        n["V"] = n["U"].T.copy() if st["vkind"] == "UT" else np.vstack([st["V"][:k2, :], newV(max(0, k2 - k), d)])
        n["k"] = k2
        if st["vkind"] == "WUT":
            n["vkind"] = "general"
    elif mut in ("u", "v"):
        if k == 0 or usc == 0 or st["vkind"] == "nearsing":
            return None
        if mut == "u":
            n["U"] = newU(d, k)
        else:
            n["V"] = newV(k, d)
        n["vkind"] = "general"
    elif mut == "r":
        n["blocks"] = share([newblock() for _ in range(nb)], st)
        if st["kind"] == "nearsing":
            return None
    elif mut == "rperm":
        if enc == "shared" or nb < 2:
            return None
        n["blocks"] = list(st["blocks"][1:]) + [st["blocks"][0]]
    elif mut == "mean":
        n["mean"] = st["mean"] + gen.matrix(rng, d, 1, math.sqrt(lo) * 10 ** rng.uniform(-1, 1))
    elif mut == "inp":
        n["inp"] = None
    elif mut == "b":
        b2 = rng.choice([m for m in [0, 1, 2, 3, 4, 5, 7] if m != b])
        n["inp"] = st["inp"][:, :b2].copy() if b2 < b else None
        n["b"] = b2
    elif mut == "enc":
        if enc == "shared":
            n["enc"] = "perblock"; n["blocks"] = [st["blocks"][0].copy() for _ in range(nb)]
        else:
            n["enc"] = "shared"; n["blocks"] = [st["blocks"][0]] * nb
    elif mut == "units":
        if st["kind"] == "nearsing":
            return None
        return rescale(rng, st)
    elif mut != "same":
        raise ValueError(mut)
    n["scaling"] = st.get("scaling", "none")
    if not settle(n):
        return None
    if n["inp"] is None:
        try:
            bnew = n.get("b", b) if mut == "b" else b
            fresh = points(rng, n, bnew)
        except np.linalg.LinAlgError:
            return None
        if mut == "b" and bnew > b:
            fresh[:, :b] = st["inp"]            # the earlier points again, more behind them
        n["inp"] = fresh
    n["b"] = n["inp"].shape[1]
    return n


def gen_uvr_chain(rng, chain_id, big=False, length=None, first=None, muts=None, enc=None, nb=None):
    """A call history: consecutive cases; each shares bit-identical arguments with the call before it.
    muts: planned mutations (names or (name, argument)) tried first, in order."""
    while True:
        st = draw_uvr(rng, big, first, enc, nb)
        if st is None:
            continue
        if rng.random() < 0.3 and st["kind"] != "nearsing":
            st = rescale(rng, st)
        c = mk_uvr("%s.0" % chain_id, st, {"chain": chain_id, "step": 0, "mut": "start", "order": rng.randrange(12)})
        if c is not None:
            break
    out = [c]
    length = length if length is not None else rng.randint(3, 7)
    planned = list(muts) if muts else []
    tries = 0
    while len(out) < length and tries < 6 * length:
        tries += 1
        mut = planned.pop(0) if planned else rng.choice(UVR_MUTATIONS)
        mut, arg = mut if isinstance(mut, tuple) else (mut, None)
        n = mutate(rng, st, mut, big, arg)
        if n is None:
            continue
        c = mk_uvr("%s.%d" % (chain_id, len(out)), n, {"chain": chain_id, "step": len(out), "mut": mut, "order": rng.randrange(12)})
        if c is None:
            continue
        st = n
        out.append(c)
    for c in out:
        c.int("order", int(c.meta["order"]))
        c.int("probe", 1 if int(c.meta["step"]) == 0 else 0)     # the probe's own calls must not sit between two steps
    return out


def gen_lse_chain(rng, chain_id):
    """log_sum_exp histories: the same vector again, a prefix, a longer vector with the same head, other entries of the
    same length, the shifted vector, a vector whose maximum is elsewhere / smaller than the previous maximum"""
    base = gen_lse(rng, "x")
    x = [float(t) for t in base.get("x").reshape(-1)]
    out, kind = [], base.meta["lkind"]
    length = rng.randint(3, 6)
    for j in range(length):
        if j > 0:
            mut = rng.choice(["same", "prefix", "longer", "entries", "shift", "lower", "perm"])
            fin = [v for v in x if not math.isinf(v)]
            if mut == "prefix" and len(x) > 1:
                x = x[:rng.randint(1, len(x) - 1)]
            elif mut == "longer":
                x = x + [dyadic(rng.uniform(-1e4, 1e4)) if rng.random() < 0.5 else dyadic((max(fin) if fin else 0.0) - rng.uniform(0, 30)) for _ in range(rng.randint(1, 10))]
            elif mut == "entries":
                x = [float(t) for t in gen_lse(rng, "x").get("x").reshape(-1)][:len(x)] if rng.random() < 0.5 else [v if math.isinf(v) else dyadic(v + rng.uniform(-3, 3)) for v in x]
            elif mut == "shift":
                sh = dyadic(rng.uniform(-50, 50)); x = [v + sh for v in x]
            elif mut == "lower" and fin:
                m = max(fin); x = [v if v != m else dyadic(m - rng.uniform(1, 200)) for v in x]
            elif mut == "perm":
                x = list(x); rng.shuffle(x)
            x = [v if math.isinf(v) else max(-1e4, min(1e4, v)) for v in x]
        else:
            mut = "start"
        knd = ("neginf" if kind == "allneginf" else kind) if any(not math.isinf(v) for v in x) else "allneginf"
        c = lse_case(rng, "%s.%d" % (chain_id, j), knd, list(x))
        c.meta.update({"chain": chain_id, "step": j, "mut": mut, "order": rng.randrange(4)})
        c.int("order", int(c.meta["order"])).int("probe", 1 if j == 0 else 0)
        out.append(c)
    return out


def link_chains(cases):
    """c.history = the cases of the same chain that come before c (the calls the process made before this one that share
    arguments with it); used for the replay file of a violation"""
    seen = {}
    for c in cases:
        ch = c.meta.get("chain")
        c.history = list(seen.get(ch, [])) if ch is not None else []
        if ch is not None:
            seen.setdefault(ch, []).append(c)
    return cases


def dyadic(x):
    return round(x * 1024.0) / 1024.0


def gen_lse(rng, cid):
    kind = rng.choice(["uniform", "uniform", "clustered_hi", "clustered_lo", "equal", "neginf", "neginf", "small", "absmax", "allneginf",
                       "tie_max", "tie_max", "tie_neginf", "const_logn"])
    n = rng.randint(1, 50)
    if kind in ("tie_max", "tie_neginf"):
        # the maximum occurs more than once (2..n times), anywhere in the vector; optionally with -inf entries
        n = max(n, 3)
        m = rng.choice([rng.uniform(-1e4, 1e4), rng.uniform(-5, 5)])
        x = [m - rng.choice([rng.uniform(0, 5), rng.uniform(0, 1e4)]) for _ in range(n)]
        if kind == "tie_neginf":
            x = [v if rng.random() < 0.6 else -math.inf for v in x]
        for i in rng.sample(range(n), rng.randint(2, n)):
            x[i] = m
        x = [v if math.isinf(v) else dyadic(v) for v in x]
        return lse_case(rng, cid, kind, x)
    if kind == "const_logn":
        # uniform weights in the log domain: Constant(n, -log n), log_sum_exp = 0 (all entries are maxima)
        n = rng.choice([2, 3, 10, 50, 100, n])
        return lse_case(rng, cid, kind, [-math.log(n)] * n)
    if kind == "uniform":
        x = [rng.uniform(-1e4, 1e4) for _ in range(n)]
    elif kind == "clustered_hi":
        x = [1e4 - rng.uniform(0, 6) for _ in range(n)]
    elif kind == "clustered_lo":
        x = [-1e4 + rng.uniform(0, 6) for _ in range(n)]
    elif kind == "equal":
        v = rng.uniform(-1e4, 1e4); x = [v] * n
    elif kind == "small":
        x = [rng.uniform(-3, 3) for _ in range(n)]
    elif kind == "absmax":
        # the entry of largest magnitude is negative: max |x_i| is not max x_i
        n = max(n, 2)
        x = [rng.uniform(-50, 50) for _ in range(n)]
        x[rng.randrange(n)] = -rng.uniform(2000, 1e4)
    elif kind == "allneginf":
        x = [-math.inf] * n
    else:
        n = max(n, 2)
        x = [rng.uniform(-1e4, 1e4) if rng.random() < 0.6 else -math.inf for _ in range(n)]
        x[rng.randrange(n)] = rng.uniform(-1e4, 1e4)     # at least one finite entry
    x = [v if math.isinf(v) else dyadic(v) for v in x]
    return lse_case(rng, cid, kind, x)


def lse_case(rng, cid, kind, x):
    n = len(x)
    fin = [v for v in x if not math.isinf(v)]
    sh = dyadic(rng.choice([rng.uniform(-1e4, 1e4), rng.uniform(-5, 5), 0.0]))
    c = caseio.Case(cid, "lse", {"n": n, "lkind": kind, "neginf": sum(1 for v in x if math.isinf(v)),
                                 "maxcount": sum(1 for v in fin if v == max(fin)) if fin else 0})
    c.mat_shape("x", n, 1, x).mat_shape("c", 1, 1, [sh])
    divs = [m for m in (2, 3, 5) if n % m == 0 and n > m]
    if divs and rng.random() < 0.4:
        c.int("matcols", rng.choice(divs))
    return c


def corpus(rng):
    """Hand-picked boundary cases, always run first (ids c0, c1, ...): ties at the maximum (a seeded change that
    dropped duplicated maxima was caught by these), uniform log-weights, ties beside -inf, empty batch, k = 0,
    nearly singular R with a well conditioned S."""
    inf = -math.inf
    vecs = [("const_logn", [-math.log(100)] * 100), ("const_logn", [-math.log(2)] * 2), ("tie_max", [5.0, 5.0]),
            ("tie_max", [1.0, 7.0, 7.0, 7.0, -3.0]), ("tie_max", [1e4, 1e4, 1e4]), ("tie_max", [-1e4, -1e4]),
            ("tie_max", [0.0, -1.0, 0.0, -2.0, 0.0, -3.0, 0.0]), ("tie_neginf", [5.0, 5.0, inf]), ("tie_neginf", [inf, 3.0, 3.0, inf, 3.0]),
            ("tie_neginf", [inf, -9000.0, inf, -9000.0]), ("equal", [2.5]), ("neginf", [inf, 0.0]), ("allneginf", [inf, inf])]
    out = [lse_case(rng, "c%d" % i, k, x) for i, (k, x) in enumerate(vecs)]
    n = len(out)
    for j, f in enumerate(["b0", "b0", "k0", "k0", "nearsing", "nearsing", "nearsing", "nearsing"]):
        out.append(gen_uvr(rng, "c%d" % (n + j), False, f))
    # call histories on one shared block: fewer blocks, more blocks, one block, and back; then the same for R in full
    out += gen_uvr_chain(rng, "hc0", False, 5, "plain", [("nb", 2), ("nb", 1), ("nb", 4), "same"], "shared", 3)
    out += gen_uvr_chain(rng, "hc1", False, 5, "plain", [("nb", 3), "b", ("nb", 2), "uv"], "shared", 1)
    out += gen_uvr_chain(rng, "hc2", False, 5, "plain", [("nb", 1), "enc", ("nb", 3), "r"], "perblock", 2)
    out += gen_uvr_chain(rng, "hc3", False, 6, "plain", ["uv", "r", "mean", "b", "inp"], None, None)
    out += gen_lse_chain(rng, "hc4")
    return out


CHAINS = {"quick": (260, 80), "thorough": (1600, 500)}


def generate(rng, tier):
    nu, nl = COUNTS[tier]
    cu, cl = CHAINS[tier]
    units = [[gen_uvr(rng, i, tier == "thorough" and rng.random() < 0.15)] for i in range(nu)]
    units += [[gen_lse(rng, nu + i)] for i in range(nl)]
    units += [gen_uvr_chain(rng, "h%d" % i, tier == "thorough" and rng.random() < 0.15) for i in range(cu)]
    units += [gen_lse_chain(rng, "l%d" % i) for i in range(cl)]
    # the units in a random order (a history is never interleaved with other cases: its calls are consecutive)
    head = corpus(rng)
    rng.shuffle(units)
    return link_chains(head + [c for u in units for c in u])


def nontrivial(c):
    if c.kind == "uvr":
        if int(c.meta["nb"]) >= 2 or c.meta["enc"] == "shared":
            return ("uvr", c.meta["d"], c.meta["bs"], c.meta["k"], c.meta["enc"], c.meta["vkind"], int(c.meta["b"]) > 1,
                    gen.decade(float(c.meta["condS"])), int(c.meta.get("mag", 0)) // 4, c.meta.get("mut", "-"))
        return None
    if int(c.meta["n"]) >= 2:
        return ("lse", c.meta["lkind"], int(c.meta["n"]) // 10, int(c.meta["neginf"]) > 0, int(c.meta.get("maxcount", 1)) > 1, c.meta.get("mut", "-"))
    return None


# ----------------------------------------------------------------------------- tolerances

def tol_direct(c, ldmag):
    condS, q, qn = float(c.meta["condS"]), float(c.meta["q"]), float(c.meta["qn"])
    return 8 * EPS * (condS * (q + 1.0) + qn + ldmag + 10.0)


def tol_uvr(c, ldmag):
    condS, condR, condM = float(c.meta["condS"]), float(c.meta["condR"]), float(c.meta["condM"])
    q1, q2 = float(c.meta["q1"]), float(c.meta["q2"])
    return 8 * EPS * ((condR + condM) * (q1 + q2 + 1.0) + condS + ldmag + 10.0)


def close_log(a, b, tol):
    return caseio.close(a, b, tol, 0.0)


def close_dens(a, b, tol):
    """densities: an absolute error tol on the logarithm is a relative error on the density"""
    a, b = np.asarray(a, dtype=float), np.asarray(b, dtype=float)
    if a.shape != b.shape:
        return False
    return bool(np.all(np.abs(a - b) <= math.expm1(min(tol, 1.0)) * np.maximum(np.abs(a), np.abs(b)) + DBL_MIN))


def compare(c, impl, model):
    d = []
    if c.kind == "uvr":
        for f in ("ld", "dn", "ldu", "dnu"):
            if not impl.has(f) or not model.has(f):
                d.append("%s: missing" % f); continue
            a, b = impl.get(f), model.get(f)
            if a.shape != b.shape:
                d.append("%s: shape impl=%s model=%s" % (f, a.shape, b.shape)); continue
            mag = mx0(model.get("ld" if f in ("ld", "dn") else "ldu"))
            tol = tol_direct(c, mag) if f in ("ld", "dn") else tol_uvr(c, mag)
            ok = close_log(a, b, tol) if f in ("ld", "ldu") else close_dens(a, b, tol)
            if not ok:
                d.append("%s: max|impl-model|=%.3g (tol %.3g)" % (f, caseio.maxdiff(a, b), tol))
    else:
        for f in ["lse", "lse_shift"] + (["lse_mat"] if c.has("matcols") else []):
            a, b = impl.get(f), model.get(f)
            if a is None or b is None:
                d.append("%s: missing" % f); continue
            if not caseio.close(a, b, lse_tol(c, b), 0.0):
                d.append("%s: impl=%r model=%r" % (f, a, b))
    return d


# ----------------------------------------------------------------------------- oracle

def lse_tol(c, ref):
    n = int(c.meta["n"])
    mag = abs(ref) if math.isfinite(ref) else 1.0
    return 8 * EPS * max(1.0, mag) + 4 * EPS * n


def lse_ref(x):
    """ln sum exp x_i in extended precision (shifted by the largest entry, so nothing overflows)"""
    fin = [v for v in x if not math.isinf(v)]
    m = max(fin)
    s = np.sum(np.exp(np.array([v - m for v in fin], dtype=np.longdouble)), dtype=np.longdouble)
    return float(np.longdouble(m) + np.log(s))


def where(c):
    """the call history of a case, for the detail text of a violation"""
    if c.meta.get("chain") is None or int(c.meta.get("step", 0)) == 0:
        return ""
    return " [call %s of history %s: the call before it had the same arguments except '%s'; the replay file holds the whole history]" % (
        c.meta["step"], c.meta["chain"], c.meta.get("mut"))


def oracle(c, impl, model):
    v = oracle_(c, impl, model)
    w = where(c)
    return [(sig, detail + w) for sig, detail in v] if w else v


def oracle_(c, impl, model):
    v = []
    if impl.has("concurrent_equal") and impl.get("concurrent_equal") != 1:
        # "for every mean, covariance, batch / for entries of any magnitude": the value of a call does not depend on what
        # other threads compute at the same time (two filters in one process)
        v.append(("C15:%s:concurrent-callers-interfere" % c.kind, "a call made while other threads call the same utilities on other data of the "
                  "same shapes returned a result that differs from the same call made alone (hidden shared state)"))
    if c.kind == "lse":
        x = [float(t) for t in c.get("x").reshape(-1)]
        sh = float(c.get("c")[0, 0])
        r, rs = impl.get("lse"), impl.get("lse_shift")
        kind = c.meta["lkind"]
        if all(math.isinf(t) for t in x):
            return v        # outside the property (no finite entry); correspondence only
        ref = lse_ref(x)
        tol = lse_tol(c, ref)
        if r is None or not math.isfinite(r):
            v.append(("C15:lse-not-finite:%s" % kind, "log_sum_exp returned %r for %d entries with max %.17g (ln sum exp = %.17g)" % (r, len(x), max(x), ref)))
        elif abs(r - ref) > tol:
            v.append(("C15:lse-not-ln-sum-exp:%s" % kind, "log_sum_exp = %.17g, ln sum exp = %.17g (|diff| %.3g > %.3g)" % (r, ref, abs(r - ref), tol)))
        # shift law: entries and shift are dyadic, x_i + c is exact
        if rs is None or not math.isfinite(rs):
            v.append(("C15:lse-shift-not-finite:%s" % kind, "log_sum_exp(x + %.17g) returned %r" % (sh, rs)))
        elif r is not None and math.isfinite(r):
            tols = 8 * EPS * (abs(r) + abs(sh) + abs(r + sh) + 1.0)
            if abs(rs - (r + sh)) > tols:
                v.append(("C15:lse-shift-law:%s" % kind, "lse(x + c) = %.17g, lse(x) + c = %.17g" % (rs, r + sh)))
        if r is not None and math.isfinite(r):
            for nm, want in (("lse_row", r), ("lse_strided", r), ("lse_expr", rs)):
                a = impl.get(nm)
                if a is None or want is None or not (math.isfinite(a) and abs(a - want) <= lse_tol(c, want)):
                    v.append(("C15:lse-argument-form:%s" % nm, "%s = %r, plain vector argument gives %r" % (nm, a, want)))
        if impl.has("lse_mat") and r is not None and math.isfinite(r):
            rm = impl.get("lse_mat")
            if not (math.isfinite(rm) and abs(rm - r) <= tol):
                v.append(("C15:lse-matrix-input:%s" % kind, "as a matrix: %r, as a vector: %r" % (rm, r)))
        if model is not None and model.has("shifted"):
            s = model.get("shifted").reshape(-1)
            if not (np.all(s <= 0.0) and np.any(s == 0.0)):
                v.append(("C15:lse-model-shifted-exponents", "model: shifted exponents not all <= 0 with one = 0"))
        return v

    # ---- uvr
    if impl.get("inputs_unchanged") != 1:
        v.append(("C15:inputs-modified", "an argument passed by const reference changed"))
    d, b = int(c.meta["d"]), int(c.meta["b"])
    enc, vk = c.meta["enc"], c.meta["vkind"]
    tag = "%s:V=%s" % (enc, vk)
    inp, mean, S = c.get("input"), c.get("mean"), c.get("cov")
    ld, dn, ldu, dnu = impl.get("ld"), impl.get("dn"), impl.get("ldu"), impl.get("dnu")
    for name, a in (("ld", ld), ("dn", dn), ("ldu", ldu), ("dnu", dnu)):
        if a is None or a.shape != (b, 1):
            v.append(("C15:batch-shape:%s" % name, "%s has shape %s for a batch of %d" % (name, None if a is None else a.shape, b)))
            return v
    # reference: the definition, in extended precision where numpy allows (solve/slogdet in float64)
    diff = inp - mean
    sign, logdet = np.linalg.slogdet(S)
    quad = np.einsum("ij,ij->j", diff, np.linalg.solve(S, diff))
    ref = (-0.5 * (d * math.log(2 * math.pi) + logdet + quad)).reshape(b, 1)
    mag = mx0(ref)
    td, tu = tol_direct(c, mag), tol_uvr(c, mag)
    if not np.all(np.isfinite(ld)):
        v.append(("C15:direct-not-finite:%s" % tag, "direct log-density %s" % ld.reshape(-1)))
    elif not close_log(ld, ref, 2 * td):
        v.append(("C15:direct-not-definition:%s" % tag, "direct log-density vs -1/2(d ln 2pi + ln det S + q): max diff %.3g > %.3g" % (caseio.maxdiff(ld, ref), 2 * td)))
    if not np.all(np.isfinite(ldu)):
        v.append(("C15:uvr-not-finite:%s" % tag, "factorised log-density %s" % ldu.reshape(-1)))
    else:
        if not close_log(ldu, ld, td + tu):
            v.append(("C15:uvr-differs-from-direct:%s" % tag, "factorised vs direct log-density on the assembled S: max diff %.3g > %.3g (%s vs %s)"
                      % (caseio.maxdiff(ldu, ld), td + tu, ldu.reshape(-1)[:3], ld.reshape(-1)[:3])))
        if not close_log(ldu, ref, td + tu):
            v.append(("C15:uvr-not-definition:%s" % tag, "factorised log-density vs the definition: max diff %.3g > %.3g" % (caseio.maxdiff(ldu, ref), td + tu)))
    if model is not None and model.has("spec_ld"):
        sl = model.get("spec_ld")
        Sm = model.get("S")
        if not caseio.close(Sm, S, 16 * EPS * max(1.0, float(np.max(np.abs(S)))), 0.0):
            v.append(("C15:assembled-S", "extracted assembly of U V + blockdiag(R) differs from the generator's by %.3g" % caseio.maxdiff(Sm, S)))
        if np.all(np.isfinite(ld)) and not close_log(ld, sl, 2 * td):
            v.append(("C15:direct-not-extracted-definition:%s" % tag, "max diff %.3g > %.3g" % (caseio.maxdiff(ld, sl), 2 * td)))
        if np.all(np.isfinite(ldu)) and not close_log(ldu, sl, td + tu):
            v.append(("C15:uvr-not-extracted-definition:%s" % tag, "max diff %.3g > %.3g" % (caseio.maxdiff(ldu, sl), td + tu)))
    # arguments passed as blocks / segments of larger buffers: same values
    for nm, plain, tol in (("ld_views", ld, td), ("ldu_views", ldu, tu), ("ld_expr", ld, td), ("ldu_expr", ldu, tu)):
        a = impl.get(nm)
        if a is None or a.shape != plain.shape or (np.all(np.isfinite(plain)) and not close_log(a, plain, tol)):
            v.append(("C15:view-arguments:%s" % nm, "called with blocks of larger matrices / an expression argument: %s, with plain matrices: %s"
                      % (None if a is None else a.reshape(-1)[:3], plain.reshape(-1)[:3])))
    # density = exp(log-density): the same libm exp on the same double, so bit-for-bit up to one rounding of exp
    for nm, dens, lg in (("direct", dn, ld), ("uvr", dnu, ldu), ("direct(views)", impl.get("dn_views"), impl.get("ld_views")),
                         ("uvr(views)", impl.get("dnu_views"), impl.get("ldu_views"))):
        if dens is None or lg is None or dens.shape != lg.shape:
            v.append(("C15:batch-shape:%s" % nm, "density through views missing or of another shape than the log-density"))
            continue
        if np.all(np.isfinite(lg)):
            e = np.exp(lg)
            if not bool(np.all(np.abs(dens - e) <= 4 * EPS * e + DBL_MIN)):
                v.append(("C15:density-not-exp-logdensity:%s" % nm, "density %s, exp(log-density) %s" % (dens.reshape(-1)[:3], e.reshape(-1)[:3])))
    return v


def on_crash(c, info, model):
    what = "%s:%s:V=%s" % (c.kind, c.meta.get("enc"), c.meta.get("vkind")) if c.kind == "uvr" else "lse:%s" % c.meta.get("lkind")
    return [("C15:%s:%s:%s" % (info["kind"], runner.first_entry(info["stderr"]), what),
             "implementation ended abnormally (%s, rc=%s): %s" % (info["kind"], info["rc"], info["stderr"][-300:]))]


def histogram(cases):
    h = {"kind": {}, "uvr_enc_vkind": {}, "uvr_shape": {}, "lse_kind": {}, "condS_decade": {}, "uvr_R_entry_decade": {}, "uvr_scaling": {},
         "history_step_changes": {}, "history_lengths": {}}
    lens = {}
    for c in cases:
        if c.meta.get("chain") is not None:
            lens[c.meta["chain"]] = lens.get(c.meta["chain"], 0) + 1
    for n in lens.values():
        h["history_lengths"][str(n)] = h["history_lengths"].get(str(n), 0) + 1

    def inc(d, k):
        d[str(k)] = d.get(str(k), 0) + 1
    for c in cases:
        inc(h["kind"], c.kind)
        if c.meta.get("chain") is not None and int(c.meta.get("step", 0)) > 0:
            inc(h["history_step_changes"], "%s:%s" % (c.kind, c.meta.get("mut")))
        if c.kind == "uvr":
            inc(h["uvr_enc_vkind"], "%s/%s" % (c.meta["enc"], c.meta["vkind"]))
            inc(h["uvr_shape"], "nb=%s bs=%s" % (c.meta["nb"], c.meta["bs"]))
            inc(h["condS_decade"], gen.decade(float(c.meta["condS"])))
            inc(h["uvr_R_entry_decade"], c.meta.get("mag", "?"))
            inc(h["uvr_scaling"], c.meta.get("scaling", "none"))
        else:
            inc(h["lse_kind"], c.meta["lkind"])
    return h


LEVEL_TEXT = ("Proof: the model of utils::multivariate_gaussian_log_density(_UVR)/_density(_UVR) (R kept in the code's concatenated-blocks layout, "
              "shared/per-block branch, block-by-block products, Woodbury quadratic form, det R as pow or running product, determinant lemma) is proved, "
              "for every real field, every number of blocks, block size, k, batch, to return per evaluation point the direct log-density "
              "-1/2(d ln 2pi + ln det S + delta^T S^-1 delta) of the assembled S = U V + blockdiag(R), given invertible blocks and invertible S "
              "(invertibility of I + V R^-1 U is derived; for V = U^T and SPD blocks every premise is derived); density = exp(log-density). Over R: log_sum_exp = ln sum exp, the shift law, "
              "no overflow (shifted exponents <= 0, one = 0, 1 <= sum <= n), and the -inf extension. The executed list instance of the density models "
              "(UVR with R in full / shared, direct, assembly of S; Gauss-Jordan inverse and determinant) is proved equal to the MathComp instance on SPD inputs "
              "(C15_Transport.v, every inverted matrix proved invertible). The model is tied to the code by running the "
              "extracted model and the library on the same generated cases, including call histories with bit-identical repeated arguments and concurrent callers.")
LEVEL_NOTE = ("Trusted: Coq kernel, MathComp, Reals axioms (lse only), extraction + float driver (floats for field elements), harness and tolerances; "
              "rounding is not modelled; the tie to the code is sampled. ln/exp/pi are uninterpreted in the matrix theorems (only congruence is used), so "
              "positivity of det S is not needed there; on the float side the generator keeps det S > 0.")


def main(ctx, a):
    """The standard flow, plus: the matrix theorems must be axiom-free (the runner's whitelist is per property)."""
    if not a.skip_proofs:
        runner.prove(ctx)
        for t in CLOSED_THEOREMS:
            ax = ctx.assumptions.get(t)
            if ax:
                ctx.proof_problems.append("theorem %s must be closed under the global context but depends on %s" % (t, ax))
    if a.replay:
        cases = link_chains(caseio.read_cases(a.replay))
        ctx.log("replaying %d case(s) from %s" % (len(cases), a.replay))
    else:
        cases = generate(ctx.rng, a.tier)
    if cases:
        runner.standard_cases(ctx, cases)
    runner.widen_if_needed(ctx, sys.modules[__name__], a)
    ctx.extra["histogram"] = histogram(cases)
    # a violation inside a call history is replayed with the calls before it (one process, same order)
    for c in [t[2] for t in ctx.violations] + [t[0] for t in ctx.corr_diffs[:1]]:
        hist = getattr(c, "history", None)
        if hist and "dump" not in c.__dict__:
            c.dump = (lambda c=c, hist=hist: "".join(type(h).dump(h) for h in hist) + type(c).dump(c))
    return runner.finish(ctx)
