"""C15 — Gaussian density utilities agree with their definition and with each other; log-sum-exp
(DESIGN.md §5 C15)."""
import sys
import math
import numpy as np
from vlib import caseio, gen, runner

ID = "C15"
WIDEN_DEFAULT = True
COQ_TARGETS = ["C15_Extract.vo", "C15_Proofs.vo", "C15_RProofs.vo"]
EXTRACTED = "C15_model"
DRIVER = "drv_C15.ml"
HARNESS = "h_C15.cpp"
VARIANTS = {"quick": ["O1"], "thorough": ["O1", "asan"]}
AXIOMS_ALLOWED = runner.REAL_AXIOMS     # only the log-sum-exp theorems (over R) use them; the matrix theorems print "Closed"
CLOSED_THEOREMS = ["C15_det_lemma", "C15_capacitance_invertible", "C15_woodbury", "C15_blockdiag_entries", "C15_blockdiag_inverse",
                   "C15_blockdiag_det", "C15_uvr_det", "C15_uvr_eq_direct", "C15_uvr_eq_direct_per_block", "C15_uvr_eq_direct_shared",
                   "C15_sym_factor_assembled_spd", "C15_uvr_eq_direct_sym_factor",
                   "C15_uvr_capacitance_invertible", "C15_direct_logdet_guard", "C15_uvr_logdet_guard", "C15_uvr_det_R_guard",
                   "C15_uvr_logdet_guard_sym_factor", "C15_density_uvr_eq_direct", "C15_log_density_uvr_eq_direct_batch", "C15_density_uvr_exp", "C15_density_exp", "C15_batch_lengths", "C15_logdensity_def"]
REQUIRED_THEOREMS = CLOSED_THEOREMS + ["C15_lse_spec", "C15_lse_shift", "C15_lse_max_is_entry", "C15_lse_no_overflow", "C15_lse_neginf",
                                       "C15_lse_neginf_shift", "C15_lse_all_neginf_is_nan"]
COQ_PREFIXES = ["C15", "C19"]           # C15_ROps / C15_RProofs import the shared real instance ROps of C19_ROps.v
RULE = ("a fixed corpus first (ties at the maximum, uniform log-weights of length 100, ties beside -inf, b = 0, k = 0, nearly singular R), then cases from one seeded stream. uvr: num_blocks 1..4, block_size with d = num_blocks*block_size <= 8, batch 1..5, k 1..4, "
        "R shared (one block) or per block (SPD blocks, cond <= 1e5), V = U^T / W U^T (W symmetric) / general (S not symmetric, symmetric part PD) / zero, "
        "also (about 1 in 6) empty batch b = 0, k = 0 (U d x 0), and R nearly singular (block cond 1e2..1e6) with a well conditioned S and a general V (worst Woodbury cancellation); "
        "assembled S with cond <= 1e6, evaluation points near the mean and far away (thorough: 15% of the cases with d up to 12, up to 5 blocks, k up to 6); "
        "every call repeated with the arguments passed as blocks/segments of larger buffers; lse: length 1..50, entries in [-1e4,1e4] "
        "(uniform / clustered at +-1e4 / equal / largest magnitude negative / maximum occurring 2..n times / ties beside -inf / Constant(n, -log n) / with -inf / all -inf), dyadic so that the shift is exact, "
        "also as row vector, strided row, matrix and expression argument. "
        "non-trivial = uvr with num_blocks >= 2 or shared encoding, lse with length >= 2; "
        "distinct by (d, block_size, k, encoding, V kind, batch>1, cond decade) resp. (lse kind, length bucket, has -inf)")
TRUSTED_BASE = ["Coq 8.16.1 kernel (coqc)",
                "matrix theorems (Woodbury, determinant lemma, block-diagonal inverse/determinant, UVR = direct, definitions): no axioms (MathComp 1.15; ln/exp/pi uninterpreted)",
                "log-sum-exp theorems: Coq Reals, the four standard axioms (sig_forall_dec, sig_not_dec, functional_extensionality_dep, classic)",
                "extraction (ExtrOcamlBasic only) and ocaml/float_ops.ml, ocaml/drv_C15.ml, ocaml/caseio.ml",
                "ListOps list instance of MatOps (structural operations and Gauss-Jordan inverse/determinant): unproved in general; its linv/ldet are "
                "validated against exact rational inverses/determinants for sizes 1..6 incl. row swaps (Example C15_gauss_jordan_exact_Q, re-checked on every run), "
                "and the oracle's spec values are additionally computed by numpy (slogdet/solve), independently of that routine",
                "cpp/h_C15.cpp harness; tolerances derived from the constructed conditioning (cond R, cond(I+V R^-1 U), cond S, size of the cancelling Woodbury terms)",
                "EOps (coq/C15_ROps.v): the extension of the reals by -inf with the IEEE meaning of + - < exp ln stated there (Bad = +inf/NaN, absorbing)",
                "numpy float64/longdouble reference values in the oracle",
                "correspondence is sampled: agreement is established on the generated cases only",
                "IEEE rounding is not modelled (theorems over an exact real field / R)"]
ASSUMPTIONS = ["Eigen inverse()/determinant() behave as matrix inverse/determinant up to rounding (checked against the model's Gauss-Jordan and numpy on every case)",
               "std::pow(x, n) for the integer block count is the n-fold product up to rounding (checked on every shared-R case)",
               "std::log/std::exp are the real ln/exp up to rounding; exp(-inf) = 0, -inf - finite = -inf (IEEE), checked on the -inf cases",
               "densities are compared with a relative tolerance plus the absolute floor DBL_MIN: Eigen's vectorised exp returns 5.56e-309 instead of 0 below -709.4"]

COUNTS = {"quick": (260, 160), "thorough": (12000, 8000)}
EPS = 2.220446049250313e-16
# densities below the smallest normal double are indistinguishable from 0: Eigen's vectorised exp saturates at
# exp(-709.436) = 5.56e-309 instead of returning 0 (its scalar tail lanes return 0), so the absolute floor is DBL_MIN
DBL_MIN = 2.2250738585072014e-308


# ----------------------------------------------------------------------------- generators

def blockdiag(blocks):
    n = sum(b.shape[0] for b in blocks)
    out = np.zeros((n, n)); o = 0
    for b in blocks:
        s = b.shape[0]; out[o:o + s, o:o + s] = b; o += s
    return out


def mx0(a):
    """max |a| with the empty maximum = 0 (batch 0, k = 0)"""
    a = np.asarray(a, dtype=float)
    return float(np.max(np.abs(a))) if a.size else 0.0


def gen_uvr(rng, cid, big=False, force=None):
    """force: None, "b0" (empty batch), "k0" (U d x 0, V 0 x d), "nearsing" (R nearly singular, S well conditioned)"""
    while True:
        if big:       # beyond the stated ranges (thorough tier only): d up to 12, k up to 6
            nb = rng.randint(1, 5); bs = rng.randint(1, 12 // nb); k = rng.randint(1, 6)
        else:
            nb = rng.randint(1, 4); bs = rng.randint(1, 8 // nb); k = rng.randint(1, 4)
        kind = force if force is not None else rng.choice([None] * 20 + ["b0", "k0", "nearsing", "nearsing"])
        if kind == "nearsing" and bs < 2:
            bs = 2
        d = nb * bs
        b = 0 if kind == "b0" else rng.randint(1, 5)
        if kind == "k0":
            k = 0
        enc = rng.choice(["shared", "perblock"])
        lo = 10 ** rng.uniform(-2, 1)
        cmax = rng.choice([1, 3, 5])
        if kind == "nearsing":
            # every block has one eigenvalue eps << lo along q_t; U V fills exactly those directions, so that
            # S = U V + R is well conditioned although R is nearly singular (worst cancellation in the Woodbury form)
            def nsblock():
                q = gen.orthogonal(rng, bs)
                ev = np.array([lo * 10 ** -rng.uniform(2, 5)] + [lo * 10 ** rng.uniform(0, 1) for _ in range(bs - 1)])
                B = (q * ev) @ q.T
                return (B + B.T) / 2, q[:, 0]
            if enc == "shared":
                B, q0 = nsblock(); blocks, qs = [B] * nb, [q0] * nb; R = B
            else:
                pr = [nsblock() for _ in range(nb)]
                blocks, qs = [p[0] for p in pr], [p[1] for p in pr]; R = np.hstack(blocks)
            k = nb
            U = np.zeros((d, k))
            for t in range(nb):
                U[t * bs:(t + 1) * bs, t] = math.sqrt(lo) * 10 ** rng.uniform(0, 0.5) * qs[t]
            V = U.T * (1 + 0.3 * gen.matrix(rng, k, d)) + 0.05 * math.sqrt(lo) * gen.matrix(rng, k, d)
            vkind = "nearsing"
        else:
            if enc == "shared":
                B, _ = gen.spd(rng, bs, 10 ** rng.uniform(0, cmax), lo)
                blocks = [B] * nb; R = B
            else:
                blocks = [gen.spd(rng, bs, 10 ** rng.uniform(0, cmax), lo * 10 ** rng.uniform(-0.5, 0.5))[0] for _ in range(nb)]
                R = np.hstack(blocks)
            vkind = rng.choice(["UT", "UT", "WUT", "general", "general", "zero"]) if k > 0 else "k0"
            uscale = math.sqrt(lo) * 10 ** rng.uniform(-1, 1.5)
            U = gen.matrix(rng, d, k, uscale).reshape(d, k)
            if vkind == "UT":
                V = U.T.copy()
            elif vkind == "WUT":
                W = gen.matrix(rng, k, k); W = (W + W.T) / 2
                V = W @ U.T
            elif vkind == "general":
                V = gen.matrix(rng, k, d, uscale)
            elif vkind == "k0":
                V = np.zeros((0, d))
            else:
                V = np.zeros((k, d))
                if rng.random() < 0.5:
                    V = gen.matrix(rng, k, d, uscale); U = np.zeros((d, k))
        Rd = blockdiag(blocks)
        S = U @ V + Rd
        # keep the symmetric part positive definite (then det S > 0) by shrinking U V if needed
        for _ in range(6):
            if np.linalg.eigvalsh((S + S.T) / 2).min() > (0.05 * lo if kind != "nearsing" else 0.0):
                break
            if kind == "nearsing":
                break
            U = U / 2; V = V / 2; S = U @ V + Rd
        else:
            continue
        if np.linalg.eigvalsh((S + S.T) / 2).min() <= 0:
            continue
        condS = float(np.linalg.cond(S))
        if not (condS <= 1e6 and np.linalg.det(S) > 0):
            continue
        condR = max(float(np.linalg.cond(B)) for B in blocks)
        if kind == "nearsing" and not condR > 30 * condS:
            continue
        Ri = np.linalg.inv(Rd)
        Mc = np.eye(k) + V @ Ri @ U
        condM = float(np.linalg.cond(Mc)) if k > 0 else 1.0
        mean = gen.matrix(rng, d, 1, 3.0)
        # evaluation points: S^(1/2)-scaled around the mean, some far away
        Ssym = (S + S.T) / 2
        L = np.linalg.cholesky(Ssym)
        far = 10 ** rng.choice([0, 0, 0, 1, 2]) if kind != "nearsing" else 1
        inp = (mean + far * (L @ gen.matrix(rng, d, b).reshape(d, b))).reshape(d, b)
        if b > 0 and rng.random() < 0.1:
            inp[:, 0] = mean[:, 0]          # a point exactly at the mean
        diff = inp - mean
        q1 = mx0(np.einsum("ij,ij->j", diff, Ri @ diff))
        Wd = Ri @ U @ np.linalg.solve(Mc, V @ Ri) if k > 0 else np.zeros((d, d))
        q2 = mx0(np.einsum("ij,ij->j", diff, Wd @ diff))
        q = mx0(np.einsum("ij,ij->j", diff, np.linalg.solve(S, diff)))
        # norm-wise sizes (for a non-symmetric S the quadratic forms can be much smaller than their terms)
        qn = mx0(np.sum(diff * diff, axis=0)) * float(np.linalg.norm(np.linalg.inv(S), 2))
        q2n = (mx0(np.linalg.norm(U.T @ Ri.T @ diff, axis=0) * np.linalg.norm(V @ Ri @ diff, axis=0))
               * float(np.linalg.norm(np.linalg.inv(Mc), 2))) if k > 0 else 0.0
        c = caseio.Case(cid, "uvr", {"d": d, "b": b, "k": k, "bs": bs, "nb": nb, "enc": enc, "vkind": vkind,
                                      "condS": "%.4g" % condS, "condR": "%.4g" % condR, "condM": "%.4g" % condM,
                                      "q1": "%.4g" % q1, "q2": "%.4g" % max(q2, q2n), "q": "%.4g" % q, "qn": "%.4g" % qn, "far": far})
        c.mat_shape("input", d, b, inp).mat_shape("mean", d, 1, mean).mat_shape("U", d, k, U).mat_shape("V", k, d, V)
        c.mat_shape("R", bs, R.shape[1], R).mat_shape("cov", d, d, S)
        return c


def dyadic(x):
    return round(x * 1024.0) / 1024.0


def gen_lse(rng, cid):
    kind = rng.choice(["uniform", "uniform", "clustered_hi", "clustered_lo", "equal", "neginf", "neginf", "small", "absmax", "allneginf",
                       "tie_max", "tie_max", "tie_neginf", "const_logn"])
    n = rng.randint(1, 50)
    if kind in ("tie_max", "tie_neginf"):
        # the maximum occurs more than once (2..n times), anywhere in the vector; optionally with -inf entries
        n = max(n, 3)
        m = rng.choice([rng.uniform(-1e4, 1e4), rng.uniform(-5, 5)])
        x = [m - rng.choice([rng.uniform(0, 5), rng.uniform(0, 1e4)]) for _ in range(n)]
        if kind == "tie_neginf":
            x = [v if rng.random() < 0.6 else -math.inf for v in x]
        for i in rng.sample(range(n), rng.randint(2, n)):
            x[i] = m
        x = [v if math.isinf(v) else dyadic(v) for v in x]
        return lse_case(rng, cid, kind, x)
    if kind == "const_logn":
        # uniform weights in the log domain: Constant(n, -log n), log_sum_exp = 0 (all entries are maxima)
        n = rng.choice([2, 3, 10, 50, 100, n])
        return lse_case(rng, cid, kind, [-math.log(n)] * n)
    if kind == "uniform":
        x = [rng.uniform(-1e4, 1e4) for _ in range(n)]
    elif kind == "clustered_hi":
        x = [1e4 - rng.uniform(0, 6) for _ in range(n)]
    elif kind == "clustered_lo":
        x = [-1e4 + rng.uniform(0, 6) for _ in range(n)]
    elif kind == "equal":
        v = rng.uniform(-1e4, 1e4); x = [v] * n
    elif kind == "small":
        x = [rng.uniform(-3, 3) for _ in range(n)]
    elif kind == "absmax":
        # the entry of largest magnitude is negative: max |x_i| is not max x_i
        n = max(n, 2)
        x = [rng.uniform(-50, 50) for _ in range(n)]
        x[rng.randrange(n)] = -rng.uniform(2000, 1e4)
    elif kind == "allneginf":
        x = [-math.inf] * n
    else:
        n = max(n, 2)
        x = [rng.uniform(-1e4, 1e4) if rng.random() < 0.6 else -math.inf for _ in range(n)]
        x[rng.randrange(n)] = rng.uniform(-1e4, 1e4)     # at least one finite entry
    x = [v if math.isinf(v) else dyadic(v) for v in x]
    return lse_case(rng, cid, kind, x)


def lse_case(rng, cid, kind, x):
    n = len(x)
    fin = [v for v in x if not math.isinf(v)]
    sh = dyadic(rng.choice([rng.uniform(-1e4, 1e4), rng.uniform(-5, 5), 0.0]))
    c = caseio.Case(cid, "lse", {"n": n, "lkind": kind, "neginf": sum(1 for v in x if math.isinf(v)),
                                 "maxcount": sum(1 for v in fin if v == max(fin)) if fin else 0})
    c.mat_shape("x", n, 1, x).mat_shape("c", 1, 1, [sh])
    divs = [m for m in (2, 3, 5) if n % m == 0 and n > m]
    if divs and rng.random() < 0.4:
        c.int("matcols", rng.choice(divs))
    return c


def corpus(rng):
    """Hand-picked boundary cases, always run first (ids c0, c1, ...): ties at the maximum (a seeded change that
    dropped duplicated maxima was caught by these), uniform log-weights, ties beside -inf, empty batch, k = 0,
    nearly singular R with a well conditioned S."""
    inf = -math.inf
    vecs = [("const_logn", [-math.log(100)] * 100), ("const_logn", [-math.log(2)] * 2), ("tie_max", [5.0, 5.0]),
            ("tie_max", [1.0, 7.0, 7.0, 7.0, -3.0]), ("tie_max", [1e4, 1e4, 1e4]), ("tie_max", [-1e4, -1e4]),
            ("tie_max", [0.0, -1.0, 0.0, -2.0, 0.0, -3.0, 0.0]), ("tie_neginf", [5.0, 5.0, inf]), ("tie_neginf", [inf, 3.0, 3.0, inf, 3.0]),
            ("tie_neginf", [inf, -9000.0, inf, -9000.0]), ("equal", [2.5]), ("neginf", [inf, 0.0]), ("allneginf", [inf, inf])]
    out = [lse_case(rng, "c%d" % i, k, x) for i, (k, x) in enumerate(vecs)]
    n = len(out)
    for j, f in enumerate(["b0", "b0", "k0", "k0", "nearsing", "nearsing", "nearsing", "nearsing"]):
        out.append(gen_uvr(rng, "c%d" % (n + j), False, f))
    return out


def generate(rng, tier):
    nu, nl = COUNTS[tier]
    cases = corpus(rng)
    cases += [gen_uvr(rng, i, tier == "thorough" and rng.random() < 0.15) for i in range(nu)]
    cases += [gen_lse(rng, nu + i) for i in range(nl)]
    return cases


def nontrivial(c):
    if c.kind == "uvr":
        if int(c.meta["nb"]) >= 2 or c.meta["enc"] == "shared":
            return ("uvr", c.meta["d"], c.meta["bs"], c.meta["k"], c.meta["enc"], c.meta["vkind"], int(c.meta["b"]) > 1,
                    gen.decade(float(c.meta["condS"])))
        return None
    if int(c.meta["n"]) >= 2:
        return ("lse", c.meta["lkind"], int(c.meta["n"]) // 10, int(c.meta["neginf"]) > 0, int(c.meta.get("maxcount", 1)) > 1)
    return None


# ----------------------------------------------------------------------------- tolerances

def tol_direct(c, ldmag):
    condS, q, qn = float(c.meta["condS"]), float(c.meta["q"]), float(c.meta["qn"])
    return 8 * EPS * (condS * (q + 1.0) + qn + ldmag + 10.0)


def tol_uvr(c, ldmag):
    condS, condR, condM = float(c.meta["condS"]), float(c.meta["condR"]), float(c.meta["condM"])
    q1, q2 = float(c.meta["q1"]), float(c.meta["q2"])
    return 8 * EPS * ((condR + condM) * (q1 + q2 + 1.0) + condS + ldmag + 10.0)


def close_log(a, b, tol):
    return caseio.close(a, b, tol, 0.0)


def close_dens(a, b, tol):
    """densities: an absolute error tol on the logarithm is a relative error on the density"""
    a, b = np.asarray(a, dtype=float), np.asarray(b, dtype=float)
    if a.shape != b.shape:
        return False
    return bool(np.all(np.abs(a - b) <= math.expm1(min(tol, 1.0)) * np.maximum(np.abs(a), np.abs(b)) + DBL_MIN))


def compare(c, impl, model):
    d = []
    if c.kind == "uvr":
        for f in ("ld", "dn", "ldu", "dnu"):
            if not impl.has(f) or not model.has(f):
                d.append("%s: missing" % f); continue
            a, b = impl.get(f), model.get(f)
            if a.shape != b.shape:
                d.append("%s: shape impl=%s model=%s" % (f, a.shape, b.shape)); continue
            mag = mx0(model.get("ld" if f in ("ld", "dn") else "ldu"))
            tol = tol_direct(c, mag) if f in ("ld", "dn") else tol_uvr(c, mag)
            ok = close_log(a, b, tol) if f in ("ld", "ldu") else close_dens(a, b, tol)
            if not ok:
                d.append("%s: max|impl-model|=%.3g (tol %.3g)" % (f, caseio.maxdiff(a, b), tol))
    else:
        for f in ["lse", "lse_shift"] + (["lse_mat"] if c.has("matcols") else []):
            a, b = impl.get(f), model.get(f)
            if a is None or b is None:
                d.append("%s: missing" % f); continue
            if not caseio.close(a, b, lse_tol(c, b), 0.0):
                d.append("%s: impl=%r model=%r" % (f, a, b))
    return d


# ----------------------------------------------------------------------------- oracle

def lse_tol(c, ref):
    n = int(c.meta["n"])
    mag = abs(ref) if math.isfinite(ref) else 1.0
    return 8 * EPS * max(1.0, mag) + 4 * EPS * n


def lse_ref(x):
    """ln sum exp x_i in extended precision (shifted by the largest entry, so nothing overflows)"""
    fin = [v for v in x if not math.isinf(v)]
    m = max(fin)
    s = np.sum(np.exp(np.array([v - m for v in fin], dtype=np.longdouble)), dtype=np.longdouble)
    return float(np.longdouble(m) + np.log(s))


def oracle(c, impl, model):
    v = []
    if c.kind == "lse":
        x = [float(t) for t in c.get("x").reshape(-1)]
        sh = float(c.get("c")[0, 0])
        r, rs = impl.get("lse"), impl.get("lse_shift")
        kind = c.meta["lkind"]
        if all(math.isinf(t) for t in x):
            return v        # outside the property (no finite entry); correspondence only
        ref = lse_ref(x)
        tol = lse_tol(c, ref)
        if r is None or not math.isfinite(r):
            v.append(("C15:lse-not-finite:%s" % kind, "log_sum_exp returned %r for %d entries with max %.17g (ln sum exp = %.17g)" % (r, len(x), max(x), ref)))
        elif abs(r - ref) > tol:
            v.append(("C15:lse-not-ln-sum-exp:%s" % kind, "log_sum_exp = %.17g, ln sum exp = %.17g (|diff| %.3g > %.3g)" % (r, ref, abs(r - ref), tol)))
        # shift law: entries and shift are dyadic, x_i + c is exact
        if rs is None or not math.isfinite(rs):
            v.append(("C15:lse-shift-not-finite:%s" % kind, "log_sum_exp(x + %.17g) returned %r" % (sh, rs)))
        elif r is not None and math.isfinite(r):
            tols = 8 * EPS * (abs(r) + abs(sh) + abs(r + sh) + 1.0)
            if abs(rs - (r + sh)) > tols:
                v.append(("C15:lse-shift-law:%s" % kind, "lse(x + c) = %.17g, lse(x) + c = %.17g" % (rs, r + sh)))
        if r is not None and math.isfinite(r):
            for nm, want in (("lse_row", r), ("lse_strided", r), ("lse_expr", rs)):
                a = impl.get(nm)
                if a is None or want is None or not (math.isfinite(a) and abs(a - want) <= lse_tol(c, want)):
                    v.append(("C15:lse-argument-form:%s" % nm, "%s = %r, plain vector argument gives %r" % (nm, a, want)))
        if impl.has("lse_mat") and r is not None and math.isfinite(r):
            rm = impl.get("lse_mat")
            if not (math.isfinite(rm) and abs(rm - r) <= tol):
                v.append(("C15:lse-matrix-input:%s" % kind, "as a matrix: %r, as a vector: %r" % (rm, r)))
        if model is not None and model.has("shifted"):
            s = model.get("shifted").reshape(-1)
            if not (np.all(s <= 0.0) and np.any(s == 0.0)):
                v.append(("C15:lse-model-shifted-exponents", "model: shifted exponents not all <= 0 with one = 0"))
        return v

    # ---- uvr
    if impl.get("inputs_unchanged") != 1:
        v.append(("C15:inputs-modified", "an argument passed by const reference changed"))
    d, b = int(c.meta["d"]), int(c.meta["b"])
    enc, vk = c.meta["enc"], c.meta["vkind"]
    tag = "%s:V=%s" % (enc, vk)
    inp, mean, S = c.get("input"), c.get("mean"), c.get("cov")
    ld, dn, ldu, dnu = impl.get("ld"), impl.get("dn"), impl.get("ldu"), impl.get("dnu")
    for name, a in (("ld", ld), ("dn", dn), ("ldu", ldu), ("dnu", dnu)):
        if a is None or a.shape != (b, 1):
            v.append(("C15:batch-shape:%s" % name, "%s has shape %s for a batch of %d" % (name, None if a is None else a.shape, b)))
            return v
    # reference: the definition, in extended precision where numpy allows (solve/slogdet in float64)
    diff = inp - mean
    sign, logdet = np.linalg.slogdet(S)
    quad = np.einsum("ij,ij->j", diff, np.linalg.solve(S, diff))
    ref = (-0.5 * (d * math.log(2 * math.pi) + logdet + quad)).reshape(b, 1)
    mag = mx0(ref)
    td, tu = tol_direct(c, mag), tol_uvr(c, mag)
    if not np.all(np.isfinite(ld)):
        v.append(("C15:direct-not-finite:%s" % tag, "direct log-density %s" % ld.reshape(-1)))
    elif not close_log(ld, ref, 2 * td):
        v.append(("C15:direct-not-definition:%s" % tag, "direct log-density vs -1/2(d ln 2pi + ln det S + q): max diff %.3g > %.3g" % (caseio.maxdiff(ld, ref), 2 * td)))
    if not np.all(np.isfinite(ldu)):
        v.append(("C15:uvr-not-finite:%s" % tag, "factorised log-density %s" % ldu.reshape(-1)))
    else:
        if not close_log(ldu, ld, td + tu):
            v.append(("C15:uvr-differs-from-direct:%s" % tag, "factorised vs direct log-density on the assembled S: max diff %.3g > %.3g (%s vs %s)"
                      % (caseio.maxdiff(ldu, ld), td + tu, ldu.reshape(-1)[:3], ld.reshape(-1)[:3])))
        if not close_log(ldu, ref, td + tu):
            v.append(("C15:uvr-not-definition:%s" % tag, "factorised log-density vs the definition: max diff %.3g > %.3g" % (caseio.maxdiff(ldu, ref), td + tu)))
    if model is not None and model.has("spec_ld"):
        sl = model.get("spec_ld")
        Sm = model.get("S")
        if not caseio.close(Sm, S, 16 * EPS * max(1.0, float(np.max(np.abs(S)))), 0.0):
            v.append(("C15:assembled-S", "extracted assembly of U V + blockdiag(R) differs from the generator's by %.3g" % caseio.maxdiff(Sm, S)))
        if np.all(np.isfinite(ld)) and not close_log(ld, sl, 2 * td):
            v.append(("C15:direct-not-extracted-definition:%s" % tag, "max diff %.3g > %.3g" % (caseio.maxdiff(ld, sl), 2 * td)))
        if np.all(np.isfinite(ldu)) and not close_log(ldu, sl, td + tu):
            v.append(("C15:uvr-not-extracted-definition:%s" % tag, "max diff %.3g > %.3g" % (caseio.maxdiff(ldu, sl), td + tu)))
    # arguments passed as blocks / segments of larger buffers: same values
    for nm, plain, tol in (("ld_views", ld, td), ("ldu_views", ldu, tu)):
        a = impl.get(nm)
        if a is None or a.shape != plain.shape or (np.all(np.isfinite(plain)) and not close_log(a, plain, tol)):
            v.append(("C15:view-arguments:%s" % nm, "called with blocks of larger matrices: %s, with plain matrices: %s"
                      % (None if a is None else a.reshape(-1)[:3], plain.reshape(-1)[:3])))
    # density = exp(log-density): the same libm exp on the same double, so bit-for-bit up to one rounding of exp
    for nm, dens, lg in (("direct", dn, ld), ("uvr", dnu, ldu)):
        if np.all(np.isfinite(lg)):
            e = np.exp(lg)
            if not bool(np.all(np.abs(dens - e) <= 4 * EPS * e + DBL_MIN)):
                v.append(("C15:density-not-exp-logdensity:%s" % nm, "density %s, exp(log-density) %s" % (dens.reshape(-1)[:3], e.reshape(-1)[:3])))
    return v


def on_crash(c, info, model):
    what = "%s:%s:V=%s" % (c.kind, c.meta.get("enc"), c.meta.get("vkind")) if c.kind == "uvr" else "lse:%s" % c.meta.get("lkind")
    return [("C15:%s:%s:%s" % (info["kind"], runner.first_entry(info["stderr"]), what),
             "implementation ended abnormally (%s, rc=%s): %s" % (info["kind"], info["rc"], info["stderr"][-300:]))]


def histogram(cases):
    h = {"kind": {}, "uvr_enc_vkind": {}, "uvr_shape": {}, "lse_kind": {}, "condS_decade": {}}

    def inc(d, k):
        d[str(k)] = d.get(str(k), 0) + 1
    for c in cases:
        inc(h["kind"], c.kind)
        if c.kind == "uvr":
            inc(h["uvr_enc_vkind"], "%s/%s" % (c.meta["enc"], c.meta["vkind"]))
            inc(h["uvr_shape"], "nb=%s bs=%s" % (c.meta["nb"], c.meta["bs"]))
            inc(h["condS_decade"], gen.decade(float(c.meta["condS"])))
        else:
            inc(h["lse_kind"], c.meta["lkind"])
    return h


LEVEL_TEXT = ("Proof: the model of utils::multivariate_gaussian_log_density(_UVR)/_density(_UVR) (R kept in the code's concatenated-blocks layout, "
              "shared/per-block branch, block-by-block products, Woodbury quadratic form, det R as pow or running product, determinant lemma) is proved, "
              "for every real field, every number of blocks, block size, k, batch, to return per evaluation point the direct log-density "
              "-1/2(d ln 2pi + ln det S + delta^T S^-1 delta) of the assembled S = U V + blockdiag(R), given invertible blocks and invertible S "
              "(invertibility of I + V R^-1 U is derived; for V = U^T and SPD blocks every premise is derived); density = exp(log-density). Over R: log_sum_exp = ln sum exp, the shift law, "
              "no overflow (shifted exponents <= 0, one = 0, 1 <= sum <= n), and the -inf extension. The model is tied to the code by running the "
              "extracted model and the library on the same generated cases.")
LEVEL_NOTE = ("Trusted: Coq kernel, MathComp, Reals axioms (lse only), extraction + float driver, list instance of the matrix interface, harness and tolerances; "
              "rounding is not modelled; the tie to the code is sampled. ln/exp/pi are uninterpreted in the matrix theorems (only congruence is used), so "
              "positivity of det S is not needed there; on the float side the generator keeps det S > 0.")


def main(ctx, a):
    """The standard flow, plus: the matrix theorems must be axiom-free (the runner's whitelist is per property)."""
    if not a.skip_proofs:
        runner.prove(ctx)
        for t in CLOSED_THEOREMS:
            ax = ctx.assumptions.get(t)
            if ax:
                ctx.proof_problems.append("theorem %s must be closed under the global context but depends on %s" % (t, ax))
    if a.replay:
        cases = caseio.read_cases(a.replay)
        ctx.log("replaying %d case(s) from %s" % (len(cases), a.replay))
    else:
        cases = generate(ctx.rng, a.tier)
    if cases:
        runner.standard_cases(ctx, cases)
    runner.widen_if_needed(ctx, sys.modules[__name__], a)
    ctx.extra["histogram"] = histogram(cases)
    return runner.finish(ctx)
