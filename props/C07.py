"""C07 — Resampling is a faithful low-variance selection with uniform output weights (DESIGN.md §5 C07)."""
import math
import numpy as np
from vlib import caseio, runner

ID = "C07"
COQ_TARGETS = ["C07_Extract.vo", "C07_Proofs.vo", "C07_Partition.vo", "C07_Rounding.vo", "C07_Regress.vo"]
EXTRACTED = "C07_model"
DRIVER = "drv_C07.ml"
HARNESS = "h_C07.cpp"
VARIANTS = {"quick": ["O1"], "thorough": ["O1", "asan"]}
AXIOMS_ALLOWED = runner.REAL_AXIOMS
MODEL_NEEDS_IMPL = True      # the mirrored random offset u1 is printed by the harness
REQUIRED_THEOREMS = ["C07_length", "C07_copy", "C07_parents_sorted", "C07_parents_in_range", "C07_uniform_weights",
                     "C07_advance_fuel", "C07_count_bound", "C07_zero_weight_not_selected", "C07_heavy_selected",
                     "C07_u1_zero_boundary_refuted", "C07_neff_formula", "C07_neff_range",
                     "C07_selection_interval", "C07_lse_spec", "C07_lse_normalises",
                     "C07p_num_prior", "C07p_partition", "C07p_parents", "C07p_copy", "C07p_uniform", "C07p_reports_N", "C07p_count_bound",
                     "C07_copy_members", "C07p_copy_members", "C07p_parent_exact", "C07p_fresh_left",
                     "C07p_partition_relational", "C07p_partition_total_order", "C07p_ties_any_choice", "C07p_parents_survive",
                     "C07_count_bound_cumulative", "C07_count_bound_rounded"]
RULE = ("cases from one seeded stream: N in 1..200, log-weight vectors uniform / one-hot / with exact zeros (-inf) / geometric over 300 "
        "orders of magnitude / dyadic / random / with exact ties / with a tie class straddling the split of the prior variant (more exact zeros than replaced "
        "particles, duplicated weights followed or preceded by strictly heavier ones, all the mass on a late particle, tie class up to 300 orders below the heavy ones), layouts linear / Euler-circular / quaternion (dc in 1..2, with and without a "
        "linear part; dim != dim_covariance for quaternions), 32-bit seeds and the default-seed constructors (Resampling(), ResamplingWithPrior(init, ratio), ResamplingWithPrior(init) with its ratio 0.5), 1..3 successive draws on the same object, an earlier call with another N "
        "on the same object (explicit corpus + 12%); 15% histories: ONE resampler object through 2..9 interleaved neff() / resample() calls on two live particle sets "
        "(N2 = N or not) whose log-weights are rewritten IN PLACE between calls (same storage address) or left unchanged, incl. neff on W1 - change - resample without a fresh neff, "
        "resample with no neff at all, neff on the other set; every call judged against the weights held at that call; prior variant with ratio in {0, 0.125, 0.25, 0.5, 0.7, 0.9, 0.999, random in [0,1)} and a counting, grid or failing initialiser; the partition clause is decided relationally (any choice among exact ties is accepted, a strictly heavier particle must survive); "
        "non-trivial = N >= 2 and not uniform; distinct by (kind, weight class, N, ratio class)")
TRUSTED_BASE = ["Coq 8.16.1 kernel (coqc); the four real-number axioms of the standard library (sig_forall_dec, sig_not_dec, functional_extensionality_dep, classic)",
                "extraction (ExtrOcamlBasic only) and ocaml/float_ops.ml, ocaml/drv_C07.ml, ocaml/caseio.ml",
                "cpp/h_C07.cpp harness incl. the mirrored std::mt19937_64 / uniform_real_distribution draw (validated by the exact parent comparison)",
                "theorems are over exact reals: rounding of the cumulative sums is not modelled; comb points within 1e-12 of a cumulative weight are counted as near-boundary and not compared",
                "correspondence is sampled: agreement is established on the generated cases only"]
ASSUMPTIONS = ["the random offset satisfies 0 < u1 < 1/N (std::uniform_real_distribution draws from [0, 1/N); u1 = 0 has probability 2^-53 and is the documented boundary C07_u1_zero_boundary_refuted)",
               "ParticleSetInitialization::initialize keeps the size of the set it is given (checked on the harness initialisers)",
               "std::sort orders the indices by increasing weight; order among equal weights unspecified: the comparison goes through the weights, the oracle accepts every admissible choice among ties (C07p_ties_any_choice)",
               "the comparison of the sort is a total preorder on the weights (no NaN log-weight): premise of C07p_partition_total_order, true of the reals"]

COUNTS = {"quick": 800, "thorough": 15000}
NEAR = 1e-12
ID0 = 1000.0           # state row 0 of original particle i is ID0 + i

_stats = {"near_boundary_skipped": 0, "tie_cases": 0, "threshold_within_ulps_excluded": 0,
          "prior_ties_straddling_split_decided_relationally": 0, "prior_heavier_particle_after_tied_ones": 0,
          "plain_exact_cumulative_ties": 0, "plain_parents_equal_up_to_cumulative_tie": 0,
          "correspondence_differences_by_class": {}, "max_count_excess_over_one_normalised_input": -1.0,
          "plain_count_bound_not_evaluated_sum_far_from_one": 0, "history_steps_judged": 0, "history_steps_storage_moved_not_judged": 0, "plain_surplus_to_last_particle": 0}


# ------------------------------------------------------------------ generation

M64 = (1 << 64) - 1


def mt64_first(seed):
    """first output of std::mt19937_64(seed)"""
    mt = [seed & M64]
    for i in range(1, 157):
        mt.append((6364136223846793005 * (mt[i - 1] ^ (mt[i - 1] >> 62)) + i) & M64)
    y = (mt[0] & 0xFFFFFFFF80000000) | (mt[1] & 0x7FFFFFFF)
    x = mt[156] ^ (y >> 1) ^ (0xB5026F5AA96619E9 if (y & 1) else 0)
    x ^= (x >> 29) & 0x5555555555555555
    x ^= (x << 17) & 0x71D67FFFEDA60000
    x ^= (x << 37) & 0xFFF7EEE000000000
    x ^= x >> 43
    return x & M64


def first_u1(seed, N):
    """std::uniform_real_distribution<double>(0, 1.0/N) applied to the first output (libstdc++ generate_canonical<double, 53>)"""
    r = float(mt64_first(seed)) / 18446744073709551616.0
    if r >= 1.0:
        r = math.nextafter(1.0, 0.0)
    return (1.0 / N - 0.0) * r + 0.0


def special_case(rng, cid, which, N):
    """plain cases aimed at the two comparisons of the carried-pointer loop (needs the offset the seed will produce):
    'guard': sum of the weights 1 - 1e-3 and u1 in the top of its range, so that u_{N-1} > csw(N-1) and only the
             guard idx < N-1 stops the pointer; 'tie': csw(0) == u_j exactly for some j (u_j > csw must not advance)."""
    for _ in range(20000):
        seed = rng.randrange(0, 2 ** 32)
        u1 = first_u1(seed, N)
        if which == "guard":
            w = np.array([rng.random() + 0.01 for _ in range(N)]); w = w / w.sum() * (1.0 - 1e-3)
            lw = np.log(w)
            acc = math.exp(lw[0])
            for i in range(1, N):
                acc = acc + math.exp(lw[i])
            if not (u1 + float(N - 1) / N > acc):
                continue
        else:
            j = rng.randrange(0, N)
            x = u1 + float(j) / N
            if not (0.0 < x < 1.0):
                continue
            l0 = math.log(x)
            if math.exp(l0) != x:
                continue
            rest = np.array([rng.random() + 0.01 for _ in range(N - 1)]); rest = rest / rest.sum() * (1.0 - x)
            lw = np.concatenate([[l0], np.log(rest)])
        dl, dc, quat = pick_layout(rng)
        meta = {"N": N, "cls": which, "dl": dl, "dc": dc, "quat": quat, "u1_expect": caseio.fmt(u1)}
        c = caseio.Case(cid, "plain", meta)
        c.mat_shape("lw", N, 1, lw)
        payload(rng, c, N, meta)
        c.int("seed", seed)
        c.int("draws", 1)
        return c
    return None


def split_ties(rng, N, k):
    """weight vectors whose tie class STRADDLES the split after the k lightest particles: more particles tied at the
    (k+1)-th smallest weight than there are places left among the survivors.  Patterns: exact zeros (log-weight -inf)
    first / last / scattered with fewer replaced than zeros, all the mass on a late particle, duplicated weights followed
    (or preceded) by strictly heavier ones, lighter distinct particles below the tie class, two tie classes.
    k = 0 (nothing replaced) and small N degrade to ordinary tied vectors."""
    k = max(0, min(k, N - 1))
    pat = rng.choice(["zeros", "zeros", "onehot_late", "dup", "dup", "dup_light", "two_classes"])
    if pat == "onehot_late" or N < 3:
        w = np.zeros(N); w[N - 1 - (rng.randrange(min(N, 3)) if rng.random() < 0.5 else 0)] = 1.0
        return w
    if pat == "zeros":
        z = rng.randint(min(k + 1, N - 1), N - 1)            # more zeros than replaced particles, at least one heavy
        heavy = [rng.random() + 0.05 for _ in range(N - z)]
        if rng.random() < 0.3:
            heavy = [rng.choice([1.0, 2.0]) for _ in heavy]   # the heavy ones tied among themselves too
        vals = [0.0] * z + heavy
    else:
        light = rng.randint(0, max(0, k - 1)) if pat in ("dup_light", "two_classes") else 0
        t_min = k - light + 1                                 # the class must reach over the split
        t = rng.randint(min(t_min, N - light), max(min(t_min, N - light), N - light - (1 if rng.random() < 0.85 else 0)))
        nh = N - light - t
        v = rng.random() + 0.2
        lights = [v * (0.1 + 0.8 * rng.random()) for _ in range(light)]
        if pat == "two_classes" and light >= 2:
            lights = [v * 0.5] * light
        big = rng.choice([1.0, 1.0, 1e3, 1e150, 1e300])     # the tie class down to 300 orders of magnitude below the heavy ones
        heavies = [v * (1.5 + rng.random()) * big for _ in range(nh)]
        if pat == "two_classes" and nh >= 2:
            heavies = [v * 3.0] * nh
        vals = lights + [v] * t + heavies
    order = rng.choice(["light_first", "light_first", "heavy_first", "shuffle"])
    if order == "heavy_first":
        vals = vals[::-1]
    elif order == "shuffle":
        rng.shuffle(vals)
    return np.array(vals, dtype=float)


def weights(rng, N, cls, k=None):
    if cls == "splitties":
        w = split_ties(rng, N, rng.randint(0, max(0, N - 1)) if k is None else k)
    elif cls == "uniform":
        w = np.ones(N)
    elif cls == "onehot":
        w = np.zeros(N); w[rng.randrange(N)] = 1.0
    elif cls == "zeros":
        w = np.array([rng.random() if rng.random() < 0.5 else 0.0 for _ in range(N)])
        if w.sum() == 0: w[rng.randrange(N)] = 1.0
    elif cls == "geometric":
        e = np.array([-300.0 * i / max(1, N - 1) for i in range(N)])
        rng.shuffle(e)
        w = 10.0 ** e
    elif cls == "dyadic":
        m = 12
        cuts = sorted(rng.randrange(0, 2 ** m + 1) for _ in range(N - 1))
        ks = np.diff([0] + cuts + [2 ** m])
        w = ks / float(2 ** m)
        if w.sum() == 0: w[0] = 1.0
    elif cls == "ties":
        vals = [rng.random() + 0.05 for _ in range(rng.randint(1, 4))]
        w = np.array([rng.choice(vals) for _ in range(N)])
    elif cls == "dominant":
        w = np.array([rng.random() * 1e-6 for _ in range(N)]); w[rng.randrange(N)] = 1.0
    else:
        w = np.array([rng.random() ** 3 + 1e-9 for _ in range(N)])
    w = w / w.sum()
    with np.errstate(divide="ignore"):
        lw = np.log(w)
    return lw


CLASSES = ["uniform", "onehot", "zeros", "geometric", "dyadic", "random", "random", "ties", "dominant", "splitties"]
PRIOR_CLASSES = CLASSES + ["splitties", "splitties", "zeros", "ties"]      # the partition clause is decided on ties


def pick_N(rng):
    r = rng.random()
    if r < 0.15: return rng.randint(1, 3)
    if r < 0.6: return rng.randint(4, 40)
    return rng.randint(41, 200)


def dims(meta):
    """(dim, dim_covariance) of a layout: a quaternion takes 4 state rows and 3 covariance rows"""
    dl, dc, q = int(meta["dl"]), int(meta["dc"]), int(meta.get("quat", 0))
    return dl + dc * (4 if q else 1), dl + dc * (3 if q else 1)


def pick_layout(rng):
    r = rng.random()
    if r < 0.3:
        return rng.randint(1, 4), 0, 0                      # linear only
    if r < 0.55:
        return rng.randint(0, 3), rng.randint(1, 2), 0      # Euler-circular, with and without a linear part
    return rng.randint(0, 3), rng.randint(1, 2), 1          # quaternions, with and without a linear part


def payload(rng, c, N, meta):
    d, dcov = dims(meta)
    st = np.array([[rng.uniform(-5, 5) for _ in range(N)] for _ in range(d)])
    st[0, :] = ID0 + np.arange(N)
    c.mat_shape("state", d, N, st)
    c.mat_shape("mean", d, N, [[rng.uniform(-5, 5) for _ in range(N)] for _ in range(d)])
    c.mat_shape("cov", dcov, dcov * N, [[rng.uniform(-2, 2) for _ in range(dcov * N)] for _ in range(dcov)])


def corpus(rng):
    """hand-picked cases kept explicit in every tier: two calls on ONE object with different particle counts
    (the 1/N range of the offset must follow each call's set), plain and prior, linear and quaternion layouts"""
    out = []
    for i, (kind, N1, N, lay, ratio) in enumerate([("plain", 3, 40, (2, 0, 0), None), ("plain", 50, 4, (1, 1, 1), None),
                                                    ("prior", 5, 30, (2, 1, 1), 0.5), ("prior", 60, 6, (0, 2, 1), 0.25),
                                                    ("plain", 2, 17, (0, 1, 0), None), ("prior", 7, 21, (3, 0, 0), 0.0)]):
        meta = {"N": N, "cls": "random", "dl": lay[0], "dc": lay[1], "quat": lay[2], "first": N1}
        if kind == "prior":
            meta.update({"rclass": "fixed", "init": "count"})
        c = caseio.Case("corpus%d" % i, kind, meta)
        if kind == "prior":
            c.mat_shape("ratio", 1, 1, [ratio])
        c.mat_shape("lw", N, 1, weights(rng, N, "random"))
        c.mat_shape("lw_first", N1, 1, weights(rng, N1, "random"))
        payload(rng, c, N, meta)
        c.int("seed", 1 + i)
        c.int("draws", 1)
        out.append(c)
    return out


HIST_CLASSES = ["uniform", "onehot", "zeros", "random", "random", "dominant", "ties", "splitties", "geometric"]


def history_case(rng, cid, script=None):
    """ONE Resampling / ResamplingWithPrior object driven through a history of neff() and resample() calls on two
    particle-set objects P (N particles) and Q (N2 particles, sometimes N2 = N) that live for the whole history; before
    each step the target's log-weights are overwritten IN PLACE (same storage address) - with a new vector of another
    class, or left as they were.  Covers: neff on W1, weights changed in place, resample without a fresh neff; resample
    with no neff at all; neff on one set and resample on the other; neff/resample pairs on unchanged weights (the
    library's own use).  Every step is judged against the weights the set holds at that step."""
    prior = rng.random() < 0.3
    N = rng.randint(2, 40)
    N2 = N if rng.random() < 0.35 else rng.randint(1, 40)
    dl, dc, quat = pick_layout(rng)
    meta = {"N": N, "N2": N2, "cls": "hist", "dl": dl, "dc": dc, "quat": quat, "variant": "prior" if prior else "plain"}
    ratio = None
    if prior:
        rc = rng.choice(["0", "0.125", "0.25", "0.5", "0.9", "rnd"])
        ratio = rng.random() if rc == "rnd" else float(rc)
        meta["rclass"] = rc
        meta["init"] = "count"
    if script is None:
        T = rng.randint(2, 7)
        script = []
        for k in range(T):
            r = rng.random()
            tgt = "P" if rng.random() < 0.75 else "Q"
            script.append((("n" if r < 0.4 else "r") + tgt, "keep" if rng.random() < 0.3 else "new"))
        if rng.random() < 0.6:
            # the pattern of a filter whose correction step updates the weights between the two calls
            at = rng.randrange(0, len(script))
            script[at:at] = [("nP", "new"), ("rP", "new")]
        if not any(op[0] == "r" for op, _ in script):
            script.append(("rP", "new"))
    c = caseio.Case(cid, "hist", meta)
    c.word("ops", [op for op, _ in script])
    meta["ops"] = "".join(op for op, _ in script); c.meta["ops"] = meta["ops"]
    c.meta["steps"] = len(script)
    if prior:
        c.mat_shape("ratio", 1, 1, [ratio])
    cur = {"P": None, "Q": None}
    for k, (op, how) in enumerate(script):
        t = op[1]
        n = N if t == "P" else N2
        if how == "keep" and cur[t] is not None:
            lw = cur[t]
        else:
            cls = how if how in HIST_CLASSES else rng.choice(HIST_CLASSES)
            lw = weights(rng, n, cls, int(math.floor(n * ratio)) if prior else None)
        cur[t] = lw
        c.mat_shape("lw_s%d" % k, n, 1, lw)
    payload(rng, c, N, meta)
    d, dcov = dims(meta)
    st = np.array([[rng.uniform(-5, 5) for _ in range(N2)] for _ in range(d)])
    st[0, :] = ID0 + np.arange(N2)
    c.mat_shape("stateQ", d, N2, st)
    c.mat_shape("meanQ", d, N2, [[rng.uniform(-5, 5) for _ in range(N2)] for _ in range(d)])
    c.mat_shape("covQ", dcov, dcov * N2, [[rng.uniform(-2, 2) for _ in range(dcov * N2)] for _ in range(dcov)])
    c.int("seed", rng.randrange(0, 2 ** 32))
    return c


def history_corpus(rng):
    """explicit histories kept in every tier: neff on uniform weights then resample on a degenerate / skewed vector written
    in place; the other way round; resample twice with a change in between and no neff; neff on Q, resample on P"""
    scripts = [[("nP", "uniform"), ("rP", "onehot"), ("rP", "dominant"), ("nP", "keep")],
               [("nP", "onehot"), ("rP", "uniform")],
               [("rP", "random"), ("rP", "zeros"), ("nP", "keep"), ("rP", "keep")],
               [("nQ", "uniform"), ("rP", "zeros"), ("nP", "uniform"), ("rQ", "onehot"), ("rP", "onehot")],
               [("nP", "random"), ("rP", "keep"), ("nP", "zeros"), ("rP", "keep")]]
    return [history_case(rng, "hcorpus%d" % i, sc) for i, sc in enumerate(scripts)]


def generate(rng, tier):
    cases = corpus(rng) + history_corpus(rng)
    n = COUNTS[tier]
    for q in range(max(8, n // 25)):
        sc = special_case(rng, "sp%d" % q, "guard" if q % 2 == 0 else "tie", rng.randint(2, 60))
        if sc is not None:
            cases.append(sc)
    for k in range(n):
        if rng.random() < 0.15:
            cases.append(history_case(rng, "h%d" % k))
            continue
        prior = rng.random() < 0.45
        cls = rng.choice(PRIOR_CLASSES if prior else CLASSES)
        N = pick_N(rng)
        if cls == "dyadic":
            N = 2 ** rng.randint(0, 7)
        dl, dc, quat = pick_layout(rng)
        meta = {"N": N, "cls": cls, "dl": dl, "dc": dc, "quat": quat}
        if prior:
            rc = rng.choice(["0", "0.125", "0.25", "0.5", "0.7", "0.9", "0.999", "rnd"])
            # the two shorter constructors: (init, ratio) uses seed 1, (init) uses ratio 0.5 and seed 1
            ctor = rng.choice(["3"] * 8 + ["2", "1"])
            if ctor == "1":
                rc = "0.5"
            meta["ctor"] = ctor
            ratio = rng.random() if rc == "rnd" else float(rc)
            if rc == "0.7" and rng.random() < 0.5:
                N = 10           # 10 * 0.7 is 7.000000000000001 in doubles (floor 7) although the double 0.7 is below 7/10
                meta["N"] = N
            npri = int(math.floor(N * ratio))
            lw = weights(rng, N, cls, npri)
            meta["rclass"] = rc
            meta["init"] = "count"
            meta["presize"] = rng.choice([0, 0, 0, -3, 2]) if N > 3 else 0
            meta["xfer"] = rng.choice(["none", "none", "move_assign"])
            if rng.random() < 0.08 and npri >= 1:
                # an initialiser that fails (grid of another size): returns false, writes nothing; resample ignores it
                dl, dc, quat = 4, 0, 0
                meta.update({"init": "gridfail", "nx": npri + 1, "ny": 2, "dl": dl, "dc": dc, "quat": quat})
            elif rng.random() < 0.25:
                # the shipped grid initialiser: needs a 4-row state and num_prior = nx*ny
                fac = [(a, npri // a) for a in range(2, 12) if npri % a == 0 and npri // a >= 2]
                if fac:
                    nx, ny = rng.choice(fac)
                    dl, dc, quat = 4, 0, 0
                    meta.update({"init": "grid", "nx": nx, "ny": ny, "dl": dl, "dc": dc, "quat": quat})
            c = caseio.Case(k, "prior", meta)
            c.mat_shape("ratio", 1, 1, [ratio])
        else:
            lw = weights(rng, N, cls)
            meta["xfer"] = rng.choice(["none", "none", "copy_ctor", "move_ctor", "move_assign", "copy_assign"])
            meta["ctor"] = rng.choice(["seed"] * 9 + ["default"])       # Resampling(): seed 1
            c = caseio.Case(k, "plain", meta)
        c.mat_shape("lw", N, 1, lw)
        if rng.random() < 0.12:
            N1 = pick_N(rng)
            meta["first"] = N1; c.meta["first"] = N1
            c.mat_shape("lw_first", N1, 1, weights(rng, N1, "random"))
        payload(rng, c, N, meta)
        c.int("seed", 1 if meta.get("ctor") in ("default", "2", "1") else rng.randrange(0, 2 ** 32))
        c.int("draws", rng.choice([1, 1, 1, 2, 3]))
        cases.append(c)
    return cases


def nontrivial(c):
    if c.kind == "hist":
        return (c.kind, c.meta["variant"], c.meta["N"], c.meta["N2"], c.meta["ops"], c.meta.get("rclass", "-"))
    if int(c.meta["N"]) >= 2 and c.meta["cls"] != "uniform":
        return (c.kind, c.meta["cls"], c.meta["N"], c.meta.get("rclass", "-"), c.meta["dl"], c.meta["dc"], c.meta.get("quat", 0))
    return None


# ------------------------------------------------------------------ helpers

def col(rec, name):
    v = rec.get(name)
    return None if v is None else np.asarray(v, dtype=float).reshape(-1)


def near_boundary(model):
    cs, cb = col(model, "csw"), col(model, "comb")
    if cs is None or cb is None or cs.size == 0:
        return False
    with np.errstate(invalid="ignore"):
        d = np.abs(cb.reshape(-1, 1) - cs.reshape(1, -1))
    return bool(np.nanmin(d) < NEAR)


def same_bits(a, b):
    a, b = np.asarray(a, dtype=float), np.asarray(b, dtype=float)
    return a.shape == b.shape and bool(np.all((a == b) | (np.isnan(a) & np.isnan(b))))


def column_of(c, name, i):
    """particle i's block of an input operand"""
    a = c.get(name)
    d = c.get("cov").shape[0]          # dim_covariance
    if name == "cov":
        return a[:, i * d:(i + 1) * d]
    return a[:, i:i + 1]


def impl_block(impl, name, j, d):
    a = impl.get(name)
    if name == "cov":
        return a[:, j * d:(j + 1) * d]
    return a[:, j:j + 1]


def impl_sources(impl, N):
    """original index of every output particle, read from the id row of its state (None = not an original)"""
    st = impl.get("state")
    out = []
    for j in range(st.shape[1]):
        v = st[0, j]
        k = int(round(v - ID0)) if np.isfinite(v) else -1
        out.append(k if (0 <= k < N and v == ID0 + k) else None)
    return out


def is_copy(c, impl, j, i):
    d = c.get("cov").shape[0]          # dim_covariance: width of one covariance block
    return all(same_bits(impl_block(impl, nm, j, d), column_of(c, nm, i)) for nm in ("state", "mean", "cov"))


def fresh_expected(c, npri):
    d = c.get("state").shape[0]
    if c.meta.get("init") == "gridfail":
        return np.zeros((d, npri))      # a fresh (zero) set the failed initialiser did not touch
    if c.meta.get("init") == "grid":
        nx, ny = int(c.meta["nx"]), int(c.meta["ny"])
        out = np.zeros((d, npri))
        for i in range(nx):
            for j in range(ny):
                out[:, i * ny + j] = [((5.0 - (-3.0)) / (nx - 1)) * i + (-3.0), 0.0, ((2.5 - 1.0) / (ny - 1)) * j + 1.0, 0.0]
        return out
    return np.array([[-(k + 1.0) - 0.25 * i for k in range(npri)] for i in range(d)]).reshape(d, npri)


class StepRec:
    """step k of a history record seen as the record of a single call (field name -> name_s<k>)"""
    def __init__(self, rec, k):
        self.rec, self.sfx, self.id = rec, "_s%d" % k, getattr(rec, "id", None)

    def has(self, name):
        return self.rec.has(name + self.sfx)

    def get(self, name, default=None):
        return self.rec.get(name + self.sfx, default)

    def tag(self, name):
        return self.rec.tag(name + self.sfx)


class StepCase:
    """step k of a history case seen as a plain / prior case on the set and the weights of that step"""
    def __init__(self, c, k, op):
        self.c, self.k, self.on_q = c, k, op[1] == "Q"
        self.id, self.kind = c.id, c.meta["variant"]
        self.meta = dict(c.meta)
        self.meta["N"] = c.meta["N2"] if self.on_q else c.meta["N"]
        self.meta["cls"] = "hist"

    def get(self, name):
        if name == "lw":
            return self.c.get("lw_s%d" % self.k)
        if name == "draws":
            return 1
        if name in ("state", "mean", "cov") and self.on_q:
            return self.c.get(name + "Q")
        return self.c.get(name)

    def has(self, name):
        return name in ("lw", "draws") or self.c.has(name)


def history_steps(c):
    return list(enumerate(c.get("ops")))


def history_weights_story(c, k):
    """what happened to the target's weights before step k, for the violation text"""
    ops = c.get("ops")
    t = ops[k][1]
    prev = [j for j in range(k) if ops[j][1] == t]
    last_neff = [j for j in range(k) if ops[j][0] == "n"]
    changed = (not prev) or not same_bits(c.get("lw_s%d" % prev[-1]), c.get("lw_s%d" % k))
    txt = "history %s, step %d (%s on %s)" % (" ".join(ops), k, "neff" if ops[k][0] == "n" else "resample", t)
    if ops[k][0] == "r":
        if not last_neff:
            txt += ", no neff() before it"
        else:
            j = last_neff[-1]
            stale = ops[j][1] != t or not same_bits(c.get("lw_s%d" % j), c.get("lw_s%d" % k))
            txt += ", last neff() at step %d on %s with %s weights" % (j, ops[j][1], "OTHER" if stale else "these")
        txt += "; weights %s since the previous call on this set" % ("rewritten in place" if changed and prev else ("written" if not prev else "unchanged"))
    return txt


# ------------------------------------------------------------------ correspondence

def compare_history(c, impl, model):
    diffs = []
    for k, op in history_steps(c):
        si, sm, sc = StepRec(impl, k), StepRec(model, k), StepCase(c, k, op)
        if op[0] == "n":
            d = caseio.compare_fields(si, sm, ["neff"], atol=0.0, rtol=1e-12)
        elif not si.has("parents"):
            d = ["no record of this resample call"]
        else:
            d = compare_(sc, si, sm)
        diffs += ["step %d (%s): %s" % (k, op, x) for x in d]
    return diffs


def compare(c, impl, model):
    diffs = compare_history(c, impl, model) if c.kind == "hist" else compare_(c, impl, model)
    if diffs:
        key = "%s/%s" % (c.kind, c.meta.get("cls"))
        _stats["correspondence_differences_by_class"][key] = _stats["correspondence_differences_by_class"].get(key, 0) + 1
    return diffs


def compare_(c, impl, model):
    N = int(c.meta["N"])
    lw = c.get("lw").reshape(-1)
    diffs = caseio.compare_fields(impl, model, ["neff"], atol=0.0, rtol=1e-12) if (impl.has("neff") or model.has("neff")) else []
    diffs += caseio.compare_fields(impl, model, ["weights"], atol=1e-15, rtol=0.0)
    near = near_boundary(model) if c.kind != "plain" else False     # the plain path is bit-identical on both sides: never skipped
    if near:
        _stats["near_boundary_skipped"] += 1
    if "u1_expect" in c.meta and caseio.parse_float(c.meta["u1_expect"]) != impl.get("u1"):
        diffs.append("u1: the Python mirror of mt19937_64/uniform_real_distribution predicted %s, the harness drew %r" % (c.meta["u1_expect"], impl.get("u1")))
    if c.kind == "plain":
        # Given u1 the selection is determined except where cumulative weights TIE exactly (zero weights, weights absorbed
        # by the rounding of the running sum): particles a, b with csw(a) == csw(b) cover the same comb points, so the
        # parents are compared through the cumulative weight, never by index alone.  Whether a zero-weight particle may
        # be picked there is the oracle's business (C07:zero-weight-selected, C07:count-bound), not the comparison's.
        cs = col(model, "csw")
        pi, pm = col(impl, "parents"), col(model, "parents")
        if cs is not None and cs.size > 1 and bool(np.any(np.diff(cs) == 0.0)):
            _stats["plain_exact_cumulative_ties"] += 1

        def tied(a, b):
            a, b = int(a), int(b)
            return a == b or (0 <= a < cs.size and 0 <= b < cs.size and cs[a] == cs[b])
        if pi.shape != pm.shape:
            diffs.append("parents: %d vs %d entries" % (pi.size, pm.size))
        elif not same_bits(pi, pm):
            badj = [j for j in range(pm.size) if not (pi[j] == np.round(pi[j]) and tied(pi[j], pm[j]))]
            if badj:
                j = badj[0]
                diffs.append("parents: output %d: impl parent %d (cumulative weight %r), model parent %d (cumulative weight %r); impl=%s model=%s"
                             % (j, int(pi[j]), float(cs[int(pi[j])]) if 0 <= int(pi[j]) < cs.size else None, int(pm[j]), float(cs[int(pm[j])]), pi[:12], pm[:12]))
            else:
                _stats["plain_parents_equal_up_to_cumulative_tie"] += 1
        src = col(model, "src")
        if impl.get("state").shape[1] == N and src.size == N and pi.size == N:
            dcv = c.get("cov").shape[0]
            for nm, key in (("state", "src"), ("mean", "src_mean"), ("cov", "src_cov")):
                sm = col(model, key)
                bad = [j for j in range(N) if not same_bits(impl_block(impl, nm, j, dcv), column_of(c, nm, int(sm[j])))
                       and not (pi[j] == np.round(pi[j]) and int(pi[j]) != int(sm[j]) and tied(pi[j], sm[j])
                                and same_bits(impl_block(impl, nm, j, dcv), column_of(c, nm, int(pi[j]))))]
                if bad:
                    diffs.append("copies: %s of output %d is not the model's source %d" % (nm, bad[0], int(sm[bad[0]])))
        else:
            diffs.append("sizes: impl state cols %d, model %d" % (impl.get("state").shape[1], src.size))
        return diffs
    # prior variant
    diffs += caseio.compare_fields(impl, model, ["components"], 0, 0)
    npri = model.get("num_prior")
    if npri != int(math.floor(N * c.get("ratio")[0, 0])):
        diffs.append("num_prior: model %d, floor(N*ratio) %d" % (npri, int(math.floor(N * c.get("ratio")[0, 0]))))
    if len(set(lw.tolist())) < N:
        _stats["tie_cases"] += 1
    if not near:
        pi, pm = col(impl, "parents"), col(model, "parents")
        distinct = len(set(lw.tolist())) == N
        if pi.shape != pm.shape:
            diffs.append("parents: %d vs %d entries" % (pi.size, pm.size))
        elif distinct and not same_bits(pi, pm):
            diffs.append("parents: impl=%s model=%s" % (pi[:12], pm[:12]))
        elif not distinct:
            # std::sort's order among equal weights is free: compare through the weights
            for j in range(pm.size):
                a, b = int(pi[j]), int(pm[j])
                if (a < 0) != (b < 0) or (a >= 0 and (a >= N or lw[a] != lw[b])):
                    diffs.append("parents: output %d: impl parent %d, model parent %d (weights differ)" % (j, a, b)); break
        src_m = col(model, "src")
        src_i = impl_sources(impl, N)
        if len(src_i) != src_m.size:
            diffs.append("sizes: impl state cols %d, model %d" % (len(src_i), src_m.size))
        else:
            for j in range(src_m.size):
                sm = int(src_m[j])
                if sm < 0:
                    continue     # fresh particle: content is the initialiser's, checked by the oracle
                si = src_i[j]
                if si is None or lw[si] != lw[sm] or (distinct and si != sm):
                    diffs.append("sources: output %d: impl copy of %s, model of %d" % (j, si, sm)); break
    return diffs


# ------------------------------------------------------------------ property oracle (on the implementation)

EPS = 2.0 ** -52


def count_bound(v, sig, counts, Nw, lim, track=True):
    """|count_i - N w_i| < lim, lim = 1 + 2 N delta as in C07_count_bound_rounded (delta bounds the distance of the
    computed cumulative weights from the exact ones); the largest observed |count - N w| - 1 is kept in the evidence"""
    if track and len(counts):
        _stats["max_count_excess_over_one_normalised_input"] = max(_stats["max_count_excess_over_one_normalised_input"], float(np.max(np.abs(counts - Nw))) - 1.0)
    for i in range(len(counts)):
        if abs(counts[i] - Nw[i]) >= lim:
            v.append((sig, "particle %d selected %d times, N*w = %.12g (allowed distance %.3g)" % (i, counts[i], Nw[i], lim))); return


def partition_clause(v, N, ratio, k, lw, w, src, near):
    """'replaces exactly the floor(ratio*N) lowest-weight particles ... resamples the rest', decided RELATIONALLY on the
    implementation's output (src = input particle each of the N-k resampled outputs is a copy of).
    A set R of k replaced particles is admissible iff no member of R is strictly heavier than a survivor; with
    thr = the (k+1)-th smallest weight this forces  w < thr => replaced,  w > thr => survivor,  and leaves the choice
    among the particles tied at thr free (m = N-k - #{w > thr} of them survive).  Every admissible choice has the same
    multiset of surviving weights, hence the same normalising mass W, and a survivor is replicated within one of
    (N-k) w / W.  So the output is consistent with SOME admissible R iff
      (a) no output copies a particle lighter than thr,
      (b) every particle heavier than thr has |count - (N-k) w/W| < 1,
      (c) among the particles tied at thr: at most m are selected, each selected one obeys the bound, and at least m of
          them are 'selected or allowed to be a survivor with count 0' ((N-k) thr/W < 1).
    Nothing refers to an index order.  The library sorts on Eigen's vectorised exp(), which is not monotone on adjacent
    doubles (packet vs. scalar tail): log-weights within a few ulps of thr are put in the free class, and counted."""
    nr = N - k
    # C07_count_bound_rounded for the N-k survivors: delta = (4 nr + 16) 2^-52 covers the library's own renormalisation
    # (log-sum-exp on Eigen's vectorised exp, exp of the shifted log-weights), the running sum and the comb points
    lim = 2.0 if near else 1.0 + 3.0 * nr * (4 * nr + 16) * EPS
    thr = np.sort(lw)[k]
    slack = 8 * max(float(np.spacing(abs(thr))), 2.3e-16) if np.isfinite(thr) else 0.0
    lo = lw < thr - slack
    hi = lw > thr + slack
    free = ~lo & ~hi
    if np.any(free & (lw != thr)):
        _stats["threshold_within_ulps_excluded"] += 1
    counts = np.bincount(np.array(src, dtype=int), minlength=N)
    m = nr - int(np.sum(hi))                       # survivors to be taken from the free class (>= 1: thr itself is free)
    straddles = int(np.sum(free)) > m
    if straddles:
        _stats["prior_ties_straddling_split_decided_relationally"] += 1
        fi = np.nonzero(free)[0]
        if np.any(hi[fi[0]:]):
            _stats["prior_heavier_particle_after_tied_ones"] += 1
    sig_n = "N=%d ratio=%g (replaced %d, resampled %d)" % (N, ratio, k, nr)
    # (a)
    low = [i for i in range(N) if lo[i] and counts[i] > 0]
    if low:
        i = low[0]
        v.append(("C07:prior-kept-lowest", "%s: %d copies of particle %d (log-weight %r) survive although it is among the %d lowest (the %d-th smallest log-weight is %r)"
                  % (sig_n, counts[i], i, lw[i], k, k + 1, thr)))
    W = float(np.sum(np.sort(w)[k:]))               # mass of the N-k heaviest: the same for every admissible choice
    if not (W > 0.0):
        return
    expd = nr * w / W
    # (b) first the survivors that vanished altogether, then the ordinary bound
    hidx = list(np.nonzero(hi)[0])
    if hidx and not near:
        _stats["max_count_excess_over_one_normalised_input"] = max(_stats["max_count_excess_over_one_normalised_input"],
                                                                    float(np.max(np.abs(counts[hidx] - expd[hidx]))) - 1.0)
    gone = [i for i in hidx if counts[i] == 0 and expd[i] >= lim]
    if gone:
        i = gone[0]
        v.append(("C07:prior-heavier-replaced", "%s: particle %d (weight %.6g, strictly heavier than the %d-th smallest weight %.6g, so not among the %d lowest) "
                  "has no copy in the output, expected within one of (N-k) w/W = %.6g; %d such particle(s)%s"
                  % (sig_n, i, w[i], k + 1, math.exp(thr) if thr > -np.inf else 0.0, k, expd[i], len(gone),
                     "; %d particles tie exactly at the split" % int(np.sum(free)) if straddles else "")))
        return
    for i in hidx:
        if abs(counts[i] - expd[i]) >= lim:
            v.append(("C07:prior-count-bound", "%s: particle %d selected %d times, (N-k) w/W = %.12g" % (sig_n, i, counts[i], expd[i])))
            return
    # (c)
    fidx = np.nonzero(free)[0]
    sel = [i for i in fidx if counts[i] > 0]
    for i in sel:
        if abs(counts[i] - expd[i]) >= lim:
            v.append(("C07:prior-count-bound", "%s: particle %d (at the split weight) selected %d times, (N-k) w/W = %.12g" % (sig_n, i, counts[i], expd[i])))
            return
    may_be_silent = [i for i in fidx if counts[i] == 0 and expd[i] < lim]
    if len(sel) > m:
        v.append(("C07:prior-partition-size", "%s: %d of the %d particles at the split weight have copies in the output, only %d of them can survive"
                  % (sig_n, len(sel), len(fidx), m)))
    elif len(sel) + len(may_be_silent) < m:
        i = [i for i in fidx if counts[i] == 0][0]
        v.append(("C07:prior-count-bound" if not straddles else "C07:prior-partition-size",
                  "%s: only %d of the %d particles at the split weight have copies in the output although %d of them survive and each is expected (N-k) w/W = %.6g times (e.g. particle %d: none)"
                  % (sig_n, len(sel), len(fidx), m, expd[i], i)))


def neff_clause(v, lw, ne, N):
    """neff = 1/sum w^2 of the vector passed, in [1, N] when it is normalised"""
    w = np.exp(lw)
    spec = 1.0 / float(np.sum(w * w))
    if not caseio.close(ne, spec, 0.0, 1e-12):
        v.append(("C07:neff-formula", "neff %r, 1/sum w^2 %r" % (ne, spec)))
    if abs(float(np.sum(w)) - 1.0) < 1e-12 and not (1.0 - 1e-9 <= ne <= N + 1e-9):
        v.append(("C07:neff-range", "neff %r outside [1, %d]" % (ne, N)))


def oracle_history(c, impl, model):
    """every call of the history judged on its own: a resample() against the weights its set holds at THAT call (the
    clauses of the single-call oracle), a neff() against the vector it was passed; the storage must not have moved"""
    v = []
    for k, op in history_steps(c):
        si, sc = StepRec(impl, k), StepCase(c, k, op)
        sm = StepRec(model, k) if model is not None else None
        if si.get("same_addr") != 1:
            _stats["history_steps_storage_moved_not_judged"] += 1
            continue      # the harness could not keep the storage in place: nothing is claimed for this step (never observed)
        _stats["history_steps_judged"] += 1
        if op[0] == "n":
            got = []
            if si.has("neff"):
                neff_clause(got, sc.get("lw").reshape(-1), si.get("neff"), int(sc.meta["N"]))
        elif not si.has("parents"):
            continue
        else:
            got = oracle(sc, si, sm)
        story = history_weights_story(c, k)
        v += [(sig, "%s: %s" % (story, det)) for sig, det in got]
    return v


def oracle(c, impl, model):
    if c.kind == "hist":
        return oracle_history(c, impl, model)
    v = []
    N = int(c.meta["N"]); dl, dc = int(c.meta["dl"]), int(c.meta["dc"])
    lw = c.get("lw").reshape(-1)
    w = np.exp(lw)
    near = near_boundary(model) if (model is not None and c.kind != "plain") else False
    par = col(impl, "parents")
    wt = col(impl, "weights")
    if impl.get("cor_unchanged") != 1:
        v.append(("C07:input-modified", "the corrected set passed in was modified"))
    # neff = 1/sum w^2, in [1, N] (a resample step of a history has no neff call)
    if impl.has("neff"):
        neff_clause(v, lw, impl.get("neff"), N)
    d, dcov = dims(c.meta)
    quat = int(c.meta.get("quat", 0))
    sizes = [impl.get(k) for k in ("components", "state_cols", "mean_cols", "weight_rows")] + [impl.get("cov_cols") / float(max(1, dcov))]
    logN = -math.log(N)
    # storage shapes against the descriptors of the returned set
    shape = {"use_quaternion": quat, "dim": d, "dim_covariance": dcov, "state_rows": d, "mean_rows": d, "cov_rows": dcov}
    wrong = {k: impl.get(k) for k, x in shape.items() if impl.get(k) != x}
    if wrong or impl.get("cov_cols") != dcov * N:
        v.append(("C07:prior-storage-shape" if c.kind == "prior" else "C07:storage-shape",
                  "layout (dl=%d, dc=%d, quaternion=%d), N=%d: expected %s and %d covariance columns, got %s, cov_cols=%s"
                  % (dl, dc, quat, N, shape, dcov * N, wrong, impl.get("cov_cols"))))
        return v
    if c.kind == "plain":
        if any(s != N for s in sizes):
            v.append(("C07:length", "N=%d, reported components/state/mean/weight/cov sizes %s" % (N, sizes))); return v
        if (impl.get("dim_linear"), impl.get("dim_circular")) != (dl, dc):
            v.append(("C07:layout-changed", "layout (%s,%s) for (%d,%d)" % (impl.get("dim_linear"), impl.get("dim_circular"), dl, dc)))
        if not np.all(np.abs(wt - logN) <= 1e-15):
            v.append(("C07:weights-not-uniform", "weights %s, -log N = %r" % (wt[:6], logN)))
        if np.any(par < 0) or np.any(par >= N) or np.any(par != np.round(par)):
            v.append(("C07:parent-out-of-range", "parents %s" % par[:12])); return v
        if np.any(np.diff(par) < 0):
            v.append(("C07:parents-not-sorted", "parents %s" % par[:12]))
        bad = [j for j in range(N) if not is_copy(c, impl, j, int(par[j]))]
        if bad:
            v.append(("C07:copy-not-parent", "output %d is not a copy (state, mean, covariance) of its reported parent %d" % (bad[0], int(par[bad[0]]))))
        counts = np.bincount(par.astype(int), minlength=N)
        # C07_count_bound_rounded: with the exact weights w/S (S = sum w) the computed cumulative weights are within
        # delta = |S - 1| (input not normalised, e.g. the guard cases with S = 1 - 1e-3) + (N + 4) 2^-52 (one ulp per exp,
        # half an ulp per addition of the running sum and of numpy's S, one ulp for the comb point) of the exact ones,
        # and every count is within 1 + 2 N delta of N w/S (a factor 3 instead of 2 is used).
        S = float(np.sum(w))
        delta = abs(S - 1.0) + (N + 4) * EPS
        if 3.0 * N * delta < 0.5:
            count_bound(v, "C07:count-bound", counts, N * w / S, 1.0 + 3.0 * N * delta, track=abs(S - 1.0) < 1e-12)
            h = [i for i in range(N) if N * w[i] / S >= 1.0 + 3.0 * N * delta and counts[i] == 0]
            if h:
                v.append(("C07:heavy-not-selected", "particle %d has weight %.6g >= 1/N and was not selected" % (h[0], w[h[0]])))
        else:
            _stats["plain_count_bound_not_evaluated_sum_far_from_one"] += 1
        # C07_count_bound_cumulative: a particle of weight exactly zero adds nothing to the running sum and is never
        # selected, whatever the sum, unless it is the LAST one and the computed sum falls short of the last comb point
        # (then the guard idx < N-1 hands the surplus to it: C07_rounding_surplus_Q) - decided on the model's doubles,
        # which are bit-identical to the library's on this path
        cs, cb = (col(model, "csw"), col(model, "comb")) if model is not None else (None, None)
        surplus = cs is None or cb is None or cs.size != N or cb.size != N or not (cb[N - 1] <= cs[N - 1])
        if surplus:
            _stats["plain_surplus_to_last_particle"] += 1
        z = [i for i in range(N) if w[i] == 0.0 and counts[i] > 0 and not (i == N - 1 and surplus)]
        if z:
            v.append(("C07:zero-weight-selected", "particle %d has weight 0 and was selected %d times" % (z[0], counts[z[0]])))
        return v
    # ---- prior variant
    ratio = float(c.get("ratio")[0, 0])
    npri = int(math.floor(N * ratio)); nr = N - npri
    draws = c.get("draws")
    if impl.get("components") != N:
        v.append(("C07:prior-component-count", "N=%d ratio=%g: the returned set reports %s components" % (N, ratio, impl.get("components"))))
    if any(s != N for s in sizes[1:]):
        v.append(("C07:prior-storage-size", "N=%d: state/mean/weight/cov sizes %s" % (N, sizes[1:]))); return v
    if (impl.get("dim_linear"), impl.get("dim_circular")) != (dl, dc):
        v.append(("C07:layout-changed", "layout (%s,%s) for (%d,%d)" % (impl.get("dim_linear"), impl.get("dim_circular"), dl, dc)))
    if not np.all(np.abs(wt - logN) <= 1e-15):
        v.append(("C07:prior-weights-not-uniform", "weights %s, -log N = %r" % (wt[:6], logN)))
    if np.any(par[:npri] != -1):
        v.append(("C07:prior-left-parent", "fresh particles report parents %s" % par[:npri][:8]))
    if impl.get("init_calls") != draws or impl.get("init_size") != npri:
        v.append(("C07:prior-left-not-fresh", "initialize called %s times on a set of %s (expected %d, %d)" % (impl.get("init_calls"), impl.get("init_size"), draws, npri)))
    elif not same_bits(impl.get("state")[:, :npri], fresh_expected(c, npri)):
        v.append(("C07:prior-left-not-fresh", "the first %d particles are not the initialiser's" % npri))
    elif np.any(impl.get("mean")[:, :npri] != 0.0) or np.any(impl.get("cov")[:, :npri * dcov] != 0.0):
        v.append(("C07:prior-left-not-fresh", "mean/covariance of the first %d particles are not those of a fresh set (zero)" % npri))
    pr = par[npri:]
    if np.any(pr < 0) or np.any(pr >= N) or np.any(pr != np.round(pr)):
        v.append(("C07:prior-right-parent-range", "parents %s" % pr[:12])); return v
    src = impl_sources(impl, N)[npri:]
    if any(s is None for s in src):
        v.append(("C07:prior-right-not-a-copy", "a resampled particle is not a copy of an input particle")); return v
    bad = [j for j in range(nr) if not is_copy(c, impl, npri + j, src[j])]
    if bad:
        v.append(("C07:prior-right-not-a-copy", "output %d copies the state of input %d but not its mean/covariance" % (npri + bad[0], src[bad[0]])))
    # each resampled particle is a copy of the parent it reports
    mism = [j for j in range(nr) if src[j] != int(pr[j])]
    if mism:
        j = mism[0]
        v.append(("C07:prior-parent-not-source", "N=%d ratio=%g: output %d reports parent %d but is a copy of input particle %d"
                  % (N, ratio, npri + j, int(pr[j]), src[j])))
    partition_clause(v, N, ratio, npri, lw, w, src, near)
    return v


def histogram(cases):
    h = {"kind": {}, "cls": {}, "ratio": {}, "layout": {}, "constructor": {}, "two_calls_different_N": 0}
    for c in cases:
        lay = "quaternion" if int(c.meta.get("quat", 0)) else ("euler" if int(c.meta["dc"]) > 0 else "linear")
        lay += "" if int(c.meta["dl"]) > 0 else "-only"
        h["layout"][lay] = h["layout"].get(lay, 0) + 1
        h["two_calls_different_N"] += 1 if "first" in c.meta else 0
        h["kind"][c.kind] = h["kind"].get(c.kind, 0) + 1
        ck = "%s/%s" % (c.kind, c.meta.get("ctor", "seed" if c.kind == "plain" else "3"))
        h["constructor"][ck] = h["constructor"].get(ck, 0) + 1
        h["cls"][c.meta["cls"]] = h["cls"].get(c.meta["cls"], 0) + 1
        if c.kind == "hist":
            h.setdefault("history", {"cases": 0, "steps": 0, "resample_after_in_place_change_without_fresh_neff": 0, "resample_without_any_neff": 0, "on_second_set": 0, "prior_variant": 0})
            hh = h["history"]; ops = c.get("ops")
            hh["cases"] += 1; hh["steps"] += len(ops); hh["prior_variant"] += 1 if c.meta["variant"] == "prior" else 0
            for k, op in enumerate(ops):
                hh["on_second_set"] += 1 if op[1] == "Q" else 0
                if op[0] == "r":
                    ne = [j for j in range(k) if ops[j][0] == "n"]
                    if not ne:
                        hh["resample_without_any_neff"] += 1
                    elif ops[ne[-1]][1] == op[1] and not same_bits(c.get("lw_s%d" % ne[-1]), c.get("lw_s%d" % k)):
                        hh["resample_after_in_place_change_without_fresh_neff"] += 1
        if c.kind == "prior":
            h["ratio"][c.meta["rclass"]] = h["ratio"].get(c.meta["rclass"], 0) + 1
    h.update(_stats)
    return h


LEVEL_TEXT = ("Proof: the model of Resampling::resample (sequential cumulative sums, comb u1 + j/N, carried pointer), Resampling::neff and "
              "ResamplingWithPrior::resample is proved over the reals, for every N >= 1, every non-negative weight vector of sum 1 and every "
              "0 < u1 < 1/N, to return N copies of the reported parents, non-decreasing in-range parents, weights -ln N, replication counts within "
              "one of N w_i, neff = 1/sum w^2 in [1, N]; the prior variant replaces floor(ratio N) particles none of which is heavier than a surviving one "
              "(replaced + survivors enumerate the input without duplicates; under exact ties every admissible choice replaces all particles below the "
              "split weight and keeps all above it), resamples the survivors only, and reports N particles. "
              "The model is tied to the code by running the extracted model and the library on the same generated cases with the mirrored random offset.")
LEVEL_NOTE = ("Trusted: Coq kernel + the 4 real-number axioms, extraction + float driver, harness and RNG mirror; rounding is not modelled (near-boundary comb points "
              "are counted and skipped); the tie to the code is sampled. C07_Regress.v keeps the pre-d9796b9 transcription of the prior variant (parents as positions in the "
              "weight-sorted order) with its refutation; a reintroduction is reported as C07:prior-parent-not-source.")
