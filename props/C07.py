"""C07 — Resampling is a faithful low-variance selection with uniform output weights (DESIGN.md §5 C07)."""
import math
import numpy as np
from vlib import caseio, runner

ID = "C07"
COQ_TARGETS = ["C07_Extract.vo", "C07_Proofs.vo", "C07_Regress.vo"]
EXTRACTED = "C07_model"
DRIVER = "drv_C07.ml"
HARNESS = "h_C07.cpp"
VARIANTS = {"quick": ["O1"], "thorough": ["O1", "asan"]}
AXIOMS_ALLOWED = runner.REAL_AXIOMS
MODEL_NEEDS_IMPL = True      # the mirrored random offset u1 is printed by the harness
REQUIRED_THEOREMS = ["C07_length", "C07_copy", "C07_parents_sorted", "C07_parents_in_range", "C07_uniform_weights",
                     "C07_advance_fuel", "C07_count_bound", "C07_zero_weight_not_selected", "C07_heavy_selected",
                     "C07_u1_zero_boundary_refuted", "C07_neff_formula", "C07_neff_range",
                     "C07_selection_interval", "C07_lse_spec", "C07_lse_normalises",
                     "C07p_num_prior", "C07p_partition", "C07p_parents", "C07p_copy", "C07p_uniform", "C07p_reports_N", "C07p_count_bound"]
RULE = ("cases from one seeded stream: N in 1..200, log-weight vectors uniform / one-hot / with exact zeros (-inf) / geometric over 300 "
        "orders of magnitude / dyadic / random / with exact ties, layouts (dl in 1..4, dc in 0..2), 32-bit seeds, 1..3 successive draws on the "
        "same object; prior variant with ratio in {0, 0.25, 0.5, 0.9, random in [0,1)} and a counting or grid initialiser; "
        "non-trivial = N >= 2 and not uniform; distinct by (kind, weight class, N, ratio class)")
TRUSTED_BASE = ["Coq 8.16.1 kernel (coqc); the four real-number axioms of the standard library (sig_forall_dec, sig_not_dec, functional_extensionality_dep, classic)",
                "extraction (ExtrOcamlBasic only) and ocaml/float_ops.ml, ocaml/drv_C07.ml, ocaml/caseio.ml",
                "cpp/h_C07.cpp harness incl. the mirrored std::mt19937_64 / uniform_real_distribution draw (validated by the exact parent comparison)",
                "theorems are over exact reals: rounding of the cumulative sums is not modelled; comb points within 1e-12 of a cumulative weight are counted as near-boundary and not compared",
                "correspondence is sampled: agreement is established on the generated cases only"]
ASSUMPTIONS = ["the random offset satisfies 0 < u1 < 1/N (std::uniform_real_distribution draws from [0, 1/N); u1 = 0 has probability 2^-53 and is the documented boundary C07_u1_zero_boundary_refuted)",
               "ParticleSetInitialization::initialize keeps the size of the set it is given (checked on the harness initialisers)",
               "std::sort orders the indices by increasing weight; order among equal weights unspecified (compared through the weights)"]

COUNTS = {"quick": 400, "thorough": 15000}
NEAR = 1e-12
ID0 = 1000.0           # state row 0 of original particle i is ID0 + i

_stats = {"near_boundary_skipped": 0, "tie_cases": 0}


# ------------------------------------------------------------------ generation

def weights(rng, N, cls):
    if cls == "uniform":
        w = np.ones(N)
    elif cls == "onehot":
        w = np.zeros(N); w[rng.randrange(N)] = 1.0
    elif cls == "zeros":
        w = np.array([rng.random() if rng.random() < 0.5 else 0.0 for _ in range(N)])
        if w.sum() == 0: w[rng.randrange(N)] = 1.0
    elif cls == "geometric":
        e = np.array([-300.0 * i / max(1, N - 1) for i in range(N)])
        rng.shuffle(e)
        w = 10.0 ** e
    elif cls == "dyadic":
        m = 12
        cuts = sorted(rng.randrange(0, 2 ** m + 1) for _ in range(N - 1))
        ks = np.diff([0] + cuts + [2 ** m])
        w = ks / float(2 ** m)
        if w.sum() == 0: w[0] = 1.0
    elif cls == "ties":
        vals = [rng.random() + 0.05 for _ in range(rng.randint(1, 4))]
        w = np.array([rng.choice(vals) for _ in range(N)])
    elif cls == "dominant":
        w = np.array([rng.random() * 1e-6 for _ in range(N)]); w[rng.randrange(N)] = 1.0
    else:
        w = np.array([rng.random() ** 3 + 1e-9 for _ in range(N)])
    w = w / w.sum()
    with np.errstate(divide="ignore"):
        lw = np.log(w)
    return lw


CLASSES = ["uniform", "onehot", "zeros", "geometric", "dyadic", "random", "random", "ties", "dominant"]


def pick_N(rng):
    r = rng.random()
    if r < 0.15: return rng.randint(1, 3)
    if r < 0.6: return rng.randint(4, 40)
    return rng.randint(41, 200)


def payload(rng, c, N, dl, dc):
    d = dl + dc
    st = np.array([[rng.uniform(-5, 5) for _ in range(N)] for _ in range(d)])
    st[0, :] = ID0 + np.arange(N)
    c.mat_shape("state", d, N, st)
    c.mat_shape("mean", d, N, [[rng.uniform(-5, 5) for _ in range(N)] for _ in range(d)])
    c.mat_shape("cov", d, d * N, [[rng.uniform(-2, 2) for _ in range(d * N)] for _ in range(d)])


def generate(rng, tier):
    cases = []
    n = COUNTS[tier]
    for k in range(n):
        prior = rng.random() < 0.4
        cls = rng.choice(CLASSES)
        N = pick_N(rng)
        if cls == "dyadic":
            N = 2 ** rng.randint(0, 7)
        dl, dc = rng.randint(1, 4), rng.randint(0, 2)
        meta = {"N": N, "cls": cls, "dl": dl, "dc": dc}
        lw = weights(rng, N, cls)
        if prior:
            rc = rng.choice(["0", "0.25", "0.5", "0.9", "rnd"])
            ratio = rng.random() if rc == "rnd" else float(rc)
            npri = int(math.floor(N * ratio))
            meta["rclass"] = rc
            meta["init"] = "count"
            if rng.random() < 0.25:
                # the shipped grid initialiser: needs a 4-row state and num_prior = nx*ny
                fac = [(a, npri // a) for a in range(2, 12) if npri % a == 0 and npri // a >= 2]
                if fac:
                    nx, ny = rng.choice(fac)
                    dl, dc = 4, 0
                    meta.update({"init": "grid", "nx": nx, "ny": ny, "dl": dl, "dc": dc})
            c = caseio.Case(k, "prior", meta)
            c.mat_shape("ratio", 1, 1, [ratio])
        else:
            c = caseio.Case(k, "plain", meta)
        c.mat_shape("lw", N, 1, lw)
        payload(rng, c, N, dl, dc)
        c.int("seed", rng.randrange(0, 2 ** 32))
        c.int("draws", rng.choice([1, 1, 1, 2, 3]))
        cases.append(c)
    return cases


def nontrivial(c):
    if int(c.meta["N"]) >= 2 and c.meta["cls"] != "uniform":
        return (c.kind, c.meta["cls"], c.meta["N"], c.meta.get("rclass", "-"))
    return None


# ------------------------------------------------------------------ helpers

def col(rec, name):
    v = rec.get(name)
    return None if v is None else np.asarray(v, dtype=float).reshape(-1)


def near_boundary(model):
    cs, cb = col(model, "csw"), col(model, "comb")
    if cs is None or cb is None or cs.size == 0:
        return False
    with np.errstate(invalid="ignore"):
        d = np.abs(cb.reshape(-1, 1) - cs.reshape(1, -1))
    return bool(np.nanmin(d) < NEAR)


def same_bits(a, b):
    a, b = np.asarray(a, dtype=float), np.asarray(b, dtype=float)
    return a.shape == b.shape and bool(np.all((a == b) | (np.isnan(a) & np.isnan(b))))


def column_of(c, name, i):
    """particle i's block of an input operand"""
    a = c.get(name)
    d = c.get("state").shape[0]
    if name == "cov":
        return a[:, i * d:(i + 1) * d]
    return a[:, i:i + 1]


def impl_block(impl, name, j, d):
    a = impl.get(name)
    if name == "cov":
        return a[:, j * d:(j + 1) * d]
    return a[:, j:j + 1]


def impl_sources(impl, N):
    """original index of every output particle, read from the id row of its state (None = not an original)"""
    st = impl.get("state")
    out = []
    for j in range(st.shape[1]):
        v = st[0, j]
        k = int(round(v - ID0)) if np.isfinite(v) else -1
        out.append(k if (0 <= k < N and v == ID0 + k) else None)
    return out


def is_copy(c, impl, j, i):
    d = c.get("state").shape[0]
    return all(same_bits(impl_block(impl, nm, j, d), column_of(c, nm, i)) for nm in ("state", "mean", "cov"))


def fresh_expected(c, npri):
    d = c.get("state").shape[0]
    if c.meta.get("init") == "grid":
        nx, ny = int(c.meta["nx"]), int(c.meta["ny"])
        out = np.zeros((d, npri))
        for i in range(nx):
            for j in range(ny):
                out[:, i * ny + j] = [((5.0 - (-3.0)) / (nx - 1)) * i + (-3.0), 0.0, ((2.5 - 1.0) / (ny - 1)) * j + 1.0, 0.0]
        return out
    return np.array([[-(k + 1.0) - 0.25 * i for k in range(npri)] for i in range(d)]).reshape(d, npri)


# ------------------------------------------------------------------ correspondence

def compare(c, impl, model):
    N = int(c.meta["N"])
    lw = c.get("lw").reshape(-1)
    diffs = caseio.compare_fields(impl, model, ["neff"], atol=0.0, rtol=1e-12)
    diffs += caseio.compare_fields(impl, model, ["weights"], atol=1e-15, rtol=0.0)
    near = near_boundary(model)
    if near:
        _stats["near_boundary_skipped"] += 1
    if c.kind == "plain":
        if not near:
            if not same_bits(col(impl, "parents"), col(model, "parents")):
                diffs.append("parents: impl=%s model=%s" % (col(impl, "parents")[:12], col(model, "parents")[:12]))
            src = col(model, "src")
            if impl.get("state").shape[1] == N and src.size == N:
                bad = [j for j in range(N) if not is_copy(c, impl, j, int(src[j]))]
                if bad:
                    diffs.append("copies: output %d is not the model's source %d" % (bad[0], int(src[bad[0]])))
            else:
                diffs.append("sizes: impl state cols %d, model %d" % (impl.get("state").shape[1], src.size))
        return diffs
    # prior variant
    diffs += caseio.compare_fields(impl, model, ["components"], 0, 0)
    npri = model.get("num_prior")
    if npri != int(math.floor(N * c.get("ratio")[0, 0])):
        diffs.append("num_prior: model %d, floor(N*ratio) %d" % (npri, int(math.floor(N * c.get("ratio")[0, 0]))))
    if len(set(lw.tolist())) < N:
        _stats["tie_cases"] += 1
    if not near:
        pi, pm = col(impl, "parents"), col(model, "parents")
        distinct = len(set(lw.tolist())) == N
        if pi.shape != pm.shape:
            diffs.append("parents: %d vs %d entries" % (pi.size, pm.size))
        elif distinct and not same_bits(pi, pm):
            diffs.append("parents: impl=%s model=%s" % (pi[:12], pm[:12]))
        elif not distinct:
            # std::sort's order among equal weights is free: compare through the weights
            for j in range(pm.size):
                a, b = int(pi[j]), int(pm[j])
                if (a < 0) != (b < 0) or (a >= 0 and (a >= N or lw[a] != lw[b])):
                    diffs.append("parents: output %d: impl parent %d, model parent %d (weights differ)" % (j, a, b)); break
        src_m = col(model, "src")
        src_i = impl_sources(impl, N)
        if len(src_i) != src_m.size:
            diffs.append("sizes: impl state cols %d, model %d" % (len(src_i), src_m.size))
        else:
            for j in range(src_m.size):
                sm = int(src_m[j])
                if sm < 0:
                    continue     # fresh particle: content is the initialiser's, checked by the oracle
                si = src_i[j]
                if si is None or lw[si] != lw[sm] or (distinct and si != sm):
                    diffs.append("sources: output %d: impl copy of %s, model of %d" % (j, si, sm)); break
    return diffs


# ------------------------------------------------------------------ property oracle (on the implementation)

def count_bound(v, sig, counts, Nw, near):
    lim = 2.0 if near else 1.0 + 1e-9
    for i in range(len(counts)):
        if abs(counts[i] - Nw[i]) >= lim:
            v.append((sig, "particle %d selected %d times, N*w = %.12g" % (i, counts[i], Nw[i]))); return


def oracle(c, impl, model):
    v = []
    N = int(c.meta["N"]); dl, dc = int(c.meta["dl"]), int(c.meta["dc"])
    lw = c.get("lw").reshape(-1)
    w = np.exp(lw)
    near = near_boundary(model) if model is not None else False
    par = col(impl, "parents")
    wt = col(impl, "weights")
    if impl.get("cor_unchanged") != 1:
        v.append(("C07:input-modified", "the corrected set passed in was modified"))
    # neff = 1/sum w^2, in [1, N]
    ne = impl.get("neff")
    spec = 1.0 / float(np.sum(w * w))
    if not caseio.close(ne, spec, 0.0, 1e-12):
        v.append(("C07:neff-formula", "neff %r, 1/sum w^2 %r" % (ne, spec)))
    if abs(float(np.sum(w)) - 1.0) < 1e-12 and not (1.0 - 1e-9 <= ne <= N + 1e-9):
        v.append(("C07:neff-range", "neff %r outside [1, %d]" % (ne, N)))
    sizes = [impl.get(k) for k in ("components", "state_cols", "mean_cols", "weight_rows")] + [impl.get("cov_cols") // max(1, dl + dc)]
    logN = -math.log(N)
    if c.kind == "plain":
        if any(s != N for s in sizes):
            v.append(("C07:length", "N=%d, reported components/state/mean/weight/cov sizes %s" % (N, sizes))); return v
        if (impl.get("dim_linear"), impl.get("dim_circular")) != (dl, dc):
            v.append(("C07:layout-changed", "layout (%s,%s) for (%d,%d)" % (impl.get("dim_linear"), impl.get("dim_circular"), dl, dc)))
        if not np.all(np.abs(wt - logN) <= 1e-15):
            v.append(("C07:weights-not-uniform", "weights %s, -log N = %r" % (wt[:6], logN)))
        if np.any(par < 0) or np.any(par >= N) or np.any(par != np.round(par)):
            v.append(("C07:parent-out-of-range", "parents %s" % par[:12])); return v
        if np.any(np.diff(par) < 0):
            v.append(("C07:parents-not-sorted", "parents %s" % par[:12]))
        bad = [j for j in range(N) if not is_copy(c, impl, j, int(par[j]))]
        if bad:
            v.append(("C07:copy-not-parent", "output %d is not a copy (state, mean, covariance) of its reported parent %d" % (bad[0], int(par[bad[0]]))))
        counts = np.bincount(par.astype(int), minlength=N)
        if abs(float(np.sum(w)) - 1.0) < 1e-12:
            count_bound(v, "C07:count-bound", counts, N * w, near)
            if not near:
                z = [i for i in range(N) if w[i] == 0.0 and counts[i] > 0]
                if z:
                    v.append(("C07:zero-weight-selected", "particle %d has weight 0 and was selected %d times" % (z[0], counts[z[0]])))
                h = [i for i in range(N) if w[i] >= 1.0 / N + 1e-12 and counts[i] == 0]
                if h:
                    v.append(("C07:heavy-not-selected", "particle %d has weight %.6g >= 1/N and was not selected" % (h[0], w[h[0]])))
        return v
    # ---- prior variant
    ratio = float(c.get("ratio")[0, 0])
    npri = int(math.floor(N * ratio)); nr = N - npri
    draws = c.get("draws")
    if impl.get("components") != N:
        v.append(("C07:prior-component-count", "N=%d ratio=%g: the returned set reports %s components" % (N, ratio, impl.get("components"))))
    if any(s != N for s in sizes[1:]):
        v.append(("C07:prior-storage-size", "N=%d: state/mean/weight/cov sizes %s" % (N, sizes[1:]))); return v
    if (impl.get("dim_linear"), impl.get("dim_circular")) != (dl, dc):
        v.append(("C07:layout-changed", "layout (%s,%s) for (%d,%d)" % (impl.get("dim_linear"), impl.get("dim_circular"), dl, dc)))
    if not np.all(np.abs(wt - logN) <= 1e-15):
        v.append(("C07:prior-weights-not-uniform", "weights %s, -log N = %r" % (wt[:6], logN)))
    if np.any(par[:npri] != -1):
        v.append(("C07:prior-left-parent", "fresh particles report parents %s" % par[:npri][:8]))
    if impl.get("init_calls") != draws or impl.get("init_size") != npri:
        v.append(("C07:prior-left-not-fresh", "initialize called %s times on a set of %s (expected %d, %d)" % (impl.get("init_calls"), impl.get("init_size"), draws, npri)))
    elif not same_bits(impl.get("state")[:, :npri], fresh_expected(c, npri)):
        v.append(("C07:prior-left-not-fresh", "the first %d particles are not the initialiser's" % npri))
    pr = par[npri:]
    if np.any(pr < 0) or np.any(pr >= N) or np.any(pr != np.round(pr)):
        v.append(("C07:prior-right-parent-range", "parents %s" % pr[:12])); return v
    src = impl_sources(impl, N)[npri:]
    if any(s is None for s in src):
        v.append(("C07:prior-right-not-a-copy", "a resampled particle is not a copy of an input particle")); return v
    bad = [j for j in range(nr) if not is_copy(c, impl, npri + j, src[j])]
    if bad:
        v.append(("C07:prior-right-not-a-copy", "output %d copies the state of input %d but not its mean/covariance" % (npri + bad[0], src[bad[0]])))
    # the floor(ratio*N) lowest-weight particles are the ones replaced: no copy of a particle lighter than the kept ones
    thr = np.sort(lw)[npri]
    low = [s for s in src if lw[s] < thr]
    if low:
        v.append(("C07:prior-kept-lowest", "a copy of particle %d (log-weight %r) survives although %d lighter-or-equal particles were to be replaced (threshold %r)" % (low[0], lw[low[0]], npri, thr)))
    # each resampled particle is a copy of the parent it reports
    mism = [j for j in range(nr) if src[j] != int(pr[j])]
    if mism:
        j = mism[0]
        v.append(("C07:prior-parent-not-source", "N=%d ratio=%g: output %d reports parent %d but is a copy of input particle %d"
                  % (N, ratio, npri + j, int(pr[j]), src[j])))
    # count bound against the renormalised kept weights
    keptw = np.where(lw >= thr, w, 0.0)
    ties_at_thr = int(np.sum(lw == thr)) > 1 and int(np.sum(lw < thr)) < npri
    if keptw.sum() > 0 and not ties_at_thr:
        counts = np.bincount(np.array(src, dtype=int), minlength=N)
        count_bound(v, "C07:prior-count-bound", counts, nr * keptw / keptw.sum(), near)
    return v


def histogram(cases):
    h = {"kind": {}, "cls": {}, "ratio": {}}
    for c in cases:
        h["kind"][c.kind] = h["kind"].get(c.kind, 0) + 1
        h["cls"][c.meta["cls"]] = h["cls"].get(c.meta["cls"], 0) + 1
        if c.kind == "prior":
            h["ratio"][c.meta["rclass"]] = h["ratio"].get(c.meta["rclass"], 0) + 1
    h.update(_stats)
    return h


LEVEL_TEXT = ("Proof: the model of Resampling::resample (sequential cumulative sums, comb u1 + j/N, carried pointer), Resampling::neff and "
              "ResamplingWithPrior::resample is proved over the reals, for every N >= 1, every non-negative weight vector of sum 1 and every "
              "0 < u1 < 1/N, to return N copies of the reported parents, non-decreasing in-range parents, weights -ln N, replication counts within "
              "one of N w_i, neff = 1/sum w^2 in [1, N]; the prior variant replaces the floor(ratio N) lightest particles and reports N particles. "
              "The model is tied to the code by running the extracted model and the library on the same generated cases with the mirrored random offset.")
LEVEL_NOTE = ("Trusted: Coq kernel + the 4 real-number axioms, extraction + float driver, harness and RNG mirror; rounding is not modelled (near-boundary comb points "
              "are counted and skipped); the tie to the code is sampled. C07_Regress.v keeps the pre-d9796b9 transcription of the prior variant (parents as positions in the "
              "weight-sorted order) with its refutation; a reintroduction is reported as C07:prior-parent-not-source.")
