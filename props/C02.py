"""C02 — Kalman prediction = exact linear-Gaussian time update (DESIGN.md §5 C02)."""
import numpy as np
from vlib import caseio, gen

ID = "C02"
COQ_TARGETS = ["C02_Extract.vo", "C02_Proofs.vo", "C02_Transport.vo"]
EXTRACTED = "C02_model"
DRIVER = "drv_C02.ml"
HARNESS = "h_C02.cpp"
VARIANTS = {"quick": ["O1"], "thorough": ["O1", "asan"]}
AXIOMS_ALLOWED = []          # MathComp only: closed under the global context
REQUIRED_THEOREMS = ["C02_means_exo", "C02_mean", "C02_mean_noexo", "C02_cov", "C02_cov_psd", "C02_cov_sym",
                     "C02_componentwise", "C02_cov_independent", "C02_mean_independent", "C02_no_exo_equals_zero_exo",
                     "C02_frame_weights", "C02_frame_covs_beyond", "C02_propagate_branches", "C02_skipped_identity"]
RULE = ("cases drawn from one seeded stream: n in 1..6, components 1..4, F random / singular / identity / zero / nilpotent / "
        "badly scaled, Q and P_i symmetric PSD of rank 0..n (singular ones included), with and without an exogenous model "
        "u = B x + c, output object pre-filled with unrelated means/covariances/weights; 20% of the predict cases and all "
        "propagate cases carry skip flags (prediction, state, exogenous) so that every branch of LinearStateModel::propagate and "
        "both early returns are exercised; non-trivial = components >= 2 or exogenous model or singular P/Q or any flag; "
        "distinct by (kind, n, comps, exo, F kind, rank Q, min rank P, flags)")
TRUSTED_BASE = ["Coq 8.16.1 kernel (coqc); no axioms (Print Assumptions: closed under the global context)",
                "MathComp 1.15 matrix theory",
                "extraction (ExtrOcamlBasic only) and ocaml/float_ops.ml, ocaml/drv_C02.ml, ocaml/caseio.ml",
                "ListOps list instance of MatOps (structural operations, unproved)",
                "cpp/h_C02.cpp harness (its AffineExo exogenous model and flag set-up), comparison tolerance 1e-12 * magnitude",
                "correspondence is sampled: agreement is established on the generated cases only",
                "IEEE rounding is not modelled (theorems over an exact real field)"]
ASSUMPTIONS = ["the output object has the shape of the input (components, dim); other shapes are C14's subject",
               "the exogenous model is a function of the matrix of current means only (no hidden state)"]

COUNTS = {"quick": (260, 60), "thorough": (17000, 3000)}
SEQ_COUNTS = {"quick": 150, "thorough": 4000}
HOWS = ["same", "set", "time", "moveassign", "movector", "movector+set"]


def transition(rng, n):
    kind = rng.choice(["random", "random", "random", "singular", "identity", "zero", "nilpotent", "scaled"])
    if kind == "random":
        F = gen.matrix(rng, n, n)
    elif kind == "singular":
        r = max(0, n - 1)
        F = gen.matrix(rng, n, r) @ gen.matrix(rng, r, n) if r > 0 else np.zeros((n, n))
    elif kind == "identity":
        F = np.eye(n)
    elif kind == "zero":
        F = np.zeros((n, n))
    elif kind == "nilpotent":
        F = np.triu(gen.matrix(rng, n, n), 1)
    else:
        F = gen.matrix(rng, n, n) * np.array([10.0 ** rng.randint(-3, 3) for _ in range(n)])
    return F, kind


def psd_any(rng, n):
    r = rng.choice([n, n, n, max(0, n - 1), rng.randint(0, n)])
    return gen.psd(rng, n, r), r


def flags(rng, have_exo, always):
    if not always and rng.random() < 0.8:
        return 0, 0, 0
    sp = 1 if rng.random() < 0.25 else 0
    return sp, rng.randint(0, 1), (rng.randint(0, 1) if have_exo else 0)


def generate(rng, tier):
    cases = []
    npred, nprop = COUNTS[tier]
    for kk in range(npred + nprop):
        kind = "predict" if kk < npred else "propagate"
        n = rng.randint(1, 6); k = rng.randint(1, 4)
        F, fkind = transition(rng, n)
        Q, rq = psd_any(rng, n)
        have_exo = rng.random() < 0.5
        sp, ss, se = flags(rng, have_exo, kind == "propagate")
        meta = {"n": n, "comps": k, "exo": int(have_exo), "fkind": fkind, "rankQ": rq, "sp": sp, "ss": ss, "se": se}
        c = caseio.Case(kk, kind, meta)
        c.mat("F", F).mat("Q", Q)
        if have_exo:
            c.mat("B", gen.matrix(rng, n, n)).mat("c", gen.matrix(rng, n, 1, 4.0))
        if kind == "predict":
            means = gen.matrix(rng, n, k, 3.0)
            covs, rmin = [], n
            for i in range(k):
                P, r = psd_any(rng, n)
                covs.append(P); rmin = min(rmin, r)
            c.meta["rankPmin"] = rmin
            w = np.array([rng.random() + 0.1 for _ in range(k)]); w = np.log(w / w.sum())
            ow = np.array([rng.random() + 0.1 for _ in range(k)]); ow = np.log(ow / ow.sum())
            c.mat("means", means).mat("covs", np.hstack(covs)).mat("weights", w.reshape(-1, 1))
            c.mat("old_means", gen.matrix(rng, n, k, 7.0)).mat("old_covs", gen.matrix(rng, n, n * k, 5.0)).mat("old_weights", ow.reshape(-1, 1))
            c.int("sp", sp)
        else:
            c.mat("cur", gen.matrix(rng, n, k, 3.0)).mat("old", gen.matrix(rng, n, k, 7.0))
        c.int("ss", ss).int("se", se)
        cases.append(c)
    for _ in range(SEQ_COUNTS[tier]):
        cases.append(sequence_case(rng, len(cases)))
    return cases


def sequence_case(rng, cid):
    """One KFPrediction object, 2-4 predicts; the live model's F, Q (and B, c) at each call are those of the step."""
    n = rng.randint(1, 5); nsteps = rng.randint(2, 4)
    have_exo = rng.random() < 0.5
    hows = ["first"] + [rng.choice(HOWS) for _ in range(nsteps - 1)]
    c = caseio.Case(cid, "sequence", {"n": n, "comps": 0, "exo": int(have_exo), "fkind": "seq", "rankQ": n, "sp": 0, "ss": 0, "se": 0,
                                      "nsteps": nsteps, "hows": ",".join(hows)})
    c.int("nsteps", nsteps).word("steps", hows)
    F = Q = B = cc = None
    kmax = 0
    for s_, h in enumerate(hows):
        if h in ("same", "movector") and F is not None:
            pass                                   # the live model still holds the previous matrices
        else:
            F, _ = transition(rng, n)
            Q, _ = psd_any(rng, n)
            if rng.random() < 0.25 and s_ > 0:     # only one of the two changes
                if rng.random() < 0.5:
                    F = c.get("F_%d" % (s_ - 1))
                else:
                    Q = c.get("Q_%d" % (s_ - 1))
            B, cc = gen.matrix(rng, n, n), gen.matrix(rng, n, 1, 4.0)
        c.mat("F_%d" % s_, F).mat("Q_%d" % s_, Q)
        if have_exo:
            c.mat("B_%d" % s_, B).mat("c_%d" % s_, cc)
        k = rng.randint(1, 4); kmax = max(kmax, k)
        covs = [psd_any(rng, n)[0] for _ in range(k)]
        w = np.array([rng.random() + 0.1 for _ in range(k)]); w = np.log(w / w.sum())
        ow = np.array([rng.random() + 0.1 for _ in range(k)]); ow = np.log(ow / ow.sum())
        c.mat("means_%d" % s_, gen.matrix(rng, n, k, 3.0)).mat("covs_%d" % s_, np.hstack(covs)).mat("weights_%d" % s_, w.reshape(-1, 1))
        c.mat("old_means_%d" % s_, gen.matrix(rng, n, k, 7.0)).mat("old_covs_%d" % s_, gen.matrix(rng, n, n * k, 5.0)).mat("old_weights_%d" % s_, ow.reshape(-1, 1))
    c.mat("F", c.get("F_0")).mat("Q", c.get("Q_0"))       # read by the driver's common prologue
    c.meta["comps"] = kmax
    return c


def _step_view(c, rec, s_):
    """A step of a sequence seen as a single predict case: (pseudo case accessor, record accessor)."""
    class V:
        kind = "predict"
        meta = {"sp": 0, "ss": 0, "se": 0, "exo": c.meta["exo"], "comps": c.get("means_%d" % s_).shape[1]}
        def get(self, name):
            return c.get("%s_%d" % (name, s_))
        def has(self, name):
            return c.has("%s_%d" % (name, s_))
    class R:
        def get(self, name, default=None):
            return rec.get("%s_%d" % (name, s_), default) if rec is not None else default
        def has(self, name):
            return rec is not None and rec.has("%s_%d" % (name, s_))
    return V(), R()


def nontrivial(c):
    m = c.meta
    if c.kind == "sequence":
        return ("sequence", int(m["n"]), int(m["exo"]), m["hows"])
    n, k = int(m["n"]), int(m["comps"])
    fl = (int(m["sp"]), int(m["ss"]), int(m["se"]))
    rp = int(m.get("rankPmin", n))
    if k >= 2 or int(m["exo"]) or int(m["rankQ"]) < n or rp < n or any(fl):
        return (c.kind, n, k, int(m["exo"]), m["fkind"], int(m["rankQ"]), rp, fl)
    return None


def _mag(c):
    """magnitude of the quantities computed (for the rounding tolerance)"""
    F = c.get("F"); n = F.shape[0]
    f = max(1.0, float(np.max(np.abs(F))) if F.size else 1.0)
    b = max(1.0, float(np.max(np.abs(c.get("B"))))) if c.has("B") else 1.0
    if c.kind == "predict":
        x = max(1.0, float(np.max(np.abs(c.get("means")))))
        p = max(1.0, float(np.max(np.abs(c.get("covs")))))
        return n * (f + b) * x + 10.0, n * n * f * f * p + float(np.max(np.abs(c.get("Q")))) + 1.0
    x = max(1.0, float(np.max(np.abs(c.get("cur")))))
    return n * (f + b) * x + 10.0, 1.0


def compare(c, impl, model):
    if c.kind == "sequence":
        d = []
        hows = c.meta["hows"].split(",")
        for s_ in range(int(c.meta["nsteps"])):
            v, ri = _step_view(c, impl, s_)
            _, rm = _step_view(c, model, s_)
            d += ["step %d (%s): %s" % (s_, hows[s_], x) for x in _compare_predict(v, ri, rm, check_exo_calls=False)]
        return d[:8]
    return _compare_predict(c, impl, model)


def _compare_predict(c, impl, model, check_exo_calls=True):
    d = []
    mm, mc = _mag(c)
    if c.kind == "propagate":
        if not caseio.close(impl.get("prop"), model.get("prop"), 1e-12 * mm, 0):
            d.append("prop: max|impl-model|=%.3g" % caseio.maxdiff(impl.get("prop"), model.get("prop")))
    else:
        k = int(c.meta["comps"])
        if impl.get("components") != model.get("components"):
            d.append("components: impl=%s model=%s" % (impl.get("components"), model.get("components")))
        if not caseio.close(impl.get("means"), model.get("means"), 1e-12 * mm, 0):
            d.append("means: max|impl-model|=%.3g (tol %.3g)" % (caseio.maxdiff(impl.get("means"), model.get("means")), 1e-12 * mm))
        for i in range(k):
            a, b = impl.get("cov%d" % i), model.get("cov%d" % i)
            if a is None or b is None or not caseio.close(a, b, 1e-12 * mc, 0):
                d.append("cov%d: max|impl-model|=%.3g (tol %.3g)" % (i, caseio.maxdiff(a, b) if a is not None and b is not None else float("nan"), 1e-12 * mc))
        # the weights are copied or kept, never computed: exact
        if not caseio.close(impl.get("weights"), model.get("weights"), 0, 0):
            d.append("weights: impl=%s model=%s" % (impl.get("weights").ravel(), model.get("weights").ravel()))
    if not check_exo_calls:
        return d
    # the exogenous model is consulted once, on all columns, exactly when it is attached and neither it nor the step is skipped early
    sp, ss, se = int(c.meta["sp"]), int(c.meta["ss"]), int(c.meta["se"])
    exp = 0
    if int(c.meta["exo"]) and not se:
        exp = 1 if c.kind == "propagate" else (0 if (sp or ss) else 1)
    if impl.get("exo_calls") != exp:
        d.append("exo_calls: impl=%s model=%d" % (impl.get("exo_calls"), exp))
    return d


def oracle(c, impl, model):
    if c.kind == "sequence":
        out = []
        hows = c.meta["hows"].split(",")
        for s_ in range(int(c.meta["nsteps"])):
            v, ri = _step_view(c, impl, s_)
            for sig, det in _oracle_predict(v, ri, None):
                # which call of the object's life, and what happened to the object / its model just before it
                out.append(("%s:step=%d:after=%s" % (sig, s_, hows[s_]), "sequence %s, call %d: %s" % (c.meta["hows"], s_, det)))
        return out
    return _oracle_predict(c, impl, model)


def _oracle_predict(c, impl, model):
    """The property clauses evaluated on the implementation's output (numpy as the independent formula,
    the extracted spec functions as the second one)."""
    v = []
    F = c.get("F"); n = F.shape[0]
    sp, ss, se = int(c.meta["sp"]), int(c.meta["ss"]), int(c.meta["se"])
    exo = bool(int(c.meta["exo"]))
    fl = "flags=%d%d%d" % (sp, ss, se)
    mm, mc = _mag(c)

    def u(X):
        return c.get("B") @ X + c.get("c") @ np.ones((1, X.shape[1])) if exo else np.zeros_like(X)

    if c.kind == "propagate":
        cur, old, out = c.get("cur"), c.get("old"), impl.get("prop")
        if impl.get("input_unchanged") != 1:
            v.append(("C02:input-modified:propagate", "cur_states was modified"))
        if exo:
            exp = {(0, 0): F @ cur + u(cur), (0, 1): F @ cur, (1, 0): u(cur), (1, 1): cur}[(ss, se)]
        else:
            exp = F @ cur if not ss else old
        if not caseio.close(out, exp, 1e-11 * mm, 0):
            v.append(("C02:propagate-branch:exo=%d:ss=%d:se=%d" % (exo, ss, se), "max diff %.3g" % caseio.maxdiff(out, exp)))
        return v

    Q = c.get("Q"); k = int(c.meta["comps"])
    means, covs, w = c.get("means"), c.get("covs"), c.get("weights")
    if impl.get("prev_unchanged") != 1:
        v.append(("C02:input-modified", "the belief passed in was modified (%s)" % fl))
    if impl.get("components") != k or impl.get("dim") != n:
        v.append(("C02:component-count", "output reports %s components of dim %s for %d of dim %d" % (impl.get("components"), impl.get("dim"), k, n)))
        return v
    if sp or ss:
        ok = caseio.close(impl.get("means"), means, 0, 0) and caseio.close(impl.get("weights"), w, 0, 0) and \
            all(caseio.close(impl.get("cov%d" % i), covs[:, i * n:(i + 1) * n], 0, 0) for i in range(k))
        if not ok:
            v.append(("C02:skipped-not-identity:%s" % fl, "a skipped prediction did not return its input"))
        return v
    U = u(means) if not se else np.zeros_like(means)
    tag = "exo" if (exo and not se) else ("exo-skipped" if exo else "noexo")
    for i in range(k):
        P = covs[:, i * n:(i + 1) * n]
        mi, Pi = impl.get("means")[:, i:i + 1], impl.get("cov%d" % i)
        em = F @ means[:, i:i + 1] + U[:, i:i + 1]
        eP = F @ P @ F.T + Q
        if not caseio.close(mi, em, 1e-11 * mm, 0):
            v.append(("C02:mean-not-Fm+u:%s" % tag, "component %d: max diff %.3g" % (i, caseio.maxdiff(mi, em))))
        if not caseio.close(Pi, eP, 1e-11 * mc, 0):
            v.append(("C02:cov-not-FPFt+Q", "component %d: max diff %.3g (tol %.3g)" % (i, caseio.maxdiff(Pi, eP), 1e-11 * mc)))
        if model is not None and se == 0:
            sm, sP = model.get("spec_mean%d" % i), model.get("spec_cov%d" % i)
            if sm is not None and not caseio.close(mi, sm, 1e-11 * mm, 0):
                v.append(("C02:mean-not-Fm+u:%s" % tag, "component %d vs extracted spec: max diff %.3g" % (i, caseio.maxdiff(mi, sm))))
            if sP is not None and not caseio.close(Pi, sP, 1e-11 * mc, 0):
                v.append(("C02:cov-not-FPFt+Q", "component %d vs extracted spec: max diff %.3g" % (i, caseio.maxdiff(Pi, sP))))
        if not np.all(np.isfinite(Pi)):
            v.append(("C02:cov-not-finite", "component %d" % i)); continue
        if not caseio.close(Pi, Pi.T, 1e-11 * mc, 0):
            v.append(("C02:cov-not-symmetric", "component %d: max asymmetry %.3g" % (i, caseio.maxdiff(Pi, Pi.T))))
        lam = np.linalg.eigvalsh((Pi + Pi.T) / 2).min()
        if lam < -1e-10 * mc:
            v.append(("C02:cov-not-psd", "component %d: lambda_min %.3g" % (i, lam)))
    if not caseio.close(impl.get("weights"), c.get("old_weights"), 0, 0):
        v.append(("C02:weights-touched", "the weights of the output object were written by the prediction step"))
    return v


def histogram(cases):
    def count(f):
        d = {}
        for c in cases:
            d[str(f(c))] = d.get(str(f(c)), 0) + 1
        return d
    return {"kind": count(lambda c: c.kind), "n": count(lambda c: c.meta["n"]), "comps": count(lambda c: c.meta["comps"]),
            "exo": count(lambda c: c.meta["exo"]), "F_kind": count(lambda c: c.meta["fkind"]),
            "rankQ_deficit": count(lambda c: int(c.meta["n"]) - int(c.meta["rankQ"])),
            "flags(sp,ss,se)": count(lambda c: "%s%s%s" % (c.meta["sp"], c.meta["ss"], c.meta["se"]))}


LEVEL_TEXT = ("Proof: the model of GaussianPrediction::predict / KFPrediction::predictStep / LinearStateModel::propagate over an LTI state model "
              "is proved, for every real field, dimension, number of components, arbitrary square F, arbitrary exogenous function, to return "
              "mean F m_i + u_i and covariance F P_i F^T + Q per component (symmetric / PSD whenever P_i and Q are, singular ones included), "
              "component-wise and without interaction, equal to the zero-exogenous step when no exogenous model is attached, leaving the output "
              "object's weights untouched, and to be the identity when skipped. The model is tied to the code by running the extracted model and "
              "the library on the same generated cases.")
LEVEL_NOTE = ("Trusted: Coq kernel, MathComp, extraction + float driver, list instance of the matrix interface, harness and tolerances; rounding is not "
              "modelled; the tie to the code is sampled (320 quick / 20000 thorough cases). 'Input belief not modified' is checked on the implementation only "
              "(it is vacuous in a functional model).")
