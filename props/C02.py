"""C02 — Kalman prediction = exact linear-Gaussian time update (DESIGN.md §5 C02)."""
import numpy as np
from vlib import caseio, gen

ID = "C02"
COQ_TARGETS = ["C02_Extract.vo", "C02_Proofs.vo", "C02_Transport.vo", "C02_TransportEntry.vo"]
EXTRACTED = "C02_model"
DRIVER = "drv_C02.ml"
HARNESS = "h_C02.cpp"
VARIANTS = {"quick": ["O1"], "thorough": ["O1", "asan"]}
AXIOMS_ALLOWED = []          # MathComp only: closed under the global context
REQUIRED_THEOREMS = ["C02_means_exo", "C02_mean", "C02_mean_noexo", "C02_cov", "C02_cov_psd", "C02_cov_sym",
                     "C02_componentwise", "C02_cov_independent", "C02_mean_independent", "C02_no_exo_equals_zero_exo",
                     "C02_frame_weights", "C02_frame_covs_beyond", "C02_propagate_branches", "C02_skipped_identity",
                     "C02_layout_kept", "C02_layout_of_input", "C02_layout_flags", "C02_layout_consistent", "C02_whole_object",
                     "C02_spec_is_model", "C02_seq_stepwise", "C02_seq_no_hidden_memory", "C02_call_time_varying_cov",
                     "C02_call_time_varying_means", "C02_call_skipped",
                     "C02_executed_model_is_theorem_model", "C02_executed_skipped_ignores_output_object",
                     "C02_executed_skipped_is_identity", "C02_executed_propagate_is_theorem_propagate",
                     "C02_executed_spec_is_theorem_spec", "C02_executed_sequence_is_theorem_sequence",
                     "C02_executed_step_is_theorem_step"]
RULE = ("cases drawn from one seeded stream: total dimension n in 1..6 split into linear / circular (Euler angles, use_quaternion = false) / "
        "noise rows (55% of the beliefs have circular rows, 15% noise rows), components 1..4; F random / singular / identity / zero / nilpotent / "
        "badly scaled / diagonal / near-identity / near-diagonal / orthogonal / permutation; Q and P_i symmetric PSD of rank 0..n (singular ones "
        "included), diagonal, near-diagonal; with and without an exogenous model u = B x + c. Magnitudes: physical units x -> L D x (L over 9 "
        "orders, D diagonal over 8 orders: F -> D F D^-1, P -> L^2 D P D, Q -> L^2 D Q D, m -> L D m) and independent magnitudes of F, Q "
        "(down to 1e-12 of P), P_i (per component) and the means; tolerances are componentwise forward-error bounds c*u*(|F||X|+|B||X|+|c|) and "
        "c*u*(a a^T + q q^T) >= c*u*(|F||P||F|^T+|Q|) (a = |F| sqrt(diag P), q = sqrt(diag Q)), which carry the units. Output object: same layout / other linear-circular split of the same total / "
        "quaternion-flagged / with or without noise rows (always unrelated means, covariances, weights); a skipped call also gets "
        "default-constructed, other component count, larger, smaller and quaternion objects. 20% of the predict cases and all propagate cases "
        "carry skip flags so that every branch of LinearStateModel::propagate and both early returns are exercised; sequences drive ONE "
        "object through 2-4 calls (matrices set / time-varying / exogenous model attached / object move-assigned from a used donor of "
        "possibly another dimension / move-constructed, flags and layouts per call). 12% of the exogenous predict/propagate cases and 10% of the sequences make the exogenous contribution NaN / +inf / -inf for SOME entries (entries of c, or products of 1e307-sized entries of B with the 100..1000-sized means of some components overflowing, all other components below 0.01 so that every class is independent of the summation order): non-finite entries are compared by class, finite ones as usual. 30% of the cases run with callback re-entrancy: an "
        "independent twin KFPrediction with an exogenous input predicts inside every callback of the subject's models. non-trivial = "
        "components >= 2 or exogenous model or singular P/Q or any flag or circular/noise rows or a foreign output object; distinct by "
        "(kind, n, comps, exo, F kind, rank Q, min rank P, flags, circular>0, noise>0, output-object class)")
TRUSTED_BASE = ["Coq 8.16.1 kernel (coqc); no axioms (Print Assumptions: closed under the global context)",
                "MathComp 1.15 matrix theory",
                "extraction (ExtrOcamlBasic only) and ocaml/float_ops.ml, ocaml/drv_C02.ml, ocaml/caseio.ml",
                "ListOps list instance of MatOps: every extracted entry point (c02_run, c02_propagate, c02_spec, c02_seq) is proved to compute, on "
                "well-formed inputs over any realFieldType, a representation of the MathComp instance the theorems are about "
                "(ListOpsCorrect.v, C02_Transport.v, C02_TransportEntry.v; theorems C02_executed_*); what remains between executed model and theorem model is IEEE rounding",
                "cpp/h_C02.cpp harness (its AffineExo exogenous model, flag set-up, layouts built with the GaussianMixture constructor and augmentWithNoise); "
                "comparison tolerances: componentwise bounds 8(n+3)u(|F||X|+|B||X|+|c|) for means, 8(2n+3)u(a a^T + q q^T), a = |F| sqrt(diag P), q = sqrt(diag Q), for covariances, u = 2^-53",
                "correspondence is sampled: agreement is established on the generated cases only",
                "IEEE rounding is not modelled (theorems over an exact real field)",
                "dim / dim_covariance of a mixture are functions of its descriptors (components, dim_linear, dim_circular, use_quaternion, dim_noise): C11"]
ASSUMPTIONS = ["a prediction that is not skipped is handed an output object with the component count, dim and dim_covariance of the belief "
               "(neither GaussianPrediction::predict nor KFPrediction::predictStep sizes its output: mean and covariances are written through "
               "fixed-size views, so another shape mixes incompatible sizes - C14's subject; cases of that class are not generated for "
               "non-skipped calls); its linear/circular split, quaternion flag, noise size, weights and content are arbitrary",
               "beliefs have Euler-angle circular rows only (use_quaternion = false): with quaternions dim != dim_covariance and no square F fits both",
               "the exogenous model is a function of the matrix of current means only (no hidden state)"]

# (predict, propagate, sequence)
COUNTS = {"quick": (7400, 1400, 3200), "thorough": (17000, 3000, 4000)}
SEARCH = (2000, 300, 700)
HOWS = ["same", "set", "time", "moveassign", "movector", "movector+set", "attach"]
U = 2.0 ** -53
TINY = 1e-290


def p10(rng, lo, hi):
    return 10.0 ** rng.uniform(lo, hi)


def sym(a):
    return (a + a.T) / 2


# ---------------------------------------------------------------------------------------------- numeric generators
def transition(rng, n):
    kind = rng.choice(["random", "random", "random", "singular", "identity", "zero", "nilpotent", "scaled",
                       "diagonal", "near-identity", "near-diagonal", "orthogonal", "permutation"])
    if kind == "random":
        F = gen.matrix(rng, n, n)
    elif kind == "singular":
        r = max(0, n - 1)
        F = gen.matrix(rng, n, r) @ gen.matrix(rng, r, n) if r > 0 else np.zeros((n, n))
    elif kind == "identity":
        F = np.eye(n)
    elif kind == "zero":
        F = np.zeros((n, n))
    elif kind == "nilpotent":
        F = np.triu(gen.matrix(rng, n, n), 1)
    elif kind == "scaled":
        F = gen.matrix(rng, n, n) * np.array([10.0 ** rng.randint(-3, 3) for _ in range(n)])
    elif kind == "diagonal":
        F = np.diag(gen.matrix(rng, n, 1).ravel())
    elif kind == "near-identity":          # identity up to a perturbation between 1e-14 and 1e-3
        F = np.eye(n) + p10(rng, -14, -3) * gen.matrix(rng, n, n)
    elif kind == "near-diagonal":          # off-diagonal entries between 1e-14 and 1e-5 of the diagonal ones
        F = np.diag(gen.matrix(rng, n, 1).ravel() + 2.0) + p10(rng, -14, -5) * gen.matrix(rng, n, n)
    elif kind == "orthogonal":
        F = gen.orthogonal(rng, n)
    else:
        F = np.eye(n)[[*rng.sample(range(n), n)], :]
    return F, kind


def psd_any(rng, n):
    """Symmetric PSD (a floating Gram product: PSD up to (n+2)u*sqrt(P_ii P_jj) componentwise); returns (P, rank)."""
    kind = rng.choice(["psd", "psd", "psd", "psd", "diagonal", "near-diagonal"])
    if kind == "diagonal":
        d = np.array([p10(rng, -3, 2) if rng.random() < 0.8 else 0.0 for _ in range(n)])
        return np.diag(d), int(np.count_nonzero(d))
    if kind == "near-diagonal":
        d = np.array([p10(rng, -2, 2) for _ in range(n)])
        return sym(np.diag(d) + p10(rng, -14, -5) * gen.psd(rng, n, n)), n
    r = rng.choice([n, n, n, max(0, n - 1), rng.randint(0, n)])
    return gen.psd(rng, n, r), r


def units(rng, n):
    """Unit of the state: x -> L * D x (homogeneous factor, coordinate-wise factors)."""
    L = p10(rng, -5, 4) if rng.random() < 0.4 else 1.0
    D = np.array([p10(rng, -4, 4) for _ in range(n)]) if rng.random() < 0.4 else np.ones(n)
    return L, D


def hit_columns(rng, n, k, positive=False):
    """n x k means: some, not all, of the columns (all of one) with entries in [100, 1000), the others below 0.01."""
    hit = rng.sample(range(k), rng.randint(1, max(1, k - 1)))
    X = np.zeros((n, k))
    for j in range(k):
        for i in range(n):
            X[i, j] = rng.uniform(100.0, 1000.0) * (1.0 if positive else rng.choice([-1.0, 1.0])) if j in hit else rng.uniform(-0.01, 0.01)
    return X


def nonfinite_exo(rng, n, k, B, cc, means):
    """Makes the exogenous contribution u = B X + c 1^T non-finite for SOME entries only, all operands of the step being
    ordinary doubles except (mode c-entry) one or two entries of c: rows of B carry entries of magnitude 1e307..9e307; the
    columns of X chosen to be hit have entries in [100, 1000) (the products overflow to +-inf; two of opposite sign give
    NaN), the other columns entries below 0.01 (every product <= 9e305, every partial sum finite, in any summation
    order).  The class (finite / NaN / +inf / -inf) of every entry is therefore the same for every order of evaluation.
    Returns (B, c, means, mode)."""
    B, cc, means = B.copy(), cc.copy(), means.copy()
    mode = rng.choice(["c-entry", "overflow-entry", "overflow-nan", "overflow-column"])
    if mode == "c-entry":
        for r in rng.sample(range(n), 1 if n < 3 else rng.randint(1, 2)):
            cc[r, 0] = rng.choice([float("nan"), float("inf"), float("-inf")])
        return B, cc, means, mode
    means = hit_columns(rng, n, k, mode == "overflow-nan")
    rows = list(range(n)) if mode == "overflow-column" else rng.sample(range(n), 1 if n < 3 else rng.randint(1, 2))
    for r in rows:
        p = rng.randrange(n)
        B[r, p] = rng.choice([-1.0, 1.0]) * rng.uniform(1.0, 9.0) * 1e307
        if mode == "overflow-nan" and n >= 2:
            p2 = rng.choice([x for x in range(n) if x != p])
            B[r, p2] = -np.sign(B[r, p]) * rng.uniform(1.0, 9.0) * 1e307
    return B, cc, means, mode


def problem(rng, n, k, have_exo, L, D, keep=None, nonfinite=False):
    """The numeric data of one call in the units (L, D): F, Q, [B, c], means (n x k), covs [k of n x n].
    keep = (F, Q, B, c, fkind, rq): the live model still holds these."""
    if keep is None:
        F, fkind = transition(rng, n)
        Q, rq = psd_any(rng, n)
        if rng.random() < 0.25:
            F = F * p10(rng, -3, 3)
        if rng.random() < 0.4:                          # process noise from dominant to negligible relative to P
            Q = Q * p10(rng, -12, 6)
        F = D[:, None] * F / D[None, :]
        Q = sym((L * L) * (D[:, None] * Q * D[None, :]))
        B = cc = None
        if have_exo:
            B = gen.matrix(rng, n, n) * (p10(rng, -4, 3) if rng.random() < 0.3 else 1.0)
            cc = gen.matrix(rng, n, 1, 4.0) * (p10(rng, -6, 4) if rng.random() < 0.3 else 1.0)
            if rng.random() < 0.1:
                B = np.zeros((n, n))
            if rng.random() < 0.1:
                cc = np.zeros((n, 1))
            B = D[:, None] * B / D[None, :]
            cc = L * D[:, None] * cc
    else:
        F, Q, B, cc, fkind, rq = keep
    means = gen.matrix(rng, n, k, 3.0)
    if rng.random() < 0.3:
        means = means * np.array([p10(rng, -6, 6) for _ in range(k)])[None, :]
    if rng.random() < 0.05:
        means[:, rng.randrange(k)] = 0.0
    means = L * D[:, None] * means
    covs, rmin = [], n
    sP = p10(rng, -8, 8) if rng.random() < 0.3 else 1.0
    for i in range(k):
        P, r = psd_any(rng, n)
        rmin = min(rmin, r)
        if rng.random() < 0.2:
            P = P * p10(rng, -6, 6)                     # per component
        covs.append(sym((L * L * sP) * (D[:, None] * P * D[None, :])))
    nf = "-"
    if nonfinite and B is not None:
        if keep is None:
            B, cc, means, nf = nonfinite_exo(rng, n, k, B, cc, means)
        elif np.max(np.abs(B)) > 1e300:      # the live model still holds a B with huge entries: keep the classes order-independent
            means, nf = hit_columns(rng, n, k), "overflow-kept"
        elif not np.all(np.isfinite(cc)):
            nf = "c-entry-kept"
    return dict(F=F, Q=Q, B=B, c=cc, means=means, covs=covs, fkind=fkind, rq=rq, rpmin=rmin, nf=nf)


# ---------------------------------------------------------------------------------------------- layouts
def split(rng, n):
    """(linear, circular, noise) rows with linear + circular + noise = n."""
    dn = rng.randint(1, n - 1) if n >= 2 and rng.random() < 0.15 else 0
    m = n - dn
    r = rng.random()
    dc = 0 if r < 0.45 else (m if r < 0.6 else rng.randint(1, m))
    return m - dc, dc, dn


def dims(ol, oc, oq, on):
    return ol + oc * (4 if oq else 1) + on, ol + oc * (3 if oq else 1) + on


def output_object(rng, k, n, prev_lay, skipped):
    """Descriptors of the output object handed to a call on a belief of k components, dimension n.
    Returns (class, default?, (ok, ol, oc, oq, on))."""
    kinds = ["same", "same", "split", "split", "quatflag"]
    if skipped:
        kinds = ["same", "split", "default", "default", "count", "larger", "smaller", "quaternion", "quatflag"]
    elif k == 1 and n == 1:
        kinds = kinds + ["default", "default"]
    kind = rng.choice(kinds)
    pl, pc, pn = prev_lay
    if kind == "same":
        return kind, 0, (k, pl, pc, 0, pn)
    if kind == "split":
        ol, oc, on = split(rng, n)
        return kind, 0, (k, ol, oc, 0, on)
    if kind == "quatflag":       # use_quaternion = true but no circular component: dim = dim_covariance = n
        on = rng.randint(0, n - 1) if rng.random() < 0.3 else 0
        return kind, 0, (k, n - on, 0, 1, on)
    if kind == "default":
        return kind, 1, (1, 1, 0, 0, 0)
    if kind == "count":
        ko = rng.choice([x for x in range(1, 6) if x != k])
        ol, oc, on = split(rng, n)
        return kind, 0, (ko, ol, oc, 0, on)
    if kind == "larger":
        no = n + rng.randint(1, 3); ko = k + rng.randint(0, 2)
        ol, oc, on = split(rng, no)
        return kind, 0, (ko, ol, oc, 0, on)
    if kind == "smaller":
        no = rng.randint(1, max(1, n - 1)); ko = rng.randint(1, k)
        ol, oc, on = split(rng, no)
        return kind, 0, (ko, ol, oc, 0, on)
    oc = rng.randint(1, 2)       # a genuine quaternion object: dim = ol + 4 oc, dim_covariance = ol + 3 oc
    return "quaternion", 0, (rng.randint(1, 4), rng.randint(0, 3), oc, 1, rng.randint(0, 1))


def put_call(c, rng, s, prob, k, n, sp, ss, se, scale_old):
    """Writes the operands of one predict call (suffix s) into the case; returns its meta."""
    sf = (lambda x: x) if s is None else (lambda x: "%s_%d" % (x, s))
    lay = split(rng, n)
    skipped = bool(sp or ss)
    oclass, odef, (ok, ol, oc, oq, on) = output_object(rng, k, n, lay, skipped)
    do, dco = dims(ol, oc, oq, on)
    w = np.array([rng.random() + 0.1 for _ in range(k)]); w = np.log(w / w.sum())
    c.mat(sf("F"), prob["F"]).mat(sf("Q"), prob["Q"])
    if prob["B"] is not None:
        c.mat(sf("B"), prob["B"]).mat(sf("c"), prob["c"])
    c.mat(sf("means"), prob["means"]).mat(sf("covs"), np.hstack(prob["covs"])).mat(sf("weights"), w.reshape(-1, 1))
    c.int(sf("pl"), lay[0]).int(sf("pc"), lay[1]).int(sf("pn"), lay[2])
    c.int(sf("odef"), odef).int(sf("ok"), ok).int(sf("ol"), ol).int(sf("oc"), oc).int(sf("oq"), oq).int(sf("on"), on)
    if odef:
        # what a default-constructed GaussianMixture holds (harness and library are compiled with EIGEN_INITIALIZE_MATRICES_BY_ZERO)
        c.mat(sf("old_means"), np.zeros((1, 1))).mat(sf("old_covs"), np.zeros((1, 1))).mat(sf("old_weights"), np.ones((1, 1)))
    else:
        ow = np.array([rng.random() + 0.1 for _ in range(ok)]); ow = np.log(ow / ow.sum())
        c.mat_shape(sf("old_means"), do, ok, gen.matrix(rng, do, ok, 7.0) * scale_old)
        c.mat_shape(sf("old_covs"), dco, dco * ok, gen.matrix(rng, dco, dco * ok, 5.0) * scale_old)
        c.mat(sf("old_weights"), ow.reshape(-1, 1))
    c.int(sf("sp"), sp).int(sf("ss"), ss).int(sf("se"), se)
    return dict(lay=lay, oclass=oclass)


def flags(rng, have_exo, always):
    if not always and rng.random() < 0.8:
        return 0, 0, 0
    sp = 1 if rng.random() < 0.25 else 0
    return sp, rng.randint(0, 1), (rng.randint(0, 1) if have_exo else 0)


def generate(rng, tier):
    return _generate(rng, *COUNTS[tier])


def search_cases(rng):
    """The widened search (runner.widen_if_needed): all three kinds, other seed."""
    return _generate(rng, *SEARCH)


def _generate(rng, npred, nprop, nseq):
    cases = []
    for kk in range(npred + nprop):
        kind = "predict" if kk < npred else "propagate"
        n = rng.randint(1, 6); k = rng.randint(1, 4)
        have_exo = rng.random() < 0.5
        sp, ss, se = flags(rng, have_exo, kind == "propagate")
        nonfinite = have_exo and rng.random() < 0.12      # the exogenous contribution of some entries is NaN / +-inf
        L, D = (1.0, np.ones(n)) if nonfinite else units(rng, n)
        pr = problem(rng, n, k, have_exo, L, D, nonfinite=nonfinite)
        intrude = 1 if rng.random() < 0.3 else 0     # callback re-entrancy: a twin prediction runs inside every model callback
        meta = {"n": n, "comps": k, "exo": int(have_exo), "fkind": pr["fkind"], "rankQ": pr["rq"], "sp": sp, "ss": ss, "se": se,
                "intrude": intrude, "L": "%.3g" % L, "Dspan": "%.3g" % (D.max() / D.min()), "nf": pr["nf"]}
        c = caseio.Case(kk, kind, meta)
        if kind == "predict":
            m = put_call(c, rng, None, pr, k, n, sp, ss, se, L * float(D.max()))
            c.meta.update({"rankPmin": pr["rpmin"], "circ": m["lay"][1], "noise": m["lay"][2], "oclass": m["oclass"]})
        else:
            c.mat("F", pr["F"]).mat("Q", pr["Q"])
            if have_exo:
                c.mat("B", pr["B"]).mat("c", pr["c"])
            c.mat("cur", pr["means"]).mat("old", gen.matrix(rng, n, k, 7.0) * L * float(D.max()))
            c.int("ss", ss).int("se", se)
        cases.append(c)
    for _ in range(nseq):
        cases.append(sequence_case(rng, len(cases)))
    return cases


def sequence_case(rng, cid):
    """One KFPrediction object, 2-4 predicts; the live model's F, Q (and B, c) at each call are those of the step."""
    n = rng.randint(1, 5); nsteps = rng.randint(2, 4)
    have_exo = rng.random() < 0.5
    nonfinite = rng.random() < 0.1            # steps with an exogenous model may get a partly non-finite contribution
    L, D = (1.0, np.ones(n)) if nonfinite else units(rng, n)
    hows, ns, ks, fl, ocl, circ, nfs = [], [], [], [], [], [], []
    c = caseio.Case(cid, "sequence", {})
    c.int("nsteps", nsteps)
    keep = None
    for s_ in range(nsteps):
        h = "first" if s_ == 0 else rng.choice(HOWS)
        if h == "attach" or (h == "moveassign" and rng.random() < 0.5):
            new_exo = True if h == "attach" else (rng.random() < 0.5)
        else:
            new_exo = have_exo
        if h == "moveassign" and rng.random() < 0.4:          # the donor's model has another state dimension
            n = rng.randint(1, 5)
            L, D = (1.0, np.ones(n)) if nonfinite else units(rng, n)
            keep = None
        if h in ("same", "movector") and keep is not None:
            pass                                               # the live model still holds the previous matrices
        elif h == "attach" and keep is not None:               # matrices unchanged, exogenous model new
            B = D[:, None] * gen.matrix(rng, n, n) / D[None, :]
            keep = (keep[0], keep[1], B, L * D[:, None] * gen.matrix(rng, n, 1, 4.0), keep[4], keep[5])
        else:
            old = keep
            keep = None
        have_exo = new_exo
        k = rng.randint(1, 4)
        pr = problem(rng, n, k, have_exo, L, D, keep, nonfinite=nonfinite and (keep is not None or rng.random() < 0.7))
        nfs.append(pr["nf"])
        if keep is None and s_ > 0 and h in ("set", "time", "movector+set") and old is not None and rng.random() < 0.25:
            # only one of the two matrices changes
            if rng.random() < 0.5:
                pr["F"], pr["fkind"] = old[0], old[4]
            else:
                pr["Q"], pr["rq"] = old[1], old[5]
        keep = (pr["F"], pr["Q"], pr["B"], pr["c"], pr["fkind"], pr["rq"])
        sp, ss, se = flags(rng, have_exo, False) if rng.random() < 0.7 else flags(rng, have_exo, True)
        m = put_call(c, rng, s_, pr, k, n, sp, ss, se, L * float(D.max()))
        hows.append(h); ns.append(n); ks.append(k); fl.append("%d%d%d" % (sp, ss, se)); ocl.append(m["oclass"]); circ.append(m["lay"][1])
    c.word("steps", hows)
    c.meta.update({"n": ns[0], "comps": max(ks), "exo": int(c.has("B_0")), "fkind": "seq", "rankQ": ns[0], "sp": 0, "ss": 0, "se": 0,
                   "nsteps": nsteps, "hows": ",".join(hows), "dims": ",".join(map(str, ns)), "flags": ",".join(fl),
                   "oclasses": ",".join(ocl), "circ": max(circ), "intrude": 1 if rng.random() < 0.3 else 0,
                   "L": "%.3g" % L, "Dspan": "%.3g" % (D.max() / D.min()), "nf": ",".join(nfs)})
    return c


# ---------------------------------------------------------------------------------------------- views
class _View:
    """One predict call: operand access (suffix-aware) + flags."""
    def __init__(self, c, s):
        self.c, self.s = c, s
        self.sp, self.ss, self.se = (int(self.get(x)) for x in ("sp", "ss", "se"))
        self.exo = self.has("B")
        self.n, self.k = self.get("means").shape

    def name(self, x):
        return x if self.s is None else "%s_%d" % (x, self.s)

    def get(self, x):
        return self.c.get(self.name(x))

    def has(self, x):
        return self.c.has(self.name(x))


class _Rec:
    def __init__(self, rec, s):
        self.rec, self.s = rec, s

    def get(self, x, default=None):
        return self.rec.get(x if self.s is None else "%s_%d" % (x, self.s), default)


def _views(c):
    if c.kind == "sequence":
        hows = c.meta["hows"].split(",")
        return [(_View(c, s), s, "step %d (%s): " % (s, hows[s]), ":step=%d:after=%s" % (s, hows[s])) for s in range(int(c.meta["nsteps"]))]
    return [(_View(c, None), None, "", "")]


def nontrivial(c):
    m = c.meta
    if c.kind == "sequence":
        return ("sequence", m["dims"], int(m["exo"]), m["hows"], m["flags"], m["oclasses"])
    n, k = int(m["n"]), int(m["comps"])
    fl = (int(m["sp"]), int(m["ss"]), int(m["se"]))
    rp = int(m.get("rankPmin", n))
    circ, noise, ocl = int(m.get("circ", 0)) > 0, int(m.get("noise", 0)) > 0, m.get("oclass", "same")
    if k >= 2 or int(m["exo"]) or int(m["rankQ"]) < n or rp < n or any(fl) or circ or noise or ocl != "same":
        return (c.kind, n, k, int(m["exo"]), m["fkind"], int(m["rankQ"]), rp, fl, circ, noise, ocl, m.get("nf", "-"))
    return None


# ---------------------------------------------------------------------------------------------- tolerances
def _within(a, b, tol, amb=None):
    """a agrees with the reference b: where b is finite, a is finite and |a - b| <= tol; where b is NaN / +inf / -inf
    (IEEE arithmetic propagated through a partly non-finite exogenous contribution), a is of the same class - except at
    the entries marked in amb (exo_ambiguous), where any non-finite value is as good as another."""
    if a is None or b is None:
        return False
    a, b = np.asarray(a, dtype=float), np.asarray(b, dtype=float)
    if a.shape != b.shape or a.shape != np.shape(tol):
        return False
    with np.errstate(all="ignore"):
        fin = np.isfinite(b)
        ok_fin = np.isfinite(a) & (np.abs(a - b) <= tol)
        ok_cls = (np.isnan(a) & np.isnan(b)) | (a == b)
        if amb is not None:
            ok_cls = ok_cls | (amb & ~np.isfinite(a))
        return bool(np.all(np.where(fin, ok_fin, ok_cls)))


def _excess(a, b, tol, amb=None):
    """max over the entries of |a - b| / tol (for the message); inf for an entry of the wrong class."""
    if a is None or b is None or np.shape(a) != np.shape(b) or np.shape(a) != np.shape(tol):
        return float("nan")
    a, b = np.asarray(a, dtype=float), np.asarray(b, dtype=float)
    with np.errstate(all="ignore"):
        fin = np.isfinite(b)
        cls = (np.isnan(a) & np.isnan(b)) | (a == b)
        if amb is not None:
            cls = cls | (amb & ~np.isfinite(a))
        r = np.where(fin, np.where(np.isfinite(a), np.abs(a - b) / tol, np.inf), np.where(cls, 0.0, np.inf))
        return float(np.max(r)) if r.size else 0.0


def exo_ambiguous(B, X):
    """Entries (i, j) of B X whose class is not determined by IEEE arithmetic alone: products of both signs overflow, so
    the sum is NaN when every product is rounded (inf - inf) but +-inf when a fused multiply-add keeps one of them exact,
    and which one depends on the order.  Every evaluation gives a non-finite value there; no class is demanded."""
    if B is None:
        return None
    with np.errstate(all="ignore"):
        prod = B[:, :, None] * X[None, :, :]
        return np.any(prod == np.inf, axis=1) & np.any(prod == -np.inf, axis=1)


def mean_bound(F, X, B, cc):
    """Componentwise forward-error bound of F X (+ B X + c 1^T) evaluated in floating point by ANY summation order,
    two such evaluations compared: |fl - exact| <= (n+3) u (|F||X| + |B||X| + |c|) each.  The bound scales with the
    units of the case (x -> L D x multiplies row i by L D_i), so no conditioning factor is needed."""
    n = F.shape[0]
    with np.errstate(all="ignore"):       # a partly non-finite exogenous contribution: the bound is inf / NaN exactly there
        T = np.abs(F) @ np.abs(X)
        if B is not None:
            T = T + np.abs(B) @ np.abs(X) + np.abs(cc) @ np.ones((1, X.shape[1]))
        return 8 * (n + 3) * U * T + TINY


def cov_bound(F, P, Q):
    """Componentwise bound for F P F^T + Q evaluated in floating point: a direct evaluation errs by at most
    (2n+3) u (|F||P||F|^T + |Q|); since |P_ij| <= p_i p_j and |Q_ij| <= q_i q_j for PSD matrices (p, q the square roots of
    the diagonals) that is <= (2n+3) u (a a^T + q q^T) with a = |F| p, and this weaker form also covers evaluations through
    a factor of P (P = L L^T: |F||L||L|^T|F|^T <= a a^T by Cauchy-Schwarz), i.e. every backward-stable way of computing
    the same matrix.  Entry (i, j) scales with L^2 D_i D_j under a change of units."""
    n = F.shape[0]
    a = np.abs(F) @ np.sqrt(np.maximum(np.diag(P), 0.0)); q = np.sqrt(np.maximum(np.diag(Q), 0.0))
    return 8 * (2 * n + 3) * U * (np.outer(a, a) + np.outer(q, q)) + TINY


def psd_margin(F, P, Q, Pi):
    """lambda_min of the output covariance after the congruence d^-1 . d^-1 with d_i^2 = (|F| p)_i^2 + q_i^2
    (p, q the square roots of the diagonals of P, Q), and the tolerance for it.  The inputs are PSD up to
    (n+2) u p p^T componentwise (floating Gram products) and the evaluation adds (2n+3) u (|F||P||F|^T + |Q|), both
    <= const * u * (a a^T + q q^T) with a = |F| p; after the congruence every entry of that matrix is <= 1, hence its
    norm <= n: lambda_min >= -(3n+7) n u for a correct result, in any units."""
    n = F.shape[0]
    p = np.sqrt(np.maximum(np.diag(P), 0.0)); q = np.sqrt(np.maximum(np.diag(Q), 0.0))
    d = np.sqrt((np.abs(F) @ p) ** 2 + q ** 2)
    d = np.where(d > 0, d, 1.0)
    S = sym(Pi) / d[:, None] / d[None, :]
    return float(np.linalg.eigvalsh(S).min()), 8 * (3 * n + 7) * n * U


# ---------------------------------------------------------------------------------------------- correspondence
LAYOUT_FIELDS = ["components", "dim", "dim_linear", "dim_circular", "dim_covariance", "dim_noise", "quat"]


def compare(c, impl, model):
    d = []
    if c.kind == "propagate":
        return _compare_propagate(c, impl, model)
    for v, s, pre, _ in _views(c):
        d += [pre + x for x in _compare_predict(v, _Rec(impl, s), _Rec(model, s), check_exo_calls=(c.kind == "predict"))]
    return d[:8]


def _prop_expect(F, exo, ss, se, cur, old, B, cc):
    """(expected value, componentwise tolerance) of LinearStateModel::propagate."""
    one = np.ones((1, cur.shape[1]))
    with np.errstate(all="ignore"):
        return _prop_expect_(F, exo, ss, se, cur, old, B, cc, one)


def _prop_expect_(F, exo, ss, se, cur, old, B, cc, one):
    if exo:
        if ss and se:
            return cur, np.zeros_like(cur)
        if not ss and not se:
            return F @ cur + (B @ cur + cc @ one), mean_bound(F, cur, B, cc)
        if not ss:
            return F @ cur, mean_bound(F, cur, None, None)
        return B @ cur + cc @ one, mean_bound(np.zeros_like(F), cur, B, cc)
    return (F @ cur, mean_bound(F, cur, None, None)) if not ss else (old, np.zeros_like(old))


def _compare_propagate(c, impl, model):
    d = []
    F, cur, old = c.get("F"), c.get("cur"), c.get("old")
    exo = c.has("B")
    ss, se = int(c.meta["ss"]), int(c.meta["se"])
    _, tol = _prop_expect(F, exo, ss, se, cur, old, c.get("B") if exo else None, c.get("c") if exo else None)
    amb = exo_ambiguous(c.get("B"), cur) if (exo and not se) else None
    if not _within(impl.get("prop"), model.get("prop"), tol, amb):
        d.append("prop: |impl-model| exceeds the componentwise bound %.3g times" % _excess(impl.get("prop"), model.get("prop"), tol, amb))
    exp = 1 if (exo and not se) else 0
    if impl.get("exo_calls") != exp:
        d.append("exo_calls: impl=%s model=%d" % (impl.get("exo_calls"), exp))
    return d


def _compare_predict(v, impl, model, check_exo_calls=True):
    d = []
    skipped = bool(v.sp or v.ss)
    # descriptors of the returned object.  components / dim / dim_covariance (and everything when the call is skipped)
    # must be the model's; for the linear/circular/noise split of a call that is not skipped the model says "those of
    # the output object" - an implementation that re-describes the output like the input belief is equally good
    prev_lay = {"components": v.k, "dim": v.n, "dim_linear": int(v.get("pl")), "dim_circular": int(v.get("pc")),
                "dim_covariance": v.n, "dim_noise": int(v.get("pn")), "quat": 0}
    for f in LAYOUT_FIELDS:
        a, b = impl.get(f), model.get(f)
        if a != b and not (not skipped and f in ("dim_linear", "dim_circular", "dim_noise", "quat") and a == prev_lay[f]):
            d.append("%s: impl=%s model=%s" % (f, a, b))
    if impl.get("storage_ok") != 1:
        d.append("storage of the returned object disagrees with its descriptors")
    if model.get("ncovs") != model.get("components"):
        d.append("model: %s covariances for %s components" % (model.get("ncovs"), model.get("components")))
    if d:
        return d
    F, Q, X = v.get("F"), v.get("Q"), v.get("means")
    covs = v.get("covs")
    active = v.exo and not v.se
    tm = np.zeros_like(X) if skipped else mean_bound(F, X, v.get("B") if active else None, v.get("c") if active else None)
    amb = exo_ambiguous(v.get("B"), X) if (active and not skipped) else None
    if not _within(impl.get("means"), model.get("means"), tm, amb):
        d.append("means: |impl-model| exceeds the componentwise bound %.3g times" % _excess(impl.get("means"), model.get("means"), tm, amb))
    for i in range(v.k):
        P = covs[:, i * v.n:(i + 1) * v.n]
        tc = np.zeros_like(P) if skipped else cov_bound(F, P, Q)
        a, b = impl.get("cov%d" % i), model.get("cov%d" % i)
        if not _within(a, b, tc):
            d.append("cov%d: |impl-model| exceeds the componentwise bound %.3g times" % (i, _excess(a, b, tc)))
    # the weights are copied or kept, never computed: exact
    if not caseio.close(impl.get("weights"), model.get("weights"), 0, 0):
        d.append("weights: impl=%s model=%s" % (np.ravel(impl.get("weights")), np.ravel(model.get("weights"))))
    if not check_exo_calls:
        return d
    # the exogenous model is consulted once, on all columns, exactly when it is attached and neither it nor the step is skipped early
    exp = 1 if (v.exo and not v.se and not skipped) else 0
    if impl.get("exo_calls") != exp:
        d.append("exo_calls: impl=%s model=%d" % (impl.get("exo_calls"), exp))
    return d


# ---------------------------------------------------------------------------------------------- the property on the implementation
def oracle(c, impl, model):
    re = ":callback-reentrancy" if int(c.meta.get("intrude", 0)) else ""
    if c.kind == "propagate":
        return [(sig + re, det) for sig, det in _oracle_propagate(c, impl)]
    out = []
    for v, s, pre, tag in _views(c):
        for sig, det in _oracle_predict(v, _Rec(impl, s), _Rec(model, s) if (model is not None and c.kind == "predict") else None):
            out.append((sig + tag + re, ("sequence %s, " % c.meta["hows"] if c.kind == "sequence" else "") + pre + det))
    return out


def _oracle_propagate(c, impl):
    v = []
    F, cur, old = c.get("F"), c.get("cur"), c.get("old")
    exo = c.has("B")
    ss, se = int(c.meta["ss"]), int(c.meta["se"])
    if impl.get("input_unchanged") != 1:
        v.append(("C02:input-modified:propagate", "cur_states was modified"))
    exp, tol = _prop_expect(F, exo, ss, se, cur, old, c.get("B") if exo else None, c.get("c") if exo else None)
    amb = exo_ambiguous(c.get("B"), cur) if (exo and not se) else None
    if not _within(impl.get("prop"), exp, tol, amb):
        got, nf = impl.get("prop"), not np.all(np.isfinite(exp))
        # independence: a column whose own F x + u is finite has that value, whatever the other columns' u is
        lost = [j for j in range(exp.shape[1]) if np.all(np.isfinite(exp[:, j])) and not _within(got[:, j:j + 1], exp[:, j:j + 1], tol[:, j:j + 1])] \
            if (nf and got is not None and np.shape(got) == exp.shape) else []
        v.append(("C02:propagate-branch:exo=%d:ss=%d:se=%d%s" % (exo, ss, se, ":exogenous-partly-nonfinite" if nf else ""),
                  "the propagated states differ from the branch's formula by %.3g times the componentwise rounding bound%s"
                  % (_excess(got, exp, tol, amb), ("; columns %s have a finite F x + u of their own and did not get it (the exogenous contribution of another column is not finite)" % lost) if lost else "")))
    return v


def _oracle_predict(c, impl, model):
    """The property clauses evaluated on the implementation's output (numpy as the independent formula,
    the extracted spec functions as the second one)."""
    v = []
    F, Q = c.get("F"), c.get("Q")
    n, k = c.n, c.k
    sp, ss, se, exo = c.sp, c.ss, c.se, c.exo
    fl = "flags=%d%d%d" % (sp, ss, se)
    pl, pc, pn = int(c.get("pl")), int(c.get("pc")), int(c.get("pn"))
    lay = "circular=%d:noise=%d" % (int(pc > 0), int(pn > 0))
    means, covs, w = c.get("means"), c.get("covs"), c.get("weights")
    if impl.get("prev_unchanged") != 1:
        v.append(("C02:input-modified", "the belief passed in was modified (%s)" % fl))
    # --- layout of the predicted mixture: one mean of the belief's dimension and one covariance of the belief's
    # covariance size per component of the belief, descriptors consistent with one another and with the storage
    got = {f: impl.get(f) for f in LAYOUT_FIELDS}
    circ_sz, cov_sz = (4, 3) if got["quat"] else (1, 1)
    consistent = (None not in got.values()
                  and got["dim"] == got["dim_linear"] + got["dim_circular"] * circ_sz + got["dim_noise"]
                  and got["dim_covariance"] == got["dim_linear"] + got["dim_circular"] * cov_sz + got["dim_noise"]
                  and impl.get("storage_ok") == 1)
    if got["components"] != k or got["dim"] != n or got["dim_covariance"] != n or not consistent:
        v.append(("C02:layout:%s:%s" % (lay, fl),
                  "belief of %d components, dim %d = %d linear + %d circular + %d noise; the predicted mixture reports components=%s dim=%s "
                  "dim_linear=%s dim_circular=%s dim_covariance=%s dim_noise=%s quat=%s, storage consistent=%s"
                  % (k, n, pl, pc, pn, got["components"], got["dim"], got["dim_linear"], got["dim_circular"], got["dim_covariance"],
                     got["dim_noise"], got["quat"], impl.get("storage_ok"))))
        return v
    if sp or ss:
        same_lay = (got["dim_linear"], got["dim_circular"], got["dim_noise"], got["quat"]) == (pl, pc, pn, 0)
        ok = same_lay and caseio.close(impl.get("means"), means, 0, 0) and caseio.close(impl.get("weights"), w, 0, 0) and \
            all(caseio.close(impl.get("cov%d" % i), covs[:, i * n:(i + 1) * n], 0, 0) for i in range(k))
        if not ok:
            v.append(("C02:skipped-not-identity:%s" % fl, "a skipped prediction did not return its input (layout %s)" % ("kept" if same_lay else "changed")))
        return v
    active = exo and not se
    B, cc = (c.get("B"), c.get("c")) if active else (None, None)
    with np.errstate(all="ignore"):
        Um = B @ means + cc @ np.ones((1, k)) if active else np.zeros_like(means)
    tag = "exo" if active else ("exo-skipped" if exo else "noexo")
    if not np.all(np.isfinite(Um)):
        # the exogenous contribution of some entries is NaN / +-inf: those entries propagate by IEEE arithmetic, every
        # component (and entry) whose own u is finite must have exactly the value it would have alone
        tag += ":exogenous-partly-nonfinite"
    tm = mean_bound(F, means, B, cc)
    amb = exo_ambiguous(B, means)
    im = impl.get("means")
    for i in range(k):
        P = covs[:, i * n:(i + 1) * n]
        mi, Pi = im[:, i:i + 1], impl.get("cov%d" % i)
        with np.errstate(all="ignore"):
            em = F @ means[:, i:i + 1] + Um[:, i:i + 1]
        eP = F @ P @ F.T + Q
        tc = cov_bound(F, P, Q)
        ai = amb[:, i:i + 1] if amb is not None else None
        if not _within(mi, em, tm[:, i:i + 1], ai):
            v.append(("C02:mean-not-Fm+u:%s" % tag, "component %d: off by %.3g times the componentwise rounding bound%s" % (i, _excess(mi, em, tm[:, i:i + 1], ai),
                      " (its own F m + u is finite: components must not influence one another)" if (np.all(np.isfinite(em)) and not np.all(np.isfinite(Um))) else "")))
        if not _within(Pi, eP, tc):
            v.append(("C02:cov-not-FPFt+Q", "component %d: off by %.3g times the componentwise rounding bound" % (i, _excess(Pi, eP, tc))))
        if model is not None and se == 0:
            sm, sP = model.get("spec_mean%d" % i), model.get("spec_cov%d" % i)
            if sm is not None and not _within(mi, sm, tm[:, i:i + 1], ai):
                v.append(("C02:mean-not-Fm+u:%s" % tag, "component %d vs extracted spec: off by %.3g times the bound" % (i, _excess(mi, sm, tm[:, i:i + 1]))))
            if sP is not None and not _within(Pi, sP, tc):
                v.append(("C02:cov-not-FPFt+Q", "component %d vs extracted spec: off by %.3g times the bound" % (i, _excess(Pi, sP, tc))))
        if Pi is None or Pi.shape != (n, n) or not np.all(np.isfinite(Pi)):
            v.append(("C02:cov-not-finite", "component %d" % i)); continue
        if not _within(Pi, Pi.T, 2 * tc):
            v.append(("C02:cov-not-symmetric", "component %d: asymmetry %.3g times the bound" % (i, _excess(Pi, Pi.T, 2 * tc))))
        lam, ptol = psd_margin(F, P, Q, Pi)
        if lam < -ptol:
            v.append(("C02:cov-not-psd", "component %d: scaled lambda_min %.3g < -%.3g" % (i, lam, ptol)))
    if not caseio.close(impl.get("weights"), c.get("old_weights"), 0, 0):
        v.append(("C02:weights-touched", "the weights of the output object were written by the prediction step"))
    return v


def histogram(cases):
    def count(f):
        d = {}
        for c in cases:
            d[str(f(c))] = d.get(str(f(c)), 0) + 1
        return d
    import math
    return {"kind": count(lambda c: c.kind), "n": count(lambda c: c.meta["n"]), "comps": count(lambda c: c.meta["comps"]),
            "exo": count(lambda c: c.meta["exo"]), "F_kind": count(lambda c: c.meta["fkind"]),
            "rankQ_deficit": count(lambda c: int(c.meta["n"]) - int(c.meta["rankQ"])),
            "flags(sp,ss,se)": count(lambda c: "%s%s%s" % (c.meta["sp"], c.meta["ss"], c.meta["se"])),
            "circular_rows": count(lambda c: c.meta.get("circ", 0)),
            "output_object": count(lambda c: c.meta.get("oclass", "sequence" if c.kind == "sequence" else "-")),
            "unit_L_decade": count(lambda c: int(math.floor(math.log10(float(c.meta.get("L", 1)))))),
            "unit_D_span_decade": count(lambda c: int(math.floor(math.log10(float(c.meta.get("Dspan", 1)))))),
            "callback_reentrancy": count(lambda c: c.meta.get("intrude", 0))}


LEVEL_TEXT = ("Proof: the model of GaussianPrediction::predict / KFPrediction::predictStep / LinearStateModel::propagate over a linear state model "
              "is proved, for every real field, dimension, number of components, arbitrary square F, arbitrary exogenous function, to return "
              "mean F m_i + u_i and covariance F P_i F^T + Q per component (symmetric / PSD whenever P_i and Q are, singular ones included), "
              "component-wise and without interaction, equal to the zero-exogenous step when no exogenous model is attached, leaving the output "
              "object's weights and descriptors untouched (so that on an output object of the belief's shape the result reports the belief's "
              "component count and sizes, consistently with its storage), to be the identity - descriptors included, whatever the output object - "
              "when skipped, and to answer every call of a sequence on one object with the matrices of that call. Every extracted entry point is "
              "proved equal to the theorem model over any real field. The model is tied to the code by running the extracted model and "
              "the library on the same generated cases.")
LEVEL_NOTE = ("Trusted: Coq kernel, MathComp, extraction + float driver, harness and tolerances; rounding is not "
              "modelled; the tie to the code is sampled (12000 quick / 24000 thorough cases). 'Input belief not modified' is checked on the implementation only "
              "(it is vacuous in a functional model). Output objects of another shape are only given to skipped calls (assumption 1).")
