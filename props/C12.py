"""C12 — a correction that cannot use the measurement leaves the belief untouched (DESIGN.md §5 C12).

Every correction class is driven through sequences of steps, each step with its own fault
pattern (bits: measure predictedMeasure innovation noisecov freeze likelihood; GPF: optionally a
second six for the likelihood phase), over fault-injecting measurement / likelihood models that log
EVERY call (also the description / matrix getters).  The extracted model runs at the symbolic
instance: its outputs are terms over the inputs of the run, so "identity" is the term predG<k>.
Call logs are compared exactly.  Beliefs are adversarial (unnormalised / positive log-weights,
non-symmetric indefinite covariances and large means wherever the step must be an identity, N = 1,
output objects of another component count): identity is bit-level, nothing needs a tolerance."""
import itertools
import numpy as np
from vlib import caseio, gen

ID = "C12"
COQ_TARGETS = ["C12_Extract.vo", "C12_Proofs.vo", "C12_ProofsKF.vo", "C12_ProofsSym.vo", "C12_Regress.vo", "C12_GPFInst.vo"]
COQ_PREFIXES = ["C12", "C01", "C08", "C05"]
EXTRACTED = "C12_model"
DRIVER = "drv_C12.ml"
HARNESS = "h_C12.cpp"
VARIANTS = {"quick": ["assert", "O1"], "thorough": ["assert", "O1", "asan"]}
MODEL_NEEDS_IMPL = True      # SIS only: whether the resampling test fired in each step (it depends on the numerical weights)
AXIOMS_ALLOWED = []
REQUIRED_THEOREMS = ["C12_kf_identity", "C12_kf_identity_any_model", "C12_ukf_identity", "C12_ukf_identity_any_model",
                     "C12_sukf_identity", "C12_sukf_identity_any_model", "C12_bootstrap_identity", "C12_bootstrap_identity_iff",
                     "C12_gpf_identity", "C12_gpf_identity_iff", "C12_gpf_identity_any_model",
                     "C12_likelihood_reports_failure", "C12_likelihood_reports_failure_any_model", "C12_sis_skips_correction",
                     "C12_no_fault_kf_is_C01", "C12_gpf_skeleton_is_C08", "C12_kf_call_log", "C12_ukf_generic_call_log", "C12_ukf_additive_call_log",
                     "C12_sukf_call_log", "C12_gpf_call_log",
                     "C12_kf_likelihood_after_failure_reports_failure", "C12_ukf_likelihood_after_failure_reports_failure",
                     "C12_sukf_likelihood_after_failure_reports_failure", "C12_skipped_correction_makes_no_call",
                     "C12_kf_no_partial_update", "C12_gpf_no_partial_update", "C12_whole_object_is_componentwise",
                     "C12_gpf_inner_failure_not_detected", "C12_gpf_inner_failure_refuted", "C12_gpf_transient_inner_failure_refuted",
                     "C12_gpf_aliased_refuted"]
TIMEOUT = 1500

SITES = "MPINFL"
GAUSS = ("kf", "ukf_gen", "ukf_add", "sukf")
GPF_INNER = ("kf", "ukfgen", "ukfadd", "sukf")
GPF_KINDS = tuple("gpf_%s_%s" % (i, l) for i in GPF_INNER for l in ("gl", "custom"))
KINDS = GAUSS + ("gl", "boot_gl", "boot_custom") + GPF_KINDS
# calls whose failure the class itself must honour
CONSULTED = {"kf": "MPIN", "ukf_gen": "MPI", "ukf_add": "MPI", "sukf": "MPI", "gl": "MPIN", "boot_gl": "MPIN", "boot_custom": "L"}
INNER_CONSULTED = {"kf": "MPIN", "ukfgen": "MPI", "ukfadd": "MPI", "sukf": "MPI"}
# the bits enumerated exhaustively per class
ENUMERATED = {"kf": "MPIN", "ukf_gen": "MPIN", "ukf_add": "MPIN", "sukf": "MPIN", "gl": "MPIN", "boot_gl": "MPIN", "boot_custom": "MPNL"}
for _k in GPF_KINDS:
    ENUMERATED[_k] = "MPINL" if _k == "gpf_kf_custom" else ("MPIL" if _k.endswith("custom") else "MPIN")
PF = set(("gl", "boot_gl", "boot_custom", "sis") + GPF_KINDS)
GOOD = "000000"
FLAGS = ("skip", "iskip", "emptyR", "alias", "online", "reduced")

RULE = ("per class every subset of the enumerated failing calls (2^4, 2^5 for gpf_kf_custom) x sequences [p], [good,p], [good,p,good] "
        "(thorough: also [p,good,p]) x 2 (thorough 8) random beliefs; GPF over GaussianLikelihood additionally every pair (subset seen by "
        "the wrapped correction, subset seen by the likelihood); configurations: skip_ on the driven / wrapped correction, correct(p,p), "
        "update_weights_online, reduced noise covariance, failing noise-covariance call returning an empty matrix, SUKF size mismatch, "
        "GPF over KF/UKF(both)/SUKF; SIS: 3-step runs of the real filtering thread over {ok, freeze fails, measure fails}^3 x "
        "{degenerate, non-degenerate} weights. Beliefs adversarial: log-weights unnormalised and positive, covariances non-symmetric "
        "indefinite and means 1e6 in steps that must be identities, N = 1..6, output object with junk content and (where the code allows) "
        "another component count. non-trivial = some call the class honours fails in some step; distinct by (class, flags, pattern "
        "sequence, n, m, components)")
TRUSTED_BASE = ["Coq 8.16.1 kernel (coqc); no axioms (Print Assumptions: closed under the global context)",
                "extraction (ExtrOcamlBasic only), ocaml/drv_C12.ml, ocaml/float_ops.ml, ocaml/caseio.ml",
                "cpp/h_C12.cpp: the fault-injecting LinearMeasurementModel / LikelihoodModel doubles, their call log, vf::bit_equal, the "
                "mirror of GPFCorrection's sampling used to pin the known finding",
                "props/C12.py: the table of getter calls (getMeasurementDescription / getInputDescription / getMeasurementMatrix) "
                "interleaved with the modelled calls is written in Python, not in Coq",
                "the skeletons abstract every numerical routine as a function parameter: what they compute is the subject of C01/C04/C05/C08",
                "correspondence is sampled: agreement of call logs / identity flags is established on the generated cases only",
                "ListOps list instance of MatOps for the numerical KF instance (as in C01)"]
ASSUMPTIONS = ["a measurement model reports unavailability only through the validity flags of measure / predictedMeasure / innovation / "
               "getNoiseCovarianceMatrix / freeze, a likelihood model only through the flag of likelihood (no exceptions)",
               "the fault pattern is a function of the call site per phase (all calls of one site within a phase fail or succeed together)",
               "predicted and corrected belief are distinct objects (correct(p, p) is exercised and modelled; GPFCorrection does not support it)"]

COUNTS = {"quick": 2, "thorough": 8}      # random beliefs per (class, pattern, sequence form)
STATS = {"steps_checked_identity": 0, "likelihood_failure_checked_after_success": 0, "finding_steps_pinned_to_model": 0,
         "empty_noise_covariance_consumed": {}, "sis_failed_freeze_steps": 0}


# ------------------------------------------------------------------ generation

def bits(fail):
    return "".join("1" if s in fail else "0" for s in SITES)


def bit(q, s):
    return q[SITES.index(s)] == "1"


def flag(c, name):
    return str(c.meta.get(name, "0")) == "1"


def weights(rng, k):
    """log-weights: normalised, unnormalised, or with positive entries"""
    mode = rng.choice(["norm", "unnorm", "positive", "positive"])
    if mode == "norm":
        w = np.array([rng.random() + 0.1 for _ in range(k)]); return np.log(w / w.sum()).reshape(-1, 1)
    if mode == "unnorm":
        return np.array([rng.uniform(-5.0, -0.1) for _ in range(k)]).reshape(-1, 1)
    return np.array([rng.uniform(-2.0, 3.0) for _ in range(k)]).reshape(-1, 1)


def degenerate_weights(rng, k):
    w = np.full(k, 1e-9); w[rng.randrange(k)] = 1.0
    return np.log(w / w.sum()).reshape(-1, 1)


def belief(rng, c, sfx, n, comps, pf, pfx="", adversarial=False, w=None):
    scale = 1e6 if adversarial and rng.random() < 0.5 else 3.0
    c.mat(pfx + "means" + sfx, gen.matrix(rng, n, comps, scale))
    if adversarial:
        covs = [gen.matrix(rng, n, n, 2.0) for _ in range(comps)]          # non-symmetric, indefinite
    else:
        covs = [gen.spd(rng, n, 10 ** rng.uniform(0, 3))[0] for _ in range(comps)]
    c.mat(pfx + "covs" + sfx, np.hstack(covs))
    c.mat(pfx + "weights" + sfx, weights(rng, comps) if w is None else w)
    if pf:
        c.mat(pfx + "states" + sfx, gen.matrix(rng, n, comps, scale))


def unusable(c, p):
    """(tag, cannot_use, lik_must_fail): which calls the class honours fail in step pattern p.
    For GPF the pattern may have two phases (wrapped correction / likelihood).  A skipped correction consults nothing."""
    kind = c.kind
    p1, p2 = p[:6], (p[6:12] if len(p) >= 12 else p[:6])
    if flag(c, "skip"):
        return "skipped", False, False
    if kind.startswith("gpf_"):
        _, inner, lik = kind.split("_")
        fi = "" if flag(c, "iskip") else "".join(s for s in INNER_CONSULTED[inner] if bit(p1, s))
        if inner == "sukf" and not flag(c, "iskip") and int(c.meta["m"]) % int(c.meta["sub"]) != 0:
            fi += "(size)"
        fl = "".join(s for s in ("L" if lik == "custom" else "MPIN") if bit(p2, s))
        return "fail=%s/%s" % (fi or "-", fl or "-"), bool(fi or fl), bool(fl)
    failing = "".join(s for s in CONSULTED[kind] if bit(p1, s))
    mismatch = kind == "sukf" and int(c.meta["m"]) % int(c.meta["sub"]) != 0
    tag = "fail=%s" % (failing or ("size-mismatch" if mismatch else "none"))
    lik_sites = "L" if kind.endswith("_custom") else "MPIN"
    return tag, bool(failing) or mismatch, any(bit(p1, s) for s in lik_sites)


def make_case(rng, cid, kind, pats, dims=None, sub=None, flags=(), outcomps=None):
    pf = kind in PF
    if dims is None:
        n, m = rng.randint(1, 4), rng.randint(1, 3)
        comps = rng.randint(1, 6) if pf else rng.randint(1, 4)
    else:
        n, m, comps = dims
    if sub is None:
        sub = rng.choice([d for d in range(1, m + 1) if m % d == 0])
    meta = {"n": n, "m": m, "comps": comps, "steps": len(pats), "sub": sub, "seq": "+".join(pats)}
    for f in FLAGS:
        meta[f] = 1 if f in flags else 0
    faulty = any("1" in p for p in pats)
    meta["risky"] = 1 if (faulty and ("ukf" in kind)) or "emptyR" in flags else 0
    c = caseio.Case(cid, kind, meta)
    # output object: other component count only where the code under test allows it
    first_tag, first_cannot, first_lik = unusable(c, pats[0])
    oc = comps
    if outcomps is None and "alias" not in flags and rng.random() < 0.4:
        if kind in ("boot_gl", "boot_custom") or (kind in GAUSS and (first_cannot or "skip" in flags)):
            oc = comps + rng.choice([1, 2]) if comps == 1 or rng.random() < 0.5 else comps - 1
    elif outcomps is not None:
        oc = outcomps
    c.meta["outcomps"] = oc
    c.word("pat", pats)
    c.mat("H", gen.matrix(rng, m, n))
    c.mat("R", gen.spd(rng, m, 10 ** rng.uniform(0, 2))[0])
    for k, p in enumerate(pats):
        c.mat("y%d" % k, gen.matrix(rng, m, 1, 5.0))
        _, cannot, likfail = unusable(c, p)
        # adversarial numbers wherever the step must hand back the predicted belief without using it for an update
        adv = (likfail if kind.startswith("gpf_") else cannot) or "skip" in flags
        belief(rng, c, str(k), n, comps, pf, adversarial=adv)
    belief(rng, c, "", n, oc, pf, "o", adversarial=True)
    return c


def sis_case(rng, cid, pats, degenerate):
    n, m = rng.randint(1, 3), rng.randint(1, 2)
    N = rng.randint(4, 8) if degenerate else rng.randint(1, 6)
    meta = {"n": n, "m": m, "comps": N, "steps": len(pats), "sub": 1, "seq": "+".join(pats), "risky": 0, "outcomps": N,
            "degenerate": int(degenerate)}
    for f in FLAGS:
        meta[f] = 0
    c = caseio.Case(cid, "sis", meta)
    c.word("pat", pats)
    c.mat("H", gen.matrix(rng, m, n))
    c.mat("R", gen.spd(rng, m, 10 ** rng.uniform(0, 2))[0])
    for k in range(len(pats)):
        c.mat("y%d" % k, gen.matrix(rng, m, 1, 5.0))
    belief(rng, c, "0", n, N, True, w=degenerate_weights(rng, N) if degenerate else None)
    belief(rng, c, "", n, N, True, "o", adversarial=True)
    return c


def sequences(p, tier, kind):
    seqs = [[p], [GOOD, p]]
    if kind != "gl":
        seqs.append([GOOD, p, GOOD])
    if tier == "thorough":
        seqs.append([p, GOOD, p])
    return seqs


def subsets(sites):
    for r in range(len(sites) + 1):
        for sub in itertools.combinations(sites, r):
            yield sub


def generate(rng, tier):
    cases = []
    reps = COUNTS[tier]

    def add(kind, seq, **kw):
        cases.append(make_case(rng, len(cases), kind, seq, **kw))

    for kind in KINDS:
        for sub in subsets(ENUMERATED[kind]):
            p = bits(sub)
            for seq in sequences(p, tier, kind):
                for _ in range(reps):
                    add(kind, seq)
    # GPF over the shipped GaussianLikelihood, two-phase patterns
    for inner in GPF_INNER:
        kind = "gpf_%s_gl" % inner
        for s1 in subsets("MPIN"):
            for s2 in subsets("MPIN"):
                if s1 == s2:
                    continue
                p = bits(s1) + bits(s2)
                for seq in ([p],) if tier == "quick" else ([p], [GOOD, p]):
                    add(kind, seq)
    # SUKF (alone and inside GPF): measurement size not a multiple of the sub-size
    for kind in ("sukf", "gpf_sukf_gl", "gpf_sukf_custom"):
        for p in [GOOD, bits("M"), bits("P"), bits("I"), bits("N")]:
            for seq in ([p], [GOOD, p]):
                for _ in range(reps):
                    m, sub = rng.choice([(3, 2), (2, 3), (1, 2)])
                    add(kind, seq, dims=(rng.randint(1, 4), m, rng.randint(1, 4)), sub=sub)
    # configurations: a representative set of patterns each
    some = [GOOD, bits("M"), bits("P"), bits("I"), bits("N"), bits("MN"), bits("PI"), bits("L"), bits("NL")]
    for _ in range(reps):
        for p in some:
            for kind in KINDS:
                for seq in ([p], [GOOD, p]):
                    if kind == "gl":
                        continue
                    add(kind, seq, flags=("skip",))                    # skip_ on the driven correction
                    add(kind, seq, flags=("alias",))                   # correct(p, p)
                    if kind.startswith("gpf_"):
                        add(kind, seq, flags=("iskip",))               # skip_ on the wrapped correction
                        add(kind, seq, flags=("skip", "iskip"))
                add(kind, [p], flags=("emptyR",))                      # (false, empty matrix)
                add(kind, [GOOD, p], flags=("emptyR",))
            add("ukf_gen", [p], flags=("online",)); add("ukf_gen", [GOOD, p, GOOD], flags=("online",))
            for seq in ([p], [GOOD, p, GOOD]):
                m, sub = rng.choice([(2, 1), (3, 1), (2, 2), (3, 3)])
                add("sukf", seq, dims=(rng.randint(1, 4), m, rng.randint(1, 4)), sub=sub, flags=("reduced",))
    # SIS: the real filtering thread, 3 steps
    three = [GOOD, bits("F"), bits("M")]
    for _ in range(1 if tier == "quick" else 6):
        for a in three:
            for b in three:
                for d in three:
                    for deg in (False, True):
                        cases.append(sis_case(rng, len(cases), [a, b, d], deg))
    return cases


# ------------------------------------------------------------------ evaluation

GETTERS = ("D", "Di", "H")


def word(rec, name):
    v = rec.get(name)
    if v is None:
        return None
    return [t for t in v if t != "-"]


def no_getters(l):
    return [t for t in (l or []) if t not in GETTERS]


def inner_full(inner, p1, c, skipped):
    """Calls made by a Gaussian correction under the phase-1 pattern p1, getters included (this table is Python, not Coq;
    with the getters removed it must equal the model's log, which is checked)."""
    if skipped:
        return []
    M, P, I, N = (bit(p1, s) for s in "MPIN")
    if inner == "kf":
        l = ["M"]
        if not M:
            l.append("P")
            if not P:
                l.append("I")
                if not I:
                    l.append("N")
                    if not N:
                        l.append("H")
        return l
    if inner == "ukfgen":
        l = ["M"]
        if not M:
            l += ["N"] + (["Di"] if flag(c, "online") else []) + ["P", "D"]
            if not P:
                l.append("I")
        return l
    if inner == "ukfadd":
        l = ["M"]
        if not M:
            l += ["P", "D"]
            if not P:
                l += ["N", "I"]
        return l
    m, sub, comps = int(c.meta["m"]), int(c.meta["sub"]), int(c.meta["comps"])
    l = ["M", "D"]
    if not M and m % sub == 0:
        l.append("P")
        if not P:
            l.append("I")
            if not I:
                l += ["N"] * (comps * (m // sub))
    return l


def expected_log(c, k, model_log):
    """The exact call list of step k, getters included, or a string describing an inconsistency of the getter table."""
    kind, p = c.kind, c.get("pat")[k]
    if flag(c, "skip"):
        return []
    if kind in GAUSS or kind.startswith("gpf_"):
        inner = {"kf": "kf", "ukf_gen": "ukfgen", "ukf_add": "ukfadd", "sukf": "sukf"}.get(kind) or kind.split("_")[1]
        full = inner_full(inner, p[:6], c, kind.startswith("gpf_") and flag(c, "iskip"))
        ng = no_getters(full)
        if model_log[:len(ng)] != ng:
            return "getter table inconsistent with the model: %s vs %s" % (ng, model_log)
        return full + model_log[len(ng):]
    return list(model_log)


def garbage_step(c, model):
    """First step in which an EMPTY noise covariance, returned next to a false flag, is read by a caller that ignores the
    flag (UKFCorrection.cpp:114 generic, sigma_point.cpp:313 additive, SUKFCorrection.cpp:200): from there on the
    implementation's behaviour is not predicted here (size mismatch on an empty matrix: C14's business).  The rule follows
    the model's call order: the read happens iff the model's log of that step contains N made by such a caller."""
    if not flag(c, "emptyR") or flag(c, "skip"):
        return None
    kind = c.kind
    inner = {"ukf_gen": "ukfgen", "ukf_add": "ukfadd", "sukf": "sukf"}.get(kind)
    if kind.startswith("gpf_") and not flag(c, "iskip"):
        inner = kind.split("_")[1]
    if inner not in ("ukfgen", "ukfadd", "sukf"):
        return None
    for k, p in enumerate(c.get("pat")):
        if bit(p[:6], "N") and "N" in inner_full(inner, p[:6], c, False):
            return k
    return None


def crash_point(impl):
    """(step, phase) at which the implementation's record ends, if it crashed."""
    if impl.get("crashed") != 1:
        return None
    k = 0
    while impl.has("lik_valid%d" % k):
        k += 1
    if impl.has("lik_begin%d" % k):
        return (k, "lik")
    return (k, "correct")


def compare_sis(c, impl, model):
    d = []
    if impl.get("steps_run") != int(c.meta["steps"]):
        d.append("steps run: %s" % impl.get("steps_run"))
        return d
    for k in range(int(c.meta["steps"])):
        ks = str(k)
        ie = [t for t in word(impl, "events" + ks) if t not in GETTERS]
        me = [t for t in word(model, "events" + ks) if t != "normalise"]
        if ie != me:
            d.append("events%s: impl %s model %s" % (ks, ie, me))
        # one direction only: normalising the weights of an untouched set can be a numerical no-op
        at_is_pred = model.get("atlog_g" + ks) == model.get("pred_g" + ks) and model.get("atlog_s" + ks) == model.get("pred_s" + ks)
        if at_is_pred and impl.get("ident_atlog" + ks) != 1:
            d.append("ident_atlog%s: impl %s model %s" % (ks, impl.get("ident_atlog" + ks), at_is_pred))
        end_is_at = model.get("cor_g" + ks) == model.get("atlog_g" + ks) and model.get("cor_s" + ks) == model.get("atlog_s" + ks)
        if (impl.get("cor_is_atlog" + ks) == 1) != end_is_at:
            d.append("cor_is_atlog%s: impl %s model %s" % (ks, impl.get("cor_is_atlog" + ks), end_is_at))
    return d


def compare(c, impl, model):
    d = []
    kind = c.kind
    if kind == "sis":
        return compare_sis(c, impl, model)
    steps = int(c.meta["steps"])
    gstep, got = garbage_step(c, model), crash_point(impl)
    if got is not None and (gstep is None or got[0] < gstep):
        d.append("crash point: impl %s (%s %s), the model predicts none" % (got, impl.get("crash_kind"), impl.get("crash_cond")))
    last = steps if got is None else got[0] + (1 if got[1] == "lik" else 0)
    if gstep is not None:
        last = min(last, gstep)              # from the garbage step on nothing is predicted
    lik_terms = {}
    alias = flag(c, "alias")
    for k in range(last):
        ks = str(k)
        full = got is None or k < got[0]
        ml = word(model, "log" + ks)
        el = expected_log(c, k, ml)
        if isinstance(el, str):
            d.append("log%s: %s" % (ks, el))
        elif word(impl, "log" + ks) != el:
            d.append("log%s: impl %s expected %s (model %s)" % (ks, word(impl, "log" + ks), el, ml))
        if kind != "gl":
            mg = model.get("g" + ks) == ["predG" + ks]
            if (impl.get("ident_g" + ks) == 1) != mg:
                d.append("ident_g%s: impl %s model term %s" % (ks, impl.get("ident_g" + ks), model.get("g" + ks)[0][:60]))
            if kind in PF:
                ms = model.get("s" + ks) == ["predS" + ks]
                if (impl.get("ident_state" + ks) == 1) != ms:
                    d.append("ident_state%s: impl %s model term %s" % (ks, impl.get("ident_state" + ks), model.get("s" + ks)[0][:60]))
        if not full:
            continue
        if impl.get("lik_valid" + ks) != model.get("lik_valid" + ks):
            d.append("lik_valid%s: impl %s model %s" % (ks, impl.get("lik_valid" + ks), model.get("lik_valid" + ks)))
        if no_getters(word(impl, "liklog" + ks)) != word(model, "liklog" + ks) or word(impl, "liklog" + ks) != no_getters(word(impl, "liklog" + ks)):
            d.append("liklog%s: impl %s model %s" % (ks, word(impl, "liklog" + ks), word(model, "liklog" + ks)))
        lt, lv = model.get("lik" + ks)[0], impl.get("lik" + ks)
        if lt == "zero1" and not (lv is not None and lv.shape == (1, 1) and lv[0, 0] == 0.0):
            d.append("lik%s: model says Zero(1), impl %s" % (ks, None if lv is None else lv.shape))
        if lt == "empty" and not (lv is not None and lv.size == 0):
            d.append("lik%s: model says empty, impl %s" % (ks, None if lv is None else lv.shape))
        if lt in lik_terms and lv is not None:
            lv0 = lik_terms[lt]
            if lv0.shape != lv.shape or lv0.tobytes() != lv.tobytes():
                if not (np.isnan(lv0).all() and np.isnan(lv).all()):
                    d.append("lik%s: model term equals an earlier step's, impl values differ" % ks)
        elif lv is not None:
            lik_terms[lt] = lv
    if kind == "kf" and impl.has("mean0") and model.has("num_mean") and not alias:
        # the numerical KF instance of the same skeleton, step 0: identity is exact, the update to rounding
        p0 = c.get("pat")[0]
        exact = any(bit(p0, s) for s in "MPIN")
        tol = 0.0 if exact else 1e-9
        for a, b in (("mean0", "num_mean"), ("cov0", "num_cov"), ("w0", "num_w")):
            x, y = impl.get(a), model.get(b)
            y = y.reshape(x.shape) if y.size == x.size else y
            scale = max(1.0, float(np.max(np.abs(x)))) * 1e3
            if x.shape != y.shape or not caseio.close(x, y, tol * scale, 0.0):
                d.append("%s vs numerical model: max diff %.3g" % (a, caseio.maxdiff(x, y)))
        if model.get("num_lik_valid") != impl.get("lik_valid0"):
            d.append("lik_valid0 vs numerical model")
        elif model.get("num_lik_valid") == 1 and not caseio.close(impl.get("lik0"), model.get("num_lik"), 1e-300, 1e-6):
            d.append("lik0 vs numerical model")
    return d


def oracle_sis(c, impl):
    v = []
    pats = c.get("pat")
    for k in range(min(int(c.meta["steps"]), impl.get("steps_run") or 0)):
        ks, p = str(k), pats[k]
        if not bit(p, "F"):
            continue
        STATS["sis_failed_freeze_steps"] += 1
        ev = word(impl, "events" + ks)
        attempted = [t for t in ev if t in ("C", "M", "P", "I", "N", "L")]
        if attempted or impl.get("correct_calls" + ks) != 0:
            v.append(("C12:sis:correction-attempted-after-failed-freeze", "step %d: events %s" % (k, ev)))
        if impl.get("ident_atlog" + ks) != 1:
            parts = [q for q in ("w", "state") if impl.get("ident_atlog_%s%s" % (q, ks)) == 0]
            v.append(("C12:sis:belief-changed-after-failed-freeze", "step %d: cor_particle_ != pred_particle_ at log() (%s)" % (k, parts or "mean/cov/shape")))
    return v


def oracle(c, impl, model):
    """The property evaluated on the implementation alone (the model is used only to pin the known finding)."""
    v = []
    kind, pats = c.kind, c.get("pat")
    if kind == "sis":
        return oracle_sis(c, impl)
    got = crash_point(impl)
    gstep = garbage_step(c, model)
    steps = int(c.meta["steps"])
    last = steps if got is None else got[0] + (1 if got[1] == "lik" else 0)
    if gstep is not None:
        key = "%s:%s" % (kind, "aborted" if got is not None and got[0] >= gstep else "ran-on")
        STATS["empty_noise_covariance_consumed"][key] = STATS["empty_noise_covariance_consumed"].get(key, 0) + 1
        last = min(last, gstep)
    alias_gpf = flag(c, "alias") and kind.startswith("gpf_")
    had_success = False
    for k in range(last):
        ks, p = str(k), pats[k]
        tag, cannot_use, lik_must_fail = unusable(c, p)
        full = got is None or k < got[0]
        if cannot_use:
            STATS["steps_checked_identity"] += 1
            if kind == "gl":
                if impl.get("lik_valid" + ks) != 0:
                    v.append(("C12:gl:value-reported:%s" % tag, "GaussianLikelihood reported a value"))
                continue
            if impl.get("ident" + ks) != 1:
                parts = [q for q in ("mean", "cov", "w", "shape", "state") if impl.get("ident_%s%s" % (q, ks)) == 0]
                if alias_gpf:
                    pass        # correct(p, p) is outside the property's precondition; the correspondence pins what happens
                elif kind.startswith("gpf_") and not lik_must_fail:
                    # the known finding (C12_gpf_inner_failure_not_detected): ONLY a re-draw around the predicted
                    # moments and the re-weighting the model predicts is absorbed by it
                    ok = impl.get("ident_mean" + ks) == 1 and impl.get("ident_cov" + ks) == 1 and impl.get("ident_shape" + ks) == 1
                    if ok and model is not None:
                        ok = ("gpfW(" in model.get("g" + ks)[0]) and ("sampleS(" in model.get("s" + ks)[0]) and impl.get("lik_valid" + ks) == 1
                    if ok and k == 0 and impl.has("mirror_state_diff0"):
                        sd, wd = impl.get("mirror_state_diff0"), impl.get("mirror_w_diff0")
                        scale = max(1.0, float(np.max(np.abs(impl.get("state0")))))
                        ok = sd <= 1e-9 * scale and wd <= 1e-7 * max(1.0, float(np.max(np.abs(impl.get("w0")))))
                        STATS["finding_steps_pinned_to_model"] += 1
                    if ok:
                        sig = "C12:%s:belief-changed:wrapped-correction-fails+likelihood-valid" % kind
                    else:
                        sig = "C12:%s:belief-changed:not-the-known-finding:%s" % (kind, tag)
                    v.append((sig, "step %d (%s): corrected belief differs from the predicted one in %s" % (k, tag, parts)))
                else:
                    v.append(("C12:%s:belief-changed:%s" % (kind, tag), "step %d (%s): corrected belief differs from the predicted one in %s" % (k, tag, parts)))
            if impl.get("pred_unchanged" + ks) != 1 and not alias_gpf:
                v.append(("C12:%s:predicted-belief-modified:%s" % (kind, tag), "step %d" % k))
            if full and had_success and kind in GAUSS:
                STATS["likelihood_failure_checked_after_success"] += 1
            if full and impl.get("lik_valid" + ks) == 1:
                if kind in GAUSS:
                    sig = "C12:%s:stale-likelihood:%s" % (kind, "failed-correction-after-success" if had_success else "fresh-object")
                    v.append((sig, "step %d (%s): getLikelihood() reports a valid likelihood although this correction could not "
                                   "use the measurement" % (k, tag)))
                elif lik_must_fail:
                    v.append(("C12:%s:likelihood-valid-after-unusable-measurement:%s" % (kind, tag), "step %d" % k))
        elif full and kind != "gl" and impl.get("lik_valid" + ks) == 1:
            had_success = True
    if got is not None and (gstep is None or got[0] < gstep):
        k, phase = got
        p = pats[min(k, len(pats) - 1)]      # k == len(pats): the process ended abnormally after the last step (corrupted heap)
        if phase == "lik" and kind in GAUSS:
            v.append(("C12:%s:stale-likelihood:getLikelihood-aborts" % kind,
                      "step %d (%s): getLikelihood() ended abnormally: %s %s at %s"
                      % (k, unusable(c, p)[0], impl.get("crash_kind"), impl.get("crash_cond"), impl.get("crash_where"))))
        else:
            v.append(("C12:%s:crash:%s" % (kind, impl.get("crash_entry", ["?"])[0]),
                      "step %d: %s %s at %s" % (k, impl.get("crash_kind"), impl.get("crash_cond"), impl.get("crash_where"))))
    return v


def on_crash(c, info, model):
    """A case that is not run in a child and ends the process."""
    if flag(c, "emptyR") and garbage_step(c, model) is not None:
        STATS["empty_noise_covariance_consumed"]["%s:process-ended" % c.kind] = STATS["empty_noise_covariance_consumed"].get("%s:process-ended" % c.kind, 0) + 1
        return []
    return None


def nontrivial(c):
    pats = c.get("pat")
    if c.kind == "sis":
        return ("sis", c.meta["seq"], c.meta["degenerate"], c.meta["comps"]) if any(bit(p, "F") for p in pats) else None
    if any(unusable(c, p)[1] for p in pats):
        return (c.kind, tuple(f for f in FLAGS if flag(c, f)), c.meta["seq"], c.meta["n"], c.meta["m"], c.meta["comps"])
    return None


def histogram(cases):
    h, fl = {}, {}
    for c in cases:
        h[c.kind] = h.get(c.kind, 0) + 1
        for f in FLAGS:
            if flag(c, f):
                fl[f] = fl.get(f, 0) + 1
    return {"class": h, "flags": fl,
            "steps_with_unusable_measurement_checked": STATS["steps_checked_identity"],
            "getLikelihood_failure_checked_after_an_earlier_success": STATS["likelihood_failure_checked_after_success"],
            "known_finding_steps_pinned_to_the_model_prediction": STATS["finding_steps_pinned_to_model"],
            "sis_failed_freeze_steps_checked": STATS["sis_failed_freeze_steps"],
            "deferred_to_C14_empty_noise_covariance_consumed_by_flag_ignoring_callers": STATS["empty_noise_covariance_consumed"]}


LEVEL_TEXT = ("Proof: the control skeletons of KFCorrection, UKFCorrection (both constructors, with the measurement overloads of the unscented "
              "transform), SUKFCorrection, GaussianLikelihood, BootstrapCorrection, GPFCorrection (any wrapped correction), the public "
              "correct() wrappers with skip_, and SIS::filtering_step are proved, for every fault pattern, every sensor failing on its own at "
              "the arguments of the call, every belief and every numerical routine, to return the whole predicted object (component-wise: "
              "every mean, covariance, weight, state, shape field) whenever a call the class honours reports unavailability, with the exact "
              "call log, and getLikelihood to report failure after any such correction; GPF/Bootstrap: identity iff the likelihood fails; "
              "with no fault the KF skeleton is C01's kf_correct. Refuted with witnesses and registered as known finding: GPFCorrection does "
              "not notice that the wrapped correction could not use the measurement when the likelihood model reports a value.")
LEVEL_NOTE = ("Trusted: Coq kernel, extraction + driver, the harness's fault-injecting doubles, the Python table of getter calls; numerical "
              "routines are abstract here; the skeletons are proved to be C01's kf_correct and C08's gpf_correct when instantiated with their routines, the corresponding links to C04 (UKF) and C05 (SUKF) are not proved; the tie to the code is "
              "sampled over all subsets of failing calls per class x adversarial beliefs x call sequences x configurations.")
