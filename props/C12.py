"""C12 — a correction that cannot use the measurement leaves the belief untouched (DESIGN.md §5 C12).

Every correction class is driven through HISTORIES of steps on one object; each step has its own
  * fault pattern (bits: measure predictedMeasure innovation noisecov freeze likelihood; GPF: optionally a second six
    for the likelihood phase),
  * fault payloads (what each failing call hands back NEXT TO its false flag: empty Data, a matrix of another shape, a
    stale matrix, a std::string; for the noise covariance: the matrix itself, empty, another shape, another SPD matrix;
    for a user likelihood: Zero(1), empty, another length, the right length),
  * sizes (state size, measurement size, component / particle count), layout (linear, Euler-circular, quaternion),
    sensor matrices, skip commands (raw skip(true) / skip(false) that stay in force), output object (the one the
    previous step wrote, or a new one of unrelated shape and content),
over fault-injecting measurement / likelihood models that log EVERY call (also the description / matrix getters).
The subject is obtained fresh, by move construction / move assignment (from a fresh object or one that has already
run a step) or as an element of a std::vector that has grown; optionally an independent twin object runs a complete
step inside every callback of the subject's models (hidden state shared between objects); GaussianLikelihood is also
evaluated from several threads at once.  Numbers carry physical units (homogeneous and coordinate-wise scalings over
many orders); beliefs of steps that must be identities are adversarial (unnormalised / positive log-weights,
non-symmetric indefinite covariances, -0.0, denormals, 1e300, inf, NaN).
The extracted model runs at the symbolic instance: its outputs are terms over the inputs of the run, so "identity" is
the term predG<k>.  Call logs are compared exactly.  Identity is bit-level, nothing needs a tolerance."""
import itertools
import math
import numpy as np
from vlib import caseio, gen

ID = "C12"
COQ_TARGETS = ["C12_Extract.vo", "C12_Proofs.vo", "C12_ProofsKF.vo", "C12_ProofsSym.vo", "C12_Regress.vo", "C12_GPFInst.vo", "C12_Payload.vo", "C12_Struct.vo"]
COQ_PREFIXES = ["C12", "C01", "C08", "C05"]
EXTRACTED = "C12_model"
DRIVER = "drv_C12.ml"
HARNESS = "h_C12.cpp"
VARIANTS = {"quick": ["assert", "O1"], "thorough": ["assert", "O1", "asan"]}
MODEL_NEEDS_IMPL = True      # SIS only: whether the resampling test fired in each step (it depends on the numerical weights)
AXIOMS_ALLOWED = []
REQUIRED_THEOREMS = ["C12_kf_identity", "C12_kf_identity_any_model", "C12_ukf_identity", "C12_ukf_identity_any_model",
                     "C12_sukf_identity", "C12_sukf_identity_any_model", "C12_bootstrap_identity", "C12_bootstrap_identity_iff",
                     "C12_gpf_identity", "C12_gpf_identity_iff", "C12_gpf_identity_any_model",
                     "C12_likelihood_reports_failure", "C12_likelihood_reports_failure_any_model", "C12_sis_skips_correction",
                     "C12_no_fault_kf_is_C01", "C12_gpf_skeleton_is_C08", "C12_kf_call_log", "C12_ukf_generic_call_log", "C12_ukf_additive_call_log",
                     "C12_sukf_call_log", "C12_gpf_call_log",
                     "C12_kf_likelihood_after_failure_reports_failure", "C12_ukf_likelihood_after_failure_reports_failure",
                     "C12_sukf_likelihood_after_failure_reports_failure", "C12_skipped_correction_makes_no_call",
                     "C12_kf_no_partial_update", "C12_gpf_no_partial_update", "C12_whole_object_is_componentwise",
                     "C12_gpf_inner_failure_not_detected", "C12_gpf_inner_failure_refuted", "C12_gpf_transient_inner_failure_refuted",
                     "C12_gpf_aliased_refuted",
                     "C12_kf_payload_step_is_skeleton", "C12_kf_payload_never_read_on_failure", "C12_ukf_payload_step_is_skeleton",
                     "C12_ukf_payload_never_read_on_failure", "C12_sukf_payload_step_is_skeleton", "C12_sukf_payload_never_read_on_failure",
                     "C12_likelihood_payload_is_skeleton", "C12_likelihood_payload_reports_failure", "C12_bootstrap_payload_step_is_skeleton",
                     "C12_bootstrap_payload_failure_custom", "C12_bootstrap_payload_failure_gauss", "C12_gpf_payload_step_is_skeleton",
                     "C12_gpf_payload_failure", "C12_cast_before_flag_refuted",
                     "C12_ukf_no_partial_update", "C12_sukf_no_partial_update", "C12_bootstrap_no_partial_update"]
TIMEOUT = 1500
SEARCH_CASES = 3000

SITES = "MPINFL"
GAUSS = ("kf", "ukf_gen", "ukf_add", "sukf")
GPF_INNER = ("kf", "ukfgen", "ukfadd", "sukf")
GPF_KINDS = tuple("gpf_%s_%s" % (i, l) for i in GPF_INNER for l in ("gl", "custom"))
KINDS = GAUSS + ("gl", "boot_gl", "boot_custom") + GPF_KINDS
# calls whose failure the class itself must honour
CONSULTED = {"kf": "MPIN", "ukf_gen": "MPI", "ukf_add": "MPI", "sukf": "MPI", "gl": "MPIN", "boot_gl": "MPIN", "boot_custom": "L"}
INNER_CONSULTED = {"kf": "MPIN", "ukfgen": "MPI", "ukfadd": "MPI", "sukf": "MPI"}
# the bits enumerated exhaustively per class
ENUMERATED = {"kf": "MPIN", "ukf_gen": "MPIN", "ukf_add": "MPIN", "sukf": "MPIN", "gl": "MPIN", "boot_gl": "MPIN", "boot_custom": "MPNL"}
for _k in GPF_KINDS:
    ENUMERATED[_k] = "MPINL" if _k == "gpf_kf_custom" else ("MPIL" if _k.endswith("custom") else "MPIN")
PF = set(("gl", "boot_gl", "boot_custom", "sis") + GPF_KINDS)
GOOD = "000000"
FLAGS = ("skip", "iskip", "emptyR", "alias", "online", "reduced")
# payload classes: bfl::Data (measure, predictedMeasure, innovation) / noise covariance / likelihood vector
DATA_PAY, N_PAY, L_PAY = "estx", "Rest", "zest"
LIVES = ("fresh", "mc", "mcu", "vec", "ma", "mau")
# which sizes may change between the calls on one object: the unscented weights are fixed by the constructor
VARY_N = ("kf", "gl", "boot_gl", "boot_custom", "gpf_kf_gl", "gpf_kf_custom")
FIXED_M = ("ukf_gen", "gpf_ukfgen_gl", "gpf_ukfgen_custom")

RULE = ("per class every subset of the enumerated failing calls (2^4, 2^5 for gpf_kf_custom) x sequences [p], [good,p], [good,p,good] "
        "(thorough: also [p,good,p]) x 2 (thorough 8) random beliefs; GPF over GaussianLikelihood additionally every pair (subset seen by "
        "the wrapped correction, subset seen by the likelihood); every (class, failing call, payload class) incl. several calls failing with "
        "different payloads; histories on one object with sizes / component counts / layouts / sensor matrices / output objects changing "
        "between calls; raw skip(on/off) command histories on the driven and the wrapped correction; subjects obtained by move construction, "
        "move assignment, vector growth (from fresh and from used objects); a twin object running complete steps inside every model "
        "callback; GaussianLikelihood from three threads; consecutive calls with bit-identical arguments and different patterns; Euler-circular and quaternion layouts (where the step cannot reach C14's finding); "
        "units over 18 (state) and 12 (measurement) orders, homogeneous and coordinate-wise, underflowing likelihoods; configurations: skip_ on the driven / wrapped "
        "correction, correct(p,p), update_weights_online, reduced noise covariance, SUKF size mismatch, GPF over KF/UKF(both)/SUKF; SIS: "
        "runs of the real filtering thread over {ok, freeze fails, measure fails}^3 x {degenerate, non-degenerate} weights, plus "
        "skip(\"correction\") commands and reset() in the middle of a run. Beliefs adversarial in steps that must be identities (log-weights "
        "unnormalised and positive, covariances non-symmetric indefinite, -0.0, denormals, 1e300, inf, NaN), N = 1..6, output objects with "
        "junk content and (where the code allows) another shape. non-trivial = some call the class honours fails in some step; distinct "
        "by (class, flags, life, twin, pattern sequence, payloads, sizes)")
TRUSTED_BASE = ["Coq 8.16.1 kernel (coqc); no axioms (Print Assumptions: closed under the global context)",
                "extraction (ExtrOcamlBasic only), ocaml/drv_C12.ml, ocaml/float_ops.ml, ocaml/caseio.ml",
                "cpp/h_C12.cpp: the fault-injecting LinearMeasurementModel / LikelihoodModel doubles, their call log, vf::bit_equal, the "
                "mirror of GPFCorrection's sampling used to pin the known finding, the twin objects, the move / vector plumbing",
                "props/C12.py: the table of getter calls (getMeasurementDescription / getInputDescription / getMeasurementMatrix) "
                "interleaved with the modelled calls, and the effective skip flag after a command history, are written in Python, not in Coq",
                "the skeletons abstract every numerical routine as a function parameter: what they compute is the subject of C01/C04/C05/C08",
                "correspondence is sampled: agreement of call logs / identity flags is established on the generated cases only",
                "ListOps list instance of MatOps for the numerical KF instance (as in C01)"]
ASSUMPTIONS = ["a measurement model reports unavailability only through the validity flags of measure / predictedMeasure / innovation / "
               "getNoiseCovarianceMatrix / freeze, a likelihood model only through the flag of likelihood (no exceptions of their own)",
               "the fault pattern is a function of the call site per phase (all calls of one site within a phase fail or succeed together)",
               "what getLikelihood() reports on an object moved / assigned from a used one before that object's first own correction is "
               "not compared (the members behind it are not carried by design; the belief and the skip flag are checked)",
               "predicted and corrected belief are distinct objects (correct(p, p) is exercised and modelled; GPFCorrection does not support it)",
               "a payload delivered next to a TRUE flag has the type the library documents (a MatrixXd); next to a false flag it is arbitrary"]

COUNTS = {"quick": 2, "thorough": 8}      # random beliefs per (class, pattern, sequence form)
STATS = {"steps_checked_identity": 0, "likelihood_failure_checked_after_success": 0, "finding_steps_pinned_to_model": 0,
         "empty_noise_covariance_consumed": {}, "sis_failed_freeze_steps": 0, "payload_triples": set(), "lives": {}, "twin_cases": 0,
         "twin_calls": 0, "concurrent_gl": 0, "layouts": {}, "units_decades": set(), "excluded": {}, "resized_histories": 0,
         "skip_command_histories": 0, "exception_free_steps": 0}


# ------------------------------------------------------------------ per-step view of a case

def bits(fail):
    return "".join("1" if s in fail else "0" for s in SITES)


def bit(q, s):
    return q[SITES.index(s)] == "1"


def flag(c, name):
    return str(c.meta.get(name, "0")) == "1"


def wk(c, name, k, dflt):
    if c.has(name):
        w = c.get(name)
        if k < len(w):
            return w[k]
    return dflt


class Step(object):
    __slots__ = ("p", "n", "m", "comps", "skip", "iskip", "garb", "pay", "lay", "quat")


def step(c, k):
    s = Step()
    s.p = c.get("pat")[k]
    s.n = int(wk(c, "nsz", k, c.meta["n"]))
    s.m = int(wk(c, "msz", k, c.meta["m"]))
    s.comps = int(wk(c, "cmp", k, c.meta["comps"]))
    s.skip = wk(c, "ske", k, "1" if flag(c, "skip") else "0") == "1"
    s.iskip = wk(c, "iske", k, "1" if flag(c, "iskip") else "0") == "1"
    s.pay = wk(c, "pay", k, "eeeez" if flag(c, "emptyR") else "eeeRz")
    s.garb = s.pay[3] in "es"            # not even the shape of a noise covariance
    s.lay = wk(c, "lay", k, "-")
    s.quat = s.lay.endswith(".1")
    return s


def nsteps(c):
    return int(c.meta["steps"])


def unusable(c, k):
    """(tag, cannot_use, lik_must_fail): which calls the class honours fail in step k.
    For GPF the pattern may have two phases (wrapped correction / likelihood).  A skipped correction consults nothing."""
    kind, s = c.kind, step(c, k)
    p = s.p
    p1, p2 = p[:6], (p[6:12] if len(p) >= 12 else p[:6])
    sub = int(c.meta["sub"])
    if s.skip:
        return "skipped", False, False
    if kind.startswith("gpf_"):
        _, inner, lik = kind.split("_")
        fi = "" if s.iskip else "".join(x for x in INNER_CONSULTED[inner] if bit(p1, x))
        if inner == "sukf" and not s.iskip and s.m % sub != 0:
            fi += "(size)"
        fl = "".join(x for x in ("L" if lik == "custom" else "MPIN") if bit(p2, x))
        return "fail=%s/%s" % (fi or "-", fl or "-"), bool(fi or fl), bool(fl)
    failing = "".join(x for x in CONSULTED[kind] if bit(p1, x))
    mismatch = kind == "sukf" and s.m % sub != 0
    tag = "fail=%s" % (failing or ("size-mismatch" if mismatch else "none"))
    lik_sites = "L" if kind.endswith("_custom") else "MPIN"
    return tag, bool(failing) or mismatch, any(bit(p1, x) for x in lik_sites)


# ------------------------------------------------------------------ generation

def weights(rng, k):
    """log-weights: normalised, unnormalised, or with positive entries"""
    mode = rng.choice(["norm", "unnorm", "positive", "positive"])
    if mode == "norm":
        w = np.array([rng.random() + 0.1 for _ in range(k)]); return np.log(w / w.sum()).reshape(-1, 1)
    if mode == "unnorm":
        return np.array([rng.uniform(-5.0, -0.1) for _ in range(k)]).reshape(-1, 1)
    return np.array([rng.uniform(-2.0, 3.0) for _ in range(k)]).reshape(-1, 1)


def degenerate_weights(rng, k):
    w = np.full(k, 1e-9); w[rng.randrange(k)] = 1.0
    return np.log(w / w.sum()).reshape(-1, 1)


SPECIALS = (-0.0, 5e-324, -1e-310, 2.2250738585072014e-308, 1e300, -1e300, math.inf, -math.inf, math.nan)


def sprinkle(rng, a, prob=0.35):
    """-0.0, denormals, huge values, infinities, NaN in a few entries (steps that must hand the belief back untouched)"""
    if rng.random() < prob and a.size:
        a = np.array(a, dtype=float)
        for _ in range(rng.randint(1, 3)):
            a[rng.randrange(a.shape[0]), rng.randrange(a.shape[1])] = rng.choice(SPECIALS)
    return a


def is_lin(lay):
    return lay == "-" or lay.split(".")[1] == "0"


def layout_dims(lay, n):
    """(dim, dim_covariance, linear, circular, quaternion)"""
    if lay == "-":
        return n, n, n, 0, False
    lin, circ, q = (int(x) for x in lay.split("."))
    return (lin + 4 * circ, lin + 3 * circ, lin, circ, True) if q else (lin + circ, lin + circ, lin, circ, False)


def belief(rng, c, sfx, n, comps, pf, pfx="", adversarial=False, w=None, lay="-", dx=None, special=True):
    dim, dcov, lin, circ, quat = layout_dims(lay, n)
    scale = 1e6 if adversarial and rng.random() < 0.5 else 3.0
    means = gen.matrix(rng, dim, comps, scale)
    states = gen.matrix(rng, dim, comps, scale)
    if not adversarial:
        for a in (means, states):
            if quat:
                for q in range(circ):
                    blk = a[lin + 4 * q: lin + 4 * q + 4, :]
                    blk /= np.maximum(np.linalg.norm(blk, axis=0), 1e-12)
            elif circ:
                a[lin:, :] = (a[lin:, :] + math.pi) % (2 * math.pi) - math.pi
    if adversarial:
        covs = [gen.matrix(rng, dcov, dcov, 2.0) for _ in range(comps)]          # non-symmetric, indefinite
    else:
        covs = [gen.spd(rng, dcov, 10 ** rng.uniform(0, 3))[0] for _ in range(comps)]
    if dx is not None and not quat:
        f = np.concatenate([dx[:lin], np.ones(circ)])
        means = means * f[:, None]; states = states * f[:, None]
        covs = [f[:, None] * p * f[None, :] for p in covs]
    wts = weights(rng, comps) if w is None else w
    if adversarial and special:
        means, wts, states = sprinkle(rng, means), sprinkle(rng, wts, 0.2), sprinkle(rng, states)
        covs = [sprinkle(rng, p, 0.2) for p in covs]
    c.mat(pfx + "means" + sfx, means)
    c.mat(pfx + "covs" + sfx, np.hstack(covs))
    c.mat(pfx + "weights" + sfx, wts)
    if pf:
        c.mat(pfx + "states" + sfx, states)


def rand_pay(rng, n_classes="RRRt"):
    return rng.choice(DATA_PAY) + rng.choice(DATA_PAY) + rng.choice(DATA_PAY) + rng.choice(n_classes) + rng.choice(L_PAY)


def effective(cmds, start):
    out, cur = [], start
    for t in cmds:
        if t == "1":
            cur = True
        elif t == "0":
            cur = False
        out.append("1" if cur else "0")
    return out


def quat_safe(kind, tagged):
    """may step (tag, cannot_use, lik_must_fail, skipped) run on a quaternion belief without reaching code whose behaviour on
    quaternions is C14's subject (mean + K * innovation, SUKF's sigma count, GPF's sampling)"""
    tag, cannot, _, skipped = tagged
    if skipped:
        return True
    if kind == "kf" or kind.startswith("ukf"):
        return cannot
    if kind == "sukf":
        return cannot and ("M" in tag or "P" in tag.replace("fail=", "") or "size" in tag)
    if kind.startswith("boot"):
        return True
    return False


def make_case(rng, cid, kind, pats, dims=None, sub=None, flags=(), outcomps=None, life=None, intr=None, pays=None,
              vary=None, layout=None, units=None, skc=None, isk=None, far=False, plain=False, same=False):
    """plain: none of the random decorations (payloads are still drawn).  same: every step gets bit-identical beliefs,
    measurement and sensor (a cache keyed on the arguments would hit); only the fault pattern differs."""
    if same:
        vary, layout = False, "lin"
    pf = kind in PF
    steps = len(pats)
    alias = "alias" in flags
    if dims is None:
        n, m = rng.randint(1, 4), rng.randint(1, 3)
        comps = rng.randint(1, 6) if pf else rng.randint(1, 4)
    else:
        n, m, comps = dims
    if sub is None:
        sub = rng.choice([d for d in range(1, m + 1) if m % d == 0])
    # ---- random decorations
    if life is None:
        life = "fresh"
        if not plain and kind != "gl" and rng.random() < 0.12:
            life = rng.choice([l for l in LIVES[1:] if (kind in PF or l not in ("ma", "mau")) and (steps > 1 or not l.endswith("u"))])
    if intr is None:
        intr = 0 if plain else int(rng.random() < 0.12)
    if vary is None:
        vary = (not plain) and steps > 1 and not alias and dims is None and "reduced" not in flags and rng.random() < 0.2
    if layout is None:
        layout = "lin" if plain or dims is not None else rng.choice(["lin"] * 8 + ["euler", "quat"])
    if units is None:
        units = None if plain else rng.choice([None, None, "hom", "hom", "coord"])
    # ---- sizes per step
    ns, ms, cs = [n] * steps, [m] * steps, [comps] * steps
    skc = list(skc) if skc is not None else ["-"] * steps
    isk = list(isk) if isk is not None else ["-"] * steps
    # SUKFCorrection::getLikelihood reads the sensor's CURRENT noise covariance with the innovations of the last
    # correction that ran: a skipped correction followed by getLikelihood() under a sensor of another size is a misuse
    fixed_m = kind in FIXED_M and "online" not in flags or (kind == "sukf" and "1" in effective(skc, "skip" in flags))
    if vary:
        for k in range(1, steps):
            cs[k] = rng.randint(1, 6) if pf else rng.randint(1, 4)
            if not fixed_m:
                ms[k] = sub * rng.randint(1, max(1, 4 // sub)) if "sukf" in kind else rng.randint(1, 3)
            if kind in VARY_N:
                ns[k] = rng.randint(1, 4)
    meta = {"n": n, "m": m, "comps": comps, "steps": steps, "sub": sub, "seq": "+".join(pats), "life": life, "intr": intr, "same": int(same)}
    for f in FLAGS:
        meta[f] = 1 if f in flags else 0
    c = caseio.Case(cid, kind, meta)
    c.word("pat", pats)
    # ---- skip command histories
    c.word("skc", skc); c.word("isk", isk)
    c.word("ske", effective(skc, "skip" in flags)); c.word("iske", effective(isk, "iskip" in flags))
    # ---- payloads
    if pays is None:
        pays = [rand_pay(rng, "e" if "emptyR" in flags else "RRRt") for _ in range(steps)]
    c.word("pay", pays)
    c.word("garb", ["1" if p[3] != "R" else "0" for p in pays])      # the model: the matrix next to the false flag is not the covariance
    c.word("lpay", [{"z": 0, "e": 1}.get(p[4], 2) for p in pays])
    c.word("nsz", ns); c.word("msz", ms); c.word("cmp", cs)
    tagged = []
    for k in range(steps):
        t = unusable(c, k)
        tagged.append(t + (step(c, k).skip,))
    # ---- layouts per step (after the tags: quaternion beliefs only where the step cannot reach C14's finding)
    lays = ["-"] * steps
    fixed_layout = "ukf" in kind or "sukf" in kind          # unscented weights computed once from the input description
    if layout == "euler" and kind != "gl":
        for k in range(steps):
            # (Euler-circular and linear coordinates have the same number of degrees of freedom: the unscented weights
            #  fixed by the constructor fit every mix)
            if ns[k] >= 2 and rng.random() < 0.7:
                circ = rng.randint(1, ns[k] - 1)
                lays[k] = "%d.%d.0" % (ns[k] - circ, circ)
    elif layout == "quat" and kind != "gl":
        if fixed_layout:
            if all(quat_safe(kind, t) for t in tagged) and not kind.startswith("gpf"):
                lin, circ = rng.randint(0, 2), 1
                ns = [lin + 4 * circ] * steps
                lays = ["%d.%d.1" % (lin, circ)] * steps
            else:
                STATS["excluded"]["quaternion:%s:step-reaches-C14-finding" % kind] = STATS["excluded"].get("quaternion:%s:step-reaches-C14-finding" % kind, 0) + 1
        elif kind in VARY_N and not kind.startswith("gpf"):
            for k in range(steps):
                if quat_safe(kind, tagged[k]) and (k == 0 or not alias):
                    lin, circ = rng.randint(0, 2), rng.randint(1, 2)
                    ns[k] = lin + 4 * circ
                    lays[k] = "%d.%d.1" % (lin, circ)
        else:
            STATS["excluded"]["quaternion:%s:sampling-dimension" % kind] = STATS["excluded"].get("quaternion:%s:sampling-dimension" % kind, 0) + 1
    # (quaternion layouts change the state size)
    c.ops = [o for o in c.ops if o[1] not in ("nsz",)]
    c.word("nsz", ns)
    c.meta["n"] = ns[0]
    lays = ["%d.0.0" % ns[k] if l == "-" else l for k, l in enumerate(lays)]
    c.word("lay", lays)
    quat_any = any(l.endswith(".1") for l in lays)
    c.word("tpat", ["100000" if l.endswith(".1") else GOOD for l in lays])
    if kind == "gl" and not plain and rng.random() < 0.6:
        c.meta["conc"] = 1
    mcirc = 0
    if not plain and min(ms) >= 2 and kind != "gl" and not kind.startswith("boot") and rng.random() < 0.1 and not vary:
        mcirc = 1
    c.meta["mcirc"] = mcirc
    # ---- units
    uL, ue, fx, fy = 1.0, 1.0, np.ones(16), np.ones(16)
    if units:
        uL, ue = 10 ** rng.uniform(-9, 9), 10 ** rng.uniform(-6, 6)
        if units == "coord":
            fx = np.array([10 ** rng.uniform(-2, 2) for _ in range(16)]); fy = np.array([10 ** rng.uniform(-2, 2) for _ in range(16)])
    c.meta["uL"], c.meta["ue"], c.meta["units"] = "%.6g" % uL, "%.6g" % ue, units or "none"
    dxs, dys = uL * fx, ue * fy
    # ---- sensors
    per_step_sensor = vary or quat_any or (not plain and not same and steps > 1 and rng.random() < 0.15)
    def fy_of(mk, lay):
        if lay.endswith(".1"):
            return np.ones(mk)
        return dys[:mk] if not mcirc else np.concatenate([dys[:mk - 1], np.ones(1)])
    def sensor(mk, nk, lay):
        dim = layout_dims(lay, nk)[0]
        H = gen.matrix(rng, mk, dim)
        R = gen.spd(rng, mk, 10 ** rng.uniform(0, 2))[0]
        if lay.endswith(".1"):
            return H, R
        lin = layout_dims(lay, nk)[2]
        fxk = np.concatenate([dxs[:lin], np.ones(dim - lin)])
        fyk = fy_of(mk, lay)
        return fyk[:, None] * H / fxk[None, :], fyk[:, None] * R * fyk[None, :]
    if per_step_sensor:
        for k in range(steps):
            H, R = sensor(ms[k], ns[k], lays[k])
            c.mat("H%d" % k, H); c.mat("R%d" % k, R)
        c.mat("H", c.get("H0")); c.mat("R", c.get("R0"))
    else:
        H, R = sensor(m, ns[0], lays[0])
        c.mat("H", H); c.mat("R", R)
    # ---- shapes of the output object through the history
    def other_shape(k):
        if ns[k] >= 2 and not lays[k].endswith(".1") and rng.random() < 0.4:
            # the same sizes, only the descriptors differ (linear <-> Euler-circular)
            return (ns[k], cs[k], "%d.0.0" % ns[k] if not is_lin(lays[k]) else "%d.%d.0" % (ns[k] - 1, 1))
        nn = rng.randint(1, 5)
        cc = cs[k] + rng.choice([1, 2]) if cs[k] == 1 or rng.random() < 0.5 else cs[k] - 1
        ll = "%d.0.0" % nn
        if nn >= 2 and rng.random() < 0.4:
            ll = "%d.%d.0" % (nn - 1, 1)
        elif rng.random() < 0.35:
            nn, ll = rng.choice([(5, "1.1.1"), (4, "0.1.1"), (ns[k] + 3, "%d.1.1" % (ns[k] - 1))])
        return (nn, cc, ll)
    shape = lambda k: (ns[k], cs[k], lays[k])
    full_copy = []
    for k in range(steps):
        tag, cannot, likfail, skipped = tagged[k]
        if kind in ("boot_gl", "boot_custom"):
            full_copy.append(True)
        elif kind.startswith("gpf_"):
            full_copy.append(skipped)
        else:
            full_copy.append(cannot or skipped)
    fro, fshapes = ["0"] * steps, [None] * steps
    if kind != "gl":
        cur = shape(0)
        if outcomps is not None:
            cur = (ns[0], outcomps, lays[0])
        elif not alias and full_copy[0] and rng.random() < 0.4:
            cur = other_shape(0)
        oshape = cur
        for k in range(steps):
            if alias:
                break
            if k > 0:
                if not full_copy[k] and cur != shape(k):
                    fro[k], fshapes[k] = "1", shape(k)
                elif full_copy[k] and not plain and rng.random() < 0.25:
                    fro[k], fshapes[k] = "1", other_shape(k)
                elif not plain and rng.random() < 0.08:
                    fro[k], fshapes[k] = "1", shape(k)
            cur = shape(k)
        c.meta["outcomps"] = oshape[1]
        c.meta["olay"] = oshape[2]
        c.meta["on"] = oshape[0]
    c.word("fro", fro)
    c.word("flay", [fs[2] if fs else "-" for fs in fshapes])
    oshape_same = kind != "gl" and oshape == shape(0)
    # ---- data per step
    faulty = any("1" in p for p in pats)
    garb_any = any(p[3] in "es" for p in pays)
    c.meta["risky"] = 1 if (faulty and ("ukf" in kind)) or garb_any or quat_any else 0
    c.meta["numeric"] = 1 if (kind == "kf" and is_lin(lays[0]) and not step(c, 0).skip and not alias and pays[0][3] not in "es"
                              and units != "coord" and oshape_same and not mcirc) else 0
    for k, p in enumerate(pats):
        tag, cannot, likfail, skipped = tagged[k]
        yk = gen.matrix(rng, ms[k], 1, 5.0)
        if far:
            yk = yk + 3000.0             # some ninety standard deviations away: every likelihood underflows to 0
        c.mat("y%d" % k, yk * fy_of(ms[k], lays[k])[:, None])
        # adversarial numbers wherever the step must hand back the predicted belief without using it for an update
        adv = ((likfail if kind.startswith("gpf_") else cannot) or skipped) and not same
        if same and k > 0:
            for nm in ("y", "means", "covs", "weights", "states"):
                if c.has(nm + "0"):
                    c.mat("%s%d" % (nm, k), c.get(nm + "0"))
            if fshapes[k] is not None:
                belief(rng, c, str(k), fshapes[k][0], fshapes[k][1], pf, "f", adversarial=True, lay=fshapes[k][2])
            continue
        if kind == "gl":
            st = gen.matrix(rng, ns[k], cs[k], 3.0) * dxs[:ns[k], None]
            c.mat("states%d" % k, sprinkle(rng, st) if cannot and not same else st)
        else:
            # (correct(p, p) on GPF is not an identity: no zero / non-finite entries that could make the update a numerical no-op)
            belief(rng, c, str(k), ns[k], cs[k], pf, adversarial=adv, lay=lays[k], dx=dxs, special=not alias)
        if fshapes[k] is not None:
            belief(rng, c, str(k), fshapes[k][0], fshapes[k][1], pf, "f", adversarial=True, lay=fshapes[k][2])
    if kind != "gl":
        belief(rng, c, "", oshape[0], oshape[1], pf, "o", adversarial=True, lay=oshape[2])
    return c


def sis_case(rng, cid, pats, degenerate, scmd=None):
    n, m = rng.randint(1, 3), rng.randint(1, 2)
    N = rng.randint(4, 8) if degenerate else rng.randint(1, 6)
    meta = {"n": n, "m": m, "comps": N, "steps": len(pats), "sub": 1, "seq": "+".join(pats), "risky": 0, "outcomps": N,
            "degenerate": int(degenerate), "life": "fresh", "intr": 0}
    for f in FLAGS:
        meta[f] = 0
    c = caseio.Case(cid, "sis", meta)
    c.word("pat", pats)
    scmd = list(scmd) if scmd is not None else ["-"] * len(pats)
    c.word("scmd", scmd)
    c.word("ske", effective(["1" if "c1" in t else ("0" if "c0" in t else "-") for t in scmd], False))
    c.word("rst", ["1" if "r" in t else "0" for t in scmd])
    c.mat("H", gen.matrix(rng, m, n))
    c.mat("R", gen.spd(rng, m, 10 ** rng.uniform(0, 2))[0])
    for k in range(len(pats)):
        c.mat("y%d" % k, gen.matrix(rng, m, 1, 5.0))
    belief(rng, c, "0", n, N, True, w=degenerate_weights(rng, N) if degenerate else None)
    belief(rng, c, "", n, N, True, "o", adversarial=True, special=False)
    return c


def sequences(p, tier, kind):
    seqs = [[p], [GOOD, p]]
    if kind != "gl":
        seqs.append([GOOD, p, GOOD])
    if tier == "thorough":
        seqs.append([p, GOOD, p])
    return seqs


def subsets(sites):
    for r in range(len(sites) + 1):
        for sub in itertools.combinations(sites, r):
            yield sub


def generate(rng, tier):
    cases = []
    reps = COUNTS[tier]
    hr = 2 if tier == "quick" else 5          # random histories per class and form

    def add(kind, seq, **kw):
        cases.append(make_case(rng, len(cases), kind, seq, **kw))

    for kind in KINDS:
        for sub in subsets(ENUMERATED[kind]):
            p = bits(sub)
            for seq in sequences(p, tier, kind):
                for r in range(reps):
                    add(kind, seq, plain=(r == 0))
    # GPF over the shipped GaussianLikelihood, two-phase patterns
    for inner in GPF_INNER:
        kind = "gpf_%s_gl" % inner
        for s1 in subsets("MPIN"):
            for s2 in subsets("MPIN"):
                if s1 == s2:
                    continue
                p = bits(s1) + bits(s2)
                for seq in ([p],) if tier == "quick" else ([p], [GOOD, p]):
                    add(kind, seq, plain=True)
    # SUKF (alone and inside GPF): measurement size not a multiple of the sub-size
    for kind in ("sukf", "gpf_sukf_gl", "gpf_sukf_custom"):
        for p in [GOOD, bits("M"), bits("P"), bits("I"), bits("N")]:
            for seq in ([p], [GOOD, p]):
                for _ in range(reps):
                    m, sub = rng.choice([(3, 2), (2, 3), (1, 2)])
                    add(kind, seq, dims=(rng.randint(1, 4), m, rng.randint(1, 4)), sub=sub)
    # configurations: a representative set of patterns each
    some = [GOOD, bits("M"), bits("P"), bits("I"), bits("N"), bits("MN"), bits("PI"), bits("L"), bits("NL")]
    for _ in range(reps):
        for p in some:
            for kind in KINDS:
                for seq in ([p], [GOOD, p]):
                    if kind == "gl":
                        continue
                    add(kind, seq, flags=("skip",))                    # skip_ on the driven correction
                    add(kind, seq, flags=("alias",), plain=True)       # correct(p, p)
                    if kind.startswith("gpf_"):
                        add(kind, seq, flags=("iskip",))               # skip_ on the wrapped correction
                        add(kind, seq, flags=("skip", "iskip"))
                add(kind, [p], flags=("emptyR",), plain=True)          # (false, empty matrix)
                add(kind, [GOOD, p], flags=("emptyR",), plain=True)
            add("ukf_gen", [p], flags=("online",)); add("ukf_gen", [GOOD, p, GOOD], flags=("online",))
            for seq in ([p], [GOOD, p, GOOD]):
                m, sub = rng.choice([(2, 1), (3, 1), (2, 2), (3, 3)])
                add("sukf", seq, dims=(rng.randint(1, 4), m, rng.randint(1, 4)), sub=sub, flags=("reduced",))
    # ---- fault payloads: every (class, failing call, payload class), alone, after a success, and several calls failing
    #      together with different payloads
    for kind in KINDS:
        sites = ENUMERATED[kind]
        for s in sites:
            classes = {"N": N_PAY, "L": L_PAY}.get(s, DATA_PAY)
            for cl in classes:
                for seq in ([bits(s)], [GOOD, bits(s)], [GOOD, bits(s), GOOD]):
                    if kind == "gl" and len(seq) == 3:
                        continue
                    pay = list(rand_pay(rng)); pay["MPINL".index(s)] = cl
                    add(kind, seq, pays=["".join(pay)] * len(seq), plain=(tier == "quick" and len(seq) == 3))
        for _ in range(reps * 2):
            many = bits(rng.sample(sites, min(len(sites), rng.randint(2, 3))))
            add(kind, [GOOD, many] if kind == "gl" else [GOOD, many, GOOD],
                pays=[rand_pay(rng, "RRtt") for _ in range(2 if kind == "gl" else 3)])
    # ---- how the subject was obtained
    for kind in KINDS:
        if kind == "gl":
            continue
        for life in LIVES[1:]:
            if life in ("ma", "mau") and kind not in PF:
                continue
            for p in [bits("M"), bits("P"), bits("I"), bits("N"), bits("L")]:
                add(kind, [GOOD, p, GOOD], life=life)
                if tier == "thorough":
                    add(kind, [p, GOOD, p], life=life)
    # ---- the skip flag travels with the object: set on the source (constructor-time flag or a command before the move), the
    #      moved / assigned object must skip; the first step on the new object may be a skipped one
    for kind in KINDS:
        if kind == "gl":
            continue
        for life in LIVES[1:]:
            if life in ("ma", "mau") and kind not in PF:
                continue
            for p in [GOOD, bits("M"), bits("N")]:
                add(kind, [GOOD, p, GOOD], life=life, flags=("skip",))
                add(kind, [GOOD, p, GOOD], life=life, skc=["1", "-", "0"])
                add(kind, [GOOD, GOOD, p], life=life, skc=["-", "1", "-"])
    # ---- a twin object runs complete steps inside every callback of the subject's models
    for kind in KINDS:
        for p in [GOOD, bits("M"), bits("P"), bits("I"), bits("N"), bits("L")]:
            for _ in range(reps // 2):
                add(kind, [p], intr=1); add(kind, [GOOD, p] if kind == "gl" else [GOOD, p, GOOD], intr=1)
    # ---- histories: sizes / component counts / sensors / layouts / output objects change between calls
    for kind in KINDS:
        for _ in range(hr * 6):
            ps = [bits(rng.sample(ENUMERATED[kind], rng.choice([0, 1, 1, 2]))) for _ in range(rng.randint(3, 5))]
            add(kind, ps[:3] if kind == "gl" else ps, vary=True)
        if kind == "gl":
            continue
        for lay in ("euler", "quat"):
            for _ in range(hr * 4):
                ps = [bits(rng.sample(ENUMERATED[kind], rng.choice([1, 1, 2]))) for _ in range(rng.randint(1, 3))]
                add(kind, ps, layout=lay)
            for _ in range(hr * 2 if lay == "euler" else 0):
                ps = [bits(rng.sample(ENUMERATED[kind], rng.choice([0, 1, 1]))) for _ in range(rng.randint(2, 4))]
                add(kind, ps, layout=lay)
            for p in [bits("M"), bits("P"), bits("I")]:
                add(kind, [GOOD, p] if lay == "euler" else [p, p], layout=lay)
    # ---- consecutive calls whose arguments are bit-identical (beliefs, measurement, sensor): only the pattern differs
    for kind in KINDS:
        for x in ENUMERATED[kind]:
            add(kind, [GOOD, bits(x)], same=True); add(kind, [bits(x), GOOD], same=True)
            if kind != "gl":
                add(kind, [GOOD, bits(x), GOOD], same=True)
    # ---- raw skip command histories (commands stay in force; not matched pairs)
    cmds = ["-", "-", "1", "0"]
    for kind in KINDS:
        if kind == "gl":
            continue
        for _ in range(hr * 6):
            L = rng.randint(3, 5)
            ps = [bits(rng.sample(ENUMERATED[kind], rng.choice([0, 1, 1, 2]))) for _ in range(L)]
            skc = [rng.choice(cmds) for _ in range(L)]
            isk = [rng.choice(cmds) for _ in range(L)] if kind.startswith("gpf_") else None
            add(kind, ps, skc=skc, isk=isk, flags=rng.choice([(), (), ("skip",)]))
    # ---- magnitudes: units over many orders, likelihoods that underflow
    for kind in KINDS:
        for un in ("hom", "coord"):
            for p in [GOOD, bits("M"), bits("I"), bits("N"), bits("L")]:
                add(kind, [GOOD, p], units=un)
        for p in [GOOD, bits("N"), bits("L")]:
            add(kind, [GOOD, p] if kind == "gl" else [GOOD, p, GOOD], far=True, units=rng.choice([None, "hom"]))
    # SIS: the real filtering thread, 3 steps
    three = [GOOD, bits("F"), bits("M")]
    for _ in range(1 if tier == "quick" else 6):
        for a in three:
            for b in three:
                for d in three:
                    for deg in (False, True):
                        cases.append(sis_case(rng, len(cases), [a, b, d], deg))
    # SIS: skip("correction") commands that stay in force and reset() in the middle of a run
    for _ in range(60 if tier == "quick" else 400):
        L = rng.randint(3, 5)
        ps = [rng.choice(three) for _ in range(L)]
        sc = [rng.choice(["-", "-", "c1", "c0", "r", "c1r"]) for _ in range(L)]
        cases.append(sis_case(rng, len(cases), ps, rng.random() < 0.5, scmd=sc))
    return cases


def search_cases(rng):
    """The widened search: a random sample over ALL classes and history forms of the thorough generator."""
    cs = generate(rng, "thorough")
    rng.shuffle(cs)
    return cs[:SEARCH_CASES]


# ------------------------------------------------------------------ evaluation

GETTERS = ("D", "Di", "H")


def word(rec, name):
    v = rec.get(name)
    if v is None:
        return None
    return [t for t in v if t != "-"]


def no_getters(l):
    return [t for t in (l or []) if t not in GETTERS]


def inner_full(inner, p1, c, k, skipped):
    """Calls made by a Gaussian correction under the phase-1 pattern p1, getters included (this table is Python, not Coq;
    with the getters removed it must equal the model's log, which is checked)."""
    if skipped:
        return []
    M, P, I, N = (bit(p1, s) for s in "MPIN")
    if inner == "kf":
        l = ["M"]
        if not M:
            l.append("P")
            if not P:
                l.append("I")
                if not I:
                    l.append("N")
                    if not N:
                        l.append("H")
        return l
    if inner == "ukfgen":
        l = ["M"]
        if not M:
            l += ["N"] + (["Di"] if flag(c, "online") else []) + ["P", "D"]
            if not P:
                l.append("I")
        return l
    if inner == "ukfadd":
        l = ["M"]
        if not M:
            l += ["P", "D"]
            if not P:
                l += ["N", "I"]
        return l
    s = step(c, k)
    m, sub, comps = s.m, int(c.meta["sub"]), s.comps
    l = ["M", "D"]
    if not M and m % sub == 0:
        l.append("P")
        if not P:
            l.append("I")
            if not I:
                l += ["N"] * (comps * (m // sub))
    return l


def inner_of(c):
    kind = c.kind
    return {"kf": "kf", "ukf_gen": "ukfgen", "ukf_add": "ukfadd", "sukf": "sukf"}.get(kind) or kind.split("_")[1]


def expected_log(c, k, model_log):
    """The exact call list of step k, getters included, or a string describing an inconsistency of the getter table."""
    kind, s = c.kind, step(c, k)
    if s.skip:
        return []
    if kind in GAUSS or kind.startswith("gpf_"):
        full = inner_full(inner_of(c), s.p[:6], c, k, kind.startswith("gpf_") and s.iskip)
        ng = no_getters(full)
        if model_log[:len(ng)] != ng:
            return "getter table inconsistent with the model: %s vs %s" % (ng, model_log)
        return full + model_log[len(ng):]
    return list(model_log)


def garbage_step(c, model):
    """First step in which a noise covariance that is NOT one (empty / another shape), returned next to a false flag, is read
    by a caller that ignores the flag (UKFCorrection.cpp:114 generic, sigma_point.cpp:313 additive, SUKFCorrection.cpp:200): from
    there on the implementation's behaviour is not predicted here (size mismatch: C14's business).  The rule follows the
    model's call order: the read happens iff the model's log of that step contains N made by such a caller."""
    kind = c.kind
    inner = {"ukf_gen": "ukfgen", "ukf_add": "ukfadd", "sukf": "sukf"}.get(kind)
    if kind.startswith("gpf_"):
        inner = kind.split("_")[1]
    if inner not in ("ukfgen", "ukfadd", "sukf"):
        return None
    for k in range(nsteps(c)):
        s = step(c, k)
        if not s.garb or s.skip or (kind.startswith("gpf_") and s.iskip):
            continue
        if bit(s.p[:6], "N") and "N" in inner_full(inner, s.p[:6], c, k, False):
            return k
    return None


def lik_unpredicted(c, k):
    """getLikelihood() of an object obtained by move from a USED one, asked before that object has run a correction of its
    own (every step since the move was a skipped one): the members behind getLikelihood are not carried by the move
    constructors of KF/UKF/SUKF/BootstrapCorrection nor by BootstrapCorrection's move assignment (the object reports no
    likelihood until its next correct()), GPFCorrection carries them; the model follows the members of the source.  What
    is reported there is not C12's subject: not compared.  (The belief IS compared: a carried skip flag must give identity.)"""
    if c.meta.get("life", "fresh") not in ("mcu", "mau") or k < 1 or c.kind.startswith("gpf_"):
        return False
    return all(step(c, j).skip for j in range(1, k + 1))


def crash_point(impl):
    """(step, phase) at which the implementation's record ends, if it crashed."""
    if impl.get("crashed") != 1:
        return None
    k = 0
    while impl.has("lik_valid%d" % k):
        k += 1
    if impl.has("lik_begin%d" % k):
        return (k, "lik")
    return (k, "correct")


def thrown(impl, kmax):
    """[(step, where, text)] of exceptions that escaped correct() / getLikelihood()"""
    out = []
    for k in range(kmax):
        for w in ("correct", "lik"):
            if impl.get("threw_%s%d" % (w, k)) == 1:
                out.append((k, w, " ".join(impl.get("threw_what%d" % k) or ["?"])))
    return out


def compare_sis(c, impl, model):
    d = []
    if impl.get("steps_run") != nsteps(c):
        d.append("steps run: %s" % impl.get("steps_run"))
        return d
    for k in range(nsteps(c)):
        ks = str(k)
        if impl.get("threw_correct" + ks) == 1:
            d.append("step %d: exception in the filtering step: %s" % (k, impl.get("threw_what" + ks)))
            break
        ie = [t for t in word(impl, "events" + ks) if t not in GETTERS]
        me = [t for t in word(model, "events" + ks) if t != "normalise"]
        if ie != me:
            d.append("events%s: impl %s model %s" % (ks, ie, me))
        # one direction only: normalising the weights of an untouched set can be a numerical no-op
        at_is_pred = model.get("atlog_g" + ks) == model.get("pred_g" + ks) and model.get("atlog_s" + ks) == model.get("pred_s" + ks)
        if at_is_pred and impl.get("ident_atlog" + ks) != 1:
            d.append("ident_atlog%s: impl %s model %s" % (ks, impl.get("ident_atlog" + ks), at_is_pred))
        end_is_at = model.get("cor_g" + ks) == model.get("atlog_g" + ks) and model.get("cor_s" + ks) == model.get("atlog_s" + ks)
        if (impl.get("cor_is_atlog" + ks) == 1) != end_is_at:
            d.append("cor_is_atlog%s: impl %s model %s" % (ks, impl.get("cor_is_atlog" + ks), end_is_at))
    return d


def horizon(c, impl, model):
    """(last, got, gstep): steps [0, last) are predicted; got = crash point; gstep = first garbage step"""
    steps = nsteps(c)
    gstep, got = garbage_step(c, model), crash_point(impl)
    last = steps if got is None else got[0] + (1 if got[1] == "lik" else 0)
    if gstep is not None:
        last = min(last, gstep)              # from the garbage step on nothing is predicted
    ab = impl.get("aborted_at")
    if ab is not None:
        last = min(last, ab)
    return last, got, gstep


def compare(c, impl, model):
    d = []
    kind = c.kind
    if kind == "sis":
        return compare_sis(c, impl, model)
    last, got, gstep = horizon(c, impl, model)
    if got is not None and (gstep is None or got[0] < gstep):
        d.append("crash point: impl %s (%s %s), the model predicts none" % (got, impl.get("crash_kind"), impl.get("crash_cond")))
    for k, w, what in thrown(impl, nsteps(c)):
        if gstep is None or k < gstep:
            d.append("step %d: an exception escaped %s: %s; the model predicts none"
                     % (k, ("GaussianLikelihood::likelihood()" if kind == "gl" else "correct()") if w == "correct" else "getLikelihood()", what))
    lik_terms = {}
    alias = flag(c, "alias")
    for k in range(last):
        ks = str(k)
        full = got is None or k < got[0]
        ml = word(model, "log" + ks)
        el = expected_log(c, k, ml)
        if isinstance(el, str):
            d.append("log%s: %s" % (ks, el))
        elif word(impl, "log" + ks) != el:
            d.append("log%s: impl %s expected %s (model %s)" % (ks, word(impl, "log" + ks), el, ml))
        if kind != "gl":
            mg = model.get("g" + ks) == ["predG" + ks]
            if (impl.get("ident_g" + ks) == 1) != mg:
                d.append("ident_g%s: impl %s model term %s" % (ks, impl.get("ident_g" + ks), model.get("g" + ks)[0][:60]))
            if kind in PF:
                ms = model.get("s" + ks) == ["predS" + ks]
                if (impl.get("ident_state" + ks) == 1) != ms:
                    d.append("ident_state%s: impl %s model term %s" % (ks, impl.get("ident_state" + ks), model.get("s" + ks)[0][:60]))
        if not full or lik_unpredicted(c, k):
            continue
        if impl.get("lik_valid" + ks) != model.get("lik_valid" + ks):
            d.append("lik_valid%s: impl %s model %s" % (ks, impl.get("lik_valid" + ks), model.get("lik_valid" + ks)))
        if no_getters(word(impl, "liklog" + ks)) != word(model, "liklog" + ks) or word(impl, "liklog" + ks) != no_getters(word(impl, "liklog" + ks)):
            d.append("liklog%s: impl %s model %s" % (ks, word(impl, "liklog" + ks), word(model, "liklog" + ks)))
        lt, lv = model.get("lik" + ks)[0], impl.get("lik" + ks)
        if lt == "zero1" and not (lv is not None and lv.shape == (1, 1) and lv[0, 0] == 0.0):
            d.append("lik%s: model says Zero(1), impl %s" % (ks, None if lv is None else lv.shape))
        if lt == "empty" and not (lv is not None and lv.size == 0):
            d.append("lik%s: model says empty, impl %s" % (ks, None if lv is None else lv.shape))
        if lt == "likJunk" and impl.get("lik_valid" + ks) == 0 and not step(c, k).skip:
            want = step(c, k).comps + (1 if step(c, k).pay[4] == "s" else 0)
            if lv is None or lv.size != want:
                d.append("lik%s: the failing likelihood model returned %d values next to its flag, getLikelihood hands back %s"
                         % (ks, want, None if lv is None else lv.size))
        if lt in lik_terms and lv is not None:
            lv0 = lik_terms[lt]
            # (the term language names the sensor of a step through y<k> only: with a sensor that changes between the
            #  steps equal terms need not be equal values)
            if lt != "likJunk" and not c.has("R1") and (lv0.shape != lv.shape or lv0.tobytes() != lv.tobytes()):
                if not (np.isnan(lv0).all() and np.isnan(lv).all()):
                    d.append("lik%s: model term equals an earlier step's, impl values differ" % ks)
        elif lv is not None:
            lik_terms[lt] = lv
    if impl.has("conc_ok") and impl.get("conc_ok") != 1:
        d.append("concurrent evaluations of GaussianLikelihood::likelihood differ from the sequential ones")
    if kind == "kf" and flag(c, "numeric") and impl.has("mean0") and model.has("num_mean") and last > 0:
        # the numerical KF instance of the same skeleton, step 0: identity is exact, the update to rounding;
        # the tolerance is carried by the state unit L (means: L, covariances: L^2, weights: 1)
        p0 = c.get("pat")[0]
        exact = any(bit(p0, s) for s in "MPIN")
        uL = float(c.meta.get("uL", 1.0))
        for a, b, unit in (("mean0", "num_mean", uL), ("cov0", "num_cov", uL * uL), ("w0", "num_w", 1.0)):
            x, y = impl.get(a), model.get(b)
            y = y.reshape(x.shape) if y.size == x.size else y
            fin = x[np.isfinite(x)]
            scale = max(unit, float(np.max(np.abs(fin))) if fin.size else 0.0)
            tol = 0.0 if exact else 1e-6 * scale
            if x.shape != y.shape or not caseio.close(x, y, tol, 0.0):
                d.append("%s vs numerical model: max diff %.3g (tolerance %.3g)" % (a, caseio.maxdiff(x, y), tol))
        if model.get("num_lik_valid") != impl.get("lik_valid0"):
            d.append("lik_valid0 vs numerical model")
        elif model.get("num_lik_valid") == 1 and not caseio.close(impl.get("lik0"), model.get("num_lik"), 1e-300, 1e-6):
            d.append("lik0 vs numerical model")
    return d


def oracle_sis(c, impl):
    v = []
    pats = c.get("pat")
    for k in range(min(nsteps(c), impl.get("steps_run") or 0)):
        ks, p = str(k), pats[k]
        if impl.get("threw_correct" + ks) == 1:
            v.append(("C12:sis:exception-in-filtering-step:%s" % ("freeze-fails" if bit(p, "F") else ("measure-fails" if bit(p, "M") else "no-fault")),
                      "step %d: %s" % (k, " ".join(impl.get("threw_what" + ks) or ["?"]))))
            break
        if not bit(p, "F"):
            continue
        STATS["sis_failed_freeze_steps"] += 1
        ev = word(impl, "events" + ks)
        attempted = [t for t in ev if t in ("C", "M", "P", "I", "N", "L")]
        if attempted or impl.get("correct_calls" + ks) != 0:
            v.append(("C12:sis:correction-attempted-after-failed-freeze", "step %d: events %s" % (k, ev)))
        if impl.get("ident_atlog" + ks) != 1:
            parts = [q for q in ("w", "state") if impl.get("ident_atlog_%s%s" % (q, ks)) == 0]
            v.append(("C12:sis:belief-changed-after-failed-freeze", "step %d: cor_particle_ != pred_particle_ at log() (%s)" % (k, parts or "mean/cov/shape")))
    return v


def account(c, impl, last):
    """coverage counters of the evidence"""
    STATS["lives"][c.meta.get("life", "fresh")] = STATS["lives"].get(c.meta.get("life", "fresh"), 0) + 1
    if str(c.meta.get("intr", 0)) == "1":
        STATS["twin_cases"] += 1
        STATS["twin_calls"] += impl.get("intruder_calls") or 0
    if impl.has("conc_ok"):
        STATS["concurrent_gl"] += 1
    if c.meta.get("units", "none") != "none":
        STATS["units_decades"].add((int(math.floor(math.log10(float(c.meta["uL"])))), int(math.floor(math.log10(float(c.meta["ue"]))))))
    sizes = set()
    for k in range(last):
        s = step(c, k)
        sizes.add((s.n, s.m, s.comps))
        lay = "linear" if is_lin(s.lay) else ("quaternion" if s.quat else "euler")
        STATS["layouts"][lay] = STATS["layouts"].get(lay, 0) + 1
        if not s.skip:
            for x in "MPINL":
                if bit(s.p[:6], x) or (len(s.p) >= 12 and bit(s.p[6:12], x)):
                    STATS["payload_triples"].add((c.kind, x, s.pay["MPINL".index(x)]))
    for k in range(last, nsteps(c)):
        s = step(c, k)
        if s.garb and bit(s.p[:6], "N"):
            STATS.setdefault("deferred_triples", set()).add((c.kind, "N", s.pay[3]))
    if len(sizes) > 1:
        STATS["resized_histories"] += 1
    if str(c.meta.get("same", 0)) == "1":
        STATS["same_argument_histories"] = STATS.get("same_argument_histories", 0) + 1
    if c.has("skc") and (any(t != "-" for t in c.get("skc")) or (c.has("isk") and any(t != "-" for t in c.get("isk")))):
        STATS["skip_command_histories"] += 1


def oracle(c, impl, model):
    """The property evaluated on the implementation alone (the model is used only to pin the known finding)."""
    v = []
    kind, pats = c.kind, c.get("pat")
    if kind == "sis":
        return oracle_sis(c, impl)
    steps = nsteps(c)
    last, got, gstep = horizon(c, impl, model)
    if gstep is not None:
        key = "%s:%s" % (kind, "aborted" if got is not None and got[0] >= gstep else "ran-on")
        STATS["empty_noise_covariance_consumed"][key] = STATS["empty_noise_covariance_consumed"].get(key, 0) + 1
    account(c, impl, last)
    # an exception that escapes correct() / getLikelihood(): the corrected belief was never set
    for k, w, what in thrown(impl, steps):
        if gstep is not None and k >= gstep:
            continue
        tag = unusable(c, k)[0]
        s = step(c, k)
        pays = "".join(s.pay["MPINL".index(x)] for x in "MPINL" if bit(s.p[:6], x) or (len(s.p) >= 12 and bit(s.p[6:12], x))) or "-"
        where = ("likelihood" if kind == "gl" else "correct") if w == "correct" else "getLikelihood"
        v.append(("C12:%s:exception-escapes-%s:%s" % (kind, where, tag),
                  "step %d (%s, payload classes of the failing calls: %s): %s() let an exception escape: %s; corrected belief %s the predicted one"
                  % (k, tag, pays, where, what, "is" if impl.get("ident%d" % k) == 1 else "is NOT")))
    if impl.has("conc_ok") and impl.get("conc_ok") != 1:
        v.append(("C12:gl:concurrent-evaluations-interfere", "GaussianLikelihood::likelihood evaluated from one thread per step (patterns %s) "
                  "does not return what the sequential evaluations return" % "+".join(pats)))
    alias_gpf = flag(c, "alias") and kind.startswith("gpf_")
    had_success = False
    for k in range(last):
        ks, p = str(k), pats[k]
        tag, cannot_use, lik_must_fail = unusable(c, k)
        full = got is None or k < got[0]
        STATS["exception_free_steps"] += 1
        if tag == "skipped" and kind != "gl":
            # skip_ in force (set on this object, or on the object it was moved / assigned from): the correction hands back
            # the predicted belief and consults nothing (C12_skipped_correction_makes_no_call)
            STATS["skipped_steps_checked"] = STATS.get("skipped_steps_checked", 0) + 1
            if c.meta.get("life", "fresh") != "fresh":
                STATS["skipped_steps_checked_on_moved_objects"] = STATS.get("skipped_steps_checked_on_moved_objects", 0) + 1
            if (impl.get("ident" + ks) != 1 or word(impl, "log" + ks)) and not alias_gpf:
                parts = [q for q in ("mean", "cov", "w", "shape", "state") if impl.get("ident_%s%s" % (q, ks)) == 0]
                v.append(("C12:%s:skipped-correction-ran:%s" % (kind, c.meta.get("life", "fresh")),
                          "step %d: skip_ is in force (subject obtained by: %s), yet the correction made the calls %s and the corrected belief "
                          "differs from the predicted one in %s" % (k, c.meta.get("life", "fresh"), word(impl, "log" + ks), parts)))
        if cannot_use:
            STATS["steps_checked_identity"] += 1
            if kind == "gl":
                if impl.get("lik_valid" + ks) != 0:
                    v.append(("C12:gl:value-reported:%s" % tag, "step %d: GaussianLikelihood reported a value" % k))
                continue
            if impl.get("ident" + ks) != 1:
                parts = [q for q in ("mean", "cov", "w", "shape", "state") if impl.get("ident_%s%s" % (q, ks)) == 0]
                if alias_gpf:
                    pass        # correct(p, p) is outside the property's precondition; the correspondence pins what happens
                elif kind.startswith("gpf_") and not lik_must_fail:
                    # the known finding (C12_gpf_inner_failure_not_detected): ONLY a re-draw around the predicted
                    # moments and the re-weighting the model predicts is absorbed by it
                    ok = impl.get("ident_mean" + ks) == 1 and impl.get("ident_cov" + ks) == 1 and impl.get("ident_shape" + ks) == 1
                    if ok and model is not None:
                        ok = ("gpfW(" in model.get("g" + ks)[0]) and ("sampleS(" in model.get("s" + ks)[0]) and impl.get("lik_valid" + ks) == 1
                    if ok and k == 0 and impl.has("mirror_state_diff0"):
                        # same operations on the same numbers: bit-equal, or equal to rounding relative to the magnitudes involved
                        sd, wd = impl.get("mirror_state_diff0"), impl.get("mirror_w_diff0")
                        spread = impl.get("mirror_spread0") or max(1.0, float(np.max(np.abs(impl.get("state0")))))
                        wmax = float(np.max(np.abs(impl.get("w0")))) if impl.get("w0").size else 1.0
                        ok = (impl.get("mirror_state_bits0") == 1 or sd <= 1e-9 * spread) and (impl.get("mirror_w_bits0") == 1 or wd <= 1e-7 * max(1.0, wmax))
                        STATS["finding_steps_pinned_to_model"] += 1
                    if ok:
                        sig = "C12:%s:belief-changed:wrapped-correction-fails+likelihood-valid" % kind
                    else:
                        sig = "C12:%s:belief-changed:not-the-known-finding:%s" % (kind, tag)
                    v.append((sig, "step %d (%s): corrected belief differs from the predicted one in %s" % (k, tag, parts)))
                else:
                    v.append(("C12:%s:belief-changed:%s" % (kind, tag), "step %d (%s): corrected belief differs from the predicted one in %s" % (k, tag, parts)))
            if impl.get("pred_unchanged" + ks) != 1 and not alias_gpf:
                v.append(("C12:%s:predicted-belief-modified:%s" % (kind, tag), "step %d" % k))
            if full and had_success and kind in GAUSS:
                STATS["likelihood_failure_checked_after_success"] += 1
            if full and impl.get("lik_valid" + ks) == 1:
                if kind in GAUSS:
                    sig = "C12:%s:stale-likelihood:%s" % (kind, "failed-correction-after-success" if had_success else "fresh-object")
                    v.append((sig, "step %d (%s): getLikelihood() reports a valid likelihood although this correction could not "
                                   "use the measurement" % (k, tag)))
                elif lik_must_fail:
                    v.append(("C12:%s:likelihood-valid-after-unusable-measurement:%s" % (kind, tag), "step %d" % k))
        elif full and kind != "gl" and impl.get("lik_valid" + ks) == 1:
            had_success = True
    if got is not None and (gstep is None or got[0] < gstep):
        k, phase = got
        kk = min(k, len(pats) - 1)           # k == len(pats): the process ended abnormally after the last step (corrupted heap)
        if phase == "lik" and kind in GAUSS:
            v.append(("C12:%s:stale-likelihood:getLikelihood-aborts" % kind,
                      "step %d (%s): getLikelihood() ended abnormally: %s %s at %s"
                      % (k, unusable(c, kk)[0], impl.get("crash_kind"), impl.get("crash_cond"), impl.get("crash_where"))))
        else:
            v.append(("C12:%s:crash:%s" % (kind, impl.get("crash_entry", ["?"])[0]),
                      "step %d: %s %s at %s" % (k, impl.get("crash_kind"), impl.get("crash_cond"), impl.get("crash_where"))))
    return v


def on_crash(c, info, model):
    """A case that is not run in a child and ends the process."""
    if c.kind != "sis" and garbage_step(c, model) is not None:
        STATS["empty_noise_covariance_consumed"]["%s:process-ended" % c.kind] = STATS["empty_noise_covariance_consumed"].get("%s:process-ended" % c.kind, 0) + 1
        return []
    return None


def nontrivial(c):
    pats = c.get("pat")
    if c.kind == "sis":
        return ("sis", c.meta["seq"], c.meta["degenerate"], c.meta["comps"], tuple(c.get("scmd")) if c.has("scmd") else ()) if any(bit(p, "F") for p in pats) else None
    if any(unusable(c, k)[1] for k in range(len(pats))):
        return (c.kind, tuple(f for f in FLAGS if flag(c, f)), c.meta.get("life", "fresh"), str(c.meta.get("intr", 0)), c.meta["seq"],
                tuple(c.get("pay")) if c.has("pay") else (), c.meta["n"], c.meta["m"], c.meta["comps"],
                tuple(c.get("cmp")) if c.has("cmp") else (), tuple(c.get("lay")) if c.has("lay") else ())
    return None


def histogram(cases):
    h, fl = {}, {}
    for c in cases:
        h[c.kind] = h.get(c.kind, 0) + 1
        for f in FLAGS:
            if flag(c, f):
                fl[f] = fl.get(f, 0) + 1
    trip = sorted(STATS["payload_triples"])
    per_site = {}
    for kd, s, cl in trip:
        per_site.setdefault(s, set()).add(cl)
    wanted = set((kd, x, cl) for kd in KINDS for x in ENUMERATED[kd] for cl in {"N": N_PAY, "L": L_PAY}.get(x, DATA_PAY))
    kinds_run = set(c.kind for c in cases)
    deferred = STATS.get("deferred_triples", set()) - STATS["payload_triples"]
    missing = sorted(t for t in wanted if t not in STATS["payload_triples"] and t not in deferred and t[0] in kinds_run)
    return {"class": h, "flags": fl,
            "steps_with_unusable_measurement_checked": STATS["steps_checked_identity"],
            "getLikelihood_failure_checked_after_an_earlier_success": STATS["likelihood_failure_checked_after_success"],
            "known_finding_steps_pinned_to_the_model_prediction": STATS["finding_steps_pinned_to_model"],
            "sis_failed_freeze_steps_checked": STATS["sis_failed_freeze_steps"],
            "fault_payloads": {"class_x_failing_call_x_payload_class_exercised": len(trip),
                               "of_the_enumerated_fault_points_x_payload_classes": len(wanted),
                               "enumerated_fault_point_x_payload_class_not_exercised": ["%s:%s:%s" % t for t in missing],
                               "run_but_deferred_to_C14_flag_ignoring_caller_reads_a_matrix_of_wrong_shape": ["%s:%s:%s" % t for t in sorted(deferred)],
                               "payload_classes_per_failing_call": {s: "".join(sorted(v)) for s, v in sorted(per_site.items())}},
            "subject_obtained_by": STATS["lives"],
            "callback_reentrancy": {"cases_with_a_twin_object": STATS["twin_cases"], "complete_twin_steps_run_inside_callbacks": STATS["twin_calls"]},
            "gaussian_likelihood_evaluated_concurrently": STATS["concurrent_gl"],
            "steps_per_layout": STATS["layouts"],
            "histories_with_sizes_changing_between_calls": STATS["resized_histories"],
            "histories_with_raw_skip_commands": STATS["skip_command_histories"],
            "skipped_steps_checked": STATS.get("skipped_steps_checked", 0),
            "skipped_steps_checked_on_moved_or_assigned_objects": STATS.get("skipped_steps_checked_on_moved_objects", 0),
            "histories_of_calls_with_bit_identical_arguments": STATS.get("same_argument_histories", 0),
            "units_decades_state_x_measurement": len(STATS["units_decades"]),
            "excluded_from_generation_and_counted": STATS["excluded"],
            "deferred_to_C14_noise_covariance_of_wrong_shape_consumed_by_flag_ignoring_callers": STATS["empty_noise_covariance_consumed"]}


LEVEL_TEXT = ("Proof: the control skeletons of KFCorrection, UKFCorrection (both constructors, with the measurement overloads of the unscented "
              "transform), SUKFCorrection, GaussianLikelihood, BootstrapCorrection, GPFCorrection (any wrapped correction), the public "
              "correct() wrappers with skip_, and SIS::filtering_step are proved, for every fault pattern, every sensor failing on its own at "
              "the arguments of the call, every belief and every numerical routine, to return the whole predicted object (component-wise: "
              "every mean, covariance, weight, state, shape field) whenever a call the class honours reports unavailability, with the exact "
              "call log, and getLikelihood to report failure after any such correction; GPF/Bootstrap: identity iff the likelihood fails; "
              "with no fault the KF skeleton is C01's kf_correct. The flag-and-payload form of the sensor interface is modelled too "
              "(C12_Payload): whatever a failing call hands back next to its false flag is never cast or read, no exception can arise on a "
              "failing path, and the payload-level steps are the option-level skeletons whenever the payloads delivered with a true flag "
              "are matrices. Refuted with witnesses and registered as known finding: GPFCorrection does "
              "not notice that the wrapped correction could not use the measurement when the likelihood model reports a value.")
LEVEL_NOTE = ("Trusted: Coq kernel, extraction + driver, the harness's fault-injecting doubles, the Python table of getter calls; numerical "
              "routines are abstract here; the skeletons are proved to be C01's kf_correct and C08's gpf_correct when instantiated with their routines, the corresponding links to C04 (UKF) and C05 (SUKF) are not proved; the tie to the code is "
              "sampled over all subsets of failing calls per class x payload classes x adversarial beliefs x call histories x configurations.")
