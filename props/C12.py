"""C12 — a correction that cannot use the measurement leaves the belief untouched (DESIGN.md §5 C12).

Every correction class is driven through sequences of steps, each step with its own fault
pattern (bits: measure predictedMeasure innovation noisecov freeze likelihood), over
fault-injecting measurement / likelihood models.  The extracted model runs at the symbolic
instance: its outputs are terms over the inputs of the run, so "identity" is the term predG<k>
and stale members show up as terms of an earlier step."""
import itertools
import numpy as np
from vlib import caseio, gen

ID = "C12"
COQ_TARGETS = ["C12_Extract.vo", "C12_Proofs.vo", "C12_ProofsKF.vo", "C12_ProofsSym.vo", "C12_Regress.vo"]
COQ_PREFIXES = ["C12", "C01"]
EXTRACTED = "C12_model"
DRIVER = "drv_C12.ml"
HARNESS = "h_C12.cpp"
VARIANTS = {"quick": ["assert"], "thorough": ["assert", "asan"]}
AXIOMS_ALLOWED = []
REQUIRED_THEOREMS = ["C12_kf_identity", "C12_ukf_identity", "C12_sukf_identity", "C12_bootstrap_identity",
                     "C12_gpf_identity", "C12_likelihood_reports_failure", "C12_sis_skips_correction",
                     "C12_no_fault_kf_is_C01", "C12_kf_call_log", "C12_ukf_additive_call_log",
                     "C12_kf_likelihood_after_failure_reports_failure", "C12_ukf_likelihood_after_failure_reports_failure",
                     "C12_sukf_likelihood_after_failure_reports_failure",
                     "C12_gpf_inner_failure_refuted", "C12_gpf_transient_inner_failure_refuted"]
TIMEOUT = 1500

SITES = "MPINFL"
# calls whose failure the class must honour (the property's "consulted" set)
CONSULTED = {
    "kf": "MPIN", "ukf_gen": "MPI", "ukf_add": "MPI", "sukf": "MPI", "gl": "MPIN",
    "boot_gl": "MPIN", "boot_custom": "L",
    "gpf_kf_gl": "MPIN", "gpf_ukfgen_gl": "MPIN", "gpf_ukfadd_gl": "MPIN",
    "gpf_kf_custom": "MPINL", "gpf_ukfgen_custom": "MPIL", "gpf_ukfadd_custom": "MPIL",
    "sis": "F",
}
# the bits enumerated exhaustively per class
ENUMERATED = {
    "kf": "MPIN", "ukf_gen": "MPIN", "ukf_add": "MPIN", "sukf": "MPIN", "gl": "MPIN",
    "boot_gl": "MPIN", "boot_custom": "MPNL",
    "gpf_kf_gl": "MPIN", "gpf_ukfgen_gl": "MPIN", "gpf_ukfadd_gl": "MPIN",
    "gpf_kf_custom": "MPINL", "gpf_ukfgen_custom": "MPIL", "gpf_ukfadd_custom": "MPIL",
    "sis": "FM",
}
PF = {"gl", "boot_gl", "boot_custom", "gpf_kf_gl", "gpf_ukfgen_gl", "gpf_ukfadd_gl", "gpf_kf_custom", "gpf_ukfgen_custom",
      "gpf_ukfadd_custom", "sis"}
GAUSS_MEMBERS = {"kf", "ukf_gen", "ukf_add", "sukf"}      # classes whose getLikelihood reads members of an earlier call
ADDITIVE_UT = {"ukf_add", "gpf_ukfadd_gl", "gpf_ukfadd_custom"}
GOOD = "000000"

RULE = ("per class every subset of the enumerated failing calls (2^4, 2^5 for gpf_kf_custom) x sequences [p], [good,p], [good,p,good] "
        "(thorough: also [p,good,p]) x 3 (thorough 12) random beliefs; for GPF over GaussianLikelihood additionally every pair "
        "(subset seen by the wrapped correction, subset seen by the likelihood); SUKF also with a measurement size that is not a multiple "
        "of the sub-size; "
        "beliefs: n 1..4, m 1..3, components 1..4 (N = 2..6 particles for the particle classes), SPD covariances, arbitrary weights, "
        "unrelated previous content of the output object (other component count when the first step fails); "
        "non-trivial = at least one consulted call fails in some step; distinct by (class, pattern sequence, n, m, components)")
TRUSTED_BASE = ["Coq 8.16.1 kernel (coqc); no axioms (Print Assumptions: closed under the global context)",
                "extraction (ExtrOcamlBasic only), ocaml/drv_C12.ml, ocaml/float_ops.ml, ocaml/caseio.ml",
                "cpp/h_C12.cpp: the fault-injecting LinearMeasurementModel / LikelihoodModel doubles, their call log, vf::bit_equal",
                "the skeletons abstract every numerical routine as a function parameter: what they compute is the subject of C01/C04/C05/C08",
                "correspondence is sampled: agreement of call logs / identity flags is established on the generated cases only",
                "ListOps list instance of MatOps for the numerical KF instance (as in C01)"]
ASSUMPTIONS = ["a measurement model reports unavailability only through the validity flags of measure / predictedMeasure / innovation / "
               "getNoiseCovarianceMatrix / freeze, a likelihood model only through the flag of likelihood (no exceptions)",
               "the fault pattern is a function of the call site (all calls of one site within a step fail or succeed together)"]

COUNTS = {"quick": 3, "thorough": 12}      # random beliefs per (class, pattern, sequence form)

STATS = {"steps_checked_identity": 0, "likelihood_failure_checked_after_success": 0}


# ------------------------------------------------------------------ generation

def bits(fail):
    return "".join("1" if s in fail else "0" for s in SITES)


def fails(pat, sites):
    return any(pat[SITES.index(s)] == "1" for s in sites)


def log_weights(rng, k):
    w = np.array([rng.random() + 0.1 for _ in range(k)])
    return np.log(w / w.sum()).reshape(-1, 1)


def belief(rng, c, sfx, n, comps, pf, pfx=""):
    c.mat(pfx + "means" + sfx, gen.matrix(rng, n, comps, 3.0))
    c.mat(pfx + "covs" + sfx, np.hstack([gen.spd(rng, n, 10 ** rng.uniform(0, 3))[0] for _ in range(comps)]))
    c.mat(pfx + "weights" + sfx, log_weights(rng, comps))
    if pf:
        c.mat(pfx + "states" + sfx, gen.matrix(rng, n, comps, 3.0))


def make_case(rng, cid, kind, pats, dims=None, sub=None, outcomps=None):
    pf = kind in PF
    if dims is None:
        n, m = rng.randint(1, 4), rng.randint(1, 3)
        comps = rng.randint(2, 6) if pf else rng.randint(1, 4)
    else:
        n, m, comps = dims
    if kind == "sukf" and sub is None:
        sub = rng.choice([d for d in range(1, m + 1) if m % d == 0])
    consulted = CONSULTED[kind]
    faulty = any("1" in p for p in pats)
    risky = 1 if (faulty and ("ukf" in kind)) else 0
    oc = comps if outcomps is None else outcomps
    meta = {"n": n, "m": m, "comps": comps, "steps": len(pats), "sub": sub or 1, "risky": risky, "outcomps": oc,
            "seq": "+".join(pats)}
    c = caseio.Case(cid, kind, meta)
    c.word("pat", pats)
    c.mat("H", gen.matrix(rng, m, n))
    c.mat("R", gen.spd(rng, m, 10 ** rng.uniform(0, 2))[0])
    for k in range(len(pats)):
        c.mat("y%d" % k, gen.matrix(rng, m, 1, 5.0))
        belief(rng, c, str(k), n, comps, pf)
    belief(rng, c, "", n, oc, pf, "o")
    return c


def sequences(p, tier, kind):
    if kind == "sis":
        return [[p]]
    seqs = [[p], [GOOD, p]]
    if kind != "gl":
        seqs.append([GOOD, p, GOOD])
    if tier == "thorough":
        seqs.append([p, GOOD, p])
    return seqs


def generate(rng, tier):
    cases, cid = [], 0
    reps = COUNTS[tier]
    for kind in CONSULTED:
        en = ENUMERATED[kind]
        for r in range(len(en) + 1):
            for sub in itertools.combinations(en, r):
                p = bits(sub)
                for seq in sequences(p, tier, kind):
                    for _ in range(reps):
                        oc = None
                        if kind in GAUSS_MEMBERS and fails(seq[0], CONSULTED[kind]) and rng.random() < 0.35:
                            oc = -1
                        dims = None
                        if kind in ADDITIVE_UT and rng.random() < 0.4:
                            # the only shapes for which the additive transform's post-processing of a
                            # default-constructed output stays in bounds
                            dims = (rng.randint(1, 4), 1, 1)
                            if kind != "ukf_add":
                                dims = None
                        if kind == "ukf_gen" and rng.random() < 0.25:
                            dims = (rng.randint(1, 4), 1, 1)
                        c = make_case(rng, cid, kind, seq, dims=dims)
                        if oc == -1:
                            comps = int(c.meta["comps"])
                            c = make_case(rng, cid, kind, seq, dims=(int(c.meta["n"]), int(c.meta["m"]), comps),
                                          sub=int(c.meta["sub"]), outcomps=comps + rng.choice([1, 2]))
                        cases.append(c); cid += 1
    # GPF over the shipped GaussianLikelihood, two-phase patterns: every subset of the calls made by the wrapped
    # correction x every subset of the calls made by the likelihood
    for kind in ("gpf_kf_gl", "gpf_ukfgen_gl", "gpf_ukfadd_gl"):
        for r1 in range(5):
            for s1 in itertools.combinations("MPIN", r1):
                for r2 in range(5):
                    for s2 in itertools.combinations("MPIN", r2):
                        if s1 == s2:
                            continue
                        p = bits(s1) + bits(s2)
                        for seq in ([p],) if tier == "quick" else ([p], [GOOD, p]):
                            cases.append(make_case(rng, cid, kind, seq)); cid += 1
    # SUKF: measurement size not a multiple of the sub-size, with and without other faults
    for p in [GOOD, bits("M"), bits("P"), bits("I"), bits("N")]:
        for seq in ([p], [GOOD, p]):
            for _ in range(reps):
                m, sub = rng.choice([(3, 2), (2, 3), (1, 2)])
                cases.append(make_case(rng, cid, "sukf", seq, dims=(rng.randint(1, 4), m, rng.randint(1, 4)), sub=sub)); cid += 1
    return cases


# ------------------------------------------------------------------ evaluation

def word(rec, name):
    v = rec.get(name)
    if v is None:
        return None
    return [t for t in v if t != "-"]


def collapse(l):
    out = []
    for t in l or []:
        if not out or out[-1] != t:
            out.append(t)
    return out


def hazard_shape(c):
    return int(c.meta["m"]) != 1 or int(c.meta["comps"]) > 1


def expected_crash(c, model):
    """(step, phase) at which the model predicts an abnormal end.  None at HEAD: the two places that could abort
    (additive unscented transform post-processing GaussianMixture() after a failed evaluation; getLikelihood evaluating
    stale innovations_ against a default predicted_meas_) were repaired by 49d7ed0 / 201e1b4 and the model follows the
    repaired code (the old transcription is C12_Regress.v)."""
    return None


def crash_point(impl):
    """(step, phase) at which the implementation's record ends, if it crashed."""
    if impl.get("crashed") != 1:
        return None
    k = 0
    while impl.has("lik_valid%d" % k):
        k += 1
    if impl.has("lik_begin%d" % k):
        return (k, "lik")
    return (k, "correct")

INNER_CONSULTED = {"kf": "MPIN", "ukfgen": "MPI", "ukfadd": "MPI"}


def unusable(c, p):
    """(tag, cannot_use, lik_must_fail): which calls the class honours fail in step pattern p.
    For GPF the pattern may have two phases (wrapped correction / likelihood)."""
    kind = c.kind
    p1, p2 = p[:6], (p[6:12] if len(p) >= 12 else p[:6])
    bit = lambda q, s: q[SITES.index(s)] == "1"
    if kind.startswith("gpf_"):
        _, inner, lik = kind.split("_")
        fi = "".join(s for s in INNER_CONSULTED[inner] if bit(p1, s))
        fl = "".join(s for s in ("L" if lik == "custom" else "MPIN") if bit(p2, s))
        return "fail=%s/%s" % (fi or "-", fl or "-"), bool(fi or fl), bool(fl)
    failing = "".join(s for s in CONSULTED[kind] if bit(p1, s))
    mismatch = kind == "sukf" and int(c.meta["m"]) % int(c.meta["sub"]) != 0
    tag = "fail=%s" % (failing or ("size-mismatch" if mismatch else "none"))
    lik_sites = "L" if kind.endswith("_custom") else "MPIN"
    return tag, bool(failing) or mismatch, any(bit(p1, s) for s in lik_sites)


def compare(c, impl, model):
    d = []
    kind = c.kind
    steps = int(c.meta["steps"])
    exp, got = expected_crash(c, model), crash_point(impl)
    if exp != got:
        d.append("crash point: impl %s (%s %s), model predicts %s" % (got, impl.get("crash_kind"), impl.get("crash_cond"), exp))
    last = steps if got is None else got[0] + (1 if got[1] == "lik" else 0)
    if kind == "sis":
        ev = [t for t in word(model, "events") if t in ("F", "C")]
        if ev != [t for t in word(impl, "log0") if t in ("F", "C")]:
            d.append("events: impl %s model %s" % (word(impl, "log0"), ev))
        ident = model.get("g0") == ["predG0"] and model.get("s0") == ["predS0"]
        if (impl.get("ident0") == 1) != ident:
            d.append("ident0: impl %s model %s" % (impl.get("ident0"), ident))
        return d
    lik_terms = {}
    for k in range(last):
        ks = str(k)
        full = got is None or k < got[0]
        if collapse(word(impl, "log" + ks)) != collapse(word(model, "log" + ks)):
            d.append("log%s: impl %s model %s" % (ks, word(impl, "log" + ks), word(model, "log" + ks)))
        if kind != "gl":
            mg = model.get("g" + ks) == ["predG" + ks]
            if (impl.get("ident_g" + ks) == 1) != mg:
                d.append("ident_g%s: impl %s model term %s" % (ks, impl.get("ident_g" + ks), model.get("g" + ks)[0][:60]))
            if kind in PF:
                ms = model.get("s" + ks) == ["predS" + ks]
                if (impl.get("ident_state" + ks) == 1) != ms:
                    d.append("ident_state%s: impl %s model term %s" % (ks, impl.get("ident_state" + ks), model.get("s" + ks)[0][:60]))
        if not full:
            continue
        if impl.get("lik_valid" + ks) != model.get("lik_valid" + ks):
            d.append("lik_valid%s: impl %s model %s" % (ks, impl.get("lik_valid" + ks), model.get("lik_valid" + ks)))
        if collapse(word(impl, "liklog" + ks)) != collapse(word(model, "liklog" + ks)):
            d.append("liklog%s: impl %s model %s" % (ks, word(impl, "liklog" + ks), word(model, "liklog" + ks)))
        lt, lv = model.get("lik" + ks)[0], impl.get("lik" + ks)
        if lt == "zero1" and not (lv is not None and lv.shape == (1, 1) and lv[0, 0] == 0.0):
            d.append("lik%s: model says Zero(1), impl %s" % (ks, None if lv is None else lv.shape))
        if lt == "empty" and not (lv is not None and lv.size == 0):
            d.append("lik%s: model says empty, impl %s" % (ks, None if lv is None else lv.shape))
        # equal terms => equal bits (stale values are literally the earlier values)
        if lt in lik_terms and lv is not None:
            lv0 = lik_terms[lt]
            if lv0.shape != lv.shape or lv0.tobytes() != lv.tobytes():
                if not (np.isnan(lv0).all() and np.isnan(lv).all()):
                    d.append("lik%s: model term equals an earlier step's, impl values differ" % ks)
        elif lv is not None:
            lik_terms[lt] = lv
    if kind == "kf" and impl.has("mean0") and model.has("num_mean"):
        # the numerical KF instance of the same skeleton, step 0: identity is exact, the update to rounding
        p0 = c.get("pat")[0]
        exact = fails(p0, "MPIN")
        tol = 0.0 if exact else 1e-9
        for a, b in (("mean0", "num_mean"), ("cov0", "num_cov"), ("w0", "num_w")):
            x, y = impl.get(a), model.get(b)
            y = y.reshape(x.shape) if y.size == x.size else y
            scale = max(1.0, float(np.max(np.abs(x)))) * 1e3
            if x.shape != y.shape or not caseio.close(x, y, tol * scale, 0.0):
                d.append("%s vs numerical model: max diff %.3g" % (a, caseio.maxdiff(x, y)))
        if model.get("num_lik_valid") != impl.get("lik_valid0"):
            d.append("lik_valid0 vs numerical model")
        elif model.get("num_lik_valid") == 1 and not caseio.close(impl.get("lik0"), model.get("num_lik"), 1e-300, 1e-6):
            d.append("lik0 vs numerical model")
    return d


def oracle(c, impl, model):
    """The property evaluated on the implementation alone."""
    v = []
    kind, pats = c.kind, c.get("pat")
    cons = CONSULTED[kind]
    got = crash_point(impl)
    steps = int(c.meta["steps"])
    last = steps if got is None else got[0] + (1 if got[1] == "lik" else 0)
    if kind == "sis":
        p = pats[0]
        if p[4] == "1":
            if impl.get("correct_calls") != 0:
                v.append(("C12:sis:correction-attempted-after-failed-freeze", "correct() called %s time(s)" % impl.get("correct_calls")))
            if impl.get("ident0") != 1:
                v.append(("C12:sis:belief-changed-after-failed-freeze", "cor_particle_ != pred_particle_"))
        return v
    had_success = False
    for k in range(last):
        ks, p = str(k), pats[k]
        tag, cannot_use, lik_must_fail = unusable(c, p)
        full = got is None or k < got[0]
        if cannot_use:
            STATS["steps_checked_identity"] += 1
            if kind == "gl":
                if impl.get("lik_valid" + ks) != 0:
                    v.append(("C12:gl:value-reported:%s" % tag, "GaussianLikelihood reported a value"))
            else:
                if impl.get("ident" + ks) != 1:
                    parts = [q for q in ("mean", "cov", "w", "shape", "state") if impl.get("ident_%s%s" % (q, ks)) == 0]
                    if kind.startswith("gpf_") and not lik_must_fail:
                        # refuted on the model: C12_gpf_inner_failure_refuted
                        sig = "C12:%s:belief-changed:wrapped-correction-fails+likelihood-valid" % kind
                    else:
                        sig = "C12:%s:belief-changed:%s" % (kind, tag)
                    v.append((sig, "step %d (%s): corrected belief differs from the predicted one in %s" % (k, tag, parts)))
                if impl.get("pred_unchanged" + ks) != 1:
                    v.append(("C12:%s:predicted-belief-modified:%s" % (kind, tag), "step %d" % k))
                if full and had_success and kind in GAUSS_MEMBERS:
                    STATS["likelihood_failure_checked_after_success"] += 1
                if full and impl.get("lik_valid" + ks) == 1:
                    if kind in GAUSS_MEMBERS:
                        sig = "C12:%s:stale-likelihood:%s" % (kind, "failed-correction-after-success" if had_success else "fresh-object")
                        v.append((sig, "step %d (%s): getLikelihood() reports a valid likelihood although this correction could not "
                                       "use the measurement" % (k, tag)))
                    elif lik_must_fail:
                        v.append(("C12:%s:likelihood-valid-after-unusable-measurement:%s" % (kind, tag), "step %d" % k))
        elif full and kind != "gl" and impl.get("lik_valid" + ks) == 1:
            had_success = True
    if got is not None:
        k, phase = got
        p = pats[k]
        if phase == "lik" and kind in GAUSS_MEMBERS:
            v.append(("C12:%s:stale-likelihood:getLikelihood-aborts" % kind,
                      "step %d (%s): getLikelihood() after a correction that could not use the measurement ended abnormally: %s %s at %s"
                      % (k, unusable(c, p)[0], impl.get("crash_kind"), impl.get("crash_cond"), impl.get("crash_where"))))
        else:
            v.append(("C12:%s:crash:%s" % (kind, impl.get("crash_entry", ["?"])[0]),
                      "step %d: %s %s at %s" % (k, impl.get("crash_kind"), impl.get("crash_cond"), impl.get("crash_where"))))
    return v


def nontrivial(c):
    pats = c.get("pat")
    if any(unusable(c, p)[1] for p in pats):
        return (c.kind, c.meta["seq"], c.meta["n"], c.meta["m"], c.meta["comps"])
    return None


def histogram(cases):
    h = {}
    for c in cases:
        h[c.kind] = h.get(c.kind, 0) + 1
    seqlen = {}
    for c in cases:
        seqlen[c.meta["steps"]] = seqlen.get(c.meta["steps"], 0) + 1
    return {"class": h, "steps": seqlen,
            "steps_with_unusable_measurement_checked": STATS["steps_checked_identity"],
            "getLikelihood_failure_checked_after_an_earlier_success": STATS["likelihood_failure_checked_after_success"]}


LEVEL_TEXT = ("Proof: the control skeletons of KFCorrection, UKFCorrection (both constructors, with the measurement overloads of the unscented "
              "transform), SUKFCorrection, GaussianLikelihood, BootstrapCorrection, GPFCorrection and SIS::filtering_step are proved, for every "
              "fault pattern (a function from call site to bool), every belief and every numerical routine (function parameters), to return the "
              "whole predicted object whenever a call the class honours reports unavailability, with the exact call log (always the prefix up to the "
              "first failing call), and getLikelihood to report failure after any such correction whatever preceded it; with no fault the KF "
              "skeleton is C01's kf_correct. One statement is refuted on the faithful model with witnesses and is a known finding (GPFCorrection "
              "does not notice that the wrapped correction could not use the measurement when the likelihood model reports a value).")
LEVEL_NOTE = ("Trusted: Coq kernel, extraction + driver, the harness's fault-injecting doubles; numerical routines are abstract here (C01/C04/C05/C08); "
              "the tie to the code is sampled over all subsets of failing calls per class x random beliefs x call sequences.")
