"""C08 — Gaussian particle filter: beliefs and importance weights (DESIGN.md §5 C08)."""
import math
import os
import re
import numpy as np
import scipy.linalg
from vlib import caseio, gen, runner

ID = "C08"
COQ_TARGETS = ["C08_Extract.vo", "C08_Proofs.vo", "C08_Real.vo", "C08_TV.vo", "C08_LDLTDef.vo", "C08_LDLT.vo"]
COQ_PREFIXES = ["C08", "C01"]
EXTRACTED = "C08_model"
DRIVER = "drv_C08.ml"
HARNESS = "h_C08.cpp"
VARIANTS = {"quick": ["O1", "assert"], "thorough": ["O1", "assert", "asan"]}
AXIOMS_ALLOWED = runner.REAL_AXIOMS     # only the product-form theorems (over R) use them; the others are axiom-free
MODEL_NEEDS_IMPL = True                  # the standard-normal draws logged by the harness are inputs of the model
TIMEOUT = 1500
REQUIRED_THEOREMS = ["C08_predict_frame", "C08_predict_beliefs", "C08_correct_beliefs", "C08_correct_positions",
                     "C08_correct_likelihood_on_drawn", "C08_weight_formula", "C08_weight_product_form",
                     "C08_invalid_restores", "C08_mahalanobis", "C08_multi_step", "C08_multi_step_time_varying", "C08_no_hidden_memory",
                     "C08_stepwise_trace", "C08_executed_trace_time_varying", "C08_kf_conjugate_beliefs", "C08_kf_mahalanobis",
                     "C08_weights_telescope", "C08_ldlt_sqrt_contract", "C08_ldlt_sqrt_contract_mx", "C08_mahalanobis_proved", "C08_kf_mahalanobis_proved",
                     "C08_unscented_steps_shape_ok", "C08_gauss_lik_length", "C08_pf_trace_noskip", "C08_pf_skip_correction",
                     "C08_draws_from_own_generator", "C08_draw_touches_own_generator_only",
                     "C08_move_assign_transfers_likelihood_model", "C08_fresh_reports_invalid",
                     "C08_pre_fix_draws_from_own_generator_refuted", "C08_pre_fix_fresh_likelihood_invalid_refuted", "C08_pre_fix_move_assign_refuted"]
# The 9 obligations about rs_step / rs_run (object-lifetime state machine) are a separate group: that model is not extracted;
# it is tied to the code by the scripted scenarios of the harness kinds gpf_fresh / gpf_moved only.
LIFETIME_THEOREMS = ["C08_draws_from_own_generator", "C08_draw_touches_own_generator_only", "C08_move_construct",
                     "C08_move_assign_transfers_likelihood_model", "C08_fresh_reports_invalid", "C08_reported_validity_defined",
                     "C08_pre_fix_draws_from_own_generator_refuted", "C08_pre_fix_fresh_likelihood_invalid_refuted", "C08_pre_fix_move_assign_refuted"]
RULE = ("cases from one seeded stream: n in 1..4 and 6 (2, 4, 6 with the library's WhiteNoiseAcceleration OneD/TwoD/ThreeD as transition model), m in 1..3, "
        "N in 1..30 particles, 1..5 steps on the two persistent buffers and ONE GPFPrediction / GPFCorrection object pair (one likelihood model, one wrapped "
        "prediction / correction, one transition model for the whole history); wrapped steps KFPrediction/KFCorrection, UKFPrediction/UKFCorrection (additive), "
        "UKFPrediction/SUKFCorrection; measurement function linear or nonlinear (C05's family: + g sin(Gx), + g (Gx)(G2x)) for the unscented steps; "
        "TIME-VARYING HISTORIES (70% of the histories of 2+ steps): every operand a model may report differently at a later call is redrawn from step to step in a "
        "random non-empty subset of the groups {F,Q of the prediction's state model | H | R | G,G2,b,g | Ft,Qt of the transition model | scale factor of the likelihood}, "
        "a quarter of them (KF / UKF) also change the measurement SIZE between steps; the measurement y_k always changes; the rest keep constant operands; "
        "H random / rank-deficient / selector / zero, SPD P_i, Q, R with chosen condition numbers (P_i up to 10^4.5), one case in 20 with rank-deficient beliefs "
        "and no / rank-deficient process noise (outside the domain spd P: counted); transition model linear-Gaussian (same as or different from the prediction "
        "model) / WNA / Cauchy-like; likelihood model bfl::GaussianLikelihood or a model of the harness that does not consult the measurement model's validity; "
        "per step scripted validity of measure / predictedMeasure / innovation / getNoiseCovarianceMatrix and of the likelihood model, skip flags of PFPrediction, "
        "GaussianPrediction, PFCorrection, GaussianCorrection; outlier measurements and far-off positions (densities in the underflow range), 32-bit seeds, "
        "likelihood scale factors incl. 0; likelihood models returning one value too many / too few (the latter under Eigen assertions only); "
        "PHYSICAL UNITS PER COORDINATE: 60% of the histories with Kalman steps and a linear-Gaussian transition model (n = 1..4; about 15% of all histories) are rewritten "
        "x -> D x, y -> E y consistently in means, positions, covariances, F, Q, H, R, Ft, Qt, y (the exponents of D span up to 16 orders of magnitude - one coordinate "
        "6..16 orders above or below a cluster of mutually correlated others, two clusters, evenly graded, mild -, those of E up to 6 orders; one case in three with powers "
        "of two): per coordinate the problem is as well posed as before, the covariances have entries spread over up to 32 orders, and about 1700 particle-steps per quick "
        "run have a corrected belief with correlated coordinates that any test relative to its largest entry (Eigen's isDiagonal(), a relative rank cut-off) calls diagonal; "
        "these histories are compared and judged in unit coordinates (D^-1 x: every entry against the size of its own coordinate; conditioning of D^-1 P D^-1); "
        "not rewritten (counted under 'unit coordinates'): unscented steps (Eigen's two-sided Jacobi SVD factor is accurate relative to the largest entry only), the "
        "library's WhiteNoiseAcceleration (fixed parameters) and the Cauchy-like density (not homogeneous); "
        "DEEP TAILS: 30% of the Kalman / linear-Gaussian histories (about 7% of all) start with a measurement 20..40 standard deviations from the predicted one and "
        "previous positions as far from where the transition model puts them, placed so that ln(likelihood) and ln(transition density) are each in about [-690, -300] "
        "(ordinary doubles) while their sum is below ln(DBL_MIN) = -708.4 (several hundred such particle-steps per quick run, counted): the log-weight is judged in "
        "the log domain, both from the densities the implementation returned and from log-densities computed by the oracle, each density floored separately by eps as the code does; "
        "CALLBACK RE-ENTRANCY: 20% of the histories are run with an independent twin particle-filter step (own GPFPrediction / GPFCorrection objects, own models "
        "serving other operands of the same shapes, own particle sets, own random generator with another seed) executed inside EVERY callback of the subject's state, "
        "measurement, likelihood and transition models; the expected results are unchanged (hidden state shared between objects: function-local statics, globals); "
        "lifetime cases (getLikelihood() on a fresh object constructed in 0xFF-filled storage; move construction + destruction of the source; move-assignment chain "
        "a2 = move(a1); a1 = move(a3) compared with never-moved reference objects); "
        "non-trivial = N >= 2 and at least one valid correction; distinct by (n, m, N class, steps, tkind, wrap, hkind, likkind, validity/skip pattern, cond decade, "
        "set of operand groups that change, pattern of the units)")
TRUSTED_BASE = ["Coq 8.16.1 kernel (coqc); structural, Mahalanobis and C01-composition theorems are axiom-free; the product form of the weight update "
                "is over Coq's R and uses the four real-number axioms of the standard library (sig_forall_dec, sig_not_dec, functional_extensionality_dep, classic)",
                "MathComp 1.15 matrix theory",
                "extraction (ExtrOcamlBasic only) and ocaml/float_ops.ml, ocaml/drv_C08.ml, ocaml/caseio.ml; the driver supplies only the square-root oracle of "
                "the unscented steps (a Jacobi factor equivalent to Eigen's U sqrt(S)) and the mapping of positions through another factor; the LDL^T square root of "
                "the proposal draws is Gallina (C08_Model.ldlt_sqrt, extracted)",
                "C05_Model (per-component additive UKF / SUKF correction, measurement family) as imported wrapped steps",
                "ListOps list instance of MatOps (structural operations and Gauss-Jordan inverse/determinant, unproved)",
                "cpp/h_C08.cpp harness (logs the draws by wrapping the protected gaussian_random_sample_, cross-checked against a mirror mt19937_64; observes the "
                "library's square-root factor by feeding unit vectors through gaussian_random_sample_ into sampleFromProposal(0, P))",
                "the model is run ONE STEP AT A TIME from the state the implementation reported before the step (C08_stepwise_trace: the trace of a history is the "
                "concatenation of such one-step traces; every field of the reported state has itself been compared): both sides compute each step from identical inputs",
                "comparison tolerances: predicted beliefs (and beliefs copied by an invalid / skipped correction) rtol 1e-9*cond (cond = worst condition number along the "
                "linear recursion of the case); corrected means and covariances, positions, square-root factor, log-likelihood, log-proposal (with |z|^2/2 taken out) and log-weights per particle and step: 64 eps times a conditioning unit "
                "DERIVED from the implementation's own predicted / corrected belief of that particle (first-order error analysis of one step, props/C08.py 'conditioning "
                "of ONE step': cond(S) |Pp| / lmin(Pc) cancellation of the gain update, Cholesky perturbation, unscented weights and deviation cancellation, asymmetry "
                "of the covariance, near-coincident eigenvalues under a nonlinear h, gradients of the log-densities times the position error; for a history in other "
                "units per coordinate everything is evaluated in unit coordinates and the condition number of every matrix the code inverts by an LU factorisation with "
                "partial pivoting - S, R, Qt, P: Eigen's dynamic-size inverse() / determinant(), and the model's Gauss-Jordan - is multiplied by the growth "
                "|D^-1 P|L||U| D^-1| / |D^-1 A D^-1| of that factorisation of the matrix AS THE CODE SEES IT, median 1.3, p99 80, Higham Thm 9.3); calibrated: worst "
                "|impl-model| / (eps unit) over 5140 thorough + 12 000 widened histories = 2.5 (corrected mean; covariance 2.4, likelihood 1.5, factor 1.2; allowed 64), "
                "recorded by every run ('tolerance_units', 'worst_ratio_cases'); particles whose allowed log-domain difference would exceed 0.02, or whose allowed "
                "relative belief difference would exceed 1e-3, are ill-conditioned at that step: not compared, counted; spec formulae on the implementation 1e-11 * cond of the matrix inverted plus the derived "
                "cancellation term of the differences x - m, y - h(x), x - Ft xp; weight identity 4e-15 * sum |terms|",
                "the lifetime state machine rs_* is not extracted: tied to the code by scripted scenarios only",
                "correspondence is sampled: agreement is established on the generated cases only",
                "IEEE rounding is not modelled (theorems over exact fields)"]
ASSUMPTIONS = ["std::normal_distribution<double>(0,1) over std::mt19937_64 yields independent standard-normal variates: with the proved Mahalanobis identity "
               "(x-m)^T P^-1 (x-m) = z^T z this gives the chi-square(n) law of the squared Mahalanobis distances; supported (not proved) by Kolmogorov-Smirnov tests "
               "(pooled over all cases in both tiers, per case in the thorough tier; a finding only at p < 1e-6)",
               "domain: the corrected covariances are symmetric positive definite (premise spd P of the Mahalanobis / proposal-density theorems). With a singular "
               "belief the proposal density does not exist; the library then reports valid = 1 with NaN / inf log-weights (det = 0 in utils.h:303). Such particles "
               "are generated, detected on the implementation's c_cov (condition number > 1e12) and counted, not judged",
               "std::sqrt meets 0 <= x -> sqrt x * sqrt x = x up to rounding (the only premise left of the square-root factor: L L^T = P is PROVED for the Gallina "
               "ldlt_sqrt - pivoting included - for every symmetric positive definite P, at the executed list instance and at the MathComp instance: "
               "C08_ldlt_sqrt_contract, C08_ldlt_sqrt_contract_mx, hence C08_mahalanobis_proved / C08_kf_mahalanobis_proved without a premise on the factor); still "
               "checked at run time on the library's own factor (observed through sampleFromProposal; in unit coordinates, 1e-12 * cond(D^-1 P D^-1)) on every valid "
               "particle and against the model's factor: that check now measures rounding and the transcription, not an assumption",
               "the wrapped Gaussian step and the object it writes have the same number of components as its input (shape premise of the theorems; proved for the "
               "KF / UKF / SUKF / skipping steps of the model on equally shaped buffers)",
               "the likelihood model returns one value per position and the transition model one value per pair (length premises of C08_weight_formula; proved for "
               "GaussianLikelihood and the linear-Gaussian transition; a model returning fewer values makes GPFCorrection.cpp:129 read out of bounds - exercised under "
               "Eigen assertions), with non-negative values (premise of the product form)",
               "Eigen inverse()/determinant() behave as matrix inverse/determinant up to rounding; Eigen's jacobiSvd factor of the unscented steps is determined up to "
               "column order and sign (distinct singular values)"]

# Lifetime kinds (Properties_C08.v, "lifetime" section): gpf_fresh (getLikelihood() before the first correction) and
# gpf_moved (move construction followed by destruction of the source; move-assignment chain with every object alive).
# Always generated, in both tiers: they pass on HEAD (fix commits d193577, 57c1b76) and catch a revert of either commit.
SIG_MOVED = "C08:moved-object-draws-from-moved-from-object"
SIG_FRESH = "C08:getLikelihood-valid-before-first-correction"
SIG_ASSIGN_GEN = "C08:move-assigned-object-draws-from-another-generator"
SIG_ASSIGN_LIK = "C08:move-assign-keeps-old-likelihood-model"
LIFETIME_COUNT = {"quick": 12, "thorough": 20}

COUNTS = {"quick": 2000, "thorough": 5000}
DEEP_SHARE = 0.3            # share of the Kalman / linear-Gaussian histories whose first step is deep in the tails of both densities
INTRUDE_SHARE = 0.2         # share of the histories run with a twin filter step inside every model callback (h_C08.cpp)
UNITS_SHARE = 0.6           # share of the Kalman / linear-Gaussian histories that are rewritten in other units per coordinate
KS_CASES = {"quick": 0, "thorough": 60}
BADLIK_CASES = {"quick": 24, "thorough": 40}
EPS = 2.2250738585072014e-308
UNDERFLOW = 1e-305          # Eigen's vectorised exp floors at 5.56e-309 where libm underflows to 0 (and is inexact on denormals)
SINGULAR = 1e12             # a covariance with a larger condition number is outside the domain spd P
_stats = {"other_factor_steps": 0, "underflow_particles": 0, "singular_belief_particles": 0, "nan_weight_with_valid_on_singular": 0,
          "ill_conditioned_particle_steps": 0, "compared_particle_steps": 0,
          "belief_ill_conditioned": 0, "deep": {}, "intruder": {}, "growth": [], "units_compared": 0, "units_ill_conditioned": 0, "units_diag_like": {},
          "tol_lw": [], "d2": {}, "ratios": {"lik": [], "q": [], "lw": [], "L": [], "x": [], "zz": [], "mc": [], "Pc": []}, "last_id": None, "pooled_done": False, "badlik_short_asserted": 0}


# ------------------------------------------------------------------ generation

def stable_F(rng, n):
    kind = rng.choice(["rot", "random", "identity", "wna-like"])
    if kind == "rot":
        return gen.orthogonal(rng, n) * rng.uniform(0.6, 1.05), kind
    if kind == "random":
        A = gen.matrix(rng, n, n)
        return A / max(1.0, np.max(np.abs(np.linalg.eigvals(A)))) * rng.uniform(0.5, 1.0), kind
    if kind == "identity":
        return np.eye(n), kind
    A = np.eye(n)
    for i in range(0, n - 1, 2):
        A[i, i + 1] = rng.uniform(0.1, 1.0)
    return A, kind


def wna(T, q, blocks):
    F2 = np.array([[1.0, T], [0.0, 1.0]])
    Q2 = np.array([[T ** 3 / 3.0, T ** 2 / 2.0], [T ** 2 / 2.0, T]]) * q
    F = np.kron(np.eye(blocks), F2); Q = np.kron(np.eye(blocks), Q2)
    return F, Q


def h_eval(hkind, H, G, G2, b, g, X):
    out = H @ X + b
    if hkind == 1:
        out = out + g * np.sin(G @ X)
    elif hkind == 2:
        out = out + g * (G @ X) * (G2 @ X)
    return out


def h_jac(hkind, H, G, G2, g, x):
    """Jacobian of the measurement function at the column vector x."""
    J = H.copy()
    if hkind == 1:
        J = J + (g * np.cos(G @ x)) * G
    elif hkind == 2:
        J = J + (g * (G2 @ x)) * G + (g * (G @ x)) * G2
    return J


TV_GROUPS = ("FQ", "H", "R", "hfun", "trans", "scale")
TV_NAMES = ("F", "Q", "H", "G", "G2", "b", "g", "R", "Ft", "Qt", "scale")


def stepval(c, name, k):
    """Operand of step k: mat "<name>_<k>" when the case has it, mat "<name>" otherwise (harness: stepmat, driver: sm)."""
    nk = "%s_%d" % (name, k)
    return c.get(nk) if c.has(nk) else c.get(name)


def step_ops(c, k):
    o = {nm: stepval(c, nm, k) for nm in TV_NAMES}
    o["scale"] = float(o["scale"][0, 0])
    o["y"] = c.get("ys")[:o["H"].shape[0], k]
    return o


# ---- physical units -------------------------------------------------------------------------------------------------------
# A history is first drawn in "unit" coordinates (every state / measurement coordinate of order 1, conditioning chosen), then
# rewritten for a state measured in other units per coordinate, x -> D x, and a measurement in other units, y -> E y:
#   means, positions D.; covariances, Q, Qt  D . D;  F, Ft  D . D^-1;  H  E . D^-1;  R  E . E;  y  E. ;  log-weights unchanged;
# likelihoods are divided by det E, transition / proposal densities by det D.  Per coordinate the problem is as well posed as
# before (the posterior in the new units is the old one rewritten), but the covariances now have entries spread over up to 32
# orders of magnitude: anything the code decides from the SIZE of an entry relative to another coordinate's (a relative
# "is zero" / "is diagonal" test, a rank cut-off, a pivot threshold) decides differently.  The exponents of D follow patterns:
#   dominant  one coordinate 6..16 orders above a cluster of the others (the others are mutually correlated: a covariance that
#             is "diagonal" for any test relative to its largest entry, e.g. Eigen's isDiagonal(), once the gap exceeds ~12.5)
#   tiny      one coordinate 6..16 orders below the others;     clusters  two groups;     graded  evenly spread over 2..16 orders
#   mild      at most 2 orders.        One case in three uses powers of two (the rewriting is then exact).
UNIT_PATTERNS = ("dominant", "dominant", "dominant", "graded", "tiny", "clusters", "mild")


def draw_units(rng, n, mmax):
    pat = rng.choice(UNIT_PATTERNS)
    w = rng.uniform(0.0, 3.0)
    if pat in ("dominant", "tiny"):
        gap = rng.uniform(12.0, 16.0 - w) if rng.random() < 0.6 else rng.uniform(6.0, 12.0)
        u = [rng.uniform(0.0, w) for _ in range(n)]
        j = rng.randrange(n)
        u[j] = (w + gap) if pat == "dominant" else -gap
    elif pat == "clusters":
        gap = rng.uniform(4.0, 16.0 - w)
        hi = set(rng.sample(range(n), max(1, n // 2)))
        u = [rng.uniform(0.0, w / 2) + (gap + w / 2 if i in hi else 0.0) for i in range(n)]
    elif pat == "graded":
        span = rng.uniform(2.0, 16.0)
        u = [span * i / max(1, n - 1) for i in range(n)]
        rng.shuffle(u)
    else:
        u = [rng.uniform(0.0, 2.0) for _ in range(n)]
    mid = (max(u) + min(u)) / 2.0 + rng.uniform(-3.0, 3.0)
    u = [x - mid for x in u]
    ue = [0.0] * mmax if rng.random() < 0.3 else [rng.uniform(-3.0, 3.0) for _ in range(mmax)]
    if rng.random() < 0.33:
        d = np.array([2.0 ** round(x * math.log2(10.0)) for x in u]); e = np.array([2.0 ** round(x * math.log2(10.0)) for x in ue])
    else:
        d = np.array([10.0 ** x for x in u]); e = np.array([10.0 ** x for x in ue])
    return d, e, pat, max(u) - min(u)


def _scales(name, shape, d, e):
    """(row factors, column factors) of the field `name` (of a case or of an output record) under x -> diag(d) x,
    y -> diag(e) y; None for a quantity that is not rewritten (log-weights, draws, densities, flags)."""
    n = len(d); R, C = shape
    mt = re.match(r"^(?:sep_)?[pc]\d*_(state|mean|cov)$", name)
    if mt:
        sc = (d, np.tile(d, C // n) if mt.group(1) == "cov" else np.ones(C))
    elif re.match(r"^L\d+$", name):
        sc = (d, np.ones(C))
    else:
        base = re.sub(r"_\d+$", "", name)
        if base in ("F", "Ft"):
            sc = (d, 1.0 / d)
        elif base in ("Q", "Qt"):
            sc = (d, d)
        elif base == "H":
            sc = (e[:R], 1.0 / d)
        elif base in ("G", "G2"):
            sc = (np.ones(R), 1.0 / d)
        elif base == "b":
            sc = (e[:R], np.ones(C))
        elif base == "R":
            sc = (e[:R], e[:C])
        elif base == "ys":
            sc = (e[:R], np.ones(C))
        else:
            return None
    if len(sc[0]) != R or len(sc[1]) != C:
        return None                                # a field of unexpected shape is left as it is (and compared as it is)
    return sc


def _rescale(name, v, d, e, to_unit):
    sc = _scales(name, v.shape, d, e)
    if sc is None:
        return v
    f = np.outer(sc[0], sc[1])                    # (fl(d_i d_j) is symmetric: a symmetric matrix stays exactly symmetric)
    return v / f if to_unit else v * f


def units_of(c):
    """(d, e) of a case written in other units, None for a case in unit coordinates."""
    if not c.has("D"):
        return None
    return np.asarray(c.get("D"), dtype=float).reshape(-1), np.asarray(c.get("E"), dtype=float).reshape(-1)


_views = {}


def _view(obj, d, e):
    """The case / output record rewritten in unit coordinates (x -> D^-1 x, y -> E^-1 y).  Densities stay as they are."""
    hit = _views.get(id(obj))
    if hit is not None and hit[0] is obj:
        return hit[1]
    if isinstance(obj, caseio.Case):
        out = caseio.Case(obj.id, obj.kind, obj.meta)
        out.ops = [(tag, name, _rescale(name, v, d, e, True) if tag == "mat" else v) for tag, name, v in obj.ops]
    else:
        out = caseio.Record(obj.id, obj.kind); out.meta = obj.meta
        for name, (tag, v) in obj.vals.items():
            out.vals[name] = (tag, _rescale(name, v, d, e, True) if tag == "mat" else v)
    if len(_views) > 12:
        _views.clear()
    _views[id(obj)] = (obj, out)
    return out


def _gepp_growth(A, s):
    """Eigen's inverse() / determinant() of a dynamic-size matrix (utils.h:303, KFCorrection.cpp:112) are an LU factorisation
    with PARTIAL pivoting, and so is the Gauss-Jordan routine of the model's list instance.  Its backward error is
    |dA| <= c eps |L||U| (Higham, Accuracy and Stability of Numerical Algorithms, Thm 9.3); for A = diag(s) C diag(s) the rows
    are chosen by the size of s_i |C_ik|, not of |C_ik|, and |L||U| can exceed |A| entry-wise by the ratio of the scales over
    the pivot: rewritten in unit coordinates the error is eps times  g = | diag(s)^-1 P|L||U| diag(s)^-1 | / |C|  (>= 1) instead
    of eps.  g multiplies the condition number of C wherever such an inverse / determinant enters (derived from the matrix the
    implementation factorises, never a constant)."""
    A = np.asarray(A, dtype=float)
    if A.size == 0:
        return 1.0
    if not np.all(np.isfinite(A)):
        return math.inf
    P, L, U = scipy.linalg.lu(A)
    ss = np.outer(s, s)
    den = _nrm(A / ss)
    if not den > 0:
        return math.inf
    g = _nrm((P @ (np.abs(L) @ np.abs(U))) / ss) / den
    return max(1.0, g) if math.isfinite(g) else math.inf


def make_case(rng, cid, n=None, N=None, steps=None, tkind=None, allvalid=False, kind="gpf", wrap=None, singular=False, plain=False, tv=None, units=None):
    if n is None:
        n = rng.choice([1, 2, 2, 3, 4, 4, 6] if not plain else [1, 2, 3, 4])
    m = rng.randint(1, 3)
    N = N or rng.choice([1, 2, 3, rng.randint(4, 12), rng.randint(13, 30)])
    steps = steps or rng.randint(1, 5)
    if tkind is None:
        tkind = rng.choice(["lingauss", "lingauss", "cauchy"] + (["wna%d" % (n // 2)] * 3 if n in (2, 4, 6) else []))
    if n == 6 and not tkind.startswith("wna"):
        n = 3
    wrap = wrap or rng.choice(["kf"] * 6 + ["ukf"] * 3 + ["sukf"] * 2)
    hkind = 0 if (wrap == "kf" or plain) else rng.choice([0, 1, 1, 2])
    likkind = "gaussian" if (plain or rng.random() < 0.8) else "indep"
    # TIME-VARYING HISTORY: which operand groups change from step to step on the one GPFPrediction / GPFCorrection object
    # (a group that varies is redrawn at each later step with probability 0.7, else keeps the value of the step before).
    # Everything a model may report differently at a later call is varied, so that any quantity an object derives from an
    # earlier call (an inverse, a determinant, a gain, a transition matrix, a scale) is stale at some generated step.
    if tv is None:
        tv = (not plain) and steps >= 2 and rng.random() < 0.7
    vary = set()
    if tv:
        vary = {gname for gname in TV_GROUPS if rng.random() < 0.5}
        if not vary:
            vary = {rng.choice(TV_GROUPS)}
        if tkind.startswith("wna"):
            vary.discard("trans")                    # the library's WhiteNoiseAcceleration has fixed parameters
        if hkind == 0:
            vary.discard("hfun")
        if not vary:
            vary = {"R"}
    mvar = bool(tv and wrap in ("kf", "ukf") and rng.random() < 0.25)    # the measurement SIZE changes too (H, R, hfun redrawn with it)
    # callback re-entrancy: an independent twin filter step (own objects, models, data, generator) runs inside every model callback
    intrude = 1 if (kind == "gpf" and rng.random() < INTRUDE_SHARE) else 0
    meta = {"n": n, "m": m, "N": N, "steps": steps, "tkind": tkind, "wrap": wrap, "hkind": hkind, "likkind": likkind, "singular": int(singular), "intrude": intrude}
    c = caseio.Case(cid, kind, meta)
    if wrap == "ukf":
        c.mat("ut", [[rng.uniform(0.6, 1.0), rng.choice([0.0, 2.0]), rng.choice([0.0, 1.0, 3.0 - n if n < 3 else 0.0])]])
    elif wrap == "sukf":
        # the serial UKF takes square roots of the covariance weights: parameters with non-negative weights (C05's domain)
        c.mat("ut", [[1.0, 2.0, rng.choice([0.0, 1.0, 2.0])]])

    def draw_Q():
        if singular:
            # rank-deficient beliefs that stay rank-deficient: no (or rank-deficient) process noise
            return np.zeros((n, n)) if rng.random() < 0.5 else gen.psd(rng, n, rank=max(1, n - 1) if n > 1 else 0, cond=10.0) * 0.05
        return gen.spd(rng, n, 10 ** rng.uniform(0, 2), lo=10 ** rng.uniform(-1, 0.3))[0]

    def draw_meas(mk):
        H, hk = gen.measurement_matrix(rng, mk, n)
        return H, hk

    def draw_hfun(mk):
        return (gen.matrix(rng, mk, n, 0.5), gen.matrix(rng, mk, n, 0.5),
                np.zeros((mk, 1)) if wrap == "kf" else gen.matrix(rng, mk, 1, 0.5), gen.matrix(rng, mk, 1, 0.6))

    def draw_R(mk):
        return gen.spd(rng, mk, 10 ** rng.uniform(0, 3), lo=10 ** rng.uniform(-1, 0.5))[0]

    def draw_scale():
        sc = 1.0 if rng.random() < 0.5 else 10 ** rng.uniform(-3, 3)
        if rng.random() < 0.03 and not plain:
            sc = 0.0                                  # every likelihood exactly 0: ln(0 + eps)
        return sc

    # ---- step 0
    F, fk = stable_F(rng, n)
    Q = gen.spd(rng, n, 10 ** rng.uniform(0, 2), lo=10 ** rng.uniform(-1, 0.3))[0]
    same_trans = False
    if tkind.startswith("wna"):
        T, q = rng.uniform(0.4, 1.5), rng.uniform(0.5, 8.0)
        Ft, Qt = wna(T, q, n // 2)
        c.mat("wna", [[T, q]])
        if rng.random() < 0.6:
            F, Q, fk = Ft.copy(), Qt.copy(), "wna"
    elif tkind == "cauchy":
        Ft, Qt = gen.matrix(rng, n, n, 0.7), np.eye(n)
    elif rng.random() < 0.6:
        Ft, Qt = F.copy(), Q.copy(); same_trans = True
    else:
        Ft = stable_F(rng, n)[0]
        Qt = gen.spd(rng, n, 10 ** rng.uniform(0, 2), lo=10 ** rng.uniform(-1, 0.3))[0]
    if singular:
        Q = draw_Q()
    H, hkind_H = draw_meas(m)
    G, G2, b, g = draw_hfun(m)
    R = draw_R(m)
    scale = draw_scale()
    ops = [{"F": F, "Q": Q, "H": H, "G": G, "G2": G2, "b": b, "g": g, "R": R, "Ft": Ft, "Qt": Qt, "scale": scale}]
    # ---- later steps
    for k in range(1, steps):
        o = dict(ops[-1])
        redraw = lambda grp: grp in vary and rng.random() < 0.7
        if redraw("FQ"):
            o["F"] = stable_F(rng, n)[0]
            o["Q"] = ops[0]["Q"] if singular else draw_Q()
            if same_trans and "trans" not in vary and not tkind.startswith("wna"):
                o["Ft"] = o["F"].copy()
                if not singular:
                    o["Qt"] = o["Q"].copy()         # (the transition density needs an invertible Qt)
        mk = o["H"].shape[0]
        if mvar and rng.random() < 0.6:
            mk = rng.randint(1, 3)
        if mk != o["H"].shape[0]:
            o["H"] = draw_meas(mk)[0]; o["G"], o["G2"], o["b"], o["g"] = draw_hfun(mk); o["R"] = draw_R(mk)
        else:
            if redraw("H"):
                o["H"] = draw_meas(mk)[0]
            if redraw("hfun"):
                o["G"], o["G2"], o["b"], o["g"] = draw_hfun(mk)
            if redraw("R"):
                o["R"] = draw_R(mk)
        if redraw("trans"):
            if tkind == "cauchy":
                o["Ft"] = gen.matrix(rng, n, n, 0.7)
            else:
                o["Ft"] = stable_F(rng, n)[0]
                o["Qt"] = gen.spd(rng, n, 10 ** rng.uniform(0, 2), lo=10 ** rng.uniform(-1, 0.3))[0]
        if redraw("scale"):
            o["scale"] = draw_scale()
        ops.append(o)
    mmax = max(o["H"].shape[0] for o in ops)
    # a consistent scenario (so that likelihoods / transition densities are informative, not underflowing):
    # a true trajectory, beliefs and positions scattered around it, measurements of it
    truth = gen.matrix(rng, n, 1, 2.0)
    spread = 10 ** rng.uniform(-1.0, 0.2)
    covs = []
    cond = max([np.linalg.cond(o["R"]) for o in ops] + [np.linalg.cond(o["Qt"]) for o in ops] + ([] if singular else [np.linalg.cond(o["Q"]) for o in ops]))
    for i in range(N):
        if singular and (i % 2 == 0 or rng.random() < 0.5):
            P = gen.psd(rng, n, rank=rng.randint(0, n - 1)) * spread ** 2 if rng.random() < 0.7 else \
                (np.ones((n, n)) if rng.random() < 0.5 else np.diag([1.0] + [0.0] * (n - 1)))
            cp = 1.0
        else:
            P, cp = gen.spd(rng, n, 10 ** rng.uniform(0, 4.5), lo=spread ** 2 * 10 ** rng.uniform(-0.5, 0.5))
        covs.append(P); cond = max(cond, cp)
    means = truth + gen.matrix(rng, n, N, spread)
    states = means + gen.matrix(rng, n, N, 0.7 * spread)
    if rng.random() < 0.1:
        states = means + gen.matrix(rng, n, N, 8.0)      # a few far-off sets: densities near underflow
    w = np.array([rng.random() + 0.05 for _ in range(N)]); lw = np.log(w / w.sum())
    if rng.random() < 0.15:
        lw = lw - rng.uniform(0, 300)          # unnormalised log-weights far from 0
    ys = np.zeros((mmax, steps)); xt = truth
    for k, o in enumerate(ops):
        mk = o["H"].shape[0]
        xt = o["F"] @ xt
        ys[:mk, k:k + 1] = h_eval(hkind, o["H"], o["G"], o["G2"], o["b"], o["g"], xt) + np.linalg.cholesky(o["R"]) @ gen.matrix(rng, mk, 1, 1.0)
    outlier = rng.random() < 0.08
    if outlier:
        # one measurement tens of standard deviations off: likelihoods in the underflow range (ln(0 + eps) is exercised)
        ko = rng.randrange(steps); mk = ops[ko]["H"].shape[0]
        u = gen.matrix(rng, mk, 1, 1.0); u /= np.linalg.norm(u)
        ys[:mk, ko] += (np.linalg.cholesky(ops[ko]["R"]) @ u)[:, 0] * rng.uniform(80, 400)
    pfl = 1.0 if (allvalid or plain) else 0.965
    fl = {k: [1 if rng.random() < pfl else 0 for _ in range(steps)] for k in ("mv", "pv", "iv", "cv")}
    lok = [1 if (allvalid or plain or rng.random() < 0.93) else 0 for _ in range(steps)]
    sk = {k: [0 if (allvalid or plain or rng.random() < 0.96) else 1 for _ in range(steps)] for k in ("skpp", "skgp", "skpc", "skgc")}
    # DEEP TAILS (Kalman steps, linear-Gaussian transition model): at the first step the measurement lies 20..40 standard
    # deviations from the predicted measurement and the previous positions are as far from where the transition model expects
    # them, placed so that for most particles ln(likelihood) and ln(transition density) are each between about -690 and -300
    # - both densities are ordinary doubles - while their SUM is below ln(DBL_MIN) = -708.4: the product of the two densities
    # is not representable.  The log-weight is lw + ln(l + eps) + ln(t + eps) - ln(q + eps), each density floored separately.
    deep = (kind == "gpf" and not plain and not singular and wrap == "kf" and tkind == "lingauss" and hkind == 0
            and float(np.linalg.cond(ops[0]["Ft"])) < 1e3 and rng.random() < DEEP_SHARE)
    if deep:
        o0_ = ops[0]
        for kk in ("mv", "pv", "iv", "cv"):
            fl[kk][0] = 1
        lok[0] = 1
        for kk in sk:
            sk[kk][0] = 0
        if o0_["scale"] == 0.0:
            o0_["scale"] = 1.0
        # similar beliefs, so that one measurement puts most particles in the range
        covs = [covs[0] * rng.uniform(0.8, 1.25) for _ in range(N)]
        means = truth + gen.matrix(rng, n, N, 0.3 * spread)
        mk0 = o0_["H"].shape[0]
        Hm, Rm = o0_["H"], o0_["R"]
        Pp0 = o0_["F"] @ covs[0] @ o0_["F"].T + o0_["Q"]; mp0 = o0_["F"] @ means[:, :1]
        S0 = Hm @ Pp0 @ Hm.T + Rm
        K0 = Pp0 @ Hm.T @ np.linalg.inv(S0)
        u = gen.matrix(rng, mk0, 1, 1.0); u /= np.linalg.norm(u)
        dirn = np.linalg.cholesky(S0) @ u
        want_l = -rng.uniform(380.0, 600.0); want_t = -rng.uniform(380.0, 600.0)
        const_l = (math.log(o0_["scale"]) if o0_["scale"] > 0 else 0.0) - 0.5 * (mk0 * math.log(2 * math.pi) + float(np.linalg.slogdet(Rm)[1]))

        def lnl(sv):
            nu = sv * dirn                       # y - H mp
            r_ = nu - Hm @ (K0 @ nu)             # y - H mc
            return const_l - 0.5 * float((r_.T @ np.linalg.solve(Rm, r_))[0, 0])
        lo_, hi_ = 0.0, 1e6
        for _ in range(80):
            mid_ = 0.5 * (lo_ + hi_)
            if lnl(mid_) > want_l:
                lo_ = mid_
            else:
                hi_ = mid_
        ys[:mk0, 0] = (Hm @ mp0 + lo_ * dirn)[:, 0]
        # previous positions: Ft xp = mc - r Qt^(1/2) u2 with r from the wanted ln t
        const_t = -0.5 * (n * math.log(2 * math.pi) + float(np.linalg.slogdet(o0_["Qt"])[1]))
        r2 = math.sqrt(max(0.0, 2.0 * (const_t - want_t)))
        cq = np.linalg.cholesky(o0_["Qt"])
        states = np.zeros((n, N))
        for i in range(N):
            Ppi = o0_["F"] @ covs[i] @ o0_["F"].T + o0_["Q"]; mpi = o0_["F"] @ means[:, i:i + 1]
            Ki = Ppi @ Hm.T @ np.linalg.inv(Hm @ Ppi @ Hm.T + Rm)
            mci = mpi + Ki @ (ys[:mk0, 0:1] - Hm @ mpi)
            u2 = gen.matrix(rng, n, 1, 1.0); u2 /= np.linalg.norm(u2)
            states[:, i:i + 1] = np.linalg.solve(o0_["Ft"], mci - r2 * rng.uniform(0.9, 1.1) * (cq @ u2))
        outlier = False
    # what the wrapped correction and the likelihood model can use
    gcok = [int(fl["mv"][k] and fl["pv"][k] and fl["iv"][k] and (fl["cv"][k] or wrap != "kf")) for k in range(steps)]
    lflags = {("l%d" % (j + 1)): [(fl[f][k] if likkind == "gaussian" else 1) for k in range(steps)] for j, f in enumerate(("mv", "pv", "iv", "cv"))}
    likok = [int(lok[k] and all(lflags["l%d" % j][k] for j in (1, 2, 3, 4))) for k in range(steps)]
    # conditioning of the linear part of the covariance recursion (exact for hkind 0; an indication otherwise)
    Ps = [P.copy() for P in covs]
    if singular:
        cond = max(cond, 1e6)        # the beliefs themselves are (nearly) singular: only S = H P H^T + R is inverted
    else:
        for k, o in enumerate(ops):
            if not (sk["skpp"][k] or sk["skgp"][k]):
                Ps = [o["F"] @ P @ o["F"].T + o["Q"] for P in Ps]
            cond = max(cond, max(np.linalg.cond(P) for P in Ps))
            if gcok[k] and not sk["skgc"][k] and not sk["skpc"][k] and likok[k]:
                nxt = []
                for P in Ps:
                    S = o["H"] @ P @ o["H"].T + o["R"]
                    cond = max(cond, np.linalg.cond(S))
                    K = P @ o["H"].T @ np.linalg.inv(S)
                    nxt.append(P - K @ S @ K.T)
                Ps = nxt
                cond = max(cond, max(np.linalg.cond(P) for P in Ps))
    pattern = "".join("s" if sk["skpc"][k] else ("v" if likok[k] else "i") for k in range(steps))
    # which groups really differ between two consecutive steps of this history
    changed = set()
    for k in range(1, steps):
        for grp, names in (("FQ", ("F", "Q")), ("H", ("H",)), ("R", ("R",)), ("hfun", ("G", "G2", "b", "g")), ("trans", ("Ft", "Qt")), ("scale", ("scale",))):
            if any(not np.array_equal(np.asarray(ops[k][nm]), np.asarray(ops[k - 1][nm])) for nm in names):
                changed.add(grp)
    if any(ops[k]["H"].shape[0] != ops[0]["H"].shape[0] for k in range(steps)):
        changed.add("m")
    c.meta.update({"fkind": fk, "hmat": hkind_H, "cond": "%.3g" % min(cond, 1e15), "invalid": pattern,
                   "same_trans": int(same_trans or (np.array_equal(F, Ft) and np.array_equal(Q, Qt))), "outlier": int(outlier),
                   "scale0": int(any(o["scale"] == 0.0 for o in ops)), "deep": int(deep),
                   "tv": "+".join(sorted(changed)) if changed else "-"})
    o0 = ops[0]
    c.mat("F", o0["F"]).mat("Q", o0["Q"]).mat("H", o0["H"]).mat("G", o0["G"]).mat("G2", o0["G2"]).mat("b", o0["b"]).mat("g", o0["g"]).mat("R", o0["R"])
    c.mat("Ft", o0["Ft"]).mat("Qt", o0["Qt"])
    c.mat("c_state", states).mat("c_mean", means).mat("c_cov", np.hstack(covs)).mat("c_lw", lw.reshape(-1, 1))
    c.mat("p_state", gen.matrix(rng, n, N, 5.0)).mat("p_mean", gen.matrix(rng, n, N, 5.0))
    c.mat("p_cov", gen.matrix(rng, n, n * N, 5.0)).mat("p_lw", gen.matrix(rng, N, 1, 5.0))
    c.mat("ys", ys)
    for k in ("mv", "pv", "iv", "cv"):
        c.word(k, fl[k])
    c.word("lok", lok).word("gcok", gcok).word("likok", likok)
    for k in ("l1", "l2", "l3", "l4"):
        c.word(k, lflags[k])
    for k in ("skpp", "skgp", "skpc", "skgc"):
        c.word(k, sk[k])
    c.int("seed", rng.getrandbits(32)).mat("scale", [[o0["scale"]]])
    # per-step operands that differ from those of step 0
    for k in range(1, steps):
        for nm in TV_NAMES:
            v0, vk = np.atleast_2d(np.asarray(o0[nm], dtype=float)), np.atleast_2d(np.asarray(ops[k][nm], dtype=float))
            if v0.shape != vk.shape or not np.array_equal(v0, vk):
                c.mat("%s_%d" % (nm, k), vk)
    # ---- other physical units per coordinate (Kalman steps, linear-Gaussian transition model; see draw_units)
    if units is None:
        units = kind == "gpf" and not plain and not singular and wrap == "kf" and tkind == "lingauss" and rng.random() < UNITS_SHARE
    if units and wrap == "kf" and tkind == "lingauss" and not singular:
        d, e, upat, uspan = draw_units(rng, n, mmax)
        c.ops = [(tag, name, _rescale(name, v, d, e, False) if tag == "mat" else v) for tag, name, v in c.ops]
        c.mat("D", [d]).mat("E", [e])
        c.meta["units"] = "%s:%d" % (upat, int(round(uspan)))
    else:
        c.meta["units"] = "-"
    return c


def generate(rng, tier):
    cases = []
    for k in range(COUNTS[tier]):
        cases.append(make_case(rng, k, singular=(k % 20 == 7)))
    # supporting statistics: many particles, every correction valid, one seed per case
    for k in range(KS_CASES[tier]):
        cases.append(make_case(rng, "ks%d" % k, n=1 + k % 4, N=30, steps=5, allvalid=True, kind="gpf_ks", plain=True))
    # a likelihood model that breaks its contract (one value too many: the prefix is used; one too few: out-of-bounds
    # read, exercised only where Eigen's assertions are compiled in)
    for k in range(BADLIK_CASES[tier]):
        c = make_case(rng, "badlik%d" % k, steps=rng.randint(1, 2), allvalid=True, kind="gpf_badlik", plain=True)
        c.int("badlik", 1 if k % 2 == 0 else -1)
        cases.append(c)
    for k in range(LIFETIME_COUNT[tier]):
        cases.append(make_case(rng, "fresh%d" % k, steps=1, allvalid=True, kind="gpf_fresh", wrap="kf", plain=True))
        cases.append(make_case(rng, "moved%d" % k, steps=1, allvalid=True, kind="gpf_moved", wrap="kf", plain=True))
    _stats["last_id"] = cases[-1].id
    return cases


def nontrivial(c):
    if c.kind in ("gpf_fresh", "gpf_moved", "gpf_badlik"):
        return None
    n, m, N, steps = (int(c.meta[k]) for k in ("n", "m", "N", "steps"))
    if N >= 2 and "v" in c.meta["invalid"]:
        ncls = "2-3" if N <= 3 else ("4-12" if N <= 12 else "13-30")
        return (n, m, ncls, steps, c.meta["tkind"], c.meta["wrap"], c.meta["hkind"], c.meta["likkind"], c.meta["invalid"], gen.decade(float(c.meta["cond"])), c.meta.get("tv", "-"),
                str(c.meta.get("units", "-")).split(":")[0])
    return None


# ------------------------------------------------------------------ shared helpers

def _words(c, name):
    return [x != "0" for x in c.get(name)]


def _conds(cov, n):
    """Effective condition numbers of the n x n blocks of a concatenated covariance (inf for a singular / non-finite block).
    The gain updates P - K S K^T leave P symmetric only up to eps * cond(S); the LDL^T reads the lower triangle while the
    density inverts the whole matrix, so the measured relative asymmetry (in units of eps) multiplies the condition number."""
    out = []
    for i in range(cov.shape[1] // n):
        P = cov[:, n * i:n * (i + 1)]
        if not np.all(np.isfinite(P)):
            out.append(math.inf); continue
        ev = np.linalg.eigvalsh((P + P.T) / 2)
        lo, hi = float(ev.min()), float(np.abs(ev).max())
        if hi < 1e-25:
            out.append(math.inf); continue          # numerically the zero matrix (generated covariances have entries of order 1e-3 .. 1e2)
        asym = float(np.max(np.abs(P - P.T))) / max(hi, 1e-300)
        out.append(hi / lo * (1.0 + asym / 2.2e-16) if lo > 0 else math.inf)
    return out


def _lowsym(P):
    """The symmetric matrix Eigen's LDLT factorises: the lower triangle of P mirrored."""
    return np.tril(P) + np.tril(P, -1).T


def _log(v):
    return math.log(v) if v > 0 else -math.inf


# ---- conditioning of ONE step, per particle ---------------------------------------------------------------------------
# The driver runs the model step by step from the state the implementation reported before the step (the model is a
# function of that state and of the step's inputs; histories are compositions of steps, C08_multi_step), so both sides
# compute each step from bit-identical inputs and what has to be bounded is the rounding of ONE step.  First-order
# forward error analysis, all quantities in units of the machine epsilon (EPSM), norms are Frobenius norms (bounds of the 2-norms):
#   predicted belief      F P F^T + Q, F m (KFPrediction) / the unscented transform of the same (UKFPrediction):  uPp, ump
#       (_pred_units; for the unscented transform: sum of |weights|, cancellation in the deviations, asymmetry of P);
#   corrected covariance  Pc = Pp - K S K^T  (KF / UKF)  or  X C^-1 X^T  (SUKF):   |dPc| <= uP = W k_step |Pp| + |A|^2 uPp
#       (k_step = cond(S) resp. cond(C) cond(R): the inverse is accurate to its condition number, and |K S K^T| <= |Pp|:
#        when the measurement is informative |Pc| << |Pp| and the ABSOLUTE error stays that of the large terms cancelled;
#        A = I - K H = Pc Pp^-1 carries the rounding of the predicted belief through the correction;
#        W = 1 for the Kalman step; for the unscented steps W = (sum |wm| + sum |wc|) (1 + |m|/|X_j - m| + |Y_j|/|Y_j - yhat|),
#        plus, for a nonlinear h, the turn eps |Pp| / gap of the square-root factor's columns times the variation of the
#        Jacobian over the sigma points);
#   corrected mean        mc = mp + K nu:   |dmc| <= um = W k_step |mc - mp| + W |K| (|y| + |yhat|) + |mc| + |A| ump + |A| uPp |Pp^-1 (mc - mp)|;
#   square-root factor    L L^T = Pc:       |dL| <= uL = uP / sqrt(lmin(Pc)) + cond(Pc) sqrt(lmax(Pc))   (Cholesky perturbation);
#   drawn position        x = mc + L z:     |dx| <= ux = um + uL |z| + |x|;
#   ln q + |z|^2/2 = -(n ln 2pi + ln det Pc)/2 + (d^T Pc^-1 d - |z|^2)/2, d = x - mc:
#                         u_q = (n + |z|^2) (uP / lmin(Pc) + cond(Pc)) + 2 |z| (|x| + |mc|) / sqrt(lmin(Pc)) + |ln q|;
#   ln l = ln s - (m ln 2pi + ln det R + nu^T R^-1 nu)/2, nu = y - h(x):
#                         u_l = |J^T R^-1 nu| ux + cond(R) (m + nu^T R^-1 nu) + 2 |R^-1 nu| (|y| + |h(x)| + |H||x|) + |ln l|;
#   ln t likewise with (Qt, x - Ft xp); Cauchy-like: ln t = -ln(1 + |d|^2);
#   lw' = lw + ln l + ln t - ln q:  u_lw = u_l + u_t + u_q + |lw| + |lw'|.
# A quantity is accepted when |impl - model| <= C_UNIT * EPSM * unit.  C_UNIT is calibrated (see CALIBRATION below).  When the
# allowed difference of a log-domain quantity would exceed LOG_CAP the particle is ILL-CONDITIONED at this step (its corrected
# covariance is not determined to within its smallest eigenvalue by double arithmetic): not compared, counted
# (ill_conditioned_particle_steps); the property oracle still judges it on the implementation's own values.
EPSM = 1.1102230246251565e-16
C_UNIT = 64.0
LOG_CAP = 0.02
BELIEF_CAP = 1e-3           # a corrected belief whose allowed relative difference would exceed this is not compared (counted)
# CALIBRATION of the present units (unchanged tree, thorough generator seed 1, 5140 histories, and the widened samples of seeds 1-4, 12 000 histories): worst
# r: corrected mean 2.5, covariance 2.4, ln l 1.5, L 1.2, ln q 1.2, position 0.95, lw 0.8, |z'|^2 0.5.   History of the calibration:
# CALIBRATION (unchanged tree; r = |impl-model| / (EPSM * unit); thorough generator, seed 1 (5140 histories) and the widened
# samples of seeds 3 and 5 (3000 each): 190 000 particle-steps):  worst r: L 4.0, position 3.1, ln l 1.8, ln q 0.93, lw 0.78,
# |z'|^2 0.24; p99.9 <= 0.98; median <= 0.001.  C_UNIT = 64 leaves a factor 16 over the worst ratio seen.  Every run records the
# distribution ("tolerance_units") and the four worst particle-steps per quantity ("worst_ratio_cases") in its evidence.
# (Before: one constant 27 000 eps times max(cond) per particle chain - p99 3.5, worst 49 000 -: a heavy tail because the
#  amplification |Pp| / lmin(Pc) of an informative measurement was missing; forced-widened seed 1 case s157 exceeded it.)


def _ut_weights(ut, n):
    alpha, beta, kappa = (float(x) for x in ut.reshape(-1)[:3])
    lam = alpha * alpha * (n + kappa) - n
    cc = n + lam
    wm = np.full(2 * n + 1, 1.0 / (2 * cc)); wc = wm.copy()
    wm[0] = lam / cc; wc[0] = lam / cc + 1 - alpha * alpha + beta
    return cc, wm, wc


def _ut_joint(hfun, mp, Pp, R, ut):
    """Unscented joint statistics of (x, h(x)) (numpy; only used to measure the conditioning of the wrapped unscented step)."""
    n = len(mp)
    cc, wm, wc = _ut_weights(ut, n)
    ev, V = np.linalg.eigh((Pp + Pp.T) / 2)
    A = V * np.sqrt(np.maximum(ev, 0.0))
    X = np.hstack([mp.reshape(-1, 1), mp.reshape(-1, 1) + math.sqrt(max(cc, 0.0)) * A, mp.reshape(-1, 1) - math.sqrt(max(cc, 0.0)) * A])
    Y = hfun(X)
    yhat = Y @ wm
    dY = Y - yhat.reshape(-1, 1); dX = X - mp.reshape(-1, 1)
    S = (dY * wc) @ dY.T + R
    Pxy = (dX * wc) @ dY.T
    return S, Pxy, yhat, dY, wc, wm, X, cc


def _note(name, ratio, c, k, i, **kw):
    """Keeps the few worst ratios per compared quantity (diagnostics, reported in the evidence histogram)."""
    R_ = _stats["ratios"]
    R_[name].append(ratio)
    w = _stats.setdefault("worst", {}).setdefault(name, [])
    if len(w) < 4 or ratio > w[-1][0]:
        w.append((ratio, "%s step %d particle %d wrap=%s hkind=%s n=%s tv=%s units=%s %s" % (c.id, k, i, c.meta.get("wrap"), c.meta.get("hkind"), c.meta.get("n"), c.meta.get("tv"), c.meta.get("units", "-"),
                                                                                  " ".join("%s=%.3g" % kv for kv in kw.items()))))
        w.sort(key=lambda t: -t[0]); del w[4:]


def _safe_cond(A):
    if A.size == 0:
        return 1.0
    if not np.all(np.isfinite(A)):
        return math.inf
    try:
        v = float(np.linalg.cond(A))
    except np.linalg.LinAlgError:
        return math.inf
    return v if math.isfinite(v) else math.inf


def _nrm(A):
    """Frobenius norm (an upper bound of the 2-norm, at most sqrt(n) larger); inf for a non-finite argument."""
    A = np.asarray(A, dtype=float).ravel()
    if A.size == 0:
        return 0.0
    v = math.sqrt(float(A @ A))
    return v if math.isfinite(v) else math.inf


def _pred_units(c, o, wrap, skipped, m0, P0):
    """(uPp, ump): rounding of the wrapped Gaussian prediction of one particle (F P F^T + Q, F m; through the unscented
    transform for UKFPrediction, which the model replaces by the Kalman prediction it equals on a linear model: C04)."""
    if skipped:
        return 0.0, 0.0              # the previous beliefs are copied: bit-identical on both sides
    n = len(m0)
    nF, nP, nQ, nm = _nrm(o["F"]), _nrm(P0), _nrm(o["Q"]), _nrm(m0)
    if wrap == "kf":
        return n * nF * nF * nP + nQ, n * nF * nm
    cc, wm, wc = _ut_weights(c.get("ut"), n)
    Wm, Wc = float(np.sum(np.abs(wm))), float(np.sum(np.abs(wc)))
    dev = math.sqrt(max(cc, 0.0) * nP) * nF
    ump = Wm * (nF * nm + dev)
    # the gain updates P - K S K^T leave a covariance symmetric only up to rounding; the unscented transform takes the
    # square root U sqrt(S) of the SVD, which reproduces P only when P is symmetric, while F P F^T + Q uses P as it is:
    # the two agree up to the asymmetry of P
    asym = _nrm(P0 - P0.T) / EPSM
    # deviations sigma'_i - mu are differences of rounded vectors of size |F m| + dev: 2 eps (|F m| + dev) each, entering the
    # covariance sum_i wc_i (sigma'_i - mu)(sigma'_i - mu)^T with weight |wc_i| 2 |sigma'_i - mu|  (2n terms of (1/2c) dev)
    cross = 4 * (n / max(cc, 1e-300)) * dev * (nF * nm + dev)
    # second order (it is all there is when P = 0 and Q = 0): the mean weights sum to 1 only up to rounding, every deviation
    # sigma'_i - mu carries the error eps ump of mu, and the covariance collects sum |wc_i| (eps ump)^2
    second = Wc * EPSM * ump * ump
    return (n + 1) * nF * nF * nP + Wc * dev * dev / max(cc, 1e-300) + nQ + Wc * nF * nF * nP + nF * nF * asym + cross + second, ump


def _belief_units(c, o, wrap, hk, acted, mp, Pp, mc, Pc, uPp, ump, gS=1.0):
    """(uP, um, k_step) of one particle at one step, from the implementation's own predicted / corrected beliefs
    (gS: growth of the partial-pivoting factorisation of S in the units of the case, see _gepp_growth)."""
    if not acted:
        return uPp, ump, 1.0         # the wrapped correction copied its input
    H, R, y = o["H"], o["R"], o["y"]
    nPp = _nrm(Pp)
    if not (np.all(np.isfinite(Pp)) and np.all(np.isfinite(mp)) and np.all(np.isfinite(Pc))):
        return math.inf, math.inf, math.inf
    rot_P = rot_m = sukf_gain = 0.0
    if wrap == "kf":
        S = H @ Pp @ H.T + R
        kst = _safe_cond(S) * gS
        K = Pp @ H.T @ np.linalg.pinv(S)
        W = 1.0
        yhat = H @ mp
        PH = Pp @ H.T
    else:
        # (the implementation's SVD factor and the model's Jacobi factor of the symmetrised matrix agree up to the asymmetry of Pp)
        uPp = uPp + _nrm(Pp - Pp.T) / EPSM
        hfun = lambda X: h_eval(hk, H, o["G"], o["G2"], o["b"], o["g"], X)
        S, Pxy, yhat, dY, wc, wm, X, cc = _ut_joint(hfun, mp, Pp, R, c.get("ut"))
        W = float(np.sum(np.abs(wc)) + np.sum(np.abs(wm)))
        # The unscented statistics are sums over DEVIATIONS X_j - m and Y_j - yhat, differences of rounded vectors: their
        # relative error is eps |m| / |X_j - m| resp. eps |Y_j| / |Y_j - yhat| (large when the belief is narrow and far from
        # the origin, or h is large where it is evaluated), and S, Pxy inherit it
        sdev_ = math.sqrt(max(cc, 0.0) * nPp)
        dYmax_ = max(float(np.linalg.norm(dY[:, j])) for j in range(dY.shape[1]))
        Ymax_ = float(np.max(np.linalg.norm(dY + yhat.reshape(-1, 1), axis=0)))
        rho = (_nrm(mp) / sdev_ if sdev_ > 0 else 0.0) + (Ymax_ / dYmax_ if dYmax_ > 0 else 0.0)
        W = W * (1.0 + rho)
        K = Pxy @ np.linalg.pinv(S)
        PH = Pxy
        if hk != 0 and len(mp) > 1:
            # The square-root factor of the sigma points is determined up to column order and sign only while the eigenvalues
            # of Pp are distinct: its columns turn by eps |Pp| / gap under rounding.  A linear h does not see this (the set
            # statistics are invariant); for a nonlinear h the part of the Jacobian that varies over the sigma points does.
            ev = np.linalg.eigvalsh((Pp + Pp.T) / 2)
            gap = float(np.min(np.diff(ev)))
            rot = nPp / gap if gap > 0 else math.inf
            Jm = h_jac(hk, H, o["G"], o["G2"], o["g"], mp.reshape(-1, 1))
            Jvar = max(_nrm(h_jac(hk, H, o["G"], o["G2"], o["g"], X[:, j:j + 1]) - Jm) for j in range(1, X.shape[1]))
            sdev = math.sqrt(max(cc, 0.0) * nPp)
            Wm_, Wc_ = float(np.sum(np.abs(wm))), float(np.sum(np.abs(wc)))
            dYmax = max(float(np.linalg.norm(dY[:, j])) for j in range(dY.shape[1]))
            d_yhat = Wm_ * Jvar * sdev * rot
            d_S = 2 * Wc_ * dYmax * Jvar * sdev * rot
            d_Pxy = Wc_ * sdev * Jvar * sdev * rot
            nK = _nrm(K)
            rot_P = 2 * nK * d_Pxy + nK * nK * d_S
            rot_m = nK * d_yhat + (d_Pxy + nK * d_S) * _nrm(np.linalg.pinv(S) @ (y - yhat))
        else:
            rot_P = rot_m = 0.0
        if wrap == "ukf":
            kst = _safe_cond(S)
        else:
            # SUKF: C = I + Ys^T R^-1 Ys (Ys the weighted deviations) is inverted, after R
            Ys = dY * np.sqrt(np.maximum(wc, 0.0))
            Cm = np.eye(Ys.shape[1]) + Ys.T @ np.linalg.solve(R, Ys)
            kst = _safe_cond(Cm) * _safe_cond(R)
            # mc = mp + Xs C^-1 d, d = Ys^T R^-1 nu (SUKFCorrection.cpp, IV.C.4): the two inverses are accurate to their condition
            # numbers relative to |C^-1 d| and |R^-1 nu|, of which the products that follow may cancel most
            try:
                Xs = (X - mp.reshape(-1, 1)) * np.sqrt(np.maximum(wc, 0.0))
                rn = np.linalg.solve(R, np.asarray(y).reshape(-1) - np.asarray(yhat).reshape(-1))
                sukf_gain = _safe_cond(Cm) * _nrm(Xs) * _nrm(np.linalg.solve(Cm, Ys.T @ rn)) + _safe_cond(R) * _nrm(Xs) * _nrm(np.linalg.inv(Cm)) * _nrm(Ys) * _nrm(rn)
            except np.linalg.LinAlgError:
                sukf_gain = math.inf
    # how the rounding of the predicted belief is carried through the correction: dPc = A dPp A^T, A = I - K H = Pc Pp^-1
    if uPp > 0 or ump > 0:
        try:
            Ppi = np.linalg.inv(Pp)
            nA = _nrm(Pc @ Ppi); g = _nrm(Ppi @ (mc - mp))
        except np.linalg.LinAlgError:
            nA, g = math.inf, math.inf
    else:
        nA, g = 0.0, 0.0
    uP = W * (kst + 1.0) * nPp + nA * nA * uPp + rot_P
    # the gain times the innovation is P H^T (S^-1 nu): the inverse is accurate to k_step RELATIVE TO |S^-1 nu|, of which H^T may
    # annihilate most (more measurements than states, a nearly noise-free direction): |P H^T| |S^-1 nu| >= |mc - mp|
    try:
        sin = _nrm(np.linalg.pinv(S) @ (np.asarray(y).reshape(-1) - np.asarray(yhat).reshape(-1)))
    except np.linalg.LinAlgError:
        sin = math.inf
    um = W * max(kst * _nrm(mc - mp), kst * _nrm(PH) * sin, sukf_gain) + W * _nrm(K) * (_nrm(y) + _nrm(yhat)) + _nrm(mc) + _nrm(mp) + nA * ump + nA * uPp * g + rot_m
    return uP, um, kst


# ------------------------------------------------------------------ correspondence

def compare(c, impl, model):
    if c.kind in ("gpf_fresh", "gpf_moved"):
        return []
    if impl.get("skipped_ndebug") == 1:
        return []
    # A case written in other units per coordinate is compared in unit coordinates (x -> D^-1 x, y -> E^-1 y): every position,
    # mean, covariance and factor entry is then measured against the size of ITS OWN coordinate, and the conditioning that
    # enters the tolerances is that of D^-1 P D^-1, not cond(P).  Densities are compared as they are (the comparison is in the
    # log domain: a common factor det D / det E cancels); where the implementation factorises a matrix with partial pivoting
    # in ITS units, the growth of that factorisation multiplies the condition number (_gepp_growth).
    U = units_of(c)
    raw_c, raw_impl = c, impl
    if U is not None:
        c, impl, model = _view(c, *U), _view(impl, *U), _view(model, *U)
    cond = float(c.meta["cond"])
    n, N, steps = int(c.meta["n"]), int(c.meta["N"]), int(c.meta["steps"])
    wrap, hk_, tk = c.meta["wrap"], int(c.meta["hkind"]), c.meta["tkind"]
    badlik = c.get("badlik") if c.has("badlik") else 0
    skpc, skgc, gcok, skpp, skgp = (_words(c, x) for x in ("skpc", "skgc", "gcok", "skpp", "skgp"))
    # The square-root factor is left free by the property: when the implementation's positions are not m + L z for the
    # model's LDL^T factor, the driver maps them back (z' = L^-1 (x - m)), re-runs the step on z' and reports |z'|^2 per
    # particle (zz<k>): positions are then compared through the relation the property states, |z'|^2 = |z|^2.
    if model.get("other_factor_steps", 0) > 0:
        _stats["other_factor_steps"] += model.get("other_factor_steps")
    fields, d = [], []
    R_ = _stats["ratios"]
    for k in range(steps):
        o = step_ops(c, k)
        fields += ["p%d_components" % k, "c%d_components" % k, "p%d_mean" % k, "p%d_cov" % k, "valid%d" % k,
                   "p%d_state" % k, "p%d_lw" % k]
        valid = impl.get("valid%d" % k) == 1
        if not valid or skpc[k]:
            fields += ["c%d_mean" % k, "c%d_cov" % k]          # copies of the predicted beliefs
        # likelihood_ is an observable of its own (getLikelihood()): compared on invalid steps too
        il, ml = impl.get("lik%d" % k), model.get("lik%d" % k)
        if not valid or skpc[k] or badlik:
            if badlik == 0 and (il is None or ml is None or il.shape != ml.shape or not caseio.close(il, ml, 1e-300, 1e-9 * cond)):
                d.append("lik%d (invalid or skipped step): impl=%s model=%s" % (k, None if il is None else il.reshape(-1)[:4], None if ml is None else ml.reshape(-1)[:4]))
        if not valid or skpc[k]:
            # the whole predicted set is copied on an invalid / skipped correction: exact
            fields += ["c%d_state" % k, "c%d_lw" % k]
        else:
            need = ["t%d" % k, "q%d" % k, "L%d" % k, "z%d" % k, "c%d_state" % k, "c%d_lw" % k, "p%d_state" % k, "p%d_lw" % k, "c%d_cov" % k, "c%d_mean" % k, "p%d_cov" % k, "p%d_mean" % k]
            if any(impl.get(x) is None for x in need) or any(model.get(x) is None for x in ("q%d" % k, "L%d" % k, "zz%d" % k, "c%d_state" % k, "c%d_lw" % k, "c%d_mean" % k, "c%d_cov" % k)) \
                    or model.get("c%d_mean" % k).shape != impl.get("c%d_mean" % k).shape or model.get("c%d_cov" % k).shape != impl.get("c%d_cov" % k).shape \
                    or il is None or ml is None or il.shape[0] < N or ml.shape[0] < N:
                d.append("step %d: missing / short fields of a valid correction" % k); continue
            t, iq, mq = impl.get("t%d" % k), impl.get("q%d" % k), model.get("q%d" % k)
            xs_i, xs_m, xp_i = impl.get("c%d_state" % k), model.get("c%d_state" % k), impl.get("p%d_state" % k)
            iL, mL = impl.get("L%d" % k), model.get("L%d" % k)
            z, zzm = impl.get("z%d" % k), model.get("zz%d" % k)
            refact = model.get("refact%d" % k, 0) == 1
            pm, pc, cm, cc_ = impl.get("p%d_mean" % k), impl.get("p%d_cov" % k), impl.get("c%d_mean" % k), impl.get("c%d_cov" % k)
            lwp, lwi, lwm = impl.get("p%d_lw" % k), impl.get("c%d_lw" % k), model.get("c%d_lw" % k)
            acted = bool(gcok[k]) and not skgc[k]
            # the corrected buffer before this step (what the prediction read): the implementation's, as in the driver
            prev_m = impl.get("c%d_mean" % (k - 1)) if k > 0 else c.get("c_mean")
            prev_P = impl.get("c%d_cov" % (k - 1)) if k > 0 else c.get("c_cov")
            cP = _conds(cc_, n)
            Rinv = np.linalg.inv(o["R"]); cR = _safe_cond(o["R"])
            Qtinv = np.linalg.inv(o["Qt"]) if tk != "cauchy" else None
            cQ = _safe_cond(o["Qt"]) if tk != "cauchy" else 1.0
            mk = o["H"].shape[0]
            if U is not None:
                ro = step_ops(raw_c, k)
                rpc, rcc = raw_impl.get("p%d_cov" % k), raw_impl.get("c%d_cov" % k)
                cR *= _gepp_growth(ro["R"], U[1][:mk])
                cQ *= _gepp_growth(ro["Qt"], U[0])
            cm_m, cc_m = model.get("c%d_mean" % k), model.get("c%d_cov" % k)
            for i in range(N):
                Pp, Pc, mp, mc = pc[:, n * i:n * (i + 1)], cc_[:, n * i:n * (i + 1)], pm[:, i], cm[:, i]
                gS = gP = 1.0
                if U is not None:
                    gS = _gepp_growth(ro["H"] @ rpc[:, n * i:n * (i + 1)] @ ro["H"].T + ro["R"], U[1][:mk])
                    gP = _gepp_growth(rcc[:, n * i:n * (i + 1)], U[0])
                    _stats["growth"].append(max(gS, gP))
                uPp, ump = _pred_units(c, o, wrap, skpp[k] or skgp[k], prev_m[:, i], prev_P[:, n * i:n * (i + 1)])
                uP, um, kst = _belief_units(c, o, wrap, hk_, acted, mp, Pp, mc, Pc, uPp, ump, gS)
                # corrected belief of this particle: |dPc| <= uP, |dmc| <= um (the rounding of ONE wrapped correction, derived above)
                dmc, dPc = caseio.maxdiff(mc, cm_m[:, i]), caseio.maxdiff(Pc, cc_m[:, n * i:n * (i + 1)])
                if math.isfinite(um) and math.isfinite(uP) and C_UNIT * EPSM * um <= BELIEF_CAP * max(1.0, _nrm(mc)) and C_UNIT * EPSM * uP <= BELIEF_CAP * max(1e-300, _nrm(Pc)):
                    _note("mc", dmc / (um * EPSM) if um > 0 else (0.0 if dmc == 0 else math.inf), c, k, i, kst=kst, um=um, acted=acted)
                    _note("Pc", dPc / (uP * EPSM) if uP > 0 else (0.0 if dPc == 0 else math.inf), c, k, i, kst=kst, uP=uP, acted=acted)
                    if not dmc <= C_UNIT * EPSM * um:
                        d.append("c%d_mean[%d]: max|impl-model|=%.3g (tol %.3g = %g eps x unit %.3g; k_step %.3g)" % (k, i, dmc, C_UNIT * EPSM * um, C_UNIT, um, kst))
                    if not dPc <= C_UNIT * EPSM * uP:
                        d.append("c%d_cov[%d]: max|impl-model|=%.3g (tol %.3g = %g eps x unit %.3g; k_step %.3g)" % (k, i, dPc, C_UNIT * EPSM * uP, C_UNIT, uP, kst))
                else:
                    _stats["belief_ill_conditioned"] += 1      # the wrapped correction itself is not determined to BELIEF_CAP by double arithmetic here
                if cP[i] > SINGULAR or not np.all(np.isfinite(xs_i[:, i])) or not np.all(np.isfinite(xp_i[:, i])):
                    continue                   # singular belief: outside the domain (counted by the oracle); only the beliefs were compared
                ev = np.linalg.eigvalsh((Pc + Pc.T) / 2)
                lmin, lmax = float(ev.min()), float(ev.max())
                kP = cP[i]                                   # effective condition number (asymmetry included, see _conds)
                zi = z[:, i]; nz = float(np.linalg.norm(zi)); zz = float(zi @ zi)
                xi_ = xs_i[:, i]; nx = float(np.linalg.norm(xi_)); nm_ = float(np.linalg.norm(mc))
                uL = uP / math.sqrt(lmin) + kP * math.sqrt(lmax)
                ux = um + uL * nz + nx + nm_
                li, ti, qi = float(il[i, 0]), float(t[i, 0]), float(iq[i, 0])
                lm_, qm_ = float(ml[i, 0]), float(mq[i, 0])
                u_q = (n + zz) * (uP / lmin + kP * gP) + 2 * nz * (nx + nm_) / math.sqrt(lmin) + abs(_log(max(qi, UNDERFLOW)))
                hx = h_eval(hk_, o["H"], o["G"], o["G2"], o["b"], o["g"], xi_.reshape(-1, 1))[:, 0]
                nu = o["y"] - hx; a_ = Rinv @ nu
                J = h_jac(hk_, o["H"], o["G"], o["G2"], o["g"], xi_.reshape(-1, 1))
                u_l = float(np.linalg.norm(J.T @ a_)) * ux + cR * (mk + float(nu @ a_)) \
                    + 2 * float(np.linalg.norm(a_)) * (float(np.linalg.norm(o["y"])) + float(np.linalg.norm(hx)) + _nrm(J) * nx) + abs(_log(max(li, UNDERFLOW)))
                dd = xi_ - o["Ft"] @ xp_i[:, i]
                rnd = nx + _nrm(o["Ft"]) * float(np.linalg.norm(xp_i[:, i]))
                if tk != "cauchy":
                    at = Qtinv @ dd
                    u_t = float(np.linalg.norm(at)) * (ux + 2 * rnd) + cQ * (n + float(dd @ at)) + abs(_log(max(ti, UNDERFLOW)))
                else:
                    nd = float(np.linalg.norm(dd))
                    u_t = 2 * nd / (1 + nd * nd) * (ux + 2 * rnd) + 2.0
                u_lw = u_l + u_t + u_q + abs(float(lwp[i, 0])) + abs(float(lwi[i, 0]))
                units = {"q": u_q, "lik": u_l, "lw": u_lw}
                if not all(math.isfinite(u) for u in (u_q, u_l, u_t, ux, uL)) or C_UNIT * EPSM * max(u_q, u_l, u_t) > LOG_CAP:
                    _stats["ill_conditioned_particle_steps"] += 1
                    if U is not None:
                        _stats["units_ill_conditioned"] += 1
                    continue
                _stats["compared_particle_steps"] += 1
                if U is not None:
                    _stats["units_compared"] += 1
                under = min(li, ti, qi, lm_, qm_) < UNDERFLOW
                if under and (li > 0 or lm_ > 0 or o["scale"] != 0.0):
                    _stats["underflow_particles"] += 1
                # positions (through the relation |z'|^2 = |z|^2 when the factor differs)
                if refact:
                    zzd = abs(float(zzm[i, 0]) - zz)
                    u_zz = 2 * nz * ux / math.sqrt(lmin) + kP * zz + 1.0
                    _note("zz", zzd / (u_zz * EPSM), c, k, i, kst=kst, kP=kP)
                    if not zzd <= C_UNIT * EPSM * u_zz:
                        d.append("step %d particle %d: position is not m + L z for a factor with L L^T = P: | |L^-1 (x-m)|^2 - |z|^2 | = %.3g (tol %.3g)" % (k, i, zzd, C_UNIT * EPSM * u_zz))
                else:
                    dx = float(np.max(np.abs(xi_ - xs_m[:, i])))
                    _note("x", dx / (ux * EPSM), c, k, i, kst=kst, kP=kP, um=um, uLz=uL * nz, nx=nx, acted=acted)
                    if not dx <= C_UNIT * EPSM * ux:
                        d.append("c%d_state[%d]: max|impl-model|=%.3g (tol %.3g)" % (k, i, dx, C_UNIT * EPSM * ux))
                    A, B = iL[:, n * i:n * (i + 1)], mL[:, n * i:n * (i + 1)]
                    dl = caseio.maxdiff(A, B)
                    _note("L", dl / (uL * EPSM), c, k, i, kst=kst, kP=kP, uP=uP, lmin=lmin, lmax=lmax, nPp=_nrm(Pp), acted=acted)
                    if not dl <= C_UNIT * EPSM * uL:
                        d.append("L%d[%d]: observed square-root factor differs from the model's, max %.3g (tol %.3g)" % (k, i, dl, C_UNIT * EPSM * uL))
                # likelihood and proposal density (the latter with the |z|^2 each side used taken out)
                for name, a, bb, u, sa, sb in (("lik", li, lm_, u_l, 0.0, 0.0), ("q", qi, qm_, u_q, zz / 2, float(zzm[i, 0]) / 2)):
                    if a < UNDERFLOW or bb < UNDERFLOW:
                        if abs(a - bb) > UNDERFLOW:
                            d.append("%s%d[%d]: impl=%.6g model=%.6g (underflow range)" % (name, k, i, a, bb))
                        continue
                    diff = abs((math.log(a) + sa) - (math.log(bb) + sb))
                    _note(name, diff / (u * EPSM), c, k, i, kst=kst, kP=kP, u=u)
                    if not diff <= C_UNIT * EPSM * u:
                        d.append("ln %s%d[%d]: |impl-model|=%.3g (tol %.3g = %g eps x unit %.3g; k_step %.3g, cond Pc %.3g)" % (name, k, i, diff, C_UNIT * EPSM * u, C_UNIT, u, kst, kP))
                # log-weight (a density in the underflow range: Eigen's exp floors where libm underflows, identity checked by the oracle only)
                if not under:
                    x_, y_ = float(lwi[i, 0]), float(lwm[i, 0])
                    if not (x_ == y_ or (math.isnan(x_) and math.isnan(y_))):
                        dz = abs(float(zzm[i, 0]) - zz) / 2 if refact else 0.0     # accepted above through the relation
                        diff = max(0.0, abs(x_ - y_) - dz)
                        _note("lw", diff / (u_lw * EPSM), c, k, i, kst=kst, kP=kP, u=u_lw)
                        _stats["tol_lw"].append(C_UNIT * EPSM * u_lw)
                        if not diff <= C_UNIT * EPSM * u_lw:
                            d.append("c%d_lw[%d]: |impl-model|=%.3g (tol %.3g)" % (k, i, diff, C_UNIT * EPSM * u_lw))
        # the draws consumed: n per particle on a valid correction (correspondence only); on an invalid one the number is
        # left free (testing what can be tested before sampling is a harmless rewrite), on a skipped one it is 0
        if (valid and not skpc[k] and impl.get("nz%d" % k) != n * N) or (skpc[k] and impl.get("nz%d" % k) != 0):
            d.append("nz%d: %s standard-normal draws consumed by the implementation" % (k, impl.get("nz%d" % k)))
    d += caseio.compare_fields(impl, model, fields, atol=1e-300, rtol=1e-9, scale=cond)
    return d[:12]


# ------------------------------------------------------------------ property oracle

def _logdens(x, mean, cov):
    d = x - mean
    n = len(d)
    sign, ld = np.linalg.slogdet(cov)
    return -0.5 * (n * math.log(2 * math.pi) + ld + float(d @ np.linalg.solve(cov, d)))


def _exp(v):
    return math.exp(v) if v > -745.2 else 0.0


def _close_logdens(val, logspec, tol):
    """val against exp(logspec) in the log domain; absolute in the underflow range."""
    spec = _exp(logspec)
    if val < UNDERFLOW or spec < UNDERFLOW:
        return abs(val - spec) <= 2 * UNDERFLOW
    return abs(math.log(val) - logspec) <= tol


def chi2_cdf(x, k):
    if x <= 0:
        return 0.0
    if k == 1:
        return math.erf(math.sqrt(x / 2))
    if k == 2:
        return 1 - math.exp(-x / 2)
    if k == 3:
        return math.erf(math.sqrt(x / 2)) - math.sqrt(2 * x / math.pi) * math.exp(-x / 2)
    if k == 4:
        return 1 - math.exp(-x / 2) * (1 + x / 2)
    from scipy import stats
    return float(stats.chi2.cdf(x, k))


def ks_test(samples, k):
    """One-sample Kolmogorov-Smirnov statistic and asymptotic p-value against chi-square(k)."""
    xs = sorted(samples); nn = len(xs)
    if nn == 0:
        return 0.0, 1.0
    D = 0.0
    for i, x in enumerate(xs):
        F = chi2_cdf(x, k)
        D = max(D, abs(F - i / nn), abs((i + 1) / nn - F))
    lam = (math.sqrt(nn) + 0.12 + 0.11 / math.sqrt(nn)) * D
    p = 2 * sum((-1) ** (j - 1) * math.exp(-2 * j * j * lam * lam) for j in range(1, 101))
    return D, min(1.0, max(0.0, p))


def _same(a, b):
    return a is not None and b is not None and a.shape == b.shape and bool(np.all((a == b) | (np.isnan(a) & np.isnan(b))))


def lifetime_oracle(c, impl):
    if c.kind == "gpf_fresh":
        if impl.get("fresh_valid") != 0:
            return [(SIG_FRESH, "getLikelihood() on a GPFCorrection that has not corrected yet reports valid = %s with %s values: valid_likelihood_ is not "
                     "initialised by the constructors (object constructed in storage pre-filled with 0xFF)" % (impl.get("fresh_valid"), impl.get("fresh_lik_size")))]
        return []
    v = []
    if not _same(impl.get("first_state"), impl.get("ref_first_state")):
        v.append(("C08:draws-not-the-seeded-stream", "first correction of the object differs from a reference object with the same seed"))
    if not _same(impl.get("assign_state"), impl.get("ref_assign_state")):
        v.append((SIG_ASSIGN_GEN, "a2 = std::move(a1); a1 = std::move(a3); (all alive) the positions then drawn by a2 differ from those of a never-moved object with a1's "
                  "seed and history (max diff %.3g): a2 does not read its own generator" % caseio.maxdiff(impl.get("assign_state"), impl.get("ref_assign_state"))))
    if impl.get("assign_valid") != impl.get("ref_assign_valid") or not _same(impl.get("assign_lik"), impl.get("ref_assign_lik")):
        if _same(impl.get("assign_state"), impl.get("ref_assign_state")):
            v.append((SIG_ASSIGN_LIK, "a2 = std::move(a1): a2 does not evaluate a1's likelihood model (max diff of the likelihood values %.3g)"
                      % caseio.maxdiff(impl.get("assign_lik"), impl.get("ref_assign_lik"))))
    if not _same(impl.get("moved_state"), impl.get("ref_state")):
        v.append((SIG_MOVED, "after GPFCorrection b(std::move(a)); a.~GPFCorrection() the positions drawn by b differ from those of a never-moved object with the same "
                  "seed and history (max diff %.3g): the moved closure gaussian_random_sample_ still reads a's generator_/distribution_" % caseio.maxdiff(impl.get("moved_state"), impl.get("ref_state"))))
    return v


def _pooled_ks():
    out = []
    byn = {}
    for n, s in _stats["d2"].values():
        byn.setdefault(n, []).extend(s)
    for n, s in sorted(byn.items()):
        if n > 4 or len(s) < 200:
            continue
        D, p = ks_test(s, n)
        if p < 1e-6:
            out.append(("C08:chi-square-grossly-off:pooled", "pooled squared Mahalanobis distances (n=%d, %d draws) vs chi-square: KS D = %.4f, p = %.3g" % (n, len(s), D, p)))
    return out


def oracle(c, impl, model):
    v = _oracle(c, impl, model)
    # supporting statistics over the whole run, evaluated once with the last generated case (a finding only if grossly off)
    if c.id == _stats["last_id"] and not _stats["pooled_done"]:
        _stats["pooled_done"] = True
        v = v + _pooled_ks()
    return v


def _oracle(c, impl, model):
    if c.kind in ("gpf_fresh", "gpf_moved"):
        return lifetime_oracle(c, impl)
    if impl.get("skipped_ndebug") == 1:
        return []
    v = []
    # other units per coordinate: the clauses are evaluated in unit coordinates (see compare); the densities the implementation
    # returned are judged as they are, against the unit-coordinate value divided by det E (likelihood) / det D (transition, proposal)
    U = units_of(c)
    raw_c, raw_impl = c, impl
    off_d = 0.0
    if U is not None:
        c, impl = _view(c, *U), _view(impl, *U)
        off_d = float(np.sum(np.log(U[0])))
    n, m, N, steps = (int(c.meta[k]) for k in ("n", "m", "N", "steps"))
    tk, hkind = c.meta["tkind"], int(c.meta["hkind"])
    badlik = c.get("badlik") if c.has("badlik") else 0
    skpp, skgp, skpc, likok = (_words(c, k) for k in ("skpp", "skgp", "skpc", "likok"))
    prev = {f: c.get("c_" + f) for f in ("state", "mean", "cov", "lw")}
    prev_valid, prev_lik = False, np.zeros((0, 1))
    d2_case = []
    dead = np.zeros(N, dtype=bool)      # particles that met a singular belief: their positions are outside the domain from then on
    if str(c.meta.get("intrude", "0")) == "1":
        _stats["intruder"][c.id] = impl.get("intruder_calls", 0) or 0
    if impl.get("rng_mirror_ok") != 1:
        v.append(("C08:draws-not-the-seeded-stream", "the draws consumed differ from mt19937_64(seed) + normal_distribution(0,1) in order"))
    for k in range(steps):
        # the operands the models served at THIS step (time-varying histories)
        o = step_ops(c, k)
        H, G, G2, b, g, R, Ft, Qt, scale, yk = (o[x] for x in ("H", "G", "G2", "b", "g", "R", "Ft", "Qt", "scale", "y"))
        cR = float(np.linalg.cond(R)); cQ = float(np.linalg.cond(Qt)) if tk != "cauchy" else 1.0
        off_e = 0.0
        if U is not None:
            ro = step_ops(raw_c, k)
            off_e = float(np.sum(np.log(U[1][:H.shape[0]])))
            cR *= _gepp_growth(ro["R"], U[1][:H.shape[0]]); cQ *= _gepp_growth(ro["Qt"], U[0])
        P_ = {f: impl.get("p%d_%s" % (k, f)) for f in ("state", "mean", "cov", "lw")}
        C_ = {f: impl.get("c%d_%s" % (k, f)) for f in ("state", "mean", "cov", "lw")}
        tag = "step %d" % k
        # ---- prediction
        if impl.get("p%d_components" % k) != N or impl.get("c%d_components" % k) != N:
            v.append(("C08:component-count", "%s: component count changed" % tag)); break
        if impl.get("prev_unchanged%d" % k) != 1:
            v.append(("C08:predict-modifies-input", "%s: the set passed to predict was modified" % tag))
        if not _same(P_["state"], prev["state"]):
            v.append(("C08:predict-moves-positions", "%s: positions changed by the prediction, max diff %.3g" % (tag, caseio.maxdiff(P_["state"], prev["state"]))))
        if not _same(P_["lw"], prev["lw"]):
            v.append(("C08:predict-changes-weights", "%s: weights changed by the prediction, max diff %.3g" % (tag, caseio.maxdiff(P_["lw"], prev["lw"]))))
        for f in ("mean", "cov"):
            if skpp[k] or skgp[k]:
                if not _same(P_[f], prev[f]):
                    v.append(("C08:skipped-prediction-changes-beliefs", "%s: %s changed by a skipped prediction, max diff %.3g" % (tag, f, caseio.maxdiff(P_[f], prev[f]))))
            else:
                sep = impl.get("sep_p%d_%s" % (k, f))
                if not caseio.close(P_[f], sep, 1e-13 * max(1.0, float(np.max(np.abs(sep)))), 0):
                    v.append(("C08:predict-beliefs-not-wrapped-step", "%s: %s differs from the wrapped Gaussian prediction run separately, max diff %.3g" % (tag, f, caseio.maxdiff(P_[f], sep))))
        # ---- correction
        if impl.get("pred_unchanged%d" % k) != 1:
            v.append(("C08:correct-modifies-input", "%s: the predicted set passed to correct was modified" % tag))
        valid = impl.get("valid%d" % k) == 1
        lik = impl.get("lik%d" % k)
        if skpc[k]:
            # PFCorrection::skip_: the predicted set is returned, valid_likelihood_ / likelihood_ are not touched
            for f in ("state", "mean", "cov", "lw"):
                if not _same(C_[f], P_[f]):
                    v.append(("C08:skipped-correction-changes-set", "%s: %s of the output differs from the predicted set" % (tag, f)))
            if valid != prev_valid or not _same(lik, prev_lik):
                v.append(("C08:skipped-correction-changes-likelihood-members", "%s: getLikelihood() changed across a skipped correction" % tag))
            prev = C_
            continue
        if valid != likok[k]:
            v.append(("C08:likelihood-validity", "%s: valid_likelihood_ = %s but the likelihood model reported %s" % (tag, valid, likok[k])))
        if not valid:
            for f in ("state", "mean", "cov", "lw"):
                if not _same(C_[f], P_[f]):
                    v.append(("C08:invalid-likelihood-not-restored", "%s: %s of the output differs from the predicted set, max diff %.3g" % (tag, f, caseio.maxdiff(C_[f], P_[f]))))
            # getLikelihood() reports what the likelihood model returned with its verdict (VectorXd::Zero(1) for the shipped / harness models)
            if not likok[k] and not (lik.shape == (1, 1) and lik[0, 0] == 0.0):
                v.append(("C08:likelihood-stale-on-invalid", "%s: getLikelihood() after an invalid evaluation reports %d value(s) %s instead of the model's return value [0]"
                          % (tag, lik.shape[0], lik.reshape(-1)[:3])))
        else:
            for f in ("mean", "cov"):
                sep = impl.get("sep_c%d_%s" % (k, f))
                if not caseio.close(C_[f], sep, 1e-13 * max(1.0, float(np.max(np.abs(sep)))), 0):
                    v.append(("C08:correct-beliefs-not-wrapped-step", "%s: %s differs from the wrapped Gaussian correction run separately, max diff %.3g" % (tag, f, caseio.maxdiff(C_[f], sep))))
            t, q, z, L = impl.get("t%d" % k), impl.get("q%d" % k), impl.get("z%d" % k), impl.get("L%d" % k)
            if (lik.shape[0] != N and not (badlik > 0 and lik.shape[0] == N + badlik)) or t.shape[0] != N:
                v.append(("C08:likelihood-size", "%s: %d likelihood / %d transition values for %d particles" % (tag, lik.shape[0], t.shape[0], N))); break
            cP = _conds(C_["cov"], n)
            for i in range(N):
                x, mu, Pc = C_["state"][:, i], C_["mean"][:, i], C_["cov"][:, n * i:n * (i + 1)]
                xp = P_["state"][:, i]
                li, ti, qi = float(lik[i, 0]), float(t[i, 0]), float(q[i, 0])
                got = float(C_["lw"][i, 0])
                if cP[i] > SINGULAR or dead[i] or not np.all(np.isfinite(xp)):
                    dead[i] = True
                    # outside the domain of the property (premise spd P of the theorems): the proposal density of a singular
                    # Gaussian does not exist; counted, not judged
                    _stats["singular_belief_particles"] += 1
                    if math.isnan(got) or math.isinf(got):
                        _stats["nan_weight_with_valid_on_singular"] += 1
                    continue
                # weight identity from the implementation's own values
                terms = [float(P_["lw"][i, 0]), math.log(li + EPS) if li + EPS > 0 else math.nan, math.log(ti + EPS) if ti + EPS > 0 else math.nan,
                         -math.log(qi + EPS) if qi + EPS > 0 else math.nan]
                want = sum(terms)
                tolw = 4e-15 * sum(abs(a) for a in terms) + 1e-15
                if not (abs(got - want) <= tolw):
                    v.append(("C08:weight-identity", "%s particle %d: log-weight %.17g, expected lw + ln(l+eps) + ln(t+eps) - ln(q+eps) = %.17g (l=%.6g t=%.6g q=%.6g)" % (tag, i, got, want, li, ti, qi)))
                gP = 1.0
                if U is not None:
                    rP = raw_impl.get("c%d_cov" % k)[:, n * i:n * (i + 1)]
                    gP = _gepp_growth(rP, U[0])
                    # (evidence) a belief that any test RELATIVE to its largest entry calls diagonal although its coordinates are correlated
                    off = np.abs(rP - np.diag(np.diag(rP))); sd = np.sqrt(np.abs(np.diag(Pc)))
                    if n > 1 and float(off.max()) <= 1e-12 * float(np.abs(np.diag(rP)).max()):
                        _stats["units_diag_like"][(c.id, k, i)] = float(np.max(np.abs(Pc - np.diag(np.diag(Pc))) / np.outer(sd, sd)))
                # the library's square-root factor (observed through sampleFromProposal(0, P) on unit draws): L L^T = P
                # (in unit coordinates: every entry of L L^T - P is measured against the standard deviations of its own two coordinates)
                Li = L[:, n * i:n * (i + 1)]
                res = caseio.maxdiff(Li @ Li.T, _lowsym(Pc)) / max(1e-300, float(np.max(np.abs(Pc))))
                if not res <= 1e-12 * cP[i]:
                    v.append(("C08:sqrt-factor-contract", "%s particle %d: |L L^T - P| / |P| = %.3g for the factor used by sampleFromProposal (cond %.3g)" % (tag, i, res, cP[i])))
                # positions: x = m + L z with that factor, and the Mahalanobis identity (x-m)^T P^-1 (x-m) = |z|^2
                xs_ = mu + Li @ z[:, i]
                if not caseio.close(x, xs_, 1e-13 * cP[i] * max(1.0, float(np.max(np.abs(x)))), 0):
                    v.append(("C08:position-not-mean-plus-sqrt-times-draw", "%s particle %d: max |x - (m + L z)| = %.3g" % (tag, i, caseio.maxdiff(x, xs_))))
                zz = float(z[:, i] @ z[:, i])
                Ps = (Pc + Pc.T) / 2
                d2 = float((x - mu) @ np.linalg.solve(Ps, x - mu))
                # x - m is formed from the stored x = fl(m + L z): when |m| >> |L z| the difference carries the rounding of x,
                # eps (|x| + |m|), which the quadratic form sees divided by sqrt(lmin(P)) (derived, cf. u_q in compare)
                lmin_ = max(float(np.linalg.eigvalsh(Ps).min()), 1e-300)
                canc = C_UNIT * EPSM * 2 * math.sqrt(zz) * (float(np.linalg.norm(x)) + float(np.linalg.norm(mu))) / math.sqrt(lmin_)
                if not (abs(d2 - zz) <= 1e-11 * cP[i] * max(1.0, zz) + canc):
                    v.append(("C08:mahalanobis", "%s particle %d: (x-m)^T P^-1 (x-m) = %.12g but |z|^2 = %.12g" % (tag, i, d2, zz)))
                # the same through the factor the implementation used: |A^-1 (x - m)|^2 = |z|^2 (cond(A)^2 = cond(P), after rescaling)
                try:
                    zA = np.linalg.solve(Li, x - mu); d2A = float(zA @ zA)
                except np.linalg.LinAlgError:
                    d2A = math.nan
                if not (abs(d2A - zz) <= 1e-11 * cP[i] * max(1.0, zz) + canc):
                    v.append(("C08:mahalanobis-through-factor", "%s particle %d: |A^-1 (x-m)|^2 = %.12g for the factor A used by sampleFromProposal, but |z|^2 = %.12g" % (tag, i, d2A, zz)))
                d2_case.append(d2)
                # likelihood on the drawn position, transition on (previous position, drawn position), proposal at the drawn position
                hx = h_eval(hkind, H, G, G2, b, g, x.reshape(-1, 1))[:, 0]
                ls = (math.log(scale) if scale > 0 else -math.inf) + _logdens(yk, hx, R) - off_e
                # (y - h(x) and x - Ft xp are differences of rounded quantities: eps times their magnitudes, times the gradient)
                a_l = np.linalg.solve(R, yk - hx)
                canc_l = C_UNIT * EPSM * float(np.linalg.norm(a_l)) * (float(np.linalg.norm(yk)) + float(np.linalg.norm(hx))
                                                                        + _nrm(h_jac(hkind, H, G, G2, g, x.reshape(-1, 1))) * float(np.linalg.norm(x)))
                if not _close_logdens(li, ls, 1e-11 * cR * (1 + (abs(ls) if math.isfinite(ls) else 0)) + canc_l):
                    v.append(("C08:likelihood-not-on-drawn-states", "%s particle %d: likelihood %.6g, scale_k * N(y_k; h_k(x_i), R_k) at the drawn position with the operands of this step = %.6g (ln ratio %.3g)"
                              % (tag, i, li, _exp(ls), (math.log(li) - ls) if li > 0 and math.isfinite(ls) else math.nan)))
                dd = x - Ft @ xp
                rnd_t = float(np.linalg.norm(x)) + _nrm(Ft) * float(np.linalg.norm(xp))
                if tk == "cauchy":
                    nd_ = float(np.linalg.norm(dd))
                    ts = -math.log1p(float(dd @ dd)); ttol = 1e-13 * (1 + abs(ts)) + C_UNIT * EPSM * 2 * nd_ / (1 + nd_ * nd_) * rnd_t
                else:
                    ts = _logdens(x, Ft @ xp, Qt) - off_d; ttol = 1e-11 * cQ * (1 + abs(ts)) + C_UNIT * EPSM * float(np.linalg.norm(np.linalg.solve(Qt, dd))) * rnd_t
                if not _close_logdens(ti, ts, ttol):
                    v.append(("C08:transition-not-p(cur|prev):tkind=%s" % tk, "%s particle %d: transition density %.6g, expected %.6g at (previous position, drawn position)" % (tag, i, ti, _exp(ts))))
                qs = _logdens(x, mu, Ps) - off_d
                qtol = 1e-11 * cP[i] * gP * (1 + abs(qs)) + canc / 2
                if not _close_logdens(qi, qs, qtol):
                    v.append(("C08:proposal-density", "%s particle %d: proposal density %.6g, N(x_i; m_i, P_i) = %.6g" % (tag, i, qi, _exp(qs))))
                # the weight clause in the LOG domain, from the log-densities of the specification (not from the values the
                # implementation returned): lw' = lw + ln(l + eps) + ln(t + eps) - ln(q + eps) with every density floored
                # SEPARATELY, as GPFCorrection.cpp:125-129 does.  ln l and ln t may each be an ordinary number while their
                # sum is below ln(DBL_MIN): the product of the densities is then not representable, the sum of the logs is.
                if min(li, ti, qi) >= UNDERFLOW and math.isfinite(ls) and min(ls, ts, qs) > math.log(UNDERFLOW):
                    if ls + ts < math.log(EPS):
                        _stats["deep"][(c.id, k, i)] = ls + ts
                    fl_ = lambda a: math.log(math.exp(a) + EPS)
                    terms_s = [float(P_["lw"][i, 0]), fl_(ls), fl_(ts), -fl_(qs)]
                    ltol = 1e-11 * cR * (1 + abs(ls)) + canc_l
                    tol_s = ltol + ttol + qtol + 4e-15 * sum(abs(a) for a in terms_s) + 1e-15
                    if not abs(got - sum(terms_s)) <= tol_s:
                        v.append(("C08:weight-formula-log-domain", "%s particle %d: log-weight %.17g, but lw + ln l + ln t - ln q = %.17g from the log-densities at the drawn position "
                                  "(ln l = %.6g, ln t = %.6g, ln q = %.6g; ln l + ln t = %.6g, ln DBL_MIN = -708.4)" % (tag, i, got, sum(terms_s), ls, ts, qs, ls + ts)))
        prev = C_
        prev_valid, prev_lik = valid, lik
        if len(v) > 12:
            break
    # supporting statistics (never a finding unless grossly off)
    if d2_case and n <= 4:
        _stats["d2"][c.id] = (n, d2_case)        # keyed by case: the oracle runs once per build variant
    if c.kind == "gpf_ks" and d2_case:
        D, p = ks_test(d2_case, n)
        if p < 1e-6:
            v.append(("C08:chi-square-grossly-off", "squared Mahalanobis distances of %d draws vs chi-square(%d): KS D = %.3f, p = %.3g" % (len(d2_case), n, D, p)))
    return v


def on_crash(c, info, model):
    """Sanitizer reports for the lifetime kinds are findings (reads of never-written / destroyed storage).  A likelihood
    vector that is one value short makes GPFCorrection.cpp:129 index past its end: the Eigen assertion is the expected
    outcome (the case documents the length premise of C08_weight_formula) and is counted."""
    if c.kind == "gpf_fresh" and info["kind"] in ("ubsan", "asan"):
        return [(SIG_FRESH, "sanitizer: " + info["stderr"][-300:])]
    if c.kind == "gpf_moved" and info["kind"] in ("ubsan", "asan"):
        return [(SIG_MOVED, "sanitizer: " + info["stderr"][-300:])]
    if c.kind == "gpf_badlik" and c.has("badlik") and c.get("badlik") < 0 and info["kind"] in ("eigen-assert", "asan", "ubsan"):
        _stats["badlik_short_asserted"] += 1
        return []
    return None


def _pct(a, q):
    a = [x for x in a if math.isfinite(x)]
    return float(np.percentile(a, q)) if len(a) else 0.0


def histogram(cases):
    h = {k: {} for k in ("n", "N", "steps", "tkind", "wrap", "hkind", "likkind", "invalid_pattern_classes", "cond_decade", "time_varying_groups")}
    h["lifetime_cases"] = sum(1 for c in cases if c.kind in ("gpf_fresh", "gpf_moved"))
    h["wrong_size_likelihood_cases"] = sum(1 for c in cases if c.kind == "gpf_badlik")
    h["wrong_size_likelihood_short_asserted"] = _stats["badlik_short_asserted"]
    cases = [c for c in cases if c.kind not in ("gpf_fresh", "gpf_moved")]
    for c in cases:
        for k in ("n", "steps", "tkind", "wrap", "hkind", "likkind"):
            h[k][str(c.meta[k])] = h[k].get(str(c.meta[k]), 0) + 1
        N = int(c.meta["N"]); ncls = "1" if N == 1 else ("2-3" if N <= 3 else ("4-12" if N <= 12 else "13-30"))
        h["N"][ncls] = h["N"].get(ncls, 0) + 1
        inv = c.meta["invalid"]; icls = "all-valid" if set(inv) == {"v"} else ("some-invalid-or-skipped" if "v" in inv else "none-valid")
        h["invalid_pattern_classes"][icls] = h["invalid_pattern_classes"].get(icls, 0) + 1
        d = str(gen.decade(float(c.meta["cond"]))); h["cond_decade"][d] = h["cond_decade"].get(d, 0) + 1
        for grp in str(c.meta.get("tv", "-")).split("+"):
            grp = "constant" if grp == "-" else grp
            h["time_varying_groups"][grp] = h["time_varying_groups"].get(grp, 0) + 1
    h["deep_tail_cases"] = sum(1 for c in cases if str(c.meta.get("deep", "0")) == "1")
    h["particle_steps_with_normal_likelihood_and_transition_density_whose_product_is_below_DBL_MIN"] = len(_stats["deep"])
    h["callback_reentrancy_cases"] = {"cases": sum(1 for c in cases if str(c.meta.get("intrude", "0")) == "1"),
                                      "twin_steps_run_inside_callbacks_of_the_last_step": int(sum(_stats["intruder"].values()))}
    un = {}
    for c in cases:
        u = str(c.meta.get("units", "-")).split(":")
        key = "unit coordinates" if u[0] == "-" else "%s, %s orders" % (u[0], "0-5" if int(u[1]) <= 5 else ("6-11" if int(u[1]) <= 11 else "12-16"))
        un[key] = un.get(key, 0) + 1
    h["physical_units_per_coordinate"] = un
    dl = list(_stats["units_diag_like"].values())
    h["particle_steps_with_correlated_belief_that_is_diagonal_relative_to_its_largest_entry"] = {
        "count": len(dl), "of_which_largest_correlation_above_0.1": sum(1 for x in dl if x > 0.1)}
    h["particle_steps_in_other_units_compared"] = _stats["units_compared"]
    h["particle_steps_in_other_units_ill_conditioned_not_compared"] = _stats["units_ill_conditioned"]
    gq = _stats["growth"]
    h["partial_pivoting_growth_in_the_units_of_the_case"] = {"n": len(gq), "median": float("%.3g" % _pct(gq, 50)), "p99": float("%.3g" % _pct(gq, 99)), "max": float("%.3g" % _pct(gq, 100))}
    h["skip_flag_cases"] = sum(1 for c in cases if any(x != "0" for k in ("skpp", "skgp", "skpc", "skgc") for x in c.get(k)))
    h["singular_belief_cases"] = sum(1 for c in cases if c.meta.get("singular") in (1, "1"))
    ks = {}
    byn = {}
    for n, s in _stats["d2"].values():
        byn.setdefault(n, []).extend(s)
    for n, s in sorted(byn.items()):
        D, p = ks_test(s, n)
        ks["n=%d" % n] = {"samples": len(s), "KS_D": round(D, 5), "p_value": float("%.3g" % p), "mean_d2": round(float(np.mean(s)), 4)}
    h["chi_square_support"] = ks
    h["steps_compared_through_another_square_root_factor"] = _stats["other_factor_steps"]
    h["particles_with_a_density_in_the_underflow_range_lw_not_compared"] = _stats["underflow_particles"]
    h["singular_belief_particles_outside_domain"] = _stats["singular_belief_particles"]
    h["of_which_nan_or_inf_log_weight_with_valid_1"] = _stats["nan_weight_with_valid_on_singular"]
    # how tight the per-step comparisons are: |impl - model| in units of eps * (derived conditioning unit of the particle at the step)
    h["tolerance_units"] = {k: {"n": len(a), "median": round(_pct(a, 50), 3), "p99": round(_pct(a, 99), 3), "p99.9": round(_pct(a, 99.9), 3),
                                "max": round(_pct(a, 100), 3), "allowed": C_UNIT}
                            for k, a in _stats["ratios"].items()}
    h["worst_ratio_cases"] = {k: ["%.3g: %s" % t for t in v] for k, v in _stats.get("worst", {}).items()}
    h["particle_steps_compared"] = _stats["compared_particle_steps"]
    h["particle_steps_whose_corrected_belief_is_ill_conditioned_not_compared"] = _stats["belief_ill_conditioned"]
    h["ill_conditioned_particle_steps_not_compared"] = _stats["ill_conditioned_particle_steps"]
    a = _stats["tol_lw"]
    h["log_weight_absolute_tolerance"] = {"n": len(a), "median": float("%.3g" % _pct(a, 50)), "p90": float("%.3g" % _pct(a, 90)), "max": float("%.3g" % _pct(a, 100))}
    return h


LEVEL_TEXT = ("Proof: for the model of GPFPrediction::predictStep and GPFCorrection::correctStep (with sampleFromProposal incl. a Gallina transcription of the pivoted LDL^T "
              "factor, evaluateProposal, GaussianLikelihood with its four validity tests and the linear-Gaussian transition density) it is proved, for every arithmetic "
              "instance, dimension, particle count, wrapped Gaussian step, likelihood and transition model, sequence of draws and history, that the prediction replaces the "
              "beliefs by the wrapped step's and leaves positions and log-weights untouched, that the correction replaces the beliefs by the wrapped correction's, sets "
              "x_i = m_i + L_i z_i, evaluates the likelihood on the drawn positions, sets lw'_i = lw_i + ln(l_i+eps) + ln(t_i+eps) - ln(q_i+eps) (under the length contracts of "
              "the two models) with q_i the Gaussian density at the drawn position (product form over R with the positivity guard proved), and returns the predicted set when "
              "the likelihood is invalid; over MathComp matrices the Mahalanobis identity (x-m)^T P^-1 (x-m) = z^T z for SPD P, the contract L L^T = P of the pivoted LDL^T square root being "
              "proved too (Schur-complement induction; the executed pivot order is proved to be a permutation; any real field with 0 <= x -> sqrt x * sqrt x = x), and with C01's "
              "Kalman correction as wrapped step the beliefs are the information-form posteriors. The chi-square law of the distances is reduced to this identity plus the "
              "assumption that the draws are standard normal. Histories with operands that change from step to step: at step k every formula is in terms of the operands "
              "of step k only (C08_multi_step_time_varying, C08_no_hidden_memory). The model is tied to the code by running the extracted model (entry point with a "
              "configuration per step) and the library on the same generated histories, step by step from the implementation's reported state. "
              "SEPARATE GROUP (9 of the obligations, LIFETIME_THEOREMS): a small state machine of construction / move / draw / destruction of GPFCorrection objects (random "
              "source, validity flag, likelihood model) with invariants for all operation sequences and regression witnesses for the code before d193577 / 57c1b76; this "
              "machine is NOT extracted and is tied to the code by scripted harness scenarios only.")
LEVEL_NOTE = ("Trusted: Coq kernel, MathComp, stdlib Reals axioms (product form only), extraction + float driver (Jacobi factor for the unscented steps), list instance of the "
              "matrix interface, C05_Model as imported wrapped step, harness and tolerances; rounding is not modelled; the tie to the code is sampled (about 2000 quick / 5000 "
              "thorough histories, 55% of them with operands that change between steps on one object). The distribution clause is an identity plus an assumption on std::normal_distribution (KS tests as supporting evidence only). Singular "
              "beliefs are outside the domain (premise spd P): generated and counted. Where a density is below 1e-305 (Eigen's vectorised exp floors at 5.56e-309 instead of 0) "
              "log-weights are checked by the identity on the implementation's own values only. UKFPrediction is compared with the Kalman prediction (the state model of the "
              "check is LTI: C04); the corrections use C05's unscented models with linear and nonlinear measurement functions. The lifetime group is scenario-tested, not "
              "differentially tested.")
