"""C08 — Gaussian particle filter: beliefs and importance weights (DESIGN.md §5 C08)."""
import math
import os
import numpy as np
from vlib import caseio, gen, runner

ID = "C08"
COQ_TARGETS = ["C08_Extract.vo", "C08_Proofs.vo", "C08_Real.vo"]
COQ_PREFIXES = ["C08", "C01"]
EXTRACTED = "C08_model"
DRIVER = "drv_C08.ml"
HARNESS = "h_C08.cpp"
VARIANTS = {"quick": ["O1"], "thorough": ["O1", "asan"]}
AXIOMS_ALLOWED = runner.REAL_AXIOMS     # only the product-form theorems (over R) use them; the others are axiom-free
MODEL_NEEDS_IMPL = True                  # the standard-normal draws logged by the harness are inputs of the model
TIMEOUT = 1500
REQUIRED_THEOREMS = ["C08_predict_frame", "C08_predict_beliefs", "C08_correct_beliefs", "C08_correct_positions",
                     "C08_correct_likelihood_on_drawn", "C08_weight_formula", "C08_weight_product_form",
                     "C08_invalid_restores", "C08_mahalanobis", "C08_multi_step", "C08_kf_conjugate_beliefs", "C08_kf_mahalanobis",
                     "C08_weights_telescope", "C08_draws_from_own_generator", "C08_draw_touches_own_generator_only",
                     "C08_move_assign_transfers_likelihood_model", "C08_fresh_reports_invalid",
                     "C08_pre_fix_draws_from_own_generator_refuted", "C08_pre_fix_fresh_likelihood_invalid_refuted", "C08_pre_fix_move_assign_refuted"]
RULE = ("cases from one seeded stream: n in 1..4 (4 with the library's WhiteNoiseAcceleration as transition model), m in 1..3, "
        "N in 1..30 particles, 1..5 steps on the two persistent buffers, H random / rank-deficient / selector / zero, SPD P_i, Q, R with "
        "chosen condition numbers, transition model linear-Gaussian (same as or different from the prediction model) / WNA / Cauchy-like, "
        "wrapped steps KF / UKF (additive) / SUKF over the LTI models (the model side uses the Kalman steps: C04/C05 equivalence), "
        "steps with an unusable measurement or a likelihood model that reports invalid, outlier measurements and far-off positions (densities in the "
        "underflow range), 32-bit seeds, likelihood scale factors incl. 0; "
        "plus lifetime cases (getLikelihood() on a fresh object constructed in 0xFF-filled storage; move construction + destruction of the source; "
        "move-assignment chain a2 = move(a1); a1 = move(a3) with different seeds and likelihood models, compared with never-moved reference objects); "
        "non-trivial = N >= 2 and at least one valid correction; distinct by (n, m, N class, steps, tkind, wrap, invalid pattern, cond decade)")
TRUSTED_BASE = ["Coq 8.16.1 kernel (coqc); structural, Mahalanobis and C01-composition theorems are axiom-free; the product form of the weight update "
                "is over Coq's R and uses the four real-number axioms of the standard library (sig_forall_dec, sig_not_dec, functional_extensionality_dep, classic)",
                "MathComp 1.15 matrix theory",
                "extraction (ExtrOcamlBasic only) and ocaml/float_ops.ml, ocaml/drv_C08.ml (incl. its LDL^T square root with Eigen's pivoting rule, "
                "whose contract L L^T = P is checked on every call), ocaml/caseio.ml",
                "ListOps list instance of MatOps (structural operations and Gauss-Jordan inverse/determinant, unproved)",
                "cpp/h_C08.cpp harness (logs the draws by wrapping the protected gaussian_random_sample_, cross-checked against a mirror mt19937_64)",
                "comparison tolerances rtol 1e-9*cond (model vs implementation), 1e-7*cond (spec formulae on the implementation)",
                "correspondence is sampled: agreement is established on the generated cases only",
                "IEEE rounding is not modelled (theorems over exact fields)"]
ASSUMPTIONS = ["std::normal_distribution<double>(0,1) over std::mt19937_64 yields independent standard-normal variates: with the proved Mahalanobis identity "
               "(x-m)^T P^-1 (x-m) = z^T z this gives the chi-square(n) law of the squared Mahalanobis distances; supported (not proved) by a Kolmogorov-Smirnov test in the thorough tier",
               "Eigen LDLT of a symmetric positive definite P returns factors with (P^T L sqrt(D)) (P^T L sqrt(D))^T = P (premise msqrt_contract; checked through the Mahalanobis identity on the implementation and on the driver's own factor)",
               "the wrapped Gaussian step and the object it writes have the same number of components as its input (shape premise of the theorems; holds for KF/UKF/SUKF steps on equally shaped buffers)",
               "the likelihood model returns one value per position and the transition model one value per pair (length premises), with non-negative values (premise of the product form)",
               "Eigen inverse()/determinant() behave as matrix inverse/determinant up to rounding"]

# Lifetime kinds (Properties_C08.v, "lifetime" section): gpf_fresh (getLikelihood() before the first correction) and
# gpf_moved (move construction followed by destruction of the source; move-assignment chain with every object alive).
# Always generated, in both tiers: they pass on HEAD (fix commits d193577, 57c1b76) and catch a revert of either commit.
SIG_MOVED = "C08:moved-object-draws-from-moved-from-object"
SIG_FRESH = "C08:getLikelihood-valid-before-first-correction"
SIG_ASSIGN_GEN = "C08:move-assigned-object-draws-from-another-generator"
SIG_ASSIGN_LIK = "C08:move-assign-keeps-old-likelihood-model"
LIFETIME_COUNT = {"quick": 4, "thorough": 20}

COUNTS = {"quick": 400, "thorough": 5000}
KS_CASES = {"quick": 0, "thorough": 60}
EPS = 2.2250738585072014e-308
_stats = {"other_factor_steps": 0, "underflow_histories": 0, "d2": {}, "ks_cases": 0}


# ------------------------------------------------------------------ generation

def stable_F(rng, n):
    kind = rng.choice(["rot", "random", "identity", "wna-like"])
    if kind == "rot":
        return gen.orthogonal(rng, n) * rng.uniform(0.6, 1.05), kind
    if kind == "random":
        A = gen.matrix(rng, n, n)
        return A / max(1.0, np.max(np.abs(np.linalg.eigvals(A)))) * rng.uniform(0.5, 1.0), kind
    if kind == "identity":
        return np.eye(n), kind
    A = np.eye(n)
    for i in range(0, n - 1, 2):
        A[i, i + 1] = rng.uniform(0.1, 1.0)
    return A, kind


def wna(T, q):
    F2 = np.array([[1.0, T], [0.0, 1.0]])
    Q2 = np.array([[T ** 3 / 3.0, T ** 2 / 2.0], [T ** 2 / 2.0, T]]) * q
    Z = np.zeros((2, 2))
    return np.block([[F2, Z], [Z, F2]]), np.block([[Q2, Z], [Z, Q2]])


def make_case(rng, cid, n=None, N=None, steps=None, tkind=None, allvalid=False, kind="gpf", wrap=None):
    n = n or rng.randint(1, 4); m = rng.randint(1, 3)
    N = N or rng.choice([1, 2, 3, rng.randint(4, 12), rng.randint(13, 30)])
    steps = steps or rng.randint(1, 5)
    if tkind is None:
        tkind = rng.choice(["lingauss", "lingauss", "cauchy"] + (["wna", "wna", "wna"] if n == 4 else []))
    wrap = wrap or rng.choice(["kf"] * 7 + ["ukf"] * 2 + ["sukf"])
    meta = {"n": n, "m": m, "N": N, "steps": steps, "tkind": tkind, "wrap": wrap}
    c = caseio.Case(cid, kind, meta)
    if wrap != "kf":
        # unscented parameters with n + lambda > 0 (lambda = alpha^2 (n + kappa) - n)
        if wrap == "ukf":
            c.mat("ut", [[rng.uniform(0.6, 1.0), rng.choice([0.0, 2.0]), rng.choice([0.0, 1.0, 3.0 - n if n < 3 else 0.0])]])
        else:
            # the serial UKF takes square roots of the covariance weights: parameters with non-negative weights (C05's domain)
            c.mat("ut", [[1.0, 2.0, rng.choice([0.0, 1.0, 2.0])]])
    F, fk = stable_F(rng, n)
    Q, cq = gen.spd(rng, n, 10 ** rng.uniform(0, 2), lo=10 ** rng.uniform(-1, 0.3))
    if tkind == "wna":
        T, q = rng.uniform(0.4, 1.5), rng.uniform(0.5, 8.0)
        Ft, Qt = wna(T, q)
        c.mat("wna", [[T, q]])
        if rng.random() < 0.6:
            F, Q, fk = Ft.copy(), Qt.copy(), "wna"
    elif tkind == "cauchy":
        Ft, Qt = gen.matrix(rng, n, n, 0.7), np.eye(n)
    elif rng.random() < 0.6:
        Ft, Qt = F.copy(), Q.copy()
    else:
        Ft = stable_F(rng, n)[0]
        Qt = gen.spd(rng, n, 10 ** rng.uniform(0, 2), lo=10 ** rng.uniform(-1, 0.3))[0]
    H, hkind = gen.measurement_matrix(rng, m, n)
    R, cr = gen.spd(rng, m, 10 ** rng.uniform(0, 3), lo=10 ** rng.uniform(-1, 0.5))
    # a consistent scenario (so that likelihoods / transition densities are informative, not underflowing):
    # a true trajectory, beliefs and positions scattered around it, measurements of it
    truth = gen.matrix(rng, n, 1, 2.0)
    spread = 10 ** rng.uniform(-1.0, 0.2)
    covs, cond = [], max(cq, cr, np.linalg.cond(Qt))
    for i in range(N):
        P, cp = gen.spd(rng, n, 10 ** rng.uniform(0, 4.5), lo=spread ** 2 * 10 ** rng.uniform(-0.5, 0.5))
        covs.append(P); cond = max(cond, cp)
    means = truth + gen.matrix(rng, n, N, spread)
    states = means + gen.matrix(rng, n, N, 0.7 * spread)
    if rng.random() < 0.1:
        states = means + gen.matrix(rng, n, N, 8.0)      # a few far-off sets: densities near underflow
    w = np.array([rng.random() + 0.05 for _ in range(N)]); lw = np.log(w / w.sum())
    if rng.random() < 0.15:
        lw = lw - rng.uniform(0, 300)          # unnormalised log-weights far from 0
    ys = np.zeros((m, steps)); xt = truth
    for k in range(steps):
        xt = F @ xt
        ys[:, k:k + 1] = H @ xt + np.linalg.cholesky(R) @ gen.matrix(rng, m, 1, 1.0)
    outlier = rng.random() < 0.08
    if outlier:
        # one measurement tens of standard deviations off: likelihoods in the underflow range (ln(0 + eps) is exercised)
        u = gen.matrix(rng, m, 1, 1.0); u /= np.linalg.norm(u)
        ys[:, rng.randrange(steps)] += (np.linalg.cholesky(R) @ u)[:, 0] * rng.uniform(80, 400)
    mv = [1 if (allvalid or rng.random() < 0.9) else 0 for _ in range(steps)]
    lok = [1 if (allvalid or rng.random() < 0.9) else 0 for _ in range(steps)]
    scale = 1.0 if rng.random() < 0.5 else 10 ** rng.uniform(-3, 3)
    if rng.random() < 0.03:
        scale = 0.0                                  # every likelihood exactly 0: ln(0 + eps)
    # the covariance recursion does not depend on the data: its conditioning is known in advance
    Ps = [P.copy() for P in covs]
    for k in range(steps):
        Ps = [F @ P @ F.T + Q for P in Ps]
        cond = max(cond, max(np.linalg.cond(P) for P in Ps))
        if mv[k]:
            nxt = []
            for P in Ps:
                S = H @ P @ H.T + R
                cond = max(cond, np.linalg.cond(S))
                K = P @ H.T @ np.linalg.inv(S)
                nxt.append(P - K @ S @ K.T)
            Ps = nxt
            cond = max(cond, max(np.linalg.cond(P) for P in Ps))
    c.meta.update({"fkind": fk, "hkind": hkind, "cond": "%.3g" % cond, "invalid": "".join("v" if (a and b) else ("m" if not a else "l") for a, b in zip(mv, lok)),
                 "same_trans": int(np.array_equal(F, Ft) and np.array_equal(Q, Qt)), "outlier": int(outlier), "scale0": int(scale == 0.0)})
    c.mat("F", F).mat("Q", Q).mat("H", H).mat("R", R).mat("Ft", Ft).mat("Qt", Qt)
    c.mat("c_state", states).mat("c_mean", means).mat("c_cov", np.hstack(covs)).mat("c_lw", lw.reshape(-1, 1))
    c.mat("p_state", gen.matrix(rng, n, N, 5.0)).mat("p_mean", gen.matrix(rng, n, N, 5.0))
    c.mat("p_cov", gen.matrix(rng, n, n * N, 5.0)).mat("p_lw", gen.matrix(rng, N, 1, 5.0))
    c.mat("ys", ys).word("mv", mv).word("lok", lok).int("seed", rng.getrandbits(32)).mat("scale", [[scale]])
    return c


def generate(rng, tier):
    cases = []
    for k in range(COUNTS[tier]):
        cases.append(make_case(rng, k))
    # supporting statistics: many particles, every correction valid, one seed per case
    for k in range(KS_CASES[tier]):
        cases.append(make_case(rng, "ks%d" % k, n=1 + k % 4, N=30, steps=5, allvalid=True, kind="gpf_ks"))
    for k in range(LIFETIME_COUNT[tier]):
        cases.append(make_case(rng, "fresh%d" % k, steps=1, allvalid=True, kind="gpf_fresh", wrap="kf"))
        cases.append(make_case(rng, "moved%d" % k, steps=1, allvalid=True, kind="gpf_moved", wrap="kf"))
    return cases


def nontrivial(c):
    if c.kind in ("gpf_fresh", "gpf_moved"):
        return None
    n, m, N, steps = (int(c.meta[k]) for k in ("n", "m", "N", "steps"))
    if N >= 2 and "v" in c.meta["invalid"]:
        ncls = "2-3" if N <= 3 else ("4-12" if N <= 12 else "13-30")
        return (n, m, ncls, steps, c.meta["tkind"], c.meta["wrap"], c.meta["invalid"], gen.decade(float(c.meta["cond"])))
    return None


# ------------------------------------------------------------------ correspondence

UNDERFLOW = 1e-290


def compare(c, impl, model):
    if c.kind in ("gpf_fresh", "gpf_moved"):
        return []
    cond = float(c.meta["cond"])
    steps = int(c.meta["steps"])
    # The square-root factor is left free by the property: when the implementation's positions are not m + L z for the
    # driver's LDL^T factor, the driver maps them back (z' = L^-1 (x - m)), re-runs the step on z' and reports
    # | |z'|^2 - |z|^2 | (zz_dev): positions are then compared through the relation the property states.
    if model.get("other_factor_steps", 0) > 0:
        _stats["other_factor_steps"] += model.get("other_factor_steps")
    fields, tiny = [], []
    uf = False      # a density of this or an earlier step is in the underflow range
    for k in range(steps):
        fields += ["p%d_components" % k, "c%d_components" % k]
        fields += ["p%d_mean" % k, "p%d_cov" % k, "c%d_mean" % k, "c%d_cov" % k]
        if k == 0:
            fields += ["p0_state", "p0_lw"]
        fields += ["p%d_state" % k, "c%d_state" % k, "valid%d" % k]
        if not uf:
            fields.append("p%d_lw" % k)
        if impl.get("valid%d" % k) == 1:
            # Eigen's vectorised exp floors at exp(-709.44) = 5.56e-309 where libm's exp underflows to 0; under
            # ln(. + eps) that is a difference of 0.22 in a log-weight.  Densities below 1e-290 are compared
            # absolutely and the log-weights that depend on them are counted, not compared.
            vals = [impl.get(f % k) for f in ("lik%d", "t%d", "q%d")] + [model.get(f % k) for f in ("lik%d", "q%d")]
            if any(v is not None and v.size and float(np.min(v)) < UNDERFLOW for v in vals):
                if not uf:
                    _stats["underflow_histories"] += 1
                uf = True
                tiny += ["lik%d" % k, "q%d" % k]
            else:
                fields += ["lik%d" % k, "q%d" % k]
        if not uf:
            fields.append("c%d_lw" % k)
    d = caseio.compare_fields(impl, model, fields, atol=1e-300, rtol=1e-9, scale=cond)
    d += caseio.compare_fields(impl, model, tiny, atol=UNDERFLOW, rtol=1e-9, scale=cond)
    zz = model.get("zz_dev", 0.0)
    if zz > 1e-7 * cond or math.isnan(zz):
        d.append("positions are not m + L z for a factor with L L^T = P: relative | |L^-1 (x-m)|^2 - |z|^2 | = %.3g" % zz)
    if model.get("sqrt_resid", 0.0) > 1e-10 * cond or math.isnan(model.get("sqrt_resid", 0.0)):
        d.append("square-root oracle of the model violates its contract: |LL^T-P|/|P| = %.3g" % model.get("sqrt_resid"))
    return d


# ------------------------------------------------------------------ property oracle

def _logdens(x, mean, cov):
    d = x - mean
    n = len(d)
    return -0.5 * (n * math.log(2 * math.pi) + math.log(np.linalg.det(cov)) + float(d @ np.linalg.solve(cov, d)))


def _exp(v):
    return math.exp(v) if v > -745.2 else 0.0


def _absmax(v):
    return abs(v) if math.isfinite(v) else 1.0


def chi2_cdf(x, k):
    if x <= 0:
        return 0.0
    if k == 1:
        return math.erf(math.sqrt(x / 2))
    if k == 2:
        return 1 - math.exp(-x / 2)
    if k == 3:
        return math.erf(math.sqrt(x / 2)) - math.sqrt(2 * x / math.pi) * math.exp(-x / 2)
    if k == 4:
        return 1 - math.exp(-x / 2) * (1 + x / 2)
    from scipy import stats
    return float(stats.chi2.cdf(x, k))


def ks_test(samples, k):
    """One-sample Kolmogorov-Smirnov statistic and asymptotic p-value against chi-square(k)."""
    xs = sorted(samples); nn = len(xs)
    if nn == 0:
        return 0.0, 1.0
    D = 0.0
    for i, x in enumerate(xs):
        F = chi2_cdf(x, k)
        D = max(D, abs(F - i / nn), abs((i + 1) / nn - F))
    lam = (math.sqrt(nn) + 0.12 + 0.11 / math.sqrt(nn)) * D
    p = 2 * sum((-1) ** (j - 1) * math.exp(-2 * j * j * lam * lam) for j in range(1, 101))
    return D, min(1.0, max(0.0, p))


def _same(a, b):
    return a is not None and b is not None and a.shape == b.shape and bool(np.all((a == b) | (np.isnan(a) & np.isnan(b))))


def lifetime_oracle(c, impl):
    if c.kind == "gpf_fresh":
        if impl.get("fresh_valid") != 0:
            return [(SIG_FRESH, "getLikelihood() on a GPFCorrection that has not corrected yet reports valid = %s with %s values: valid_likelihood_ is not "
                     "initialised by the constructors (object constructed in storage pre-filled with 0xFF)" % (impl.get("fresh_valid"), impl.get("fresh_lik_size")))]
        return []
    v = []
    if not _same(impl.get("first_state"), impl.get("ref_first_state")):
        v.append(("C08:draws-not-the-seeded-stream", "first correction of the object differs from a reference object with the same seed"))
    if not _same(impl.get("assign_state"), impl.get("ref_assign_state")):
        v.append((SIG_ASSIGN_GEN, "a2 = std::move(a1); a1 = std::move(a3); (all alive) the positions then drawn by a2 differ from those of a never-moved object with a1's "
                  "seed and history (max diff %.3g): a2 does not read its own generator" % caseio.maxdiff(impl.get("assign_state"), impl.get("ref_assign_state"))))
    if impl.get("assign_valid") != impl.get("ref_assign_valid") or not _same(impl.get("assign_lik"), impl.get("ref_assign_lik")):
        if _same(impl.get("assign_state"), impl.get("ref_assign_state")):
            v.append((SIG_ASSIGN_LIK, "a2 = std::move(a1): a2 does not evaluate a1's likelihood model (max diff of the likelihood values %.3g)"
                      % caseio.maxdiff(impl.get("assign_lik"), impl.get("ref_assign_lik"))))
    if not _same(impl.get("moved_state"), impl.get("ref_state")):
        v.append((SIG_MOVED, "after GPFCorrection b(std::move(a)); a.~GPFCorrection() the positions drawn by b differ from those of a never-moved object with the same "
                  "seed and history (max diff %.3g): the moved closure gaussian_random_sample_ still reads a's generator_/distribution_" % caseio.maxdiff(impl.get("moved_state"), impl.get("ref_state"))))
    return v


def on_crash(c, info, model):
    """Sanitizer reports for the lifetime kinds are the same findings (reads of never-written / destroyed storage)."""
    if c.kind == "gpf_fresh" and info["kind"] in ("ubsan", "asan"):
        return [(SIG_FRESH, "sanitizer: " + info["stderr"][-300:])]
    if c.kind == "gpf_moved" and info["kind"] in ("ubsan", "asan"):
        return [(SIG_MOVED, "sanitizer: " + info["stderr"][-300:])]
    return None


def oracle(c, impl, model):
    if c.kind in ("gpf_fresh", "gpf_moved"):
        return lifetime_oracle(c, impl)
    v = []
    n, m, N, steps = (int(c.meta[k]) for k in ("n", "m", "N", "steps"))
    cond = float(c.meta["cond"])
    tk = c.meta["tkind"]
    H, R, Ft, Qt = c.get("H"), c.get("R"), c.get("Ft"), c.get("Qt")
    scale = float(c.get("scale")[0, 0])
    ys = c.get("ys")
    prev = {f: c.get("c_" + f) for f in ("state", "mean", "cov", "lw")}
    d2_case = []
    if impl.get("rng_mirror_ok") != 1:
        v.append(("C08:draws-not-the-seeded-stream", "the draws consumed differ from mt19937_64(seed) + normal_distribution(0,1) in order"))
    for k in range(steps):
        P_ = {f: impl.get("p%d_%s" % (k, f)) for f in ("state", "mean", "cov", "lw")}
        C_ = {f: impl.get("c%d_%s" % (k, f)) for f in ("state", "mean", "cov", "lw")}
        tag = "step %d" % k
        # ---- prediction
        if impl.get("p%d_components" % k) != N or impl.get("c%d_components" % k) != N:
            v.append(("C08:component-count", "%s: component count changed" % tag)); break
        if impl.get("prev_unchanged%d" % k) != 1:
            v.append(("C08:predict-modifies-input", "%s: the set passed to predict was modified" % tag))
        if not np.array_equal(P_["state"], prev["state"]):
            v.append(("C08:predict-moves-positions", "%s: positions changed by the prediction, max diff %.3g" % (tag, caseio.maxdiff(P_["state"], prev["state"]))))
        if not np.array_equal(P_["lw"], prev["lw"]):
            v.append(("C08:predict-changes-weights", "%s: weights changed by the prediction, max diff %.3g" % (tag, caseio.maxdiff(P_["lw"], prev["lw"]))))
        for f in ("mean", "cov"):
            sep = impl.get("sep_p%d_%s" % (k, f))
            if not caseio.close(P_[f], sep, 1e-13 * max(1.0, float(np.max(np.abs(sep)))), 0):
                v.append(("C08:predict-beliefs-not-wrapped-step", "%s: %s differs from the wrapped Gaussian prediction run separately, max diff %.3g" % (tag, f, caseio.maxdiff(P_[f], sep))))
        # ---- correction
        if impl.get("pred_unchanged%d" % k) != 1:
            v.append(("C08:correct-modifies-input", "%s: the predicted set passed to correct was modified" % tag))
        if impl.get("nz%d" % k) != n * N:
            v.append(("C08:draw-count", "%s: %s standard-normal draws consumed, expected %d" % (tag, impl.get("nz%d" % k), n * N)))
        valid = impl.get("valid%d" % k) == 1
        expect_valid = c.get("mv")[k] != "0" and c.get("lok")[k] != "0"
        if valid != expect_valid:
            v.append(("C08:likelihood-validity", "%s: valid_likelihood_ = %s but the likelihood model reported %s" % (tag, valid, expect_valid)))
        if not valid:
            for f in ("state", "mean", "cov", "lw"):
                if not np.array_equal(C_[f], P_[f]):
                    v.append(("C08:invalid-likelihood-not-restored", "%s: %s of the output differs from the predicted set, max diff %.3g" % (tag, f, caseio.maxdiff(C_[f], P_[f]))))
        else:
            for f in ("mean", "cov"):
                sep = impl.get("sep_c%d_%s" % (k, f))
                if not caseio.close(C_[f], sep, 1e-13 * max(1.0, float(np.max(np.abs(sep)))), 0):
                    v.append(("C08:correct-beliefs-not-wrapped-step", "%s: %s differs from the wrapped Gaussian correction run separately, max diff %.3g" % (tag, f, caseio.maxdiff(C_[f], sep))))
            lik, t, q, z = impl.get("lik%d" % k), impl.get("t%d" % k), impl.get("q%d" % k), impl.get("z%d" % k)
            if lik.shape[0] != N or t.shape[0] != N:
                v.append(("C08:likelihood-size", "%s: %d likelihood / %d transition values for %d particles" % (tag, lik.shape[0], t.shape[0], N))); break
            for i in range(N):
                x, mu, Pc = C_["state"][:, i], C_["mean"][:, i], C_["cov"][:, n * i:n * (i + 1)]
                xp = P_["state"][:, i]
                li, ti, qi = float(lik[i, 0]), float(t[i, 0]), float(q[i, 0])
                # weight identity from the implementation's own values
                terms = [float(P_["lw"][i, 0]), math.log(li + EPS) if li + EPS > 0 else math.nan, math.log(ti + EPS) if ti + EPS > 0 else math.nan,
                         -math.log(qi + EPS) if qi + EPS > 0 else math.nan]
                want = sum(terms)
                tolw = 1e-11 * sum(abs(a) for a in terms) + 1e-12
                got = float(C_["lw"][i, 0])
                if not (abs(got - want) <= tolw):
                    v.append(("C08:weight-identity", "%s particle %d: log-weight %.17g, expected lw + ln(l+eps) + ln(t+eps) - ln(q+eps) = %.17g (l=%.6g t=%.6g q=%.6g)" % (tag, i, got, want, li, ti, qi)))
                # Mahalanobis identity: (x-m)^T P^-1 (x-m) = |z|^2
                zz = float(z[:, i] @ z[:, i])
                Ps = (Pc + Pc.T) / 2
                d2 = float((x - mu) @ np.linalg.solve(Ps, x - mu))
                if not (abs(d2 - zz) <= 1e-7 * cond * max(1.0, zz)):
                    v.append(("C08:mahalanobis", "%s particle %d: (x-m)^T P^-1 (x-m) = %.12g but |z|^2 = %.12g" % (tag, i, d2, zz)))
                d2_case.append(d2)
                # likelihood on the drawn position, transition on (previous position, drawn position), proposal at the drawn position
                ls = (math.log(scale) if scale > 0 else -math.inf) + _logdens(ys[:, k], H @ x, R)
                if not _close_dens(li, ls, 1e-7 * cond):
                    v.append(("C08:likelihood-not-on-drawn-states", "%s particle %d: likelihood %.6g, scale*N(y; H x_i, R) at the drawn position = %.6g" % (tag, i, li, _exp(ls))))
                if tk == "cauchy":
                    dd = x - Ft @ xp
                    ts = -math.log1p(float(dd @ dd))
                else:
                    ts = _logdens(x, Ft @ xp, Qt)
                if not _close_dens(ti, ts, 1e-7 * cond):
                    v.append(("C08:transition-not-p(cur|prev):tkind=%s" % tk, "%s particle %d: transition density %.6g, expected %.6g at (previous position, drawn position)" % (tag, i, ti, _exp(ts))))
                qs = _logdens(x, mu, Ps)
                if not _close_dens(qi, qs, 1e-7 * cond):
                    v.append(("C08:proposal-density", "%s particle %d: proposal density %.6g, N(x_i; m_i, P_i) = %.6g" % (tag, i, qi, _exp(qs))))
        prev = C_
        if len(v) > 12:
            break
    # supporting statistics (never a finding unless grossly off)
    if d2_case:
        _stats["d2"][c.id] = (n, d2_case)        # keyed by case: the oracle runs once per build variant
    if c.kind == "gpf_ks" and d2_case:
        D, p = ks_test(d2_case, n)
        if p < 1e-6:
            v.append(("C08:chi-square-grossly-off", "squared Mahalanobis distances of %d draws vs chi-square(%d): KS D = %.3f, p = %.3g" % (len(d2_case), n, D, p)))
    return v


def _close_dens(val, logspec, rtol):
    """val against exp(logspec): relative in the normal range, absolute near underflow."""
    spec = _exp(logspec)
    return abs(val - spec) <= rtol * max(1.0, _absmax(logspec)) * max(val, spec) + 1e-300


def histogram(cases):
    h = {"n": {}, "N": {}, "steps": {}, "tkind": {}, "wrap": {}, "invalid_pattern_classes": {}, "cond_decade": {}}
    h["lifetime_cases"] = sum(1 for c in cases if c.kind in ("gpf_fresh", "gpf_moved"))
    cases = [c for c in cases if c.kind not in ("gpf_fresh", "gpf_moved")]
    for c in cases:
        for k in ("n", "steps", "tkind", "wrap"):
            h[k][str(c.meta[k])] = h[k].get(str(c.meta[k]), 0) + 1
        N = int(c.meta["N"]); ncls = "1" if N == 1 else ("2-3" if N <= 3 else ("4-12" if N <= 12 else "13-30"))
        h["N"][ncls] = h["N"].get(ncls, 0) + 1
        inv = c.meta["invalid"]; icls = "all-valid" if set(inv) == {"v"} else ("some-invalid" if "v" in inv else "none-valid")
        h["invalid_pattern_classes"][icls] = h["invalid_pattern_classes"].get(icls, 0) + 1
        d = str(gen.decade(float(c.meta["cond"]))); h["cond_decade"][d] = h["cond_decade"].get(d, 0) + 1
    ks = {}
    byn = {}
    for n, s in _stats["d2"].values():
        byn.setdefault(n, []).extend(s)
    for n, s in sorted(byn.items()):
        D, p = ks_test(s, n)
        ks["n=%d" % n] = {"samples": len(s), "KS_D": round(D, 5), "p_value": float("%.3g" % p), "mean_d2": round(float(np.mean(s)), 4)}
    h["chi_square_support"] = ks
    h["steps_compared_through_another_square_root_factor"] = _stats["other_factor_steps"]
    h["underflow_histories_weights_not_compared"] = _stats["underflow_histories"]
    return h


LEVEL_TEXT = ("Proof: for the model of GPFPrediction::predictStep and GPFCorrection::correctStep (with sampleFromProposal / evaluateProposal, GaussianLikelihood and the "
              "linear-Gaussian transition density) it is proved, for every arithmetic instance, dimension, particle count, wrapped Gaussian step, likelihood and transition model, "
              "sequence of draws and history, that the prediction replaces the beliefs by the wrapped step's and leaves positions and log-weights untouched, that the correction "
              "replaces the beliefs by the wrapped correction's, sets x_i = m_i + L_i z_i, evaluates the likelihood on the drawn positions, sets "
              "lw'_i = lw_i + ln(l_i+eps) + ln(t_i+eps) - ln(q_i+eps) with q_i the Gaussian density at the drawn position (product form over R with the positivity guard proved), "
              "and returns the predicted set when the likelihood is invalid; over MathComp matrices the Mahalanobis identity (x-m)^T P^-1 (x-m) = z^T z for SPD P and L L^T = P, "
              "and with C01's Kalman correction as wrapped step the beliefs are the information-form posteriors. The chi-square law of the distances is reduced to this identity "
              "plus the assumption that the draws are standard normal. The model is tied to the code by running the extracted model and the library on the same generated histories.")
LEVEL_NOTE = ("Trusted: Coq kernel, MathComp, stdlib Reals axioms (product form only), extraction + float driver incl. its LDL^T square root, list instance of the matrix interface, "
              "harness and tolerances; rounding is not modelled; the tie to the code is sampled (400 quick / 5000 thorough histories). The distribution clause is an identity plus an "
              "assumption on std::normal_distribution (KS test as supporting evidence only). The theorems hold for any wrapped step; the correspondence check drives "
              "KFPrediction/KFCorrection, UKFPrediction/UKFCorrection and UKFPrediction/SUKFCorrection over LTI models and compares them with the Kalman-step model "
              "(equal on linear-Gaussian models by C04/C05). Where a density is below 1e-290 (Eigen's vectorised exp floors at 5.56e-309 instead of 0) log-weights "
              "are checked by the identity on the implementation's own values only.")
