"""C19 — directional statistics respect the circle (DESIGN.md §5 C19)."""
import math
import numpy as np
from vlib import caseio, gen, runner

ID = "C19"
COQ_TARGETS = ["C19_Extract.vo", "C19_Proofs.vo", "C19_Regress.vo"]
EXTRACTED = "C19_model"
DRIVER = "drv_C19.ml"
HARNESS = "h_C19.cpp"
VARIANTS = {"quick": ["O1"], "thorough": ["O1", "asan"]}
AXIOMS_ALLOWED = runner.REAL_AXIOMS
REQUIRED_THEOREMS = ["C19_range", "C19_congruent", "C19_shift_invariant", "C19_boundary_convention", "C19_add_range",
                     "C19_add_congruent_to_sum", "C19_add_shift_invariant", "C19_sub_is_add_of_opposite", "C19_sub_range",
                     "C19_sub_congruent_to_difference", "C19_sub_shift_invariant", "C19_mean_is_arg_of_resultant",
                     "C19_mean_single_column", "C19_mean_shift", "C19_mean_rotation", "C19_mean_all_equal",
                     "C19_mean_all_equal_single_column", "C19_mean_in_arc", "C19_mean_rotation_matrix", "C19_mean_in_arc_matrix",
                     "C19_mean_all_equal_matrix", "C19_mean_single_column_weight_ignored_refuted"]
RULE = ("cases from one seeded stream: add/sub with shapes 1..4 x 1..9 (a quarter up to 16 x 50, some 0 x k and k x 0), angles small / up to 1e6 / sums exactly +-pi (double) / sums "
        "within 1e-12..1e-7 of +-pi, every entry of both arguments shifted by integer multiples of 2 pi (|k| up to 1e5); mean with 0..9 columns (a quarter up to 16 x 50; "
        "1 column = the wrapped column, also with weight <= 0 and angles outside (-pi, pi], where the property's literal clauses are evaluated), positive and unscented (negative central) weights, samples clustered (< half turn) / uniform / huge / "
        "all equal / exactly +-pi, resultant length >= 1e-6, 2 pi shifts and a common rotation; non-trivial = every case except "
        "1x1 small-angle add/sub; distinct by (kind, rows, cols, angle flavour, weight flavour)")
TRUSTED_BASE = ["Coq 8.16.1 kernel (coqc); the four real-number axioms of Coq's Reals (sig_forall_dec, sig_not_dec, functional_extensionality_dep, classic)",
                "Coq stdlib Reals (exp, cos, sin, atan, PI); atan2 is defined from atan by quadrant in C19_ROps.v and its polar-form contract is proved",
                "extraction (ExtrOcamlBasic only) and ocaml/float_ops.ml (libm sin/cos/exp/atan2 as the float instance), ocaml/drv_C19.ml, ocaml/caseio.ml",
                "cpp/h_C19.cpp harness; tolerances 1e-9 + 4 eps (|inputs|) (add/sub), 1e-9 + 4 eps cols cond (mean, cond = sum|w| / |resultant|; summation order only, both sides get identical inputs)",
                "correspondence is sampled: agreement is established on the generated cases only",
                "IEEE rounding is not modelled: theorems are over R; on doubles the half-turn boundary is the double nearest pi, which lies strictly inside (-pi, pi]"]
ASSUMPTIONS = ["a single column with a weight <= 0 is outside the property's quantifier (weights are positive, or unscented sets of >= 3 points): there directional_mean ignores "
               "the weight (C19_mean_single_column_weight_ignored_refuted); such inputs are generated and compared with the model only, the oracle does not judge them",
               "std::exp(std::complex) = (exp(re) cos(im), exp(re) sin(im)) and std::arg(z) = atan2(imag, real) (C++ standard; checked against libm through the model on every case)"]

COUNTS = {"quick": 600, "thorough": 40000}
PI = math.pi
TWO_PI = 2.0 * math.pi
EPS = 2.220446049250313e-16
STATS = {"near_boundary_skipped": 0, "direct_compared": 0, "empty_results": 0, "single_column_nonpositive_weight": 0}


# ------------------------------------------------------------------ helpers

def dmod(x):
    """x reduced to about [-pi, pi] by an integer number of turns (numpy arrays)."""
    x = np.asarray(x, dtype=float)
    return x - TWO_PI * np.round(x / TWO_PI)


def circ_close(a, b, tol):
    """a == b modulo 2 pi within tol (arrays)."""
    return np.abs(dmod(np.asarray(a, dtype=float) - np.asarray(b, dtype=float))) <= tol


def near_boundary(x, margin=1e-6):
    return np.abs(np.abs(np.asarray(x, dtype=float)) - PI) <= margin


def unscented_weights(n, alpha, kappa):
    lam = alpha ** 2 * (n + kappa) - n
    w = np.full(2 * n + 1, 1.0 / (2 * (n + lam)))
    w[0] = lam / (n + lam)
    return w, n + lam


def shifts(rng, shape, big):
    hi = 100000 if big else 50
    return np.array([rng.randint(-hi, hi) if rng.random() < 0.8 else 0 for _ in range(int(np.prod(shape)))], dtype=float).reshape(shape)


# ------------------------------------------------------------------ generators

def shape(rng, min_cols=0):
    """rows x cols: mostly up to 4 x 9, a quarter up to 16 x 50, a few without rows or without columns."""
    u = rng.random()
    if u < 0.04:
        return 0, rng.randint(max(1, min_cols), 9)
    if u < 0.08 and min_cols == 0:
        return rng.randint(1, 6), 0
    if u < 0.30:
        return rng.randint(1, 16), rng.randint(max(1, min_cols), 50)
    if u < 0.38:
        # particle-set sizes (the circular mean of N particles): hundreds of columns, also right at block boundaries
        # of the sizes a blocked / vectorised evaluation would use
        return rng.randint(1, 3), rng.choice([63, 64, 65, 127, 128, 129, 200, 255, 256, 257, 300, 500, 511, 513, 1000, rng.randint(100, 1200)])
    return rng.randint(1, 4), rng.randint(max(1, min_cols), 9)


def gen_addsub(rng, k, forced=None):
    kind = rng.choice(["add", "sub"])
    sgn = 1.0 if kind == "add" else -1.0
    r, c = shape(rng)
    flavour = forced or rng.choice(["small", "small", "huge", "huge", "pi_exact", "near_pi", "mixed"])
    if r * c == 0:
        flavour = "empty"
    a = np.zeros((r, c)); b = np.zeros(r)
    if flavour in ("small", "mixed"):
        a = np.array([[rng.uniform(-PI, PI) for _ in range(c)] for _ in range(r)])
        b = np.array([rng.uniform(-PI, PI) for _ in range(r)])
        if flavour == "mixed":
            for i in range(r):
                for j in range(c):
                    if rng.random() < 0.3:
                        a[i, j] = rng.uniform(-1e6, 1e6)
    elif flavour == "huge":
        a = np.array([[rng.uniform(-1e6, 1e6) for _ in range(c)] for _ in range(r)])
        b = np.array([rng.uniform(-1e6, 1e6) if rng.random() < 0.5 else rng.uniform(-10, 10) for _ in range(r)])
    elif flavour == "pi_exact":
        # a_ij (+/-) b_i is exactly the double +pi or -pi
        for i in range(r):
            b[i] = rng.choice([0.0, PI / 2, -PI / 2, PI, -PI])
            for j in range(c):
                for _ in range(8):
                    target = rng.choice([PI, -PI])
                    cand = target - sgn * b[i]
                    if cand + sgn * b[i] == target:
                        a[i, j] = cand
                        break
                else:
                    b[i] = 0.0
                    a[i, :j] = [rng.choice([PI, -PI]) for _ in range(j)]
                    a[i, j] = rng.choice([PI, -PI])
    elif flavour == "near_pi":
        for i in range(r):
            b[i] = rng.uniform(-PI, PI)
            for j in range(c):
                target = rng.choice([PI, -PI]) * (2 * rng.randint(-3, 3) + 1) + rng.choice([-1, 1]) * 10 ** rng.uniform(-12, -7)
                a[i, j] = target - sgn * b[i]
    big = rng.random() < 0.3
    ka = shifts(rng, (r, c), big); kb = shifts(rng, (r,), big)
    a2 = a + TWO_PI * ka; b2 = b + TWO_PI * kb
    cs = caseio.Case(k, kind, {"rows": r, "cols": c, "flavour": flavour, "bigshift": int(big)})
    cs.mat_shape("a", r, c, a).mat_shape("b", r, 1, b).mat_shape("a2", r, c, a2).mat_shape("b2", r, 1, b2)
    return cs


def resultant(a, w):
    return (np.cos(a) * w).sum(axis=1), (np.sin(a) * w).sum(axis=1)


def gen_mean(rng, k, forced=None):
    for _ in range(200):
        r, c0 = shape(rng)
        if r > 0 and c0 == 0 and rng.random() < 0.5:
            c0 = 1
        wkind = rng.choice(["positive", "positive", "unscented", "unscented_sym"])
        if c0 == 0 or r == 0:
            wkind = "positive"
        if wkind == "positive":
            c = c0 if rng.random() < 0.8 or c0 == 0 else 1
            w = np.array([rng.random() + 0.02 for _ in range(c)])
            if c > 0:
                w = w / w.sum() if rng.random() < 0.8 else w * rng.uniform(0.1, 5.0)
            cfac = None
            if c == 1 and rng.random() < 0.4:
                # one column: the branch that returns the wrapped column; weight <= 0 is outside the property's weight classes
                wkind = "single_nonpositive"
                w = np.array([rng.choice([0.0, -1.0, -rng.uniform(1e-3, 3.0)])])
        else:
            n = max(1, (min(c0, 49) - 1) // 2) if rng.random() < 0.5 else rng.randint(1, 4)
            c = 2 * n + 1
            alpha = rng.choice([1.0, 1.0, 0.5, 0.1, 1e-2, 1e-3]); kappa = rng.choice([0.0, 3.0 - n, 1.0])
            if n + kappa <= 0:
                kappa = 0.0
            w, cfac = unscented_weights(n, alpha, kappa)
        flavour = forced or rng.choice(["clustered", "clustered", "uniform", "huge", "all_equal", "all_equal_out", "pi_exact"])
        if wkind == "unscented_sym":
            flavour = "symmetric"
        if r * c == 0:
            flavour = "empty"
        centre = np.zeros(r); lo = np.zeros(r); hi = np.zeros(r)
        a = np.zeros((r, c))
        for i in range(r):
            if c == 0:
                break
            centre[i] = rng.uniform(-PI, PI) if rng.random() < 0.5 else rng.uniform(-1e6, 1e6)
            if flavour == "clustered":
                h = rng.uniform(1e-3, PI / 2 - 1e-3)
                off = np.array([rng.uniform(-h, h) for _ in range(c)])
                a[i] = centre[i] + off
                lo[i], hi[i] = (a[i] - centre[i]).min(), (a[i] - centre[i]).max()
            elif flavour == "uniform":
                a[i] = [rng.uniform(-PI, PI) for _ in range(c)]
            elif flavour == "huge":
                a[i] = [rng.uniform(-1e6, 1e6) for _ in range(c)]
            elif flavour == "all_equal":
                centre[i] = rng.uniform(-PI, PI); a[i] = centre[i]
            elif flavour == "all_equal_out":
                a[i] = centre[i]
            elif flavour == "pi_exact":
                centre[i] = rng.choice([PI, -PI]); a[i] = centre[i]
            elif flavour == "symmetric":
                n = (c - 1) // 2
                d = np.array([math.sqrt(cfac) * rng.uniform(0.0, 0.8) / math.sqrt(max(1.0, n / 4.0)) for _ in range(n)])
                a[i, 0] = centre[i]; a[i, 1:n + 1] = centre[i] + d; a[i, n + 1:] = centre[i] - d
        if r * c > 0:
            re, im = resultant(a, w)
            rl = np.hypot(re, im)
            if c > 1 and rl.min() <= 1e-8 * np.abs(w).sum():
                continue
            if c > 1 and rng.random() < 0.3:
                # magnitudes: the property quantifies over every weight vector whose resultant is at least 1e-6 long,
                # not only over normalised ones.  Scale the weights so that the shortest row resultant lands
                # log-uniformly in [2e-6, 1e-2] (small, e.g. unnormalised particle weights) or in [1e2, 1e8] (large)
                L = 10.0 ** (rng.uniform(math.log10(2e-6), -2.0) if rng.random() < 0.75 else rng.uniform(2.0, 8.0))
                w = w * (L / rl.min())
                wkind = wkind + "_scaled"
                re, im = resultant(a, w)
                rl = np.hypot(re, im)
            if c > 1 and rl.min() < 1e-6:
                continue
            if flavour == "symmetric":
                # wide unscented spreads can make the resultant point away from the centre (sum_j sigma_j^2 > 2):
                # the argument of the resultant is then centre + pi; record the expected value
                proj = re * np.cos(centre) + im * np.sin(centre)
                centre = np.where(proj < 0, centre + PI, centre)
            cond = float(np.abs(w).sum() / rl.min()) if c > 1 else 1.0
            if cond > 1e8:
                continue
        else:
            cond = 1.0
        big = rng.random() < 0.3
        a2 = a + TWO_PI * shifts(rng, (r, c), big)
        delta = rng.uniform(-PI, PI) if rng.random() < 0.7 else rng.uniform(-1e4, 1e4)
        a3 = a + delta
        cs = caseio.Case(k, "mean", {"rows": r, "cols": c, "flavour": flavour, "weights": wkind, "cond": "%.3g" % cond,
                                     "bigshift": int(big)})
        cs.mat_shape("a", r, c, a).mat_shape("w", c, 1, w).mat_shape("a2", r, c, a2).mat_shape("a3", r, c, a3).mat("delta", [[delta]])
        cs.mat_shape("centre", r, 1, centre).mat_shape("arc", r, 2, np.stack([lo, hi], axis=1) if r else None)
        return cs
    raise RuntimeError("could not generate a mean case with resultant >= 1e-6")


def corpus(k0):
    """Hand-picked boundary cases, always run first."""
    out = []
    def addcase(kind, a, b, fl):
        a = np.atleast_2d(np.array(a, dtype=float)); b = np.array(b, dtype=float).reshape(-1, 1)
        c = caseio.Case(k0 + len(out), kind, {"rows": a.shape[0], "cols": a.shape[1], "flavour": fl, "bigshift": 0})
        c.mat("a", a).mat("b", b).mat("a2", a + TWO_PI).mat("b2", b - TWO_PI)
        out.append(c)
    addcase("add", [[PI, -PI, PI / 2, 0.0]], [0.0], "pi_exact")
    addcase("add", [[PI / 2, -PI / 2]], [PI / 2], "small")
    addcase("add", [[PI / 2], [-PI / 2]], [PI / 2, -PI / 2], "pi_exact")
    addcase("sub", [[PI, -PI], [0.0, 0.0]], [0.0, PI], "small")
    addcase("sub", [[PI / 2], [-PI / 2]], [-PI / 2, PI / 2], "pi_exact")
    addcase("add", [[0.0, -0.0, 1e-300, -1e-300]], [0.0], "small")
    addcase("add", [[3.0, -3.0, 4.0, -4.0, 7.0, -7.0, 1e6, -1e6]], [0.5], "mixed")
    def meancase(a, w, fl, wk, centre):
        a = np.atleast_2d(np.array(a, dtype=float)); w = np.array(w, dtype=float)
        r, c = a.shape
        re, im = resultant(a, w)
        cond = float(np.abs(w).sum() / np.hypot(re, im).min()) if c > 1 else 1.0
        cs = caseio.Case(k0 + len(out), "mean", {"rows": r, "cols": c, "flavour": fl, "weights": wk, "cond": "%.3g" % cond, "bigshift": 0})
        cs.mat("a", a).mat("w", w.reshape(-1, 1)).mat("a2", a - TWO_PI * 3).mat("a3", a + 1.25).mat("delta", [[1.25]])
        cs.mat("centre", np.array(centre, dtype=float).reshape(-1, 1)).mat("arc", np.zeros((r, 2)))
        out.append(cs)
    meancase([[PI, PI, PI]], [0.2, 0.3, 0.5], "pi_exact", "positive", [PI])
    meancase([[-PI, -PI]], [0.5, 0.5], "pi_exact", "positive", [-PI])
    meancase([[7.0], [-7.0], [PI], [0.25]], [1.0], "all_equal_out", "positive", [7.0, -7.0, PI, 0.25])
    meancase([[7.0, 7.0], [-0.5, -0.5]], [0.5, 0.5], "all_equal_out", "positive", [7.0, -0.5])
    meancase([[3.0, -3.0, 3.1]], [0.3, 0.3, 0.4], "uniform", "positive", [0.0])
    meancase([[0.5], [2.0]], [-1.0], "all_equal", "single_nonpositive", [0.5, 2.0])
    meancase([[0.5], [9.0]], [0.0], "all_equal_out", "single_nonpositive", [0.5, 9.0])
    return out


def generate(rng, tier):
    for key in STATS:
        STATS[key] = 0
    cases = corpus(0)
    n = COUNTS[tier]
    while len(cases) < n:
        k = len(cases)
        cases.append(gen_addsub(rng, k) if rng.random() < 0.5 else gen_mean(rng, k))
    return cases


def nontrivial(c):
    r, cl = int(c.meta["rows"]), int(c.meta["cols"])
    if c.kind != "mean" and r == 1 and cl == 1 and c.meta["flavour"] == "small":
        return None
    return (c.kind, r, cl, c.meta["flavour"], c.meta.get("weights", "-"))


# ------------------------------------------------------------------ comparison

def tol_addsub(c, second=False):
    a, b = (c.get("a2"), c.get("b2")) if second else (c.get("a"), c.get("b"))
    return 1e-9 + 4 * EPS * (np.abs(a) + np.abs(b))       # rows x cols (b broadcast by row)


def tol_mean(c):
    """impl vs model: identical inputs, identical libm; only the summation order of the two weighted sums differs."""
    return 1e-9 + 4 * EPS * max(1, int(c.meta["cols"])) * float(c.meta["cond"])


def circ_compare(name, x, y, tol, diffs, exact_kind=False):
    """Correspondence of two angle arrays: equal as numbers away from the +-pi boundary, equal modulo 2 pi near it."""
    x, y = np.asarray(x, dtype=float), np.asarray(y, dtype=float)
    if x.shape[0] == 0 and y.shape[0] == 0:
        STATS["empty_results"] += 1     # no rows: the list-of-rows model carries no width
        return
    if x.shape != y.shape:
        diffs.append("%s: shape impl=%s model=%s" % (name, x.shape, y.shape)); return
    if x.size == 0:
        STATS["empty_results"] += 1
        return
    if not (np.all(np.isfinite(x)) and np.all(np.isfinite(y))):
        if not caseio.close(x, y, 0, 0):
            diffs.append("%s: non-finite values differ" % name)
        return
    nb = near_boundary(y) & (not exact_kind)
    STATS["near_boundary_skipped"] += int(np.sum(nb)); STATS["direct_compared"] += int(np.sum(~nb))
    bad = np.where(nb, ~circ_close(x, y, tol), np.abs(x - y) > tol)
    if np.any(bad):
        i = tuple(int(q) for q in np.argwhere(bad)[0])
        diffs.append("%s%s: impl=%r model=%r (tol %.3g)" % (name, i, float(x[i]), float(y[i]), float(np.max(tol))))


def compare(c, impl, model):
    diffs = []
    if c.kind in ("add", "sub"):
        exact = c.meta["flavour"] == "pi_exact"
        for f, second in (("res", False), ("res2", True)):
            if not impl.has(f) or not model.has(f):
                diffs.append("%s missing" % f); continue
            circ_compare(f, impl.get(f), model.get(f), tol_addsub(c, second), diffs, exact_kind=exact and not second)
    else:
        t = tol_mean(c)
        single = int(c.meta["cols"]) == 1
        for f in ("res", "res2", "res3"):
            if not impl.has(f) or not model.has(f):
                diffs.append("%s missing" % f); continue
            circ_compare(f, impl.get(f), model.get(f), t, diffs)
    return diffs


# ------------------------------------------------------------------ property oracle (on the implementation's output)

def oracle(c, impl, model):
    v = []
    if impl.has("concurrent_equal") and impl.get("concurrent_equal") != 1:
        v.append(("C19:%s:concurrent-callers-interfere" % c.kind, "a call made while other threads call the same functions on other data returned "
                  "a result that differs from the same call made alone (hidden shared state)"))
    if c.kind in ("add", "sub"):
        sgn = 1.0 if c.kind == "add" else -1.0
        a, b = c.get("a"), c.get("b")
        res = impl.get("res")
        if res is None or res.shape != a.shape:
            return [("C19:%s:shape" % c.kind, "result shape %s for input %s" % (None if res is None else res.shape, a.shape))]
        if impl.get("inputs_unchanged") != 1:
            v.append(("C19:%s:inputs-modified" % c.kind, "an argument was modified"))
        if impl.get("via_equal") != 1:
            v.append(("C19:%s:expression-arguments" % c.kind, "result differs when the arguments are passed as M.bottomRows(k) / M.col(j) / M.transpose()"))
        if res.size == 0:
            r2 = impl.get("res2")
            if r2 is None or r2.shape != a.shape:
                v.append(("C19:%s:shape" % c.kind, "second result shape for an empty input"))
            return v
        x = a + sgn * b                                  # ordinary sum / difference (b broadcast over columns)
        tol = tol_addsub(c)
        if not np.all(np.isfinite(res)):
            v.append(("C19:%s:not-finite" % c.kind, "non-finite result for finite input")); return v
        if np.any(np.abs(res) > PI):
            i = tuple(int(q) for q in np.argwhere(np.abs(res) > PI)[0])
            v.append(("C19:%s:out-of-range" % c.kind, "entry %s = %r outside (-pi, pi]" % (i, float(res[i]))))
        ok = circ_close(res, x, tol)
        if not np.all(ok):
            i = tuple(int(q) for q in np.argwhere(~ok)[0])
            v.append(("C19:%s:not-congruent" % c.kind, "entry %s: result %r is not %r modulo 2 pi" % (i, float(res[i]), float(x[i]))))
        if c.meta["flavour"] == "pi_exact":
            # the double nearest pi is strictly inside (-pi, pi]: wrap returns it unchanged, sign included
            bad = np.abs(res - x) > 1e-9
            if np.any(bad):
                i = tuple(int(q) for q in np.argwhere(bad)[0])
                v.append(("C19:%s:boundary-convention" % c.kind, "entry %s: %r for the ordinary %s %r (both are inside (-pi, pi])" % (i, float(res[i]), "sum" if sgn > 0 else "difference", float(x[i]))))
        else:
            # values already in range are returned unchanged
            inr = (np.abs(x) < PI - 1e-6)
            bad = inr & (np.abs(res - x) > tol)
            if np.any(bad):
                i = tuple(int(q) for q in np.argwhere(bad)[0])
                v.append(("C19:%s:in-range-value-changed" % c.kind, "entry %s: %r for %r" % (i, float(res[i]), float(x[i]))))
        res2 = impl.get("res2")
        if res2 is not None and c.has("a2"):
            t2 = tol + tol_addsub(c, True)
            nb = near_boundary(res)
            bad = np.where(nb, ~circ_close(res2, res, t2), np.abs(res2 - res) > t2)
            if res2.shape != res.shape or np.any(bad):
                i = tuple(int(q) for q in np.argwhere(bad)[0]) if res2.shape == res.shape else ()
                v.append(("C19:%s:shift-changes-result" % c.kind, "entry %s: %r after adding multiples of 2 pi, %r before" % (i, float(res2[i]) if i else None, float(res[i]) if i else None)))
        return v

    # ---- mean
    a, w = c.get("a"), c.get("w").ravel()
    r, cols = a.shape
    res = impl.get("res")
    if res is None or res.shape != (r, 1):
        return [("C19:mean:shape", "result shape %s for %d rows" % (None if res is None else res.shape, r))]
    res = res.ravel()
    if impl.get("via_equal") != 1:
        v.append(("C19:mean:expression-arguments", "result differs when the arguments are passed as M.bottomRows(k) / M.col(j) / M.transpose()"))
    if r == 0 or cols == 0:
        for f in ("res2", "res3"):
            x = impl.get(f)
            if x is None or x.shape != (r, 1):
                v.append(("C19:mean:shape", "%s for an empty input" % f))
        return v                     # no samples: resultant 0, outside the property's quantifier; correspondence only
    cond = float(c.meta["cond"]); amax = float(np.max(np.abs(a)))
    tol = tol_mean(c)
    tol_in = tol + 4 * EPS * cond * (amax + 1e6 * int(c.meta.get("bigshift", 0)) + 1e4)   # inputs themselves perturbed (shifts / rotation)
    if not np.all(np.isfinite(res)):
        return [("C19:mean:not-finite", "non-finite result")]
    fl = c.meta["flavour"]
    if cols == 1:
        # judged against the property modulo 2 pi: the sample itself is a valid representative
        if float(w[0]) > 0 and not np.all(circ_close(res, a[:, 0], 1e-9 + 4 * EPS * amax)):
            v.append(("C19:mean:single-column-not-the-sample", "%s for samples %s" % (res[:3], a[:3, 0])))
        # ... and against the property's literal clauses (C19_mean_single_column_literal_refuted)
        w0 = float(w[0])
        if abs(w0) >= 1e-6:           # resultant length >= 1e-6: inside the property's quantifier
            spec = np.arctan2(w0 * np.sin(a[:, 0]), w0 * np.cos(a[:, 0]))
            nb = near_boundary(spec)
            bad = np.where(nb, ~circ_close(res, spec, 1e-9), np.abs(res - spec) > 1e-9)
            if np.any(bad):
                i = int(np.flatnonzero(bad)[0])
                if w0 > 0:
                    v.append(("C19:mean:single-column:not-arg-of-resultant", "row %d: %r returned for the single sample %r; the argument of the resultant is %r" % (i, float(res[i]), float(a[i, 0]), float(spec[i]))))
                else:
                    # one column with a weight <= 0 is outside the property's quantifier (positive weights, or unscented
                    # sets of >= 3 points): the weight is ignored by design; correspondence only
                    STATS["single_column_nonpositive_weight"] += 1
            r2 = impl.get("res2")
            if w0 > 0 and r2 is not None and r2.shape == (r, 1):
                d = np.abs(r2.ravel() - res)
                moved = (d > 1e-9 + 8 * EPS * (amax + float(np.max(np.abs(c.get("a2")))))) & ~near_boundary(res)
                if np.any(moved):
                    i = int(np.flatnonzero(moved)[0])
                    v.append(("C19:mean:single-column:shift-changes-result", "row %d: %r after a 2 pi shift of the sample, %r before" % (i, float(r2.ravel()[i]), float(res[i]))))
    else:
        if np.any(np.abs(res) > PI):
            v.append(("C19:mean:out-of-range", "value outside (-pi, pi]: %s" % res[:4]))
        if model is not None and model.has("resultant"):
            R = model.get("resultant")
            spec = np.arctan2(R[:, 1], R[:, 0])
            nb = near_boundary(spec)
            bad = np.where(nb, ~circ_close(res, spec, tol), np.abs(res - spec) > tol)
            if np.any(bad):
                i = int(np.flatnonzero(bad)[0])
                v.append(("C19:mean:not-arg-of-resultant", "row %d: %r, argument of the weighted resultant %r" % (i, float(res[i]), float(spec[i]))))
    if fl in ("all_equal", "all_equal_out", "pi_exact", "symmetric") and w.sum() > 0:
        centre = c.get("centre").ravel()
        if not np.all(circ_close(res, centre, tol_in)):
            i = int(np.flatnonzero(~circ_close(res, centre, tol_in))[0])
            v.append(("C19:mean:%s" % ("all-equal" if fl != "symmetric" else "symmetric-centre"), "row %d: %r for common value / centre %r" % (i, float(res[i]), float(centre[i]))))
        if fl == "all_equal" and np.any(np.abs(res - centre) > tol_in):
            v.append(("C19:mean:all-equal-in-range", "does not return a itself for a in (-pi, pi)"))
    if fl == "clustered" and np.all(w > 0):
        centre = c.get("centre").ravel(); arc = c.get("arc")
        d = dmod(res - centre)
        t = tol_in
        bad = (d < arc[:, 0] - t) | (d > arc[:, 1] + t)
        if np.any(bad):
            i = int(np.flatnonzero(bad)[0])
            v.append(("C19:mean:outside-arc", "row %d: offset %r from the centre, samples span [%r, %r]" % (i, float(d[i]), float(arc[i, 0]), float(arc[i, 1]))))
    if cols == 1 and abs(float(w[0])) < 1e-6:
        return v                     # zero resultant: outside the property's quantifier
    res2 = impl.get("res2")
    if res2 is not None:
        res2 = res2.ravel()
        if cols == 1:
            bad = ~circ_close(res2, res, 1e-9 + 8 * EPS * (amax + float(np.max(np.abs(c.get("a2"))))))
        else:
            nb = near_boundary(res)
            bad = np.where(nb, ~circ_close(res2, res, tol_in), np.abs(res2 - res) > tol_in)
        if np.any(bad):
            i = int(np.flatnonzero(bad)[0])
            v.append(("C19:mean:shift-changes-result", "row %d: %r after 2 pi shifts of samples, %r before" % (i, float(res2[i]), float(res[i]))))
    res3 = impl.get("res3")
    if res3 is not None:
        res3 = res3.ravel(); delta = float(c.get("delta")[0, 0])
        bad = ~circ_close(res3, res + delta, tol_in + 4 * EPS * abs(delta) * max(1.0, cond))
        if np.any(bad):
            i = int(np.flatnonzero(bad)[0])
            v.append(("C19:mean:does-not-rotate", "row %d: %r after rotating all samples by %r, %r before" % (i, float(res3[i]), delta, float(res[i]))))
    return v


def histogram(cases):
    h = {"kind": {}, "flavour": {}, "weights": {}, "cols": {}}
    for c in cases:
        for key, val in (("kind", c.kind), ("flavour", c.meta["flavour"]), ("weights", c.meta.get("weights", "-")), ("cols", c.meta["cols"])):
            h[key][str(val)] = h[key].get(str(val), 0) + 1
    h.update(STATS)
    return h


LEVEL_TEXT = ("Proof: the model of directional_add/sub/mean (arg(exp(j x)) written against the scalar interface) is proved over Coq's reals, with atan2 "
              "defined from atan and its polar-form contract proved, to return values in (-pi, pi] congruent to the ordinary sum/difference, invariant "
              "under 2 pi shifts of every entry of every argument; the mean is the argument of the weighted resultant, shift invariant, rotates with a "
              "common rotation when the resultant is non-zero, returns wrap(a) for equal samples (also in the one-column branch, which returns the "
              "wrapped column), and lies in the samples' arc for positive weights and arcs shorter than a half turn. Tied to the code by running the "
              "extracted model and the library on the same generated cases.")
LEVEL_NOTE = ("Trusted: Coq kernel + the 4 real-number axioms, extraction + float driver (libm), harness and tolerances; rounding is not modelled. "
              "The one-column branch of directional_mean returns the wrapped column: for a positive weight this is exactly the argument of the resultant and it is shift invariant "
              "(C19_mean_all_equal_single_column, C19_mean_shift_single_column); the weight itself is ignored there, which matters only for weights <= 0, outside the property's quantifier "
              "(compared with the model only). The pre-fix behaviour (column returned as is) and its refutation are kept in coq/C19_Regress.v; the oracle clauses "
              "C19:mean:single-column:not-arg-of-resultant / :shift-changes-result catch its reintroduction. A matrix without rows has no width in the list-of-rows model "
              "(compared as empty). The tie to the code is sampled.")
