"""C09 — filter lifecycle under all interleavings (DESIGN.md §5 C09, §7, Appendix B.4).

Cases are schedule words for the deterministic scheduler of cpp/h_C09.cpp; the same words
are run through the extracted small-step model (coq/C09_Model.v: do_token / finish).  The
exhaustive words are produced by the extracted model itself (ocaml/drv_C09.ml gen ...): every
word over the tokens that are enabled in the model state reached."""
import os, subprocess
from vlib import build, caseio, runner

ID = "C09"
COQ_TARGETS = ["C09_Proofs.vo", "C09_Progress.vo", "C09_Regress.vo", "C09_Extract.vo"]
EXTRACTED = "C09_model"
DRIVER = "drv_C09.ml"
HARNESS = "h_C09.cpp"
VARIANTS = {"quick": ["O1"], "thorough": ["O1"]}
AXIOMS_ALLOWED = []
MODEL_NEEDS_IMPL = True      # the driver also runs the extracted trace monitors on the implementation's trace
LEVEL = "proof"
TIMEOUT = 1500
QUICK_TIMEOUT = 150
REQUIRED_THEOREMS = ["C09_bounded_exit_run_condition_false_running", "C09_bounded_exit_not_running_refuted", "C09_query_answers",
                     "C09_preboot_valuations_reachable", "C09_exit_only_by_teardown_or_condition", "C09_no_step_before_run", "C09_epochs", "C09_reset_honoured", "C09_reboot_waits_for_run",
                     "C09_teardown_one_step", "C09_exited_quiescent", "C09_bounded_exit",
                     "C09_bounded_exit_run_condition_false", "C09_step_generates_reachable",
                     "C09_schedule_words_reachable", "C09_every_word_ends_exited", "C09_monitors_hold",
                     "C09_teardown_hang_refuted", "C09_relational_semantics_agree", "C09_reboot_store_order_refuted",
                     "C09_reset_reaches_new_epoch", "C09_pending_reset_is_visible"]
RULE = ("schedule words over {T, F (thread move, run_condition true/false), Run, Reset, Reboot, Teardown, IsRunning, StepNumber, Wait}: "
        "(1) every word up to a length bound over the tokens enabled in the model state reached (disabled tokens, F outside run_condition and "
        "queries dropped: is_running()/step_number() are observed after every token anyway); (2) every word Run.w with w up to a longer bound "
        "containing at most 2-3 commands and 1-2 false run_condition answers (= all placements of up to k commands at every schedule point of "
        "two epochs); (3) seeded random words of length <= 30 over the full alphabet (including disabled tokens); (4) free-running stress "
        "(no scheduler, random pauses): each logged trace must be EXPLAINED by a schedule of the model (search over the extracted step function with the "
        "logged order of commands, query answers and thread events as constraint; the schedule found is replayed through run_moves) and pass the monitors; "
        "(5) every sequence of up to 2-3 commands issued BEFORE boot() followed by every short word. Each word ends with teardown + wait (2 s time-out). "
        "non-trivial = the word contains Reset, Reboot or Teardown; distinct by the word")
TRUSTED_BASE = ["Coq 8.16.1 kernel (coqc); no axioms (Print Assumptions: closed under the global context)",
                "extraction (ExtrOcamlBasic only), ocaml/drv_C09.ml, ocaml/caseio.ml",
                "the atomicity granularity of the model: one thread move = one shared access of filtering_recursion(); run()/teardown() = one store + notify "
                "under mtx_run_; reboot() = two stores under mtx_run_ (two moves, the thread may run in between except for taking the mutex); "
                "reset()/is_running()/step_number() = one atomic access (std::atomic members, sequentially consistent)",
                "std::thread / std::mutex / std::condition_variable semantics as modelled: a thread blocked in wait moves only after a notify "
                "(or a spurious wake-up, which the model also allows) and re-evaluates the predicate under the mutex; join returns once the thread function returned",
                "cpp/h_C09.cpp scheduler (hand-over at the BFL_VERIF schedule points 1-6 and the probe's virtual callbacks 7-9) and its free-running stress mode",
                "the textual shape check of run()/reboot()/teardown()/reset() in props/C09.py (which stores, their order, lock, notify): the inside of these calls "
                "cannot be scheduled by the harness",
                "correspondence is sampled: agreement is established on the generated schedules only; the harness can interleave commands only at the "
                "nine schedule points (the model's finer interleavings between the individual flag reads are covered by the theorems, not by the runs)"]
ASSUMPTIONS = ["lk.unlock() of an owned mutex does not throw (the catch branch that sets teardown_ is not modelled)",
               "initialization_step()/filtering_step()/run_condition() of the concrete filter return (a step that never returns is outside the property)",
               "the value returned by initialization_step() is ignored by filtering_recursion(), as in the code",
               "boot() is called once and before the commands (the initial configuration is the one right after boot())"]
LEVEL_TEXT = ("Proof: small-step model of FilteringAlgorithm (22 thread program points, 7 controller actions with reboot() split at its two stores, "
              "run_condition as an oracle, spurious wake-ups allowed), given both as an executable step function and as a rule-per-action relation proved "
              "equivalent. For every reachable configuration over all interleavings and command sequences: no step before run, epoch grammar with step "
              "numbers from 0, reset/reboot followed by at most one step before the next initialisation/exit, at most one initialisation-or-step after reboot "
              "until run, at most one after teardown, the thread ends only through teardown or a false run_condition, quiescence after its final store; "
              "bounded exit (<= 15 own moves after teardown, <= 10 once run_condition stays false, at most one of them a step, thread never disabled); "
              "also <= 13 from any point while run_ is up and no reboot follows, with the complementary refutation for run_ down; "
              "progress (from every point of the loop a pending reset/reboot leads to a new initialisation, resp. to waiting for run, within 17 own moves); "
              "answers of step_number()/is_running() constrained by the history; pre-boot flag valuations reachable. The executable step function is "
              "the one extracted and run against the library; the extracted trace monitors are also evaluated on the library's own traces.")
LEVEL_NOTE = ("What the model cannot exhibit: pre-emption inside libstdc++ (inside mutex/condition_variable/thread operations) and inside the atomic "
              "accesses; real time - 'wait returns in bounded time' is proved as 'the thread reaches its end within a bounded number of its own moves and "
              "is never disabled', the check enforces a 2 s time-out on the real wait(); a woken thread cannot be held back by the harness, so the "
              "interleaving 'notify, further commands, then wake-up' and the interleavings inside reboot() are covered by the theorems only (the source "
              "shape check guards the transcription of those calls); EExit is the thread's final store run_ = false (a run() between that store and the "
              "return of the thread function counts as 'after the thread had ended'). An initialisation that the thread was already committed to (it had "
              "passed the wait) can still happen after reboot()/teardown(): the theorems bound it (at most one initialisation-or-step), they do not forbid it. "
              "Clause (b) of bounded exit needs the thread to be past the wait: a thread still blocked waiting for run ends only through teardown. "
              "The scheduler parks the thread only at points 1-9, so within one loop condition all flag reads see the same state in every word: the windows between "
              "the individual reads are reached by the free-running stress mode only, whose traces are matched against the model by schedule search (not compared "
              "with a predicted trace). A time-out (2 s) is retried once on a fresh object with 10 s before it is reported; retries are counted in the evidence. "
              "The pre-fix teardown (plain store, no notify) is kept in coq/C09_Regress.v with the proof that it hangs (C09_teardown_hang_refuted).")

# prefixes: P2 = a reset requested inside step 1, thread back at the loop top (second epoch about to start, counter = 2);
#           P3 = inner loop left on a false run_condition, outer condition true: new epoch without reset
P2 = "Run T T T T T T T Reset T T T T".split()
P3 = "Run T T T T T T F T T".split()
ENUM = {"quick": [("e", 6, 6, 6, []), ("p", 12, 2, 1, ["Run"]), ("s", 9, 2, 1, P2), ("t", 8, 2, 1, P3)],
        "thorough": [("e", 8, 8, 8, []), ("p", 18, 2, 2, ["Run"]), ("q", 11, 3, 1, ["Run"]), ("s", 9, 3, 1, P2), ("t", 9, 3, 1, P3)]}
# commands before boot(): every sequence of up to 2 (quick) / 3 (thorough) commands, each followed by every word of a short length
PREBOOT = {"quick": (2, 5, 1), "thorough": (3, 6, 2)}   # (prefix length, word length, commands in the word)
PRE_CMDS = ["Run", "Reset", "Reboot", "Teardown"]
RANDOM = {"quick": 600, "thorough": 4000}
STRESS = {"quick": 40, "thorough": 1500}
ALPHABET = [("T", 50), ("F", 5), ("Run", 10), ("Reset", 8), ("Reboot", 6), ("Teardown", 2), ("IsRunning", 7), ("StepNumber", 7), ("Wait", 5)]

STATS = {}


def _driver():
    return build.build_driver(ID, EXTRACTED, DRIVER)


def generate(rng, tier):
    drv = _driver()
    cases = []
    STATS.clear()
    for tag, maxlen, maxcmds, maxf, prefix in ENUM[tier]:
        out = subprocess.run([drv, "gen", tag, str(maxlen), str(maxcmds), str(maxf)] + prefix, capture_output=True, text=True, timeout=600).stdout
        head = out.splitlines()[0] if out else ""
        if head.startswith("# stats"):
            kv = dict(x.split("=") for x in head.split()[2:])
            STATS["enum_%s" % tag] = {"maxlen": maxlen, "max_commands": maxcmds, "max_false_answers": maxf, "prefix": " ".join(prefix),
                                      "words": int(kv["words"]), "states": int(kv["states"]), "transitions": int(kv["transitions"])}
        for rid, rec in caseio.parse_records(out, "case").items():
            c = caseio.Case(rid, "word", rec.meta)
            c.word("w", rec.get("w") or [])
            cases.append(c)
    import itertools
    plen, wlen, wcmds = PREBOOT[tier]
    nb = 0
    for L in range(1, plen + 1):
        for pre in itertools.product(PRE_CMDS, repeat=L):
            out = subprocess.run([drv, "gen", "b%d_" % nb, str(wlen), str(wcmds), "1"] + list(pre), capture_output=True, text=True, timeout=600).stdout
            nb += 1
            for rid, rec in caseio.parse_records(out, "case").items():
                w = rec.get("w") or []
                meta = dict(rec.meta); meta["src"] = "preboot"
                c = caseio.Case(rid, "word", meta)
                c.word("pre", w[:L]); c.word("w", w[L:])
                cases.append(c)
    STATS["preboot"] = {"prefixes": nb, "max_prefix": plen, "maxlen": wlen, "words": sum(1 for c in cases if c.meta.get("src") == "preboot"),
                        "states": 0, "transitions": 0}
    toks = [t for t, _ in ALPHABET]
    wts = [w for _, w in ALPHABET]
    for k in range(RANDOM[tier]):
        n = rng.randint(1, 30)
        # bias: most words request run early, otherwise the thread only sleeps
        w = rng.choices(toks, wts, k=n)
        if rng.random() < 0.7:
            w.insert(rng.randint(0, min(3, len(w))), "Run")
        c = caseio.Case("r%d" % k, "word", {"len": len(w), "src": "random"})
        if rng.random() < 0.25:
            c.word("pre", rng.choices(PRE_CMDS + ["IsRunning", "StepNumber", "Wait"], k=rng.randint(1, 3)))
        c.word("w", w)
        cases.append(c)
    for k in range(STRESS[tier]):
        meta = {"src": "stress", "seed": rng.randint(1, 2 ** 31), "n": rng.choice([10, 30, 60, 120]),
                "pause_us": rng.choice([0, 20, 100, 300]), "pfalse": rng.choice([0, 0, 5, 50, 300]),
                "step_us": rng.choice([5, 20, 50])}
        cases.append(caseio.Case("z%d" % k, "stress", meta))
    return cases


def nontrivial(c):
    if c.kind != "word":
        return ("stress", c.meta.get("seed"))
    w = (c.get("pre") if c.has("pre") else []) + ["|boot|"] + (c.get("w") if c.has("w") else [])
    if any(t in ("Reset", "Reboot", "Teardown") for t in w):
        return " ".join(w)
    return None


FIELDS = ["obs", "end_loc", "trace", "exited", "final_running", "final_step"]


def compare(c, impl, model):
    if impl.get("retried") == 1:
        COUNTS["retried"] += 1
    if c.kind == "stress" and model is not None and model.has("explained"):
        COUNTS["stress_total"] += 1
        COUNTS["stress_explained"] += 1 if model.get("explained") == 1 else 0
    if impl.get("skipped") == 1 or c.kind != "word":
        return []
    return caseio.compare_fields(impl, model, FIELDS, atol=0, rtol=0)


def _last_loc(impl):
    e = impl.get("end_loc")
    if e:
        return e[0]
    obs = impl.get("obs") or []
    return obs[-1].split(":")[0] if obs else "free-running"


LOCNAME = {"1": "loop-top", "2": "before-wait(mutex-held)", "S": "blocked-waiting-for-run", "3": "before-initialisation", "7": "inside-initialisation",
           "9": "evaluating-run-condition", "8": "inside-step", "4": "after-stepping-loop", "5": "before-final-store", "6": "after-final-store",
           "X": "thread-ended", "stuck": "thread-did-not-arrive"}


def oracle(c, impl, model):
    """Property clauses on the implementation's own outputs: wait() returns after teardown; the thread arrives where the wait
    predicate says it must; the extracted trace monitors (C09_monitors_hold) accept the implementation's trace."""
    v = []
    if impl.get("skipped") == 1:
        return v
    loc = LOCNAME.get(_last_loc(impl), _last_loc(impl))
    if impl.get("stuck") == 1:
        v.append(("C09:thread-not-woken:%s" % loc, "the wait predicate holds but the filtering thread did not leave cv_run_.wait within 2 s (nor within 10 s in a second run of the word); word: %s"
                  % " ".join(c.get("w") if c.has("w") else [])))
    if impl.get("exited") != 1:
        v.append(("C09:wait-did-not-return-after-teardown:%s" % loc, "teardown() was requested with the thread at '%s' and wait() did not return within 2 s (nor within 10 s in a second run)" % loc))
    tr = impl.get("trace") or []
    if impl.get("exited") == 1 and impl.get("final_running") == 1 and "exit" in tr and c.kind == "word":
        after = tr[len(tr) - 1 - tr[::-1].index("exit"):]
        if "run" not in after:
            v.append(("C09:running-after-exit-without-run", "the thread has ended, run was not requested afterwards, and is_running() reports true; trace: %s" % " ".join(tr[:80])))
    if c.kind == "stress" and model is not None and model.has("explained"):
        if model.get("explained") != 1:
            at = model.get("unexplained_at") or ["?", "?"]
            v.append(("C09:stress-trace-not-a-model-trace:%s" % at[1].rstrip("0123456789"),
                      "no schedule of the model produces the implementation's free-running trace; longest explained prefix %s events, next event %s; trace: %s"
                      % (at[0], at[1], " ".join(tr[:120]))))
        elif model.get("certified") != 1:
            v.append(("C09:stress-schedule-not-certified", "the schedule found for the trace does not replay through run_moves to the same trace"))
    if model is not None and model.has("impl_good") and model.get("impl_good") != 1:
        bad = model.get("impl_bad") or ["?"]
        v.append(("C09:trace:%s" % bad[0], "the implementation's event trace violates the lifecycle monitor: %s; trace: %s"
                  % (" ".join(bad), " ".join((impl.get("trace") or [])[:80]))))
    return v


def histogram(cases):
    h = {"source": {}, "length": {}}
    for c in cases:
        s = c.meta.get("src", "?")
        h["source"][s] = h["source"].get(s, 0) + 1
        if c.kind == "word":
            n = (len(c.get("w")) if c.has("w") else 0) + (len(c.get("pre")) if c.has("pre") else 0)
            k = "%d-%d" % (n // 5 * 5, n // 5 * 5 + 4)
            h["length"][k] = h["length"].get(k, 0) + 1
    return h


# ---- transcription check of the controller methods -------------------------------------------------
# The scheduler can place commands only between whole calls of run()/reboot()/teardown()/reset(); what
# the model assumes about the INSIDE of these calls (which stores, in which order, under the mutex,
# followed by a notify) is compared with the source text.  Fails closed: an unknown statement is a difference.
EXPECTED_SHAPE = {
    "run": [["lock", "run_=true", "notify"]],
    "reboot": [["lock", "reset_=true", "run_=false", "notify"], ["lock", "reset_=true", "run_=false"]],
    "teardown": [["lock", "teardown_=true", "notify", "return true"]],
    "reset": [["reset_=true"]],
}


def method_shape(src, name):
    import re
    m = re.search(r"FilteringAlgorithm::%s\s*\(\s*\)\s*\{(.*?)\n\}" % name, src, re.S)
    if not m:
        return None
    body = re.sub(r"//[^\n]*|/\*.*?\*/", "", m.group(1), flags=re.S)
    out = []
    # equivalent spellings accepted: lock_guard / unique_lock on mtx_run_; notify_one / notify_all;
    # x = v, x.store(v), x.store(v, std::memory_order_seq_cst), x.exchange(v) (result unused), optional (void) cast.
    # Anything else (another memory order, another statement) is kept verbatim and therefore differs: fails closed.
    store = r"(?:\(void\) ?)?(\w+_)(?: ?= ?|\.store\(|\.exchange\()(true|false)(?:, ?std::memory_order_seq_cst)?\)?"
    for st in [x.strip() for x in body.split(";")]:
        if not st:
            continue
        st = re.sub(r"\s+", " ", st)
        if re.fullmatch(r"(const )?std::(lock_guard|unique_lock) ?<std::mutex> \w+ ?[\(\{]mtx_run_[\)\}]", st):
            out.append("lock")
        elif re.fullmatch(r"cv_run_\.notify_(one|all)\(\)", st):
            out.append("notify")
        elif re.fullmatch(store, st) and (("=" in st and "(" not in st.replace("(void)", "")) or st.endswith(")")):
            g = re.fullmatch(store, st); out.append("%s=%s" % (g.group(1), g.group(2)))
        else:
            out.append(st)
    return out


def transcription_problems():
    try:
        src = open(os.path.join(build.SRC, "src", "FilteringAlgorithm.cpp")).read()
    except OSError as e:
        return ["cannot read FilteringAlgorithm.cpp: %s" % e]
    probs = []
    for name, allowed in EXPECTED_SHAPE.items():
        sh = method_shape(src, name)
        if sh not in allowed:
            probs.append("FilteringAlgorithm::%s() is %s in the source but the model (coq/C09_Model.v cstep/reboot_end/teardown_now) transcribes %s"
                         % (name, sh, allowed[0]))
    return probs


COUNTS = {"retried": 0, "stress_explained": 0, "stress_total": 0}


def main(ctx, a):
    """Standard flow (runner.main) plus the enumeration counts as evidence keys."""
    COUNTS.update({"retried": 0, "stress_explained": 0, "stress_total": 0})
    if not a.skip_proofs:
        runner.prove(ctx)
    for pr in transcription_problems():
        ctx.proof_problems.append("transcription: " + pr)
    if a.replay:
        cases = caseio.read_cases(a.replay)
        ctx.log("replaying %d case(s) from %s" % (len(cases), a.replay))
    else:
        try:
            cases = generate(ctx.rng, a.tier)
        except (build.BuildError, OSError, subprocess.SubprocessError) as e:
            ctx.proof_problems.append("extracted model does not build / enumerate: %s" % (getattr(e, "log", str(e))[-600:]))
            cases = []
    if cases:
        runner.standard_cases(ctx, cases)
    ctx.extra["histogram"] = histogram(cases)
    ctx.extra["enumerations"] = dict(STATS)
    ctx.extra["states"] = max([s["states"] for s in STATS.values()] or [0])
    ctx.extra["transitions"] = max([s["transitions"] for s in STATS.values()] or [0])
    ctx.extra["exhaustive_words"] = sum(s["words"] for s in STATS.values())
    ctx.extra["level_note"] = LEVEL_NOTE
    ctx.extra["timeout_retries"] = COUNTS["retried"]
    ctx.extra["stress_traces_explained_by_model_schedule"] = "%d/%d" % (COUNTS["stress_explained"], COUNTS["stress_total"])
    return runner.finish(ctx)
